#!/bin/bash
# usage: validate_seed.sh <seed dir containing patch.diff demo_test.go meta.json>
# Confirms in a scratch copy: patch applies, builds, suite passes with it, demo fails with it, demo passes without it.
set -u
S="$1"
T="$(mktemp -d /tmp/seedval.XXXXXX)"
trap 'rm -rf "$T"' EXIT
rsync -a --exclude .git /repo/ "$T/clean/"
rsync -a --exclude .git /repo/ "$T/mut/"
PKG=$(python3 -c "import json,sys; m=json.load(open('$S/meta.json')); print(m.get('demo_pkg_dir','.'))")
RACE=$(python3 -c "import json,sys; m=json.load(open('$S/meta.json')); print('-race' if '-race' in m.get('demo_run','') else '')")
( cd "$T/mut" && git init -q . && git apply "$S/patch.diff" ) || { echo "RESULT $S apply=FAIL"; exit 1; }
cp "$S/demo_test.go" "$T/clean/$PKG/zz_seed_demo_test.go"
A=$(/verif/scripts/repotest.sh "$T/mut" 2>&1 | grep -c "^ok")
cp "$S/demo_test.go" "$T/mut/$PKG/zz_seed_demo_test.go"
/verif/scripts/repotest.sh "$T/mut" $RACE -run 'TestSeedDemo' "./$PKG" > "$T/mut.log" 2>&1; M=$?
/verif/scripts/repotest.sh "$T/clean" $RACE -run 'TestSeedDemo' "./$PKG" > "$T/clean.log" 2>&1; C=$?
echo "RESULT $S suite_ok_pkgs=$A demo_with_change_exit=$M demo_clean_exit=$C"
if [ "$A" = 4 ] && [ $M -ne 0 ] && [ $C -eq 0 ]; then exit 0; fi
tail -5 "$T/mut.log" "$T/clean.log"
exit 1
