#!/bin/bash
# usage: prop_seeds.sh <Cnn> [extra checks...] : every seed of that property (all rounds) against its own check (+extras)
P="$1"; shift
ls -d /verif/seeded/$P-* | xargs -P 8 -I{} /verif/scripts/prop_one.sh {} $P "$@" | sort
