#!/bin/bash
# usage: revert_tree.sh <commit> : prints a scratch dir T with T/repo = /repo with the fix reverted and T/verif (caller removes it)
T="$(mktemp -d /tmp/revfix.XXXXXX)"; mkdir -p "$T/repo" "$T/verif"; rsync -a --exclude .git /repo/ "$T/repo/"
git -C /repo show "$1" | sed -n '/^diff --git/,$p' > "$T/f.diff"
( cd "$T/repo" && git init -q . && git apply -R "$T/f.diff" ) || { echo "REVERT FAILED"; exit 3; }
cp /verif/known_findings.json /verif/properties.jsonl "$T/verif/"
echo $T
