#!/bin/bash
# usage: ssadump.sh <pkgdir relative to /repo, e.g. . or ./fclient> <funcname regex>
T=$(mktemp -d); cp /repo/go.mod /repo/go.sum $T/
cd /repo && GOFLAGS="-mod=mod -modfile=$T/go.mod" GOPROXY=off GOSUMDB=off GOTOOLCHAIN=local ssadump -build=F "$1" 2>/dev/null | awk -v re="^func $2[(\\\$]" '$0 ~ re {p=1} p {print} /^$/ {p=0}'
rm -rf $T
