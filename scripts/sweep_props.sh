#!/bin/bash
# usage: sweep_props.sh <jobs> <Cnn>...  : prop_one.sh over every seed for the given checks only (sorted output).
# Used after rules of a few checks changed: the lines replace those checks' entries of a full sweep (merge_sweep.py).
J="$1"; shift
ls -d /verif/seeded/C*/ | sed 's#/$##' | xargs -P "$J" -I{} /verif/scripts/prop_one.sh {} "$@" | sort
