#!/bin/bash
# usage: sweep_par.sh [glob] [jobs]  : sweep_one.sh over /verif/seeded/<glob> in parallel, sorted output
G="${1:-*}"; J="${2:-6}"
ls -d /verif/seeded/$G | xargs -P $J -n 1 /verif/scripts/sweep_one.sh | sort
