#!/bin/bash
# Runs every seeded mutation under /verif/seeded against the check of the property it breaks
# (and optionally all checks) and prints a table: seed, property, caught?, first violation line.
ALL="${1:-}"
for d in /verif/seeded/*/; do
  s=$(basename $d); p=${s%%-*}
  props="$p"; [ -n "$ALL" ] && props="C01 C02 C03 C04 C05 C06 C07 C08 C09 C10 C11 C12 C13 C14 C15 C16 C17 C18 C19 C20"
  out=$(/verif/scripts/tryseed.sh $d/patch.diff $props 2>&1)
  caught=$(echo "$out" | grep -c "^--- .* exit=1")
  first=$(echo "$out" | grep -m1 "^VIOLATION C\|^UNDECIDED" | cut -c1-160)
  which=$(echo "$out" | grep "^--- .* exit=1" | awk '{print $2}' | tr '\n' ' ')
  echo "$s caught_by=[$which] $first"
done
