#!/bin/bash
# usage: revert_fix_check.sh <commit> <Cnn>...  : reverts one fix: commit on a scratch copy and runs the checks (they must fire).
set -u
C="$1"; shift
T="$(mktemp -d /tmp/revfix.XXXXXX)"
trap 'rm -rf "$T"' EXIT
git -C /repo show "$C" -- . ':!*_test.go' > "$T/fix.diff"
/verif/scripts/tryseed.sh <(git -C /repo show "$C" | sed -n '/^diff --git/,$p' > "$T/f.diff"; cd /tmp; python3 - "$T/f.diff" "$T/rev.diff" <<'PY'
import sys,subprocess
# produce the reverse patch with git apply -R semantics by swapping via `interdiff`-less approach: use git to reverse
PY
cat /dev/null) "$@" >/dev/null 2>&1
# simpler: build the scratch copy here
mkdir -p "$T/repo" "$T/verif"; rsync -a --exclude .git /repo/ "$T/repo/"
( cd "$T/repo" && git init -q . && git apply -R "$T/f.diff" ) || { echo "REVERT FAILED $C"; exit 3; }
cp /verif/known_findings.json /verif/properties.jsonl "$T/verif/"
for id in "$@"; do
  out="$(/verif/bin/gmslverif check "$id" --repo "$T/repo" --verif "$T/verif" 2>&1)"; r=$?
  echo "$C reverted: $id exit=$r $(echo "$out" | grep -m1 '^VIOLATION C\|^UNDECIDED' | cut -c1-200)"
done
