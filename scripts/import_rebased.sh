#!/bin/bash
# usage: import_rebased.sh <name> : validates /tmp/rebase/<name>/patch.diff on scratch copies of /repo and installs it as /verif/seeded/<name>/patch.diff
set -u
N="$1"; S=/tmp/rebase/$N; D=/verif/seeded/$N
[ -f $S/DROPPED.txt ] && { echo "$N DROPPED"; exit 0; }
[ -f $S/patch.diff ] || { echo "$N NO PATCH"; exit 0; }
T="$(mktemp -d /tmp/imp.XXXXXX)"
rsync -a --exclude .git /repo/ "$T/mut/"
( cd "$T/mut" && git init -q . && git apply "$S/patch.diff" ) || { echo "$N APPLY FAIL"; rm -rf $T; exit 0; }
A=$(/verif/scripts/repotest.sh "$T/mut" 2>&1 | grep -c "^ok")
res="suite_ok_pkgs=$A"; okall=0; [ "$A" = 4 ] && okall=1
KIND=$(jq -r .kind $S/meta.json 2>/dev/null)
DEMO=""; [ -f $S/demo_test.go.txt ] && DEMO=$S/demo_test.go.txt
if [ "$KIND" = bug ] && [ -n "$DEMO" ]; then
  rsync -a --exclude .git /repo/ "$T/clean/"
  PKG=$(head -3 $DEMO | grep -o -E '(fclient|spec|tokens)' | head -1); [ -z "$PKG" ] && PKG=$(jq -r '.demo_pkg_dir // "."' $S/meta.json); PKG=${PKG:-.}
  cp $DEMO "$T/mut/$PKG/zz_demo_test.go"; cp $DEMO "$T/clean/$PKG/zz_demo_test.go"
  RACE=""; grep -qi "race" $S/meta.json && RACE="-race"
  /verif/scripts/repotest.sh "$T/mut" $RACE "./$PKG" > "$T/mut.log" 2>&1; M=$?
  /verif/scripts/repotest.sh "$T/clean" $RACE "./$PKG" > "$T/clean.log" 2>&1; C=$?
  res="$res demo_pkg=$PKG with_change_exit=$M clean_exit=$C"
  { [ $M -ne 0 ] && [ $C -eq 0 ]; } || { okall=0; tail -3 "$T/mut.log" "$T/clean.log"; }
fi
echo "$N $KIND $res valid=$okall"
if [ $okall = 1 ]; then
  mkdir -p $D; cp $S/patch.diff $D/patch.diff
  [ -n "$DEMO" ] && cp $DEMO $D/demo_test.go
  [ -f $D/meta.json ] || cp $S/meta.json $D/meta.json
fi
rm -rf $T
