#!/bin/bash
# usage: tryseed.sh <patch.diff> <Cnn> [<Cnn>...]
# Applies the patch to a scratch copy of /repo (outside /repo and /verif), runs the given
# checks against it with a scratch verif dir, prints the verdict lines, removes the copy.
set -u
PATCH="$(readlink -f "$1")"; shift
T="$(mktemp -d /tmp/seedtry.XXXXXX)"
trap 'rm -rf "$T"' EXIT
mkdir -p "$T/repo" "$T/verif"
rsync -a --exclude .git /repo/ "$T/repo/"
( cd "$T/repo" && git init -q . 2>/dev/null; git -C "$T/repo" apply "$PATCH" ) || { echo "PATCH DOES NOT APPLY: $PATCH"; exit 3; }
cp /verif/known_findings.json "$T/verif/" 2>/dev/null
cp /verif/properties.jsonl "$T/verif/"
rc=0
for id in "$@"; do
  out="$(/verif/bin/gmslverif check "$id" --repo "$T/repo" --verif "$T/verif" 2>&1)"; r=$?
  echo "--- $id exit=$r"; echo "$out" | grep -v "^KNOWN-FINDING" | sed "s#$T/##g" | cut -c1-700 | tail -8
  [ $r -ne 0 ] && rc=1
done
exit $rc
