#!/bin/bash
# usage: sweep_one.sh <seed dir>  : one line "seed own=<0|1> caught_by=[...] first violation"
d="$1"; s=$(basename $d); p=${s%%-*}
T="$(mktemp -d /tmp/seedtry.XXXXXX)"; mkdir -p $T/repo $T/verif
rsync -a --exclude .git /repo/ $T/repo/
( cd $T/repo && git init -q . 2>/dev/null; git -C $T/repo apply $d/patch.diff ) 2>/dev/null || { echo "$s PATCH DOES NOT APPLY"; rm -rf $T; exit 0; }
cp /verif/known_findings.json /verif/properties.jsonl $T/verif/
out=$(${GMSL_BIN:-/verif/bin/gmslverif.sweep} check all --repo $T/repo --verif $T/verif 2>&1)
which=$(echo "$out" | grep "^--- .* exit=1" | awk '{print $2}' | tr '\n' ' ')
own=0; echo "$which" | grep -q "$p" && own=1
first=$(echo "$out" | grep -m1 "^VIOLATION C\|^UNDECIDED" | sed "s#$T/##g" | cut -c1-300)
nd=$(echo "$out" | grep -c "^NOT-DECIDED")
echo "$s own=$own caught_by=[$which] notdecided=$nd $first"
rm -rf $T
