#!/usr/bin/env python3
# Generates /verif/MANIFEST.json from the table below (kept in one place so that it stays valid).
import json, subprocess, sys
ALL = ["C%02d" % i for i in range(1, 21)]
# id -> (technique, level text, level_note (what is NOT decided / trusted base))
CLAIMS = json.load(open('/verif/scripts/claims.json'))
checks = []
na = []
for pid in ALL:
    if pid in CLAIMS and CLAIMS[pid].get("claimed", True):
        c = CLAIMS[pid]
        checks.append({
            "property_id": pid,
            "quick_cmd": "bin/gmslverif check %s --tier quick" % pid,
            "thorough_cmd": "bin/gmslverif check %s --tier thorough" % pid,
            "evidence_file": "/verif/evidence/%s.json" % pid,
            "replay_cmd_template": "bin/gmslverif explain {path}",
            "engine": "gmslverif",
            "level_claimed": {"category": "other", "text": c["text"], "design_ref": "DESIGN.md section 3 (%s)" % pid},
            "level_note": c["note"],
            "technique": c["technique"],
        })
    else:
        reason = CLAIMS.get(pid, {}).get("na_reason", "static check for this property is not built yet in this tree; no claim is made")
        na.append({"property_id": pid, "reason": reason})
m = {
    "version": 1,
    "setup_cmd": "cd /verif/checker && GOFLAGS=-mod=mod GOPROXY=off GOSUMDB=off GOTOOLCHAIN=local GOWORK=off go build -o /verif/bin/gmslverif .",
    "hooks": {"guard": "verif", "enable": "none needed: nothing is instrumented or executed; the loader passes -tags verif so a later hook would be analysed", "baseline_off_cmd": "/verif/scripts/repotest.sh /repo", "source_commits": [], "add_only": True},
    "engines": [{"name": "gmslverif", "path": "/verif/checker", "serves_properties": [c["property_id"] for c in checks], "kind_free_text": "repository-specific static analyser over go/packages typed syntax, go/ssa and VTA/CHA call graphs (golang.org/x/tools v0.29.0); no code of the repository is executed"}],
    "checks": checks,
    "not_applicable": na,
    "notes": "All claims are static-analysis verdicts at level 'other': each decides the structural clauses listed in DESIGN.md section 3 and in the evidence's coverage.not_decided, not the full behaviour. Genuine defects repaired: see known_findings.json (status fixed) and the fix: commits in /repo.",
}
json.dump(m, open('/verif/MANIFEST.json', 'w'), indent=1)
print("checks:", len(checks), "not_applicable:", len(na))
