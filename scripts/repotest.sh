#!/bin/bash
# Runs the repository's own test suite (guard off) against a tree (default /repo)
# without touching its go.mod: a private -modfile copy is used.
# usage: repotest.sh [dir] [extra go test args...]
set -u
DIR="${1:-/repo}"; shift || true
TMP="$(mktemp -d /tmp/gmsl-modfile.XXXXXX)"
trap 'rm -rf "$TMP"' EXIT
cp "$DIR/go.mod" "$TMP/go.mod"; cp "$DIR/go.sum" "$TMP/go.sum"
cd "$DIR" || exit 2
export GOPROXY=off GOSUMDB=off GOTOOLCHAIN=local GOWORK=off
export GOFLAGS="-mod=mod -modfile=$TMP/go.mod"
if [ $# -eq 0 ]; then set -- ./...; fi
go test -vet=off -count=1 -timeout 25m "$@"
