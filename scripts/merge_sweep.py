#!/usr/bin/env python3
"""usage: merge_sweep.py <full sweep file> <sweep_props output> <Cnn>... > merged
Replaces, in every line of a full sweep, the verdicts of the named checks by those of a later
partial sweep (scripts/sweep_props.sh) made with newer rules for just those checks."""
import re, sys
full, part, props = sys.argv[1], sys.argv[2], sys.argv[3:]
new = {}
for line in open(part):
    line = line.rstrip("\n")
    if not line or line.startswith("WARNING"):
        continue
    toks = line.split(" ")
    seed = toks[0]
    res = {}
    i = 1
    while i < len(toks) and re.fullmatch(r"C\d\d=\d+", toks[i]):
        k, v = toks[i].split("=")
        res[k] = v != "0"
        i += 1
    new[seed] = (res, " ".join(toks[i:]).strip())
for line in open(full):
    line = line.rstrip("\n")
    m = re.match(r"^(\S+) own=(\d) caught_by=\[([^\]]*)\] notdecided=(\d+) ?(.*)$", line)
    if not m or m.group(1) not in new:
        print(line)
        continue
    seed, own, by, nd, first = m.groups()
    res, pfirst = new[seed]
    got = [p for p in by.split() if p not in props]
    got += [p for p in props if res.get(p)]
    got = sorted(set(got))
    ownp = seed.split("-")[0]
    if not first.startswith("VIOLATION") or (first.startswith("VIOLATION") and first.split(" ")[1].split(".")[0] in props and not res.get(first.split(" ")[1].split(".")[0])):
        first = pfirst if pfirst else ("" if not got else first)
    if not got:
        first = ""
    print(f"{seed} own={1 if ownp in got else 0} caught_by=[{' '.join(got)}{' ' if got else ''}] notdecided={nd} {first}".rstrip())
