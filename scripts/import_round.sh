#!/bin/bash
# usage: import_round.sh <round> <Cnn> : validates /tmp/seed<round>/Cnn/{a,r1,r2} on scratch copies and copies them to /verif/seeded/Cnn-<round>{a,r1,r2}
set -u
R="$1"; P="$2"
for v in a b r1 r2 r3; do
  S=/tmp/seed$R/$P/$v
  [ -f $S/patch.diff ] || { echo "$P-$v MISSING"; continue; }
  T="$(mktemp -d /tmp/imp.XXXXXX)"
  rsync -a --exclude .git /repo/ "$T/mut/"; rsync -a --exclude .git /repo/ "$T/clean/"
  ( cd "$T/mut" && git init -q . && git apply "$S/patch.diff" ) || { echo "$P-$v APPLY FAIL"; rm -rf $T; continue; }
  A=$(/verif/scripts/repotest.sh "$T/mut" 2>&1 | grep -c "^ok")
  res="suite_ok_pkgs=$A"
  okall=0; [ "$A" = 4 ] && okall=1
  if [ $v = a ] || [ $v = b ]; then
    PKG=$(head -3 $S/demo_test.go.txt | grep -o -E '(fclient|spec|tokens)' | head -1); PKG=${PKG:-.}
    cp $S/demo_test.go.txt "$T/mut/$PKG/zz_demo_test.go"; cp $S/demo_test.go.txt "$T/clean/$PKG/zz_demo_test.go"
    RACE=""; grep -qi "race" $S/meta.json && RACE="-race"
    /verif/scripts/repotest.sh "$T/mut" $RACE "./$PKG" > "$T/mut.log" 2>&1; M=$?
    /verif/scripts/repotest.sh "$T/clean" $RACE "./$PKG" > "$T/clean.log" 2>&1; C=$?
    res="$res demo_pkg=$PKG demo_with_change_exit=$M demo_clean_exit=$C"
    { [ $M -ne 0 ] && [ $C -eq 0 ]; } || { okall=0; tail -4 "$T/mut.log" "$T/clean.log"; }
  fi
  echo "$P-$R$v $res valid=$okall"
  if [ $okall = 1 ]; then
    D=/verif/seeded/$P-$R$v; mkdir -p $D; cp $S/patch.diff $S/meta.json $D/; [ -f $S/demo_test.go.txt ] && cp $S/demo_test.go.txt $D/demo_test.go
  fi
  rm -rf $T
done
