#!/bin/bash
# usage: seed_tree.sh <seed name> : makes a scratch copy of /repo with the seed applied, prints its dir (caller removes it)
T="$(mktemp -d /tmp/st.XXXXXX)"; mkdir -p $T/repo $T/verif
rsync -a --exclude .git /repo/ $T/repo/
git -C $T/repo init -q . 2>/dev/null
git -C $T/repo apply /verif/seeded/$1/patch.diff || { echo "NOAPPLY"; exit 1; }
cp /verif/known_findings.json /verif/properties.jsonl $T/verif/
echo $T
