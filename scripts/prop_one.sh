#!/bin/bash
# usage: prop_one.sh <seed dir> <Cnn>...  : runs the given checks on the seed, one line
d="$1"; shift; s=$(basename $d)
T="$(mktemp -d /tmp/seedtry.XXXXXX)"; mkdir -p $T/repo $T/verif
rsync -a --exclude .git /repo/ $T/repo/
( cd $T/repo && git init -q . 2>/dev/null; git -C $T/repo apply $d/patch.diff ) 2>/dev/null || { echo "$s PATCH DOES NOT APPLY"; rm -rf $T; exit 0; }
cp /verif/known_findings.json /verif/properties.jsonl $T/verif/
res=""
first=""
for id in "$@"; do
  out=$(/verif/bin/gmslverif check $id --repo $T/repo --verif $T/verif 2>&1); r=$?
  res="$res $id=$r"
  [ -z "$first" ] && first=$(echo "$out" | grep -m1 "^VIOLATION C" | sed "s#$T/##g" | cut -c1-260)
done
echo "$s$res $first"
rm -rf $T
