#!/bin/bash
# usage: sweep_all.sh [glob]   (default: every directory under /verif/seeded)
# Applies each seeded change to a scratch copy, runs ALL twenty checks with one load, and
# prints: seed  own=<0|1>  caught_by=[...]
G="${1:-*}"
for d in /verif/seeded/$G/; do
  s=$(basename $d); p=${s%%-*}
  T="$(mktemp -d /tmp/seedtry.XXXXXX)"; mkdir -p $T/repo $T/verif
  rsync -a --exclude .git /repo/ $T/repo/
  ( cd $T/repo && git init -q . 2>/dev/null; git -C $T/repo apply $d/patch.diff ) || { echo "$s PATCH DOES NOT APPLY"; rm -rf $T; continue; }
  cp /verif/known_findings.json /verif/properties.jsonl $T/verif/
  out=$(/verif/bin/gmslverif check all --repo $T/repo --verif $T/verif 2>&1)
  which=$(echo "$out" | grep "^--- .* exit=1" | awk '{print $2}' | tr '\n' ' ')
  own=0; echo "$which" | grep -q "$p" && own=1
  first=$(echo "$out" | grep -m1 "^VIOLATION C\|^UNDECIDED" | sed "s#$T/##g" | cut -c1-200)
  echo "$s own=$own caught_by=[$which] $first"
  rm -rf $T
done
