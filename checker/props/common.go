package props

import (
	"fmt"
	"go/ast"
	"go/types"
	"sort"
	"strings"

	"gmslverif/fw"

	"golang.org/x/tools/go/ssa"
)

// versionTable is the evaluated roomVersionMeta literal.
type versionTable struct {
	versions []string                     // in source order
	rows     map[string]map[string]fw.Val // version -> field -> value
	rowPos   map[string]string
	fields   []string // fields of RoomVersionImpl, declaration order
	fieldT   map[string]types.Type
}

// loadVersionTable evaluates the package-level room version table. The table is found
// by type: the package-level map[RoomVersion]IRoomVersion variable of the root package.
func loadVersionTable(c *fw.Ctx, rule string) *versionTable {
	pkg := c.P.Pkg("")
	var varName string
	sc := pkg.Types.Scope()
	for _, n := range sc.Names() {
		v, ok := sc.Lookup(n).(*types.Var)
		if !ok {
			continue
		}
		m, ok := v.Type().Underlying().(*types.Map)
		if !ok {
			continue
		}
		if fw.Short(m.Key().String()) == "gmsl.RoomVersion" && fw.Short(m.Elem().String()) == "gmsl.IRoomVersion" {
			if varName != "" {
				c.Undecided(rule, "room version table", "more than one package-level map[RoomVersion]IRoomVersion: "+varName+", "+n)
				return nil
			}
			varName = n
		}
	}
	if varName == "" {
		c.Undecided(rule, "room version table", "no package-level map[RoomVersion]IRoomVersion variable found")
		return nil
	}
	init, _ := fw.PkgVarInit(pkg, varName)
	if init == nil {
		c.Undecided(rule, "room version table", varName+" has no literal initialiser")
		return nil
	}
	ev := &fw.Evaluator{P: c.P, Pkg: pkg}
	v := ev.Eval(init)
	if v.Kind != "map" {
		c.Undecided(rule, "room version table", varName+" is not built from a map literal ("+v.Expr+")")
		return nil
	}
	names, st := fw.StructFieldNames(pkg, "RoomVersionImpl")
	if st == nil {
		c.Undecided(rule, "room version table", "type RoomVersionImpl not found")
		return nil
	}
	t := &versionTable{rows: map[string]map[string]fw.Val{}, rowPos: map[string]string{}, fields: names, fieldT: map[string]types.Type{}}
	for i := 0; i < st.NumFields(); i++ {
		t.fieldT[st.Field(i).Name()] = st.Field(i).Type()
	}
	for i, k := range v.Keys {
		ks, ok := k.Str()
		if !ok {
			c.Undecided(rule, "room version table", "non-constant key "+k.Expr)
			return nil
		}
		row := v.Elems[i]
		if row.Kind != "struct" || !strings.HasSuffix(row.Type, "RoomVersionImpl") {
			c.Undecided(rule, "room version table row "+ks, "row is not a RoomVersionImpl literal ("+row.Kind+" "+row.Type+")")
			return nil
		}
		if _, dup := t.rows[ks]; dup {
			c.Undecided(rule, "room version table row "+ks, "duplicate key")
			return nil
		}
		t.versions = append(t.versions, ks)
		t.rows[ks] = row.Fields
		t.rowPos[ks] = c.P.Pos(row.Pos)
	}
	// registrations outside the literal (SetRoomVersion calls in non-test code) would add rows we cannot see
	for _, fn := range c.P.SrcFuncs() {
		for _, call := range fw.Calls(fn) {
			if fw.CalleeName(call) == "gmsl.SetRoomVersion" {
				c.Undecided(rule, "room version table", "SetRoomVersion is called in non-test code at "+c.P.Pos(call.Pos())+"; the table is no longer a single literal")
				return nil
			}
		}
	}
	c.Count("version_rows", len(t.versions))
	return t
}

// cell renders the value of (version, field); absent fields render as the zero value.
func (t *versionTable) cell(ver, field string) string {
	v, ok := t.rows[ver][field]
	if !ok {
		if t.fieldT[field] == nil {
			return "<unrecognised: the table has no field " + field + ">"
		}
		if _, isSig := t.fieldT[field].Underlying().(*types.Signature); isSig {
			return "nil"
		}
		if b, ok := t.fieldT[field].Underlying().(*types.Basic); ok {
			switch {
			case b.Info()&types.IsBoolean != 0:
				return "false"
			case b.Info()&types.IsString != 0:
				return ""
			default:
				return "0"
			}
		}
		return "nil"
	}
	return fw.DescribeVal(v)
}

func (t *versionTable) isFuncField(field string) bool {
	_, isSig := t.fieldT[field].Underlying().(*types.Signature)
	return isSig
}

// fnByName resolves "gmsl.name" / "(gmsl.T).m" to an SSA function.
func fnByShortName(p *fw.Program, short string) *ssa.Function {
	for _, fn := range p.SrcFuncs() {
		if fw.FuncName(fn) == short {
			return fn
		}
	}
	return nil
}

// mustFunc looks up a function and records an undecided obligation if it is missing.
func mustFunc(c *fw.Ctx, rule, spec string) *ssa.Function {
	fn := c.P.Func(spec)
	if fn == nil {
		c.Undecided(rule, "anchor "+spec, "function "+spec+" not found in the current tree")
		return nil
	}
	c.SawFn(spec)
	return fn
}

func sortedSet(m map[string]bool) []string {
	out := make([]string, 0, len(m))
	for k := range m {
		out = append(out, k)
	}
	sort.Strings(out)
	return out
}

func setOf(xs ...string) map[string]bool {
	m := map[string]bool{}
	for _, x := range xs {
		m[x] = true
	}
	return m
}

func sameSet(a, b map[string]bool) bool {
	if len(a) != len(b) {
		return false
	}
	for k := range a {
		if !b[k] {
			return false
		}
	}
	return true
}

func diffSets(got, want map[string]bool) string {
	var miss, extra []string
	for k := range want {
		if !got[k] {
			miss = append(miss, k)
		}
	}
	for k := range got {
		if !want[k] {
			extra = append(extra, k)
		}
	}
	sort.Strings(miss)
	sort.Strings(extra)
	return fmt.Sprintf("missing %v, unexpected %v", miss, extra)
}

// stopExported: helpers are entered only when unexported (exported functions and methods are
// API anchors analysed on their own).
func stopExported(f *ssa.Function) bool {
	return f.Object() != nil && f.Object().Exported()
}

// constStringArgs collects the constant strings passed at argument index argIdx to calls
// matching `match` within fn, its closures and the unexported helpers it calls (arguments
// are resolved in the calling context, so a helper taking the names as a parameter is
// transparent). Loops over a constant slice / array literal are unfolded.
func constStringArgs(fn *ssa.Function, match func(string) bool, argIdx int) (consts map[string]bool, nonConst int) {
	return constStringArgsStop(fn, match, argIdx, stopExported)
}

func constStringArgsStop(fn *ssa.Function, match func(string) bool, argIdx int, stop func(*ssa.Function) bool) (consts map[string]bool, nonConst int) {
	consts = map[string]bool{}
	for _, dc := range fw.DeepCalls(fn, match, stop) {
		args := dc.Call.Common().Args
		if argIdx >= len(args) {
			nonConst++
			continue
		}
		ss, ok := fw.ConstStringsIn(args[argIdx], dc.Fr)
		if !ok {
			nonConst++
			continue
		}
		for _, s := range ss {
			consts[s] = true
		}
	}
	return
}

// strippedChain walks back from the byte value v through sjson.DeleteBytes (and the calls in
// `through`, and unexported or exported repository helpers) to its origins. It returns the
// constant member names deleted on the way, the number of deletions under a non-constant
// name, the names of the calls passed through and whether every origin satisfies isOrigin.
func strippedChain(v ssa.Value, isOrigin func(ssa.Value) bool, through map[string][]int) (keys map[string]bool, nonConst int, passed map[string]bool, ok bool) {
	keys, nonConst, passed, t := strippedChain3(v, nil, nil, isOrigin, through)
	return keys, nonConst, passed, t == fw.Yes
}

// strippedChain3 is strippedChain for a value in frame fr consumed by `use`, with a
// three-valued answer for "every origin satisfies isOrigin".
func strippedChain3(v ssa.Value, fr *fw.Frame, use ssa.Instruction, isOrigin func(ssa.Value) bool, through map[string][]int) (keys map[string]bool, nonConst int, passed map[string]bool, ok fw.Tri) {
	return strippedChain3Fam(v, fr, use, isOrigin, through, nil)
}

// strippedChain3Fam: family lists the functions whose stores to a struct field stand for a load
// of that field (object state carried between the methods of an unexported helper type).
func strippedChain3Fam(v ssa.Value, fr *fw.Frame, use ssa.Instruction, isOrigin func(ssa.Value) bool, through map[string][]int, family []*ssa.Function) (keys map[string]bool, nonConst int, passed map[string]bool, ok fw.Tri) {
	keys = map[string]bool{}
	passed = map[string]bool{}
	thr := map[string][]int{"github.com/tidwall/sjson.DeleteBytes": {0}}
	for k, v := range through {
		thr[k] = v
	}
	ok = fw.Derives3In(v, fr, fw.FlowSpec{
		IsSource: isOrigin,
		Through:  fw.ThroughNames(thr),
		All:      true,
		Use:      use,
		Family:   family,
		Visit: func(call ssa.CallInstruction, fr *fw.Frame) {
			n := fw.CalleeName(call)
			passed[n] = true
			if n == "github.com/tidwall/sjson.DeleteBytes" {
				ss, isC := fw.ConstStringsIn(call.Common().Args[1], fr)
				if !isC {
					nonConst++
					return
				}
				for _, s := range ss {
					keys[s] = true
				}
			}
		},
	})
	return
}

// sliceLiteralStrings: v is an element loaded from a slice literal of constant strings
// (the `for _, key := range []string{...}` idiom): returns the literal's elements.
func sliceLiteralStrings(v ssa.Value) ([]string, bool) {
	v = fw.Unwrap(v)
	u, ok := v.(*ssa.UnOp)
	if !ok {
		return nil, false
	}
	ia, ok := u.X.(*ssa.IndexAddr)
	if !ok {
		return nil, false
	}
	return sliceLiteralOf(ia.X)
}

// sliceLiteralOf: x is a slice of a freshly allocated array whose elements are stored constants.
func sliceLiteralOf(x ssa.Value) ([]string, bool) {
	sl, ok := x.(*ssa.Slice)
	if !ok {
		return nil, false
	}
	al, ok := sl.X.(*ssa.Alloc)
	if !ok {
		return nil, false
	}
	var out []string
	for _, ref := range *al.Referrers() {
		ia, ok := ref.(*ssa.IndexAddr)
		if !ok {
			continue
		}
		for _, r2 := range *ia.Referrers() {
			if st, ok := r2.(*ssa.Store); ok && st.Addr == ia {
				s, ok := fw.ConstString(st.Val)
				if !ok {
					return nil, false
				}
				out = append(out, s)
			}
		}
	}
	if len(out) == 0 {
		return nil, false
	}
	return out, true
}

// funcDeclOf returns the syntax of an SSA function.
func funcDeclOf(fn *ssa.Function) *ast.FuncDecl {
	if fn == nil {
		return nil
	}
	d, _ := fn.Syntax().(*ast.FuncDecl)
	return d
}

// regionFieldStores / regionCallsTo: like fw.FieldStores / fw.CallsTo over fn, its closures
// and the unexported helpers it calls.
func regionFieldStores(fn *ssa.Function, structSuffix, field string) []*ssa.Store {
	var out []*ssa.Store
	for _, f := range fw.RegionOf(fn, nil) {
		if f.Parent() != nil {
			continue // closures are visited with their parent by FieldStores
		}
		out = append(out, fw.FieldStores(f, structSuffix, field)...)
	}
	return out
}

func regionCallsTo(fn *ssa.Function, match func(string) bool) []ssa.CallInstruction {
	var out []ssa.CallInstruction
	for _, f := range fw.RegionOf(fn, nil) {
		out = append(out, fw.CallsTo(f, false, match)...)
	}
	return out
}

// rootOf resolves a value living in frame fr through helper parameters (to the argument at the
// call site, repeatedly), conversions and loads that directly follow their store.
func rootOf(v ssa.Value, fr *fw.Frame) (ssa.Value, *fw.Frame) {
	for i := 0; i < 12; i++ {
		v = fw.Unwrap(v)
		if o := fw.LoadOrigin(v); o != v {
			v = o
			continue
		}
		p, ok := v.(*ssa.Parameter)
		if !ok {
			break
		}
		arg, ok := fr.ArgOf(p)
		if !ok {
			break
		}
		v, fr = arg, fr.Parent
	}
	return v, fr
}

// isParamDeep: v (in frame fr) is parameter #idx of the root function fn.
func isParamDeep(v ssa.Value, fr *fw.Frame, fn *ssa.Function, idx int) bool {
	r, rf := rootOf(v, fr)
	return rf == nil && isParam(r, fn, idx)
}

// deepCallsTo lists calls matching `match` in fn and the unexported helpers it calls, with frames.
func deepCallsTo(fn *ssa.Function, match func(string) bool) []fw.DeepCall {
	return fw.DeepCalls(fn, match, stopExported)
}

// deepStore is a store to a struct field found in a function's region.
type deepStore struct {
	St *ssa.Store
	Fr *fw.Frame
}

// deepFieldStores lists the stores to field `field` of a struct whose type name ends in
// structSuffix, in fn and the unexported helpers it calls (with frames).
func deepFieldStores(fn *ssa.Function, structSuffix, field string) []deepStore {
	var out []deepStore
	for _, di := range fw.DeepInstrs(fn, nil) {
		st, ok := di.Instr.(*ssa.Store)
		if !ok {
			continue
		}
		fa, ok := st.Addr.(*ssa.FieldAddr)
		if !ok {
			continue
		}
		sty := derefStructOf(fa.X.Type())
		if sty == nil || sty.Field(fa.Field).Name() != field {
			continue
		}
		if !strings.HasSuffix(fw.Short(strings.TrimPrefix(fa.X.Type().String(), "*")), structSuffix) {
			continue
		}
		out = append(out, deepStore{st, di.Fr})
	}
	return out
}

// triBest folds several three-valued answers for "one of these satisfies the rule":
// Yes if any is Yes, else Unknown if any is Unknown (or there is none), else No.
func triBest(ts []fw.Tri) fw.Tri {
	if len(ts) == 0 {
		return fw.Unknown
	}
	res := fw.No
	for _, t := range ts {
		if t == fw.Yes {
			return fw.Yes
		}
		if t == fw.Unknown {
			res = fw.Unknown
		}
	}
	return res
}

// checkTri records a three-valued obligation.
func checkTri(c *fw.Ctx, t fw.Tri, rule, construct, pos, okDetail, failDetail string) {
	switch t {
	case fw.Yes:
		c.Ok(rule, construct, pos, okDetail)
	case fw.No:
		c.Fail(rule, construct, pos, failDetail)
	default:
		c.Undecided(rule, construct, "not resolved: "+failDetail)
	}
}

// isRootParam builds a source predicate (with frames): the value is parameter #idx of root.
func isRootParam(root *ssa.Function, idx int) func(ssa.Value, *fw.Frame) bool {
	return func(v ssa.Value, fr *fw.Frame) bool {
		return fr == nil && isParam(v, root, idx)
	}
}
