package props

import (
	"go/token"
	"fmt"
	"reflect"
	"strconv"
	"strings"

	"gmslverif/fw"

	"golang.org/x/tools/go/ssa"
)

func init() { register("C13", checkC13) }

func checkC13(c *fw.Ctx) {
	c.Explanation = "C13 (static): the signer and the verifier serialise the same struct (FederationRequest.fields: content, destination, method, origin, uri, signatures) with encoding/json; the receiver reconstructs each of these from the HTTP request (method, URL.RequestURI(), body, X-Matrix header); VerifyHTTPRequest's success is gated on header parsing, the destination check (own name or predicate; default filled in only when absent), a non-empty valid origin, VerifyJSONs and the first result being nil, with the strict validity rule at the receipt time; the body is admitted only as application/json valid UTF-8; the Authorization header is emitted only for values safe in a quoted string (byte-class table compared with RFC 7230 qdtext, exhaustive over 256 bytes) and after the URI round-trip check."
	c.Exhaustive = true
	c.NotDecidedClause("grammar equivalence of ParseAuthorization with the X-Matrix header syntax")
	c.NotDecidedClause("tamper detection as such (cryptography, C02)")
	// the origin named in the header must be a valid server name: the validator's port rule
	checkPortParse(c, "4 verify")
	if c.InlinedReports == nil {
		c.InlinedReports = map[string]bool{}
	}
	// positive evidence (the default name is stored under a condition that implies neither "no
	// destination in the header" nor "the header names the default"): also valid on the inlined view
	c.InlinedReports["4 verify|the default destination is filled in only when the header carries none"] = true
	checkLenientAcceptors(c, "4 verify", "spec.ParseAndValidateServerName")
	pkg := c.P.Pkg("fclient")
	// 1. same struct on both sides
	_, frst := fw.StructFieldNames(pkg, "FederationRequest")
	if frst == nil {
		c.Undecided("1 signed-object", "FederationRequest", "type not found")
		return
	}
	tags := map[string]bool{}
	if inner, ok := frst.Field(0).Type().Underlying().(interface {
		NumFields() int
		Tag(int) string
	}); ok {
		for i := 0; i < inner.NumFields(); i++ {
			tags[strings.Split(reflect.StructTag(inner.Tag(i)).Get("json"), ",")[0]] = true
		}
	}
	c.Check(sameSet(tags, setOf("content", "destination", "method", "origin", "uri", "signatures")), "1 signed-object", "the signed object has exactly content, destination, method, origin, uri, signatures", "", strings.Join(sortedSet(tags), ","), "signed object members: "+strings.Join(sortedSet(tags), ","))
	sign := mustFunc(c, "1 signed-object", "fclient.(*FederationRequest).Sign")
	verify := mustFunc(c, "1 signed-object", "fclient.VerifyHTTPRequest")
	read := mustFunc(c, "1 signed-object", "fclient.readHTTPRequest")
	if sign == nil || verify == nil || read == nil {
		return
	}
	for name, fn := range map[string]*ssa.Function{"Sign": sign, "VerifyHTTPRequest": verify} {
		ok, other := false, ""
		for _, dc := range deepCallsTo(fn, fw.NameIs("encoding/json.Marshal")) {
			if s := fw.SigIn(dc.Fr, dc.Call.Common().Args[0]); strings.HasSuffix(s, ".fields") || strings.Contains(s, ".fields") {
				ok = true
			} else {
				other = s
			}
		}
		construct := name + " serialises the request's `fields` struct with encoding/json"
		switch {
		case ok:
			c.Ok("1 signed-object", construct, c.P.Pos(fn.Pos()), "")
		case other != "":
			c.Fail("1 signed-object", construct, c.P.Pos(fn.Pos()), "json.Marshal is applied to "+other+", not to the fields struct")
		default:
			c.Undecided("1 signed-object", construct, "no json.Marshal was found in the routine or its helpers")
		}
	}
	for _, call := range fw.CallsTo(sign, false, fw.NameIs("gmsl.SignJSON")) {
		s := argSigs(call)
		c.Check(strings.Contains(s[0], "param:serverName") && s[1] == "param:keyID" && strings.HasPrefix(s[3], "encoding/json.Marshal("), "1 signed-object", "Sign signs the serialised fields under the given server name and key id", c.P.Pos(call.Pos()), "", "SignJSON("+strings.Join(s, ", ")+")")
	}
	// 2. reconstruction
	// (the stores may sit in unexported helpers of readHTTPRequest: they are looked up in its
	// region and their values traced through the frames)
	isFieldsStore := func(st *ssa.Store, f string) bool {
		fa, ok := st.Addr.(*ssa.FieldAddr)
		if !ok {
			return false
		}
		sty := derefStructOf(fa.X.Type())
		if sty == nil || sty.Field(fa.Field).Name() != f {
			return false
		}
		has := map[string]bool{}
		for i := 0; i < sty.NumFields(); i++ {
			has[sty.Field(i).Name()] = true
		}
		return has["RequestURI"] && has["Signatures"] && has["Origin"]
	}
	isReqFieldLoad := func(field string) func(ssa.Value) bool {
		return func(v ssa.Value) bool {
			u, ok := v.(*ssa.UnOp)
			if !ok || u.Op != token.MUL {
				return false
			}
			fa, ok := u.X.(*ssa.FieldAddr)
			if !ok {
				return false
			}
			sty := derefStructOf(fa.X.Type())
			return sty != nil && sty.Field(fa.Field).Name() == field && strings.HasSuffix(fw.Short(strings.TrimPrefix(fa.X.Type().String(), "*")), "net/http.Request")
		}
	}
	deepRead := fw.DeepInstrs(read, nil)
	type recon struct {
		what string
		src  func(ssa.Value) bool
	}
	wantStores := map[string]recon{
		"Method":     {"*req.Method", isReqFieldLoad("Method")},
		"RequestURI": {"req.URL.RequestURI()", func(v ssa.Value) bool {
			// RequestURI() of the request's own URL, not of a URL rebuilt from some of its parts
			// (a rebuilt one loses RawPath: the escapes the sender signed)
			cc, _ := fw.CallOf(v)
			if cc == nil || fw.CalleeName(cc) != "(*net/url.URL).RequestURI" || len(cc.Common().Args) == 0 {
				return false
			}
			return strings.HasSuffix(strings.TrimLeft(fw.Sig(cc.Common().Args[0]), "*&"), "param:req.URL")
		}},
		"Content":    {"io.ReadAll(req.Body)", fw.IsResultOf(fw.NameIs("io.ReadAll"), 0)},
	}
	for _, f := range fw.SortedKeys(wantStores) {
		n := 0
		construct := "the verified " + f + " is the transmitted one (" + wantStores[f].what + ")"
		for _, di := range deepRead {
			st, isSt := di.Instr.(*ssa.Store)
			if !isSt || !isFieldsStore(st, f) {
				continue
			}
			n++
			if f == "RequestURI" {
				// RequestURI() of a URL the rule cannot identify with the request's own (held in a
				// field of a request object, say) is not evidence of a rebuilt URL: only a URL value
				// constructed locally is
				if cc, _ := fw.CallOf(fw.Unwrap(st.Val)); cc != nil && fw.CalleeName(cc) == "(*net/url.URL).RequestURI" && len(cc.Common().Args) > 0 && !wantStores[f].src(fw.Unwrap(st.Val)) {
					arg := cc.Common().Args[0]
					rebuilt := false
					if a, isAlloc := fw.Origin(arg).(*ssa.Alloc); isAlloc && strings.HasSuffix(a.Type().String(), "net/url.URL") {
						rebuilt = true
					}
					if c2, _ := fw.CallOf(fw.Origin(arg)); c2 != nil && strings.HasPrefix(fw.CalleeName(c2), "net/url.Parse") {
						rebuilt = true
					}
					if !rebuilt {
						c.Undecided("2 reconstruction", construct, "RequestURI() is taken of "+fw.SigIn(di.Fr, arg)+", which the rule could not identify with the request's own URL")
						continue
					}
				}
			}
			c.CheckDerives(st.Val, di.Fr, fw.FlowSpec{IsSource: wantStores[f].src, All: true}, "2 reconstruction", construct, c.P.Pos(fw.InstrPos(st)), "",
				fmt.Sprintf("field %s is reconstructed from %s: what is verified differs from what was signed for some requests (e.g. percent-escapes in the path)", f, fw.SigIn(di.Fr, st.Val)))
		}
		if n == 0 {
			c.Undecided("2 reconstruction", construct, "no store to fields."+f+" found in the region of readHTTPRequest")
		}
	}
	for f, idx := range map[string]int{"Origin": 1, "Destination": 2} {
		n := 0
		construct := "the verified " + f + " comes from the X-Matrix header"
		for _, di := range deepRead {
			st, isSt := di.Instr.(*ssa.Store)
			if !isSt || !isFieldsStore(st, f) {
				continue
			}
			n++
			val := resolveLocalField(st.Val)
			pa := fw.NameIs("gmsl/fclient.ParseAuthorization")
			if fw.Derives3In(val, di.Fr, fw.FlowSpec{IsSource: fw.IsResultOf(pa, idx), All: true}) == fw.Yes {
				c.Ok("2 reconstruction", construct, c.P.Pos(fw.InstrPos(st)), fw.SigIn(di.Fr, val))
				continue
			}
			// positive evidence only: the value is another member of the parsed header
			wrong := ""
			for other := 0; other < 5; other++ {
				if other != idx && fw.Derives3In(val, di.Fr, fw.FlowSpec{IsSource: fw.IsResultOf(pa, other), All: true}) == fw.Yes {
					wrong = fmt.Sprintf("result #%d of ParseAuthorization", other)
				}
			}
			if wrong != "" {
				c.Fail("2 reconstruction", construct, c.P.Pos(fw.InstrPos(st)), f+" is taken from "+wrong+", not from the header's "+strings.ToLower(f))
			} else {
				c.Undecided("2 reconstruction", construct, f+" is stored from "+fw.SigIn(di.Fr, val)+", whose origin in the header was not traced")
			}
		}
		if n == 0 {
			c.Undecided("2 reconstruction", construct, "no store to fields."+f+" found in the region of readHTTPRequest")
		}
	}
	// content admission
	for _, b := range read.Blocks {
		for _, ins := range b.Instrs {
			if st, isSt := ins.(*ssa.Store); isSt && strings.HasSuffix(fw.Sig(st.Addr), ".fields.Content") {
				conds := condsOf(b)
				admitted := func(s string) bool {
					return strings.Contains(s, `!(mime.ParseMediaType(`) && strings.Contains(s, `#0 != "application/json")`) && strings.Contains(s, "unicode/utf8.Valid(io.ReadAll(*param:req.Body)#0)") && !strings.Contains(s, "!unicode/utf8.Valid(")
				}
				ok := admitted(conds)
				if !ok {
					// the same three tests in other spellings (operands swapped, != negated, a tagless
					// switch): read them off the path condition of the store
					if d, okd := fw.PathConds(read); okd && len(d[b]) > 0 {
						all := true
						for _, term := range d[b] {
							if !admissionTerm(term) {
								all = false
							}
						}
						ok = all
					}
				}
				if !ok {
					// a value decided earlier (the result of an expanded helper): every alternative
					// that is not nil must have been produced under the admission conditions
					if rows, err := fw.ValueRows(read, st.Val, b); err == nil && len(rows) > 1 {
						ok = true
						for _, r := range rows {
							if k, isC := r.Val.(*ssa.Const); isC && k.Value == nil {
								continue
							}
							for _, term := range r.Cond {
								parsed, isJSON, utf8ok := false, false, false
								for _, l := range term {
									a := l.Atom
									switch {
									case strings.Contains(a, "mime.ParseMediaType(") && strings.Contains(a, "#2") && strings.HasSuffix(a, " == nil)"):
										parsed = l.Pos
									case strings.Contains(a, "mime.ParseMediaType(") && strings.Contains(a, `#0 == "application/json")`):
										isJSON = l.Pos
									case strings.HasPrefix(a, "unicode/utf8.Valid("):
										utf8ok = l.Pos
									}
								}
								if !(parsed && isJSON && utf8ok) {
									ok = false
								}
							}
						}
					}
				}
				c.Check(ok, "3 body", "a body is admitted only as application/json and valid UTF-8", c.P.Pos(fw.InstrPos(st)), "", "content stored under ["+conds+"]")
			}
		}
	}
	// the body is always read: what is verified is what was transmitted, so a request whose body
	// is skipped (no Content-Length, chunked encoding) must not be verified as if it had none
	{
		sites := fw.MustCallSites(read, fw.NameIs("io.ReadAll"))
		isSite := map[ssa.Instruction]bool{}
		for _, s := range sites {
			isSite[s] = true
		}
		_, bad := fw.MustPrecede(read, func(i ssa.Instruction) bool { return isSite[i] }, func(i ssa.Instruction) bool {
			r, ok := i.(*ssa.Return)
			if !ok || len(r.Results) == 0 {
				return false
			}
			k, isC := r.Results[0].(*ssa.Const)
			return !(isC && k.Value == nil)
		})
		switch {
		case len(sites) == 0:
			c.Undecided("3 body", "the body is read on every path to a reconstructed request", "no call that is guaranteed to read the body was recognised")
		case len(bad) > 0:
			c.Fail("3 body", "the body is read on every path to a reconstructed request", c.P.Pos(fw.InstrPos(bad[0])), "a request is reconstructed on a path that never reads the body: a body that is present but skipped (e.g. sent without Content-Length) is not part of what is verified")
		default:
			c.Ok("3 body", "the body is read on every path to a reconstructed request", c.P.Pos(read.Pos()), "")
		}
	}
	// ... and it is read to its end: a reader that stops after as many bytes as the Content-Length
	// header announced reads nothing of a chunked body (ContentLength is -1 then, and a limit
	// below zero means "no bytes"), so a body the signature does not cover is let through
	{
		construct := "the body is read to its end, not up to the announced Content-Length"
		n := 0
		bad := ""
		for _, dc := range deepCallsTo(read, fw.NameIs("io.LimitReader", "net/http.MaxBytesReader", "io.CopyN")) {
			args := dc.Call.Common().Args
			lim := args[len(args)-1]
			n++
			if sg := fw.SigIn(dc.Fr, lim); strings.Contains(sg, ".ContentLength") {
				bad = fw.CalleeName(dc.Call) + " at " + c.P.Pos(dc.Call.Pos()) + " limits the body to " + sg
			}
		}
		for _, di := range fw.DeepInstrs(read, nil) {
			// &io.LimitedReader{R: body, N: req.ContentLength}
			st, ok := di.Instr.(*ssa.Store)
			if !ok {
				continue
			}
			if fa, isFa := st.Addr.(*ssa.FieldAddr); isFa && strings.HasSuffix(fa.X.Type().String(), "io.LimitedReader") && strings.Contains(fw.SigIn(di.Fr, st.Val), ".ContentLength") {
				n++
				bad = "an io.LimitedReader built at " + c.P.Pos(fw.InstrPos(st)) + " limits the body to " + fw.SigIn(di.Fr, st.Val)
			}
		}
		if bad != "" {
			c.Fail("3 body", construct, c.P.Pos(read.Pos()), bad+": for a body sent with chunked transfer encoding ContentLength is -1 and nothing is read, so a request signed without a body verifies with any chunked body attached (and a correctly signed chunked request is refused)")
		} else {
			c.Ok("3 body", construct, c.P.Pos(read.Pos()), fmt.Sprintf("%d limiting reader(s), none bounded by the announced length", n))
		}
	}
	// header admission: missing origin/key/sig, conflicting origins
	var errConds []string
	for _, r := range fw.Returns(read) {
		if cst, ok := r.Results[0].(*ssa.Const); ok && cst.Value == nil {
			for _, ob := range fw.ExitOrigins(r, fw.ErrIndex(read)) {
				errConds = append(errConds, condsOf(ob))
			}
		}
	}
	all := strings.Join(errConds, " ## ")
	c.Expect(strings.Contains(all, `#1 == "")`) || strings.Contains(all, `#1 != "")`), "3 body", "an X-Matrix header without origin is refused", c.P.Pos(read.Pos()), "", "no error return under an empty-origin test was recognised in readHTTPRequest")
	c.Expect(strings.Contains(all, ".fields.Origin != gmsl/fclient.ParseAuthorization(") || strings.Contains(all, ".fields.Origin == gmsl/fclient.ParseAuthorization("), "3 body", "conflicting origins are refused", c.P.Pos(read.Pos()), "", "no error return under a differing-origins test was recognised in readHTTPRequest")

	// 4. VerifyHTTPRequest gates
	rule := "4 verify"
	succ := func(r *ssa.Return, reach map[*ssa.BasicBlock]bool, removed map[fw.Edge]bool) []fw.SuccessPath {
		if !reach[r.Block()] {
			return nil
		}
		if cst, ok := r.Results[0].(*ssa.Const); ok && cst.Value == nil {
			return nil
		}
		if fw.AlwaysNilResult(r.Results[0]) {
			return nil // `return reject(...)`: a refusal built by a helper that never hands back a request
		}
		// a single exit that returns a result variable: one path per incoming value that can be a request
		if phi, isPhi := r.Results[0].(*ssa.Phi); isPhi {
			var out []fw.SuccessPath
			var walk func(p *ssa.Phi, seen map[*ssa.Phi]bool)
			walk = func(p *ssa.Phi, seen map[*ssa.Phi]bool) {
				if seen[p] {
					return
				}
				seen[p] = true
				pb := p.Block()
				for i, e := range p.Edges {
					pred := pb.Preds[i]
					if !reach[pred] || removed[fw.Edge{From: pred, To: pb}] {
						continue
					}
					if cst, isC := e.(*ssa.Const); isC && cst.Value == nil {
						continue
					}
					if fw.AlwaysNilResult(e) {
						continue
					}
					if inner, isInner := e.(*ssa.Phi); isInner {
						walk(inner, seen)
						continue
					}
					out = append(out, fw.SuccessPath{Ret: r, Via: pred})
				}
			}
			walk(phi, map[*ssa.Phi]bool{})
			return out
		}
		return []fw.SuccessPath{{Ret: r}}
	}
	c.CheckGate(rule, verify, "VerifyHTTPRequest", fw.GuardCallErrNil("readHTTPRequest", fw.NameIs("gmsl/fclient.readHTTPRequest")), succ)
	c.CheckGate(rule, verify, "VerifyHTTPRequest", fw.GuardCallErrNil("VerifyJSONs", func(n string) bool { return strings.HasSuffix(n, ".VerifyJSONs") }), succ)
	c.CheckGate(rule, verify, "VerifyHTTPRequest", fw.GuardCond("results[0].Error == nil", func(v ssa.Value) (bool, bool) {
		x, trueMeansNil, ok := fw.NilCheck(v)
		if !ok {
			return false, false
		}
		if s := fw.Sig(x); strings.Contains(s, ".VerifyJSONs(") && strings.HasSuffix(s, "#0[0].Error") {
			return trueMeansNil, true
		}
		return false, false
	}), succ)
	c.CheckGate(rule, verify, "VerifyHTTPRequest", fw.GuardCond("origin is a valid server name", func(v ssa.Value) (bool, bool) {
		if s := fw.Sig(v); strings.HasPrefix(s, "gmsl/spec.ParseAndValidateServerName(") && strings.HasSuffix(s, "#2") {
			return true, true
		}
		return false, false
	}), succ)
	c.CheckGate(rule, verify, "VerifyHTTPRequest", fw.GuardCond("origin is present", func(v ssa.Value) (bool, bool) {
		s := fw.Sig(v)
		if strings.HasPrefix(s, "((*gmsl/fclient.FederationRequest).Origin(") && strings.HasSuffix(s, ` == "")`) {
			return false, true
		}
		return false, false
	}), succ)
	// the verified request
	for f, want := range map[string]string{"ServerName": ".Origin(", "AtTS": "gmsl/spec.AsTimestamp(param:now)", "Message": "encoding/json.Marshal(", "ValidityCheckingFunc": "func:gmsl.StrictValiditySignatureCheck"} {
		stores := fw.FieldStores(verify, "VerifyJSONRequest", f)
		if len(stores) != 1 {
			c.Undecided(rule, "the verification request's "+f+" is "+strings.Trim(want, ".("), fmt.Sprintf("%d stores to the field in VerifyHTTPRequest itself", len(stores)))
			continue
		}
		c.Check(strings.Contains(fw.Sig(stores[0].Val), want), rule, "the verification request's "+f+" is "+strings.Trim(want, ".("), c.P.Pos(verify.Pos()), "", "the field is set to "+fw.Sig(stores[0].Val))
	}
	// the destination that is checked is the destination that is verified (the reconstructed
	// field), not a second reading of the header: with several Authorization headers the two differ
	{
		construct := "the destination that is checked is the one that is verified"
		nChecked, bad := 0, ""
		for _, di := range fw.DeepInstrs(verify, func(f *ssa.Function) bool { return f == read }) {
			var x ssa.Value
			switch ins := di.Instr.(type) {
			case *ssa.Call:
				// isLocalServerName(x)
				if !ins.Call.IsInvoke() && ins.Call.StaticCallee() == nil && len(ins.Call.Args) == 1 && strings.Contains(fw.SigIn(di.Fr, ins.Call.Value), "param:isLocalServerName") {
					x = ins.Call.Args[0]
				}
			case *ssa.BinOp:
				if ins.Op == token.EQL || ins.Op == token.NEQ {
					sx, sy := strings.TrimPrefix(fw.SigIn(di.Fr, ins.X), "*&"), strings.TrimPrefix(fw.SigIn(di.Fr, ins.Y), "*&")
					if sx == "param:destination" {
						x = ins.Y
					} else if sy == "param:destination" {
						x = ins.X
					}
				}
			}
			if x == nil {
				continue
			}
			sx := fw.SigIn(di.Fr, x)
			switch {
			case strings.Contains(sx, "readHTTPRequest(param:req)#0.fields.Destination"):
				nChecked++
			case strings.Contains(sx, "ParseAuthorization("):
				bad = sx
			default:
				// the result of a helper that parses a header itself (and never goes through the
				// reconstructed request)
				pa := fw.IsResultOf(fw.NameIs("gmsl/fclient.ParseAuthorization"), -1)
				viaRead := fw.IsResultOf(fw.NameIs("gmsl/fclient.readHTTPRequest"), -1)
				if fw.Derives3In(x, di.Fr, fw.FlowSpec{IsSource: pa, All: true}) == fw.Yes && !fw.DerivesFromIn(x, di.Fr, fw.FlowSpec{IsSource: viaRead}) {
					bad = sx + " (which parses an Authorization header itself)"
				}
			}
		}
		switch {
		case bad != "":
			c.Fail(rule, construct, c.P.Pos(verify.Pos()), "the destination check is applied to "+bad+", a separate reading of the Authorization header, not to the destination that is serialised and verified: a request carrying several Authorization headers is checked against one destination and verified for another")
		case nChecked > 0:
			c.Ok(rule, construct, c.P.Pos(verify.Pos()), fmt.Sprintf("%d test(s) on the reconstructed field", nChecked))
		default:
			c.Undecided(rule, construct, "no destination test was recognised in VerifyHTTPRequest and its helpers")
		}
	}
	// destination: table + default only when absent
	dest := "*gmsl/fclient.readHTTPRequest(param:req)#0.fields.Destination"
	tbl, err := fw.ExtractTable(verify, 0)
	if err != nil {
		c.Undecided(rule, "destination table", err.Error())
	} else {
		ip := &interp{
			bools: map[string]string{"(" + dest + ` == "")`: "absent", "(param:isLocalServerName == nil)": "noPred", "dyn(param:isLocalServerName)(" + dest + ")": "predOK", "(param:destination == " + dest + ")": "same"},
			match: func(atom string, a asg) (bool, bool) {
				if atom == "(param:destination != "+dest+")" {
					return a["same"] != "true", true
				}
				if strings.HasSuffix(atom, ` == "")`) && strings.Contains(atom, ".Origin(") {
					return false, true // the origin is present
				}
				// the later checks pass: error results are nil, the first result carries no error, the origin is valid
				if strings.HasSuffix(atom, "#1 == nil)") || strings.HasSuffix(atom, "[0].Error == nil)") || (strings.Contains(atom, "ParseAndValidateServerName(") && strings.HasSuffix(atom, "#2")) {
					return true, true
				}
				return false, false // a condition the rule does not know
			},
			// the destination test may live in a helper taking the destination as an argument
			expand: func(atom string) bool { return strings.Contains(atom, ".fields.Destination") },
		}
		_ = tbl
		compareTable(c, rule, "destination check: own name, or the predicate when one is given; absent => default", verify, 0, []tvar{{"absent", tf}, {"noPred", tf}, {"predOK", tf}, {"same", tf}}, ip, func(a asg) string {
			if a["absent"] == "true" {
				return "value:ok"
			}
			if a["noPred"] == "true" {
				if a["same"] == "true" {
					return "value:ok"
				}
				return "value:nil"
			}
			if a["predOK"] == "true" {
				return "value:ok"
			}
			return "value:nil"
		}, func(r fw.Row) string {
			if r.Outcome == "value:nil" || r.Outcome == "accept" {
				return "value:nil" // a nil *FederationRequest is the refusal
			}
			if r.Val != nil && fw.AlwaysNilResult(r.Val) {
				return "value:nil" // `return refuse(...)`: a helper that never hands back a request
			}
			if len(r.Ret.Results) > 0 && fw.AlwaysNilResult(r.Ret.Results[0]) {
				return "value:nil"
			}
			// the request object that was read: the acceptance. Anything else (a field of a result
			// struct built elsewhere, a value computed by a helper) is not classified here
			if r.Outcome == "reject" || strings.Contains(r.Outcome, "readHTTPRequest") || strings.HasPrefix(r.Outcome, "value:local:") || strings.HasPrefix(r.Outcome, "value:&") {
				return "value:ok" // a pointer that is known not to be nil / the request that was read
			}
			if strings.HasPrefix(r.Outcome, "value:") && strings.Contains(r.Outcome, "(") && strings.Contains(r.Outcome, ").") {
				return r.Outcome // a field of something a helper built: not classified here
			}
			return "value:ok"
		})
	}
	// the serialisation that is verified is made after the default destination has been filled in:
	// a store to fields.Destination that can follow the json.Marshal of the fields means the
	// signature is checked over a different destination than the one the request reports
	for _, mc := range fw.CallsTo(verify, false, fw.NameIs("encoding/json.Marshal")) {
		if !strings.HasSuffix(fw.Sig(mc.Common().Args[0]), ".fields") {
			continue
		}
		for _, b := range verify.Blocks {
			for _, ins := range b.Instrs {
				if st, isSt := ins.(*ssa.Store); isSt && strings.HasSuffix(fw.Sig(st.Addr), ".fields.Destination") {
					c.Check(!reachesFrom(mc.(ssa.Instruction), st), rule, "the verified serialisation includes the destination the request is reported with", c.P.Pos(fw.InstrPos(st)), "", "fields.Destination is assigned after the fields were serialised for verification: a request signed for no destination is verified over \"\" and reported as addressed to this server")
				}
			}
		}
	}
	nDef := 0
	for _, b := range verify.Blocks {
		for _, ins := range b.Instrs {
			if st, isSt := ins.(*ssa.Store); isSt && strings.HasSuffix(fw.Sig(st.Addr), ".fields.Destination") {
				nDef++
				conds := condsOf(b)
				construct := "the default destination is filled in only when the header carries none"
				absent := func(s string) bool {
					return strings.Contains(s, "("+dest+` == "")`) && !strings.Contains(s, "!("+dest+` == "")`) || strings.Contains(s, "!("+dest+` != "")`)
				}
				if absent(conds) && strings.TrimPrefix(fw.Sig(st.Val), "*&") == "param:destination" {
					c.Ok(rule, construct, c.P.Pos(fw.InstrPos(st)), "")
					continue
				}
				// a store of a value chosen earlier: every alternative is either the name the header
				// carries (a no-op) or the default chosen when the header carries none
				rows, err := fw.ValueRows(verify, st.Val, b)
				verdict, detail := "ok", ""
				if err != nil || len(rows) == 0 {
					verdict, detail = "undecided", "the stored destination could not be split into alternatives"
				}
				for _, r := range rows {
					vs := strings.TrimPrefix(fw.Sig(r.Val), "*&") // a parameter captured by a closure is read through its variable
					switch {
					case vs == dest:
					case vs == "param:destination":
						for _, term := range r.Cond {
							okT := false
							for _, l := range term {
								if (l.Atom == "("+dest+` == "")` && l.Pos) || (l.Atom == "("+dest+` != "")` && !l.Pos) {
									okT = true
								}
								// the header names the default itself: storing the default changes nothing
								if (l.Atom == "("+dest+" == param:destination)" || l.Atom == "(param:destination == "+dest+")") && l.Pos {
									okT = true
								}
							}
							if !okT {
								verdict, detail = "fail", "the default name is stored under ["+fw.DNF{term}.String()+"], not only when the header carries no destination"
							}
						}
					default:
						if verdict == "ok" {
							verdict, detail = "undecided", "the stored destination has an alternative the rule does not recognise: "+vs
						}
					}
				}
				switch verdict {
				case "ok":
					c.Ok(rule, construct, c.P.Pos(fw.InstrPos(st)), "")
				case "fail":
					c.Fail(rule, construct, c.P.Pos(fw.InstrPos(st)), "Destination is overwritten: "+detail+": a request addressed (and signed) to another local name is verified and reported with the default name")
				default:
					c.Undecided(rule, construct, detail)
				}
			}
		}
	}
	c.Min(rule+" default-destination stores", nDef, 1)

	// 5. header emission
	rule5 := "5 emission"
	if h := mustFunc(c, rule5, "fclient.(*FederationRequest).HTTPRequest"); h != nil {
		adds := fw.CallsTo(h, false, fw.NameIs("(net/http.Header).Add"))
		for _, call := range adds {
			if k, _ := fw.ConstString(call.Common().Args[1]); k != "Authorization" {
				continue
			}
			conds := condsOf(call.Block())
			for _, what := range []string{"recv.fields.Origin", "next(range(", "recv.fields.Destination"} {
				ok := false
				for _, part := range strings.Split(conds, " && ") {
					if strings.HasPrefix(part, "gmsl/fclient.isSafeInHTTPQuotedString(") && strings.Contains(part, what) {
						ok = true
					}
				}
				c.Expect(ok, rule5, "the Authorization header is emitted only if "+map[string]string{"recv.fields.Origin": "the origin", "next(range(": "the key id", "recv.fields.Destination": "the destination"}[what]+" is safe in a quoted string", c.P.Pos(call.Pos()), "", "no isSafeInHTTPQuotedString guard on "+what+" was recognised among the conditions of the header emission")
			}
		}
		c.Min(rule5+" Authorization sites", len(adds), 1)
		// positive evidence of a round-trip test that cannot fail: both sides are re-encodings by
		// net/url (what was signed is the string in fields.RequestURI, not its re-encoding)
		for _, iff := range fw.Ifs(h) {
			cv, _ := fw.BoolCond(iff.Cond)
			bo, ok := cv.(*ssa.BinOp)
			if !ok || (bo.Op != token.NEQ && bo.Op != token.EQL) {
				continue
			}
			x, y := fw.Sig(bo.X), fw.Sig(bo.Y)
			if strings.HasPrefix(x, "(*net/url.URL).RequestURI(") && strings.HasPrefix(y, "(*net/url.URL).RequestURI(") {
				c.Fail(rule5, "HTTPRequest: the round-trip test compares with the signed request URI", c.P.Pos(fw.InstrPos(iff)), "the URI that goes on the wire is compared with another re-encoding ("+y+"), not with the signed string fields.RequestURI: a signed URI that net/url re-encodes is sent in a form the destination cannot verify")
			}
		}
		c.CheckGate(rule5, h, "HTTPRequest", fw.GuardCond("request URI round-trips", func(v ssa.Value) (bool, bool) {
			s := fw.Sig(v)
			if strings.HasPrefix(s, "((*net/url.URL).RequestURI(") && strings.HasSuffix(s, "!= *recv.fields.RequestURI)") {
				return false, true
			}
			return false, false
		}), fw.ErrNilSuccess(h, fw.ErrIndex(h), nil))
	}
	// 6. byte classes
	if sf := mustFunc(c, "6 qdtext", "fclient.isSafeInHTTPQuotedString"); sf != nil {
		tbl, err := fw.ExtractTable(sf, 0)
		if err != nil {
			c.Undecided("6 qdtext", "byte table", err.Error())
			return
		}
		// a per-byte predicate in an unexported helper is part of the classification
		tbl.ExpandUnknown(func(atom string) bool { return !fw.AtomCallsUnexportedHelper(atom) })
		// "the byte": the one operand that is compared with small integer constants
		el := ""
		isNum := func(s string) bool { _, err := strconv.Atoi(s); return err == nil }
		for _, atom := range tbl.Atoms() {
			if x, _, y, ok := parseCmp(atom); ok {
				switch {
				case isNum(y) && !isNum(x) && !strings.Contains(x, "builtin.len("):
					if el == "" {
						el = x
					}
				case isNum(x) && !isNum(y) && !strings.Contains(y, "builtin.len("):
					if el == "" {
						el = y
					}
				}
			}
		}
		bad := 0
		unk := map[string]bool{}
		for b := 0; b < 256; b++ {
			env := func(atom string) (bool, bool) {
				// the scanning loop has an element
				if strings.Contains(atom, "< builtin.len(") || strings.HasPrefix(atom, "next(range(") {
					return true, true
				}
				x, op, y, ok := parseCmp(atom)
				if !ok {
					return false, false
				}
				var lhs, rhs int
				switch {
				case x == el:
					n, err := strconv.Atoi(y)
					if err != nil {
						return false, false
					}
					lhs, rhs = b, n
				case y == el:
					n, err := strconv.Atoi(x)
					if err != nil {
						return false, false
					}
					lhs, rhs = n, b
				default:
					return false, false
				}
				switch op {
				case "==":
					return lhs == rhs, true
				case "<=":
					return lhs <= rhs, true
				case "<":
					return lhs < rhs, true
				case ">=":
					return lhs >= rhs, true
				case ">":
					return lhs > rhs, true
				}
				return false, false
			}
			rows, u := tbl.Eval(env)
			for _, x := range u {
				unk[x] = true
			}
			rejected := false
			for _, r := range rows {
				if r.Outcome == "value:false" {
					rejected = true
				}
			}
			safe := b == 0x09 || b == 0x20 || b == 0x21 || (b >= 0x23 && b <= 0x5B) || (b >= 0x5D && b <= 0x7E) || b >= 0x80
			if len(unk) > 0 {
				continue // conditions the rule does not understand: no verdict
			}
			if rejected == safe {
				bad++
				c.Fail("6 qdtext", fmt.Sprintf("byte 0x%02X is classified as RFC 7230 qdtext says", b), c.P.Pos(sf.Pos()), fmt.Sprintf("byte 0x%02X: code says safe=%v, RFC 7230 qdtext says safe=%v", b, !rejected, safe))
			}
		}
		for u := range unk {
			c.Undecided("6 qdtext", "unrecognised condition", u)
		}
		if bad == 0 && len(unk) == 0 {
			c.Ok("6 qdtext", "all 256 byte values are classified as RFC 7230 qdtext / obs-text", c.P.Pos(sf.Pos()), "exhaustive")
		}
		c.Count("bytes_classified", 256)
	}
}

// resolveLocalField: a value read from a field of a local struct that is written exactly once
// (a struct literal used to carry several values) is the value written there.
func resolveLocalField(v ssa.Value) ssa.Value {
	for i := 0; i < 4; i++ {
		u, ok := v.(*ssa.UnOp)
		if !ok || u.Op != token.MUL {
			return v
		}
		fa, ok := u.X.(*ssa.FieldAddr)
		if !ok {
			return v
		}
		al, ok := fa.X.(*ssa.Alloc)
		if !ok {
			return v
		}
		var stored []ssa.Value
		for _, ref := range *al.Referrers() {
			if fa2, isFA := ref.(*ssa.FieldAddr); isFA && fa2.Field == fa.Field {
				for _, r2 := range *fa2.Referrers() {
					if st, isSt := r2.(*ssa.Store); isSt && st.Addr == ssa.Value(fa2) {
						stored = append(stored, st.Val)
					}
				}
			}
		}
		if len(stored) != 1 {
			return v
		}
		v = stored[0]
	}
	return v
}

// admissionTerm: the term establishes that the Content-Type parsed, is application/json and
// that the body is valid UTF-8 (any operand order, either spelling of the comparisons).
func admissionTerm(term fw.Term) bool {
	parsed, isJSON, utf8ok := false, false, false
	for _, l := range term {
		a := l.Atom
		switch {
		case strings.Contains(a, "mime.ParseMediaType(") && strings.Contains(a, "#2") && strings.Contains(a, "nil"):
			if strings.Contains(a, " != ") {
				parsed = !l.Pos
			} else if strings.Contains(a, " == ") {
				parsed = l.Pos
			}
		case strings.Contains(a, "mime.ParseMediaType(") && strings.Contains(a, "#0") && strings.Contains(a, `"application/json"`):
			if strings.Contains(a, " != ") {
				isJSON = !l.Pos
			} else if strings.Contains(a, " == ") {
				isJSON = l.Pos
			}
		case strings.HasPrefix(a, "unicode/utf8.Valid("):
			utf8ok = l.Pos
		}
	}
	return parsed && isJSON && utf8ok
}
