package props

import (
	"fmt"
	"go/constant"
	"go/token"
	"go/types"
	"regexp"
	"strings"

	"gmslverif/fw"

	"golang.org/x/tools/go/ssa"
)

func init() { register("C17", checkC17) }

// redactionKeyOf resolves the function in a redactionAlgorithm cell to the oracle key
// ("redaction:vN") whose tables it implements, by evaluating what it passes to the generic
// redaction routine: (top-level projection struct, content keep-table). Returns a
// description when no oracle table matches.
func redactionKeyOf(c *fw.Ctx, fnShort string) (key string, detail string) {
	fn := fnByShortName(c.P, fnShort)
	if fn == nil {
		return "", "UNRESOLVED: function " + fnShort + " not found"
	}
	// the call of the generic routine (possibly through unexported wrappers): its projection
	// argument's type and its keep-table argument resolved to a package-level literal
	var st *types.Struct
	var tbl fw.Val
	found := false
	for _, dc := range fw.DeepCalls(fn, func(n string) bool {
		return strings.HasPrefix(n, "gmsl.redactEventJSON[") || n == "gmsl.redactEventJSON"
	}, stopExported) {
		args := dc.Call.Common().Args
		if len(args) != 3 {
			continue
		}
		t := args[1].Type()
		if p, ok := t.Underlying().(*types.Pointer); ok {
			st, _ = p.Elem().Underlying().(*types.Struct)
		}
		tv, _ := rootOf(args[2], dc.Fr)
		if u, ok := tv.(*ssa.UnOp); ok {
			tv = u.X
		}
		g, isG := tv.(*ssa.Global)
		if !isG || st == nil {
			continue
		}
		gpkg := c.P.Pkgs[g.Pkg.Pkg.Path()]
		init, _ := fw.PkgVarInit(gpkg, g.Name())
		if init == nil {
			continue
		}
		ev := &fw.Evaluator{P: c.P, Pkg: gpkg}
		tbl = ev.Eval(init)
		found = true
		break
	}
	if !found {
		return "", "UNRESOLVED: " + fnShort + " does not call the generic redaction routine with (json, projection struct, package-level table) in a form the rule can resolve"
	}
	top := map[string]bool{}
	for _, k := range fw.JSONTags(st) {
		if k != "" && k != "-" {
			top[k] = true
		}
	}
	if tbl.Kind != "map" {
		return "", "UNRESOLVED: content table argument of " + fnShort + " is not a map literal (" + tbl.Expr + ")"
	}
	content := map[string]map[string]bool{}
	for i, k := range tbl.Keys {
		ks, ok := k.Str()
		if !ok || tbl.Elems[i].Kind != "list" {
			return "", "UNRESOLVED: content table of " + fnShort + " has a non-literal entry"
		}
		set := map[string]bool{}
		for _, e := range tbl.Elems[i].Elems {
			s, ok := e.Str()
			if !ok {
				return "", "UNRESOLVED: content table of " + fnShort + " has a non-constant key"
			}
			set[s] = true
		}
		content[ks] = set
	}
	var why []string
	for _, name := range fw.SortedKeys(redactionSpecs) {
		sp := redactionSpecs[name]
		if !sameSet(top, setOf(sp.top...)) {
			continue
		}
		ok := len(content) == len(sp.content)
		for typ, keys := range sp.content {
			if got, has := content[typ]; !has || !sameSet(got, setOf(keys...)) {
				ok = false
			}
		}
		if ok {
			return name, ""
		}
	}
	// describe against the closest oracle for diagnostics
	for _, name := range fw.SortedKeys(redactionSpecs) {
		sp := redactionSpecs[name]
		if sameSet(top, setOf(sp.top...)) {
			for typ, keys := range sp.content {
				if got, has := content[typ]; !has {
					why = append(why, fmt.Sprintf("vs %s: no entry for %s", name, typ))
				} else if !sameSet(got, setOf(keys...)) {
					why = append(why, fmt.Sprintf("vs %s: %s %s", name, typ, diffSets(got, setOf(keys...))))
				}
			}
			for typ := range content {
				if _, has := sp.content[typ]; !has {
					why = append(why, fmt.Sprintf("vs %s: unexpected entry %s", name, typ))
				}
			}
		}
	}
	if len(why) == 0 {
		why = append(why, "top-level keep-list matches no specified algorithm: "+strings.Join(sortedSet(top), ","))
	}
	if len(why) > 6 {
		why = why[:6]
	}
	return "", strings.Join(why, "; ")
}

// checkVersionMatrix compares every (version, field) cell with the oracle. fieldsFilter
// nil = all fields. Returns the table.
func checkVersionMatrix(c *fw.Ctx, rule string, fields map[string]bool) *versionTable {
	t := loadVersionTable(c, rule)
	if t == nil {
		return nil
	}
	want := setOf(allVersions...)
	got := setOf(t.versions...)
	if !sameSet(got, want) {
		c.Fail(rule, "registered room versions", "", "the set of registered versions differs from the 16 the oracle knows: "+diffSets(got, want))
	} else {
		c.Ok(rule, "registered room versions", "", fmt.Sprintf("%d versions", len(t.versions)))
	}
	redCache := map[string][2]string{}
	cells := 0
	// unexported functions may be renamed: per function-valued column, a one-to-one
	// correspondence between the expected and the registered function names that keeps the
	// partition of the versions is a renaming, not a different assignment
	renamed := map[string]map[string]string{} // field -> expected name -> registered name
	for _, f := range t.fields {
		if fields != nil && !fields[f] {
			continue
		}
		fwd, bwd := map[string]map[string]bool{}, map[string]map[string]bool{}
		expNames := map[string]bool{}
		for _, ver := range t.versions {
			exp, ok := specCell(ver, f)
			got := t.cell(ver, f)
			// the registered value may also be a method expression or method value of an
			// unexported type ("(gmsl.T).m")
			if !ok || !strings.HasPrefix(exp, "gmsl.") || !(strings.HasPrefix(got, "gmsl.") || strings.HasPrefix(got, "(gmsl.") || strings.HasPrefix(got, "(*gmsl.")) {
				continue
			}
			expNames[exp] = true
			if fwd[exp] == nil {
				fwd[exp] = map[string]bool{}
			}
			if bwd[got] == nil {
				bwd[got] = map[string]bool{}
			}
			fwd[exp][got] = true
			bwd[got][exp] = true
		}
		m := map[string]string{}
		okAll := len(fwd) > 0
		for exp, gots := range fwd {
			if len(gots) != 1 {
				okAll = false
				break
			}
			for got := range gots {
				short := strings.TrimPrefix(got, "gmsl.")
				if i := strings.LastIndex(short, ")."); i >= 0 {
					short = short[i+2:] // the method name of a method expression
				}
				exported := len(short) > 0 && short[0] >= 'A' && short[0] <= 'Z'
				if len(bwd[got]) != 1 || (got != exp && (expNames[got] || exported || (c.P.Func(strings.TrimPrefix(exp, "gmsl.")) != nil && !forwardsTo(c.P.Func(strings.TrimPrefix(exp, "gmsl.")), got)))) {
					okAll = false
				}
				m[exp] = got
			}
		}
		if okAll {
			renamed[f] = m
		}
	}
	for _, ver := range t.versions {
		if !want[ver] {
			continue
		}
		for _, f := range t.fields {
			if fields != nil && !fields[f] {
				continue
			}
			exp, ok := specCell(ver, f)
			construct := fmt.Sprintf("version %s field %s", ver, f)
			if !ok {
				c.Undecided(rule, construct, "RoomVersionImpl has a field the oracle does not know; the specification column must be transcribed first")
				continue
			}
			cells++
			gotCell := t.cell(ver, f)
			if f == "redactionAlgorithm" {
				r, seen := redCache[gotCell]
				if !seen {
					k, d := redactionKeyOf(c, gotCell)
					r = [2]string{k, d}
					redCache[gotCell] = r
				}
				if r[0] == "" && strings.HasPrefix(r[1], "UNRESOLVED:") {
					c.Undecided(rule, construct, r[1])
					continue
				}
				if r[0] == "" {
					// the table content itself is judged by C05; here only the binding matters
					c.Fail(rule, construct, t.rowPos[ver], fmt.Sprintf("redaction algorithm %s implements none of the specified algorithms exactly (%s); expected %s", gotCell, r[1], exp))
					continue
				}
				gotCell = r[0]
			}
			if gotCell != exp && renamed[f] != nil && renamed[f][exp] == gotCell {
				c.Undecided(rule, construct, fmt.Sprintf("the column uses %s where the oracle names %s: the assignment of functions to versions has the specified shape, the function under the new name is not judged", gotCell, exp))
				continue
			}
			c.Check(gotCell == exp, rule, construct, t.rowPos[ver], gotCell, fmt.Sprintf("table says %s, the specification assigns %s", gotCell, exp))
		}
	}
	c.Count("version_cells", cells)
	c.Min(rule+" cells", cells, 1)
	return t
}

func checkC17(c *fw.Ctx) {
	c.Explanation = "C17 (static): the room-version table is evaluated from the source literal and compared cell by cell with the specification matrix (exhaustive over 16 versions x every RoomVersionImpl field); the size-limit constants, the lenient-version set, the port bit-size, the CheckFields classification order and the presence of CheckFields at the end of every constructor / Build are read off the typed syntax and SSA."
	c.Exhaustive = true
	c.NotDecidedClause("grammar equivalence of user-ID / room-ID / server-name parsers on all strings")
	c.NotDecidedClause("base64 decode/encode round trip on all byte strings")
	c.NotDecidedClause("re-concatenation of identifier parts")

	// 1. version matrix
	t := checkVersionMatrix(c, "1 version-matrix", nil)

	root := c.P.Pkg("")
	// lenient set == registered versions
	if t != nil {
		if init, pos := fw.PkgVarInit(root, "lenientByteLimitRoomVersions"); init != nil {
			v := (&fw.Evaluator{P: c.P, Pkg: root}).Eval(init)
			got := map[string]bool{}
			okLit := v.Kind == "map"
			for _, k := range v.Keys {
				s, ok := k.Str()
				if !ok {
					okLit = false
				}
				got[s] = true
			}
			if !okLit {
				c.Undecided("2 limits", "lenientByteLimitRoomVersions", "not a literal with constant keys")
			} else {
				c.Check(sameSet(got, setOf(t.versions...)), "2 limits", "lenientByteLimitRoomVersions == registered versions", c.P.Pos(pos), fmt.Sprintf("%d versions", len(got)), "lenient byte-limit set differs from the registered versions: "+diffSets(got, setOf(t.versions...)))
			}
		} else {
			c.Undecided("2 limits", "lenientByteLimitRoomVersions", "variable not found")
		}
	}
	// 2. constants
	for name, want := range map[string]int64{"maxIDLength": 255, "maxEventLength": 65536} {
		cv, ok := fw.ConstValue(root, name)
		if !ok {
			c.Undecided("2 limits", "constant "+name, "constant not found")
			continue
		}
		iv, _ := constant.Int64Val(cv)
		c.Check(iv == want, "2 limits", "constant "+name, "", fmt.Sprint(iv), fmt.Sprintf("%s = %d, specification says %d", name, iv, want))
	}
	checkFieldsTable(c)

	// every untrusted constructor and Build end in CheckFields
	if t != nil {
		ctors := map[string]bool{}
		for _, ver := range t.versions {
			ctors[t.cell(ver, "newEventFromUntrustedJSONFunc")] = true
		}
		n := 0
		for _, short := range sortedSet(ctors) {
			fn := fnByShortName(c.P, short)
			if fn == nil {
				c.Undecided("2 limits", "constructor "+short, "not found")
				continue
			}
			n++
			c.CheckGate("2 limits", fn, short, fw.GuardCallErrNil("CheckFields", fw.NameIs("gmsl.CheckFields")), fw.ErrNilSuccess(fn, fw.ErrIndex(fn), fw.IsTail(fw.NameIs("gmsl.CheckFields"))))
		}
		c.Min("2 limits untrusted constructors", n, 3)
	}
	if fn := mustFunc(c, "2 limits", "(*EventBuilder).Build"); fn != nil {
		c.CheckGate("2 limits", fn, "(*EventBuilder).Build", fw.GuardCallErrNil("CheckFields", fw.NameIs("gmsl.CheckFields")), fw.ErrNilSuccess(fn, fw.ErrIndex(fn), fw.IsTail(fw.NameIs("gmsl.CheckFields"))))
	}

	// 4. port bit size
	if fn := mustFunc(c, "4 port", "spec.splitServerName"); fn != nil {
		calls := fw.CallsTo(fn, false, func(n string) bool { return strings.HasPrefix(n, "strconv.") })
		found := false
		for _, call := range calls {
			name := fw.CalleeName(call)
			if name == "strconv.ParseUint" && len(call.Common().Args) == 3 {
				base, _ := fw.ConstInt(call.Common().Args[1])
				bits, _ := fw.ConstInt(call.Common().Args[2])
				if base == 10 && bits == 16 {
					found = true
				} else {
					c.Fail("4 port", "splitServerName parses the port as an unsigned 16-bit decimal", c.P.Pos(call.Pos()), fmt.Sprintf("ParseUint(base %d, bitSize %d): ports above 65535 or non-decimal ports are accepted", base, bits))
					found = true
				}
			} else {
				c.Fail("4 port", "splitServerName parses the port as an unsigned 16-bit decimal", c.P.Pos(call.Pos()), name+" does not bound the port to 0..65535 / reject signs")
				found = true
			}
		}
		if !found {
			c.Undecided("4 port", "splitServerName parses the port as an unsigned 16-bit decimal", "no strconv parse of the port was found in splitServerName")
		} else if len(calls) == 1 {
			if name := fw.CalleeName(calls[0]); name == "strconv.ParseUint" {
				b, _ := fw.ConstInt(calls[0].Common().Args[1])
				s, _ := fw.ConstInt(calls[0].Common().Args[2])
				if b == 10 && s == 16 {
					c.Ok("4 port", "splitServerName parses the port as an unsigned 16-bit decimal", c.P.Pos(calls[0].Pos()), "strconv.ParseUint(_, 10, 16)")
				}
			}
		}
	}
	checkBuildFormats(c)
	checkLenientAcceptors(c, "4 grammar", "spec.parseAndValidateRoomID", "spec.parseAndValidateUserID", "spec.ParseAndValidateServerName")
	checkGrammarRegexps(c, "4 grammar")
}

// checkFieldsTable: CheckFields classification (oracle 4.9) decided structurally:
// every return of an EventValidationError literal is classified by the comparison that
// guards it; hard (code point / total size) refusals must not set Persistable, and every
// hard check must precede (dominate) every lenient (byte-length) check.
type limitSite struct {
	iff        *ssa.If
	fr         *fw.Frame
	kind       string // "runes", "bytes", "json"
	limit      string
	persistSet bool
	at         ssa.Instruction // the refusal itself (a return, or a store into a result)
	subject    string          // what was measured, resolved through the frames ("" if not a plain len/rune count of a value)
}

// measuredSubject names the event field whose length is compared, following helper parameters
// to the caller's argument: "the room id", "the sender", "the type", "the state key", or the
// rendered value when it is none of those.
func measuredSubject(v ssa.Value, fr *fw.Frame) string {
	for i := 0; i < 6; i++ {
		p, ok := v.(*ssa.Parameter)
		if !ok || fr == nil {
			break
		}
		a, ok := fr.ArgOf(p)
		if !ok {
			break
		}
		v, fr = a, fr.Parent
	}
	s := fw.SigIn(fr, v)
	switch {
	case strings.Contains(s, "RoomID"):
		return "the room id"
	case strings.Contains(s, "Sender"):
		return "the sender"
	case strings.Contains(s, "StateKey"):
		return "the state key"
	case strings.Contains(s, ".Type") || strings.Contains(s, "Type("):
		return "the type"
	}
	return s
}

// limitSites: the length comparisons (l > const) of root and of the callees `enter` admits,
// classified by what is measured, with whether the refusal behind them is persistable.
func limitSites(root *ssa.Function, enter func(*ssa.Function) bool) []limitSite {
	var sites []limitSite
	seenIf := map[string]bool{}
	for _, di := range fw.DeepInstrsEnter(root, enter) {
		// a refusal: an EventValidationError handed back (returned, or stored into a result)
		var errVal ssa.Value
		switch x := di.Instr.(type) {
		case *ssa.Return:
			if len(x.Results) > 0 {
				errVal = x.Results[len(x.Results)-1]
			}
		case *ssa.Store:
			if isErrorIface(x.Val.Type()) {
				errVal = x.Val
			}
		}
		if errVal == nil {
			continue
		}
		if _, isPhi := errVal.(*ssa.Phi); isPhi {
			continue // a merged result: its alternatives are seen where they are produced
		}
		val, _, found := fw.StructFieldValue(errVal, di.Fr, "Persistable", 0)
		if !found {
			continue
		}
		persist := false
		if val != nil {
			if cst, ok := val.(*ssa.Const); !ok || cst.Value == nil || constant.BoolVal(cst.Value) {
				persist = true
			}
		}
		// what was measured: the innermost dominating comparison of a length with a constant
		// that holds in its "greater than" sense here
		facts := fw.DomConds(di.Instr.Block())
		for i := len(facts) - 1; i >= 0; i-- {
			f := facts[i]
			bo, ok := f.If.Cond.(*ssa.BinOp)
			if !ok {
				continue
			}
			lim, isC := fw.ConstInt(bo.Y)
			if !isC {
				continue
			}
			exceeds := (bo.Op == token.GTR && f.Taken) || (bo.Op == token.LEQ && !f.Taken)
			if !exceeds {
				continue
			}
			kind := ""
			subject := ""
			if x, isCall := fw.Unwrap(bo.X).(*ssa.Call); isCall {
				if len(x.Common().Args) == 1 {
					subject = measuredSubject(x.Common().Args[0], di.Fr)
				}
				switch fw.CalleeName(x) {
				case "unicode/utf8.RuneCountInString":
					kind = "runes"
				case "builtin.len":
					kind = "bytes"
					if len(x.Common().Args) == 1 {
						if cc, _ := fw.CallOf(x.Common().Args[0]); cc != nil && strings.HasSuffix(fw.CalleeName(cc), ".JSON") {
							kind = "json"
						}
					}
				}
			}
			if kind == "" {
				continue
			}
			key := fmt.Sprintf("%p|%p|%s", f.If, di.Fr, kind)
			if !seenIf[key] {
				seenIf[key] = true
				sites = append(sites, limitSite{iff: f.If, fr: di.Fr, kind: kind, limit: fmt.Sprint(lim), persistSet: persist, at: di.Instr, subject: subject})
			}
			break
		}
	}
	return sites
}

func isErrorIface(t types.Type) bool {
	return types.Identical(t, types.Universe.Lookup("error").Type())
}

// anchorOf: the instruction of the root function through which a (possibly deep) site is reached.
func (x limitSite) anchor() ssa.Instruction {
	var a ssa.Instruction = x.iff
	for f := x.fr; f != nil; f = f.Parent {
		a = f.Site
	}
	return a
}

// hardBeforeLenient: on every path, hard site h is evaluated before lenient site l.
func hardBeforeLenient(h, l limitSite) bool {
	idx := func(i ssa.Instruction) int {
		for k, x := range i.Block().Instrs {
			if x == i {
				return k
			}
		}
		return -1
	}
	// the two sites are reached through chains of call sites; they are ordered at the first
	// level where the chains differ (both instructions are then in the same function)
	// (the hard check counts from where it is evaluated, the lenient one from where it refuses)
	ch, cl := h.chain(), l.chain()
	var refusal ssa.Instruction
	if l.at != nil && len(cl) > 0 {
		refusal = l.at
	}
	k := 0
	for k < len(ch) && k < len(cl) && ch[k] == cl[k] {
		k++
	}
	if k >= len(ch) || k >= len(cl) {
		return false
	}
	ah, al := ch[k], cl[k]
	// checks on mutually exclusive paths (e.g. the two CheckFields calls of a constructor, one
	// on the hash-mismatch path) never run for the same event: nothing to order
	if ah.Block() != al.Block() && !fw.ReachableFrom(ah.Block(), nil)[al.Block()] && !fw.ReachableFrom(al.Block(), nil)[ah.Block()] {
		return true
	}
	if ah.Block() == al.Block() {
		return idx(ah) < idx(al)
	}
	if ah.Block().Dominates(al.Block()) || postDominatedSkip(ah.Block(), al.Block()) {
		return true
	}
	// the lenient comparison may be evaluated first as long as the hard one is evaluated before
	// the lenient refusal is issued (`if bytes <= max {return nil}; if runes > max {hard}; lenient`)
	if refusal != nil && k == len(cl)-1 && refusal.Block() != al.Block() {
		return ah.Block().Dominates(refusal.Block())
	}
	return false
}

// chain: the call sites through which the site is reached, outermost first, then the site.
func (x limitSite) chain() []ssa.Instruction {
	var rev []ssa.Instruction
	rev = append(rev, x.iff)
	for f := x.fr; f != nil; f = f.Parent {
		rev = append(rev, f.Site)
	}
	for i, j := 0, len(rev)-1; i < j; i, j = i+1, j-1 {
		rev[i], rev[j] = rev[j], rev[i]
	}
	return rev
}

// checkFieldsTable: CheckFields classification (oracle 4.9) decided structurally:
// every return of an EventValidationError literal is classified by the comparison that
// guards it; hard (code point / total size) refusals must not set Persistable, and every
// hard check must precede (dominate) every lenient (byte-length) check - in CheckFields and
// across each untrusted constructor that calls it.
func checkFieldsTable(c *fw.Ctx) {
	rule := "2 limits"
	fn := mustFunc(c, rule, "CheckFields")
	if fn == nil {
		return
	}
	sites := limitSites(fn, func(f *ssa.Function) bool { return f.Object() == nil || !f.Object().Exported() })
	var hard, lenient []limitSite
	for _, s := range sites {
		want := map[string]string{"runes": "255", "bytes": "255", "json": "65536"}[s.kind]
		c.Check(s.limit == want, rule, fmt.Sprintf("CheckFields %s limit", s.kind), c.P.Pos(fw.InstrPos(s.iff)), s.limit, fmt.Sprintf("%s limit is %s, specification says %s", s.kind, s.limit, want))
		switch s.kind {
		case "runes", "json":
			hard = append(hard, s)
			c.Check(!s.persistSet, rule, fmt.Sprintf("CheckFields %s refusal is not persistable", s.kind), c.P.Pos(fw.InstrPos(s.iff)), "", "a code-point / total-size violation is reported as persistable")
		case "bytes":
			lenient = append(lenient, s)
			c.Check(s.persistSet, rule, "CheckFields byte-only refusal is persistable for lenient versions", c.P.Pos(fw.InstrPos(s.iff)), "", "the byte-length-only violation never sets Persistable")
		}
	}
	c.Min(rule+" CheckFields hard checks", len(hard), 3)
	c.Min(rule+" CheckFields lenient checks", len(lenient), 2)
	for _, l := range lenient {
		for _, h := range hard {
			c.Check(hardBeforeLenient(h, l), rule, "CheckFields: hard limits are checked before byte-only limits", c.P.Pos(fw.InstrPos(l.iff)), "", fmt.Sprintf("the persistable byte-length check at %s can be reached before the non-persistable %s check at %s: an event violating both is reported persistable", c.P.Pos(fw.InstrPos(l.iff)), h.kind, c.P.Pos(fw.InstrPos(h.iff))))
		}
	}
	// across the untrusted constructors: the room-ID validation and CheckFields together
	for short, ctor := range tableFuncs(c, rule, "newEventFromUntrustedJSONFunc") {
		all := limitSites(ctor, func(f *ssa.Function) bool {
			return f.Object() == nil || !f.Object().Exported() || fw.FuncName(f) == "gmsl.CheckFields"
		})
		var hs, ls []limitSite
		for _, s := range all {
			if s.kind == "bytes" && s.persistSet {
				ls = append(ls, s)
			} else if s.kind != "bytes" {
				hs = append(hs, s)
			}
		}
		// one obligation per (constructor, routine holding the byte-only check)
		bad := map[string]string{}
		dyn := map[string]bool{}
		seen := map[string]bool{}
		// the same hard comparison can be reached through several call chains (the hash-mismatch
		// path re-parses the redacted event, which runs all checks again for that other object):
		// it has been evaluated for this event as soon as one of its chains precedes the refusal
		classes := map[*ssa.If][]limitSite{}
		for _, h := range hs {
			classes[h.iff] = append(classes[h.iff], h)
		}
		for _, l := range ls {
			// what is measured names the obligation (the routine that holds the check may be
			// renamed or split; the field whose byte length is refused early stays the same)
			what := l.subject
			if what == "" {
				what = "a value compared in " + strings.TrimPrefix(fw.FuncName(l.iff.Parent()), "gmsl.")
			}
			seen[what] = true
			for _, members := range classes {
				any := false
				for _, h := range members {
					if hardBeforeLenient(h, l) {
						any = true
					}
				}
				h := members[0]
				if !any && underTypeTest(l) {
					// the byte-only check sits behind a test of a dynamic type (one executor shared
					// by the constructors of several event layouts): whether this constructor ever
					// takes that branch is not visible path-insensitively
					dyn[what] = true
				}
				if !any {
					bad[what] = fmt.Sprintf("the persistable byte-length check at %s (on %s) can run before the non-persistable %s check at %s: an event that only exceeds the byte limit there but breaks a hard limit elsewhere is reported persistable", c.P.Pos(fw.InstrPos(l.iff)), what, h.kind, c.P.Pos(fw.InstrPos(h.iff)))
				}
			}
		}
		for _, what := range sortedSet(seen) {
			construct := short + ": the byte-only limit on " + what + " follows every hard limit"
			if d, isBad := bad[what]; isBad && dyn[what] {
				c.Undecided(rule, construct, "reached only behind a dynamic type test: "+d)
			} else if isBad {
				c.Fail(rule, construct, c.P.Pos(ctor.Pos()), d)
			} else {
				c.Ok(rule, construct, c.P.Pos(ctor.Pos()), "")
			}
		}
	}
}

// underTypeTest: somewhere on the call chain to the site, the step is taken only under a
// condition on the result of a type assertion / type switch.
func underTypeTest(x limitSite) bool {
	for _, ins := range x.chain() {
		if ins == nil || ins.Block() == nil {
			continue
		}
		for _, f := range fw.DomConds(ins.Block()) {
			var ops []*ssa.Value
			ci, isInstr := f.If.Cond.(ssa.Instruction)
			if !isInstr {
				continue
			}
			for _, o := range ci.Operands(ops) {
				if o == nil || *o == nil {
					continue
				}
				switch y := (*o).(type) {
				case *ssa.TypeAssert:
					return true
				case *ssa.Extract:
					if _, ok := y.Tuple.(*ssa.TypeAssert); ok {
						return true
					}
				}
			}
			switch y := f.If.Cond.(type) {
			case *ssa.Extract:
				if _, ok := y.Tuple.(*ssa.TypeAssert); ok {
					return true
				}
			}
		}
	}
	return false
}

// postDominatedSkip: h is inside an optional region (e.g. `if StateKey() != nil { h }`) that is
// entered or skipped before l; l must be unreachable from inside that region without passing h,
// and the region's entry must dominate l. We accept when the block deciding to enter h's region
// dominates l and h's failing edge does not reach l.
func postDominatedSkip(hb, lb *ssa.BasicBlock) bool {
	// l must come after h: no way back from l to h
	if hb == lb || fw.ReachableFrom(lb, nil)[hb] {
		return false
	}
	// walk up through single-predecessor chain to the deciding block
	d := hb.Idom()
	for d != nil && !d.Dominates(lb) {
		d = d.Idom()
	}
	if d == nil {
		return false
	}
	// from d, any path to l either passes hb or skips the region entirely (the optional check does not apply).
	// Remove hb: l must still be reachable (region skipped) and every path from hb's region entry goes through hb.
	// The region entry is the successor of d that dominates hb.
	for _, s := range d.Succs {
		if s.Dominates(hb) && s != lb && !s.Dominates(lb) {
			// blocks in the region before hb
			removed := map[fw.Edge]bool{}
			for _, p := range hb.Preds {
				removed[fw.Edge{From: p, To: hb}] = true
			}
			reach := fw.ReachableFrom(s, removed)
			if s == hb {
				return true
			}
			return !reach[lb]
		}
	}
	return false
}

func derefStructName(t types.Type) string {
	if p, ok := t.Underlying().(*types.Pointer); ok {
		return fw.Short(p.Elem().String())
	}
	return fw.Short(t.String())
}

// checkBuildFormats: Build deletes event_id exactly for EventFormatV2, generates the id only
// for EventIDFormatV1, and refuses v12 create events that carry a room id.
func checkBuildFormats(c *fw.Ctx) {
	rule := "3 build-format"
	fn := mustFunc(c, rule, "(*EventBuilder).Build")
	if fn == nil {
		return
	}
	// sjson.DeleteBytes(_, "event_id") is control-dependent on eventFormat == EventFormatV2 (2)
	dels := 0
	for _, call := range fw.CallsTo(fn, false, fw.NameIs("github.com/tidwall/sjson.DeleteBytes")) {
		if s, ok := fw.ConstString(call.Common().Args[1]); ok && s == "event_id" {
			dels++
			ok := false
			for d := call.Block(); d != nil; d = d.Idom() {
				id := d.Idom()
				if id == nil {
					break
				}
				if iff, isIf := id.Instrs[len(id.Instrs)-1].(*ssa.If); isIf {
					if b, isB := iff.Cond.(*ssa.BinOp); isB {
						if v, isC := fw.ConstInt(b.Y); isC && v == 2 && id.Succs[0] == d && strings.Contains(fw.Short(b.X.Type().String()), "EventFormat") {
							ok = true
						}
					}
				}
			}
			if !ok {
				// other spellings of the same guard (2 != f negated, a switch, a stage loop): read the
				// path condition instead of the dominating If
				conds := condsOf(call.Block())
				if strings.Contains(conds, ".EventFormat(") && !strings.Contains(conds, "EventIDFormat(") && eventFormat2Guard(conds) {
					ok = true
				} else if blockInLoop(call.Block()) {
					c.Undecided(rule, "Build deletes event_id only under eventFormat == EventFormatV2", "the deletion sits in a loop over build stages; its guard was not read")
					continue
				}
			}
			c.Check(ok, rule, "Build deletes event_id only under eventFormat == EventFormatV2", c.P.Pos(call.Pos()), "", "the event_id deletion is not guarded by the event format test")
		}
	}
	c.Min(rule+" event_id deletion", dels, 1)
}

// checkLenientAcceptors ("4 grammar"): the identifier parsers accept exactly their grammar.
// That is a statement about strings and is not decided here; what the code does show is which
// library routine decides acceptance. Some routines are known to accept more than the grammar:
// base64 decoders skip CR / LF (and spec.Base64Bytes.Decode takes either alphabet), netip's
// address parsers accept IPv6 zone identifiers. A parser whose region calls one of them without
// the strict test next to it (a regexp match / a Zone() test) accepts strings outside the grammar.
func checkLenientAcceptors(c *fw.Ctx, rule string, specs ...string) {
	strict := 0
	for _, spec := range specs {
		fn := mustFunc(c, rule, spec)
		if fn == nil {
			continue
		}
		all := fw.AllDeepCalls(fn, stopExported)
		has := func(sub ...string) bool {
			for _, dc := range all {
				n := fw.CalleeName(dc.Call)
				for _, s := range sub {
					if strings.Contains(n, s) {
						return true
					}
				}
			}
			return false
		}
		bad := 0
		for _, dc := range all {
			n := fw.CalleeName(dc.Call)
			pos := c.P.Pos(dc.Call.Pos())
			switch {
			case strings.HasPrefix(n, "(*encoding/base64.Encoding).Decode") || strings.Contains(n, "spec.Base64Bytes).Decode") || strings.Contains(n, "spec.Base64Bytes).UnmarshalJSON"):
				if !has("regexp.Regexp).MatchString", "regexp.Regexp).Match(", "regexp.MatchString") {
					bad++
					c.Fail(rule, spec+" does not accept through a lenient library routine", pos, n+" decides acceptance in "+spec+" with no pattern match beside it: base64 decoders skip CR / LF (and Base64Bytes.Decode takes the standard alphabet too), so identifiers outside the grammar are accepted")
				}
			case n == "net/netip.ParseAddr" || n == "net/netip.ParseAddrPort" || n == "net/netip.MustParseAddr":
				if !has("netip.Addr).Zone") {
					bad++
					c.Fail(rule, spec+" does not accept through a lenient library routine", pos, n+" decides acceptance in "+spec+" and the zone of the result is never examined: IPv6 literals with a zone identifier (fe80::1%eth0) are accepted as server names")
				}
			case n == "net.ParseIP" || strings.Contains(n, "regexp.Regexp).MatchString") || n == "strconv.ParseUint":
				strict++
			}
		}
		if bad == 0 {
			c.Ok(rule, spec+" does not accept through a lenient library routine", c.P.Pos(fn.Pos()), fmt.Sprintf("%d library calls in its region, none of the known lenient acceptors", len(all)))
		}
	}
	c.Count("strict library acceptors recognised in the identifier parsers", strict)
}

// checkGrammarRegexps ("4 grammar"): the regular expressions that decide identifier grammars are
// anchored at both ends and case sensitive. Go's (?i) is Unicode simple case folding: under it
// [a-z] / k also match U+212A KELVIN SIGN and s matches U+017F LONG S, so a pattern that reads
// "ASCII letters, either case" accepts non-ASCII identifiers.
func checkGrammarRegexps(c *fw.Ctx, rule string) {
	n := 0
	var fns []*ssa.Function
	seenPkg := map[*ssa.Package]bool{}
	for _, fn := range c.P.SrcFuncs() {
		if fn.Pkg == nil || !strings.HasSuffix(fn.Pkg.Pkg.Path(), "/spec") {
			continue
		}
		fns = append(fns, fn)
		if !seenPkg[fn.Pkg] {
			seenPkg[fn.Pkg] = true
			if ini := fn.Pkg.Func("init"); ini != nil {
				fns = append(fns, ini) // package-level `var re = regexp.MustCompile(...)`
			}
		}
	}
	for _, fn := range fns {
		for _, call := range fw.Calls(fn) {
			switch fw.CalleeName(call) {
			case "regexp.MustCompile", "regexp.Compile", "regexp.MustCompilePOSIX", "regexp.CompilePOSIX", "regexp.MatchString", "regexp.Match":
			default:
				continue
			}
			pat, ok := fw.ConstString(call.Common().Args[0])
			if !ok {
				continue
			}
			n++
			construct := fmt.Sprintf("identifier pattern %q is anchored and case sensitive", pat)
			pos := c.P.Pos(call.Pos())
			flags := regexp.MustCompile(`\(\?[a-zA-Z]*i[a-zA-Z]*[:)-]`)
			switch {
			case flags.MatchString(pat):
				c.Fail(rule, construct, pos, "the pattern is matched case-insensitively: Go folds case over all of Unicode, so letter classes also match U+212A (Kelvin sign, folds to k) and U+017F (long s): identifiers with non-ASCII characters are accepted")
			case !strings.HasPrefix(pat, "^") || !strings.HasSuffix(pat, "$"):
				c.Undecided(rule, construct, "the pattern is not anchored at both ends by ^ and $ ("+pos+")")
			default:
				c.Ok(rule, construct, pos, "")
			}
		}
	}
	c.Min(rule+" identifier patterns", n, 2)
}

// forwardsTo: old is a one-call forwarder to the function rendered as `got` (a name kept for
// callers and tests after the body moved).
func forwardsTo(old *ssa.Function, got string) bool {
	if old == nil || len(old.Blocks) != 1 {
		return false
	}
	calls := fw.Calls(old)
	if len(calls) != 1 || fw.CalleeName(calls[0]) != got {
		return false
	}
	_, isRet := old.Blocks[0].Instrs[len(old.Blocks[0].Instrs)-1].(*ssa.Return)
	return isRet
}

// eventFormat2Guard: a rendered path condition requires the event format to be 2 (either operand
// order, either polarity of the comparison).
func eventFormat2Guard(conds string) bool {
	for _, f := range []string{") == 2)", "(2 == (", "!(2 != (", "!= 2)"} {
		i := strings.Index(conds, f)
		if i < 0 {
			continue
		}
		if f == "!= 2)" {
			// must be negated: find the atom start
			j := strings.LastIndex(conds[:i], "!(")
			k := strings.LastIndex(conds[:i], "&& ")
			if j < 0 || j < k {
				continue
			}
		}
		if f == "(2 == (" || f == ") == 2)" {
			// must not be negated
			k := strings.LastIndex(conds[:i], "&& ")
			atom := conds[k+1 : i]
			if strings.Contains(atom, "!(") && f == ") == 2)" && strings.HasPrefix(strings.TrimSpace(conds[k+2:]), "!(") {
				continue
			}
		}
		return true
	}
	return false
}
