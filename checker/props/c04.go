package props

import (
	"fmt"
	"go/token"
	"strings"

	"gmslverif/fw"

	"golang.org/x/tools/go/ssa"
)

func init() { register("C04", checkC04) }

var hashCheckName = fw.NameIs("gmsl.checkEventContentHash")

// untrustedCtors returns the distinct untrusted constructors registered in the version table.
func tableFuncs(c *fw.Ctx, rule, field string) map[string]*ssa.Function {
	t := loadVersionTable(c, rule)
	if t == nil {
		return nil
	}
	out := map[string]*ssa.Function{}
	// a function registered under a new name (a rename, a method of a new receiver) keeps the
	// name the specification oracle knows it by as the key of its obligations, provided the
	// assignment of names to versions is one-to-one
	expOf := map[string]map[string]bool{}
	gotOf := map[string]map[string]bool{}
	for _, ver := range t.versions {
		got := t.cell(ver, field)
		if exp, ok := specCell(ver, field); ok {
			if expOf[got] == nil {
				expOf[got] = map[string]bool{}
			}
			if gotOf[exp] == nil {
				gotOf[exp] = map[string]bool{}
			}
			expOf[got][exp] = true
			gotOf[exp][got] = true
		}
	}
	for _, ver := range t.versions {
		short := t.cell(ver, field)
		fn := fnByShortName(c.P, short)
		key := short
		if len(expOf[short]) == 1 {
			for exp := range expOf[short] {
				if exp != short && len(gotOf[exp]) == 1 && expOf[exp] == nil && strings.HasPrefix(exp, "gmsl.") {
					key = exp
				}
			}
		}
		if _, ok := out[key]; ok {
			continue
		}
		if fn == nil {
			c.Undecided(rule, "table function "+short, "not found")
			continue
		}
		c.SawFn(short)
		out[key] = fn
	}
	return out
}

func checkC04(c *fw.Ctx) {
	c.Explanation = "C04 (static): for each untrusted constructor registered in the room-version table: on the content-hash failure edge every reachable success return either returns the re-parse (trusted, redacted=true) of the room version's redaction of the event, or returns the receiver only after redacted=true was stored; the hash is checked on the canonicalised, stripped bytes, which are also the bytes decoded into the struct and stored; stripping happens before decoding; the three constructors strip the same keys (event_id being the listed v3+ difference); the hash writer and checker exclude the same members."
	c.NotDecidedClause("that no tampered key is observable through any accessor (follows from these rules plus C05 tables; not proved end to end)")
	c.NotDecidedClause("equality of ID / signature validity with the original event")
	ctors := tableFuncs(c, "1 redact-on-mismatch", "newEventFromUntrustedJSONFunc")
	n := 0
	stripped := map[string]map[string]bool{}
	for _, short := range fw.SortedKeys(ctors) {
		fn := ctors[short]
		n++
		checkUntrustedCtor(c, short, fn)
		checkDecodedOnce(c, short, fn)
		// the keys stripped from the input before it is decoded: walk back from the bytes given
		// to json.Unmarshal to the constructor's eventJSON parameter
		keys := map[string]bool{}
		nonConst, nUm := 0, 0
		for _, u := range fw.CallsTo(fn, false, fw.NameIs("encoding/json.Unmarshal")) {
			nUm++
			k, nc, _, okOrigin := strippedChain(u.Common().Args[0], func(v ssa.Value) bool { return isParam(v, fn, 0) }, nil)
			nonConst += nc
			for x := range k {
				keys[x] = true
			}
			c.Expect(okOrigin, "4 siblings", short+" decodes its input minus the stripped keys", c.P.Pos(u.Pos()), "", "the bytes decoded into the event could not be traced to the eventJSON parameter through key deletions only")
		}
		if nUm == 0 {
			// the decoding sits in a helper: the keys deleted anywhere in the constructor's region
			for _, u := range deepCallsTo(fn, fw.NameIs("encoding/json.Unmarshal")) {
				if u.Fr == nil {
					continue
				}
				ks, nc, _, t := strippedChain3(u.Call.Common().Args[0], u.Fr, u.Call.(ssa.Instruction), func(v ssa.Value) bool { return isParam(v, fn, 0) }, nil)
				if t != fw.Yes {
					continue // not the decoding of the event itself (or not traceable)
				}
				nUm++
				nonConst += nc
				for x := range ks {
					keys[x] = true
				}
			}
		}
		c.Expect(nUm > 0, "4 siblings", short+" decodes the stripped input with json.Unmarshal", c.P.Pos(fn.Pos()), "", "no json.Unmarshal of the stripped input found in the constructor or its helpers")
		c.Expect(nonConst == 0, "4 siblings", short+" strips only constant keys", c.P.Pos(fn.Pos()), "", "a key is deleted under a name that could not be resolved to a constant")
		if nonConst > 0 {
			keys["<unresolved>"] = true
		}
		stripped[short] = keys
	}
	c.Min("1 redact-on-mismatch constructors", n, 3)
	// sibling agreement on stripped keys
	base := setOf("outlier", "destinations", "age_ts", "unsigned")
	for _, short := range fw.SortedKeys(stripped) {
		got := stripped[short]
		want := map[string]bool{}
		for k := range base {
			want[k] = true
		}
		// listed difference: constructors of formats without a transmitted event_id strip it too
		if got["event_id"] && !strings.HasSuffix(short, "V1") {
			want["event_id"] = true
		}
		if !strings.HasSuffix(short, "V1") {
			want["event_id"] = true
		}
		if got["<unresolved>"] || len(got) == 0 {
			c.Undecided("4 siblings", short+" strips the keys added by other servers", "the deleted keys could not all be resolved to constants (resolved: "+strings.Join(sortedSet(got), ",")+")")
			continue
		}
		c.Check(sameSet(got, want), "4 siblings", short+" strips the keys added by other servers", c.P.Pos(ctors[short].Pos()), strings.Join(sortedSet(got), ","), "stripped keys "+strings.Join(sortedSet(got), ",")+": "+diffSets(got, want))
	}
	// 3. hash writer / checker agree
	checkHashProjection(c)
}

// checkHashProjection: the content hash is written and checked over the same projection of the
// event: the canonical JSON of the event minus {signatures, unsigned, hashes} (shared with C03:
// a built event must pass its own hash check).
func checkHashProjection(c *fw.Ctx) {
	want := setOf("signatures", "unsigned", "hashes")
	for _, spec := range []string{"addContentHashesToEvent", "checkEventContentHash"} {
		fn := mustFunc(c, "3 hash-projection", spec)
		if fn == nil {
			continue
		}
		got, nonConst := removedKeys(fn)
		construct := spec + " hashes the event minus {signatures, unsigned, hashes}"
		if nonConst > 0 || len(got) == 0 {
			c.Undecided("3 hash-projection", construct, fmt.Sprintf("%d removal(s) not resolved to constant names, %d resolved", nonConst, len(got)))
		} else {
			c.Check(sameSet(got, want), "3 hash-projection", construct, c.P.Pos(fn.Pos()), strings.Join(sortedSet(got), ","), "excluded members are "+strings.Join(sortedSet(got), ",")+": "+diffSets(got, want))
		}
		checkTopLevelOnly(c, "3 hash-projection", spec, fn, want)
	}
	// the writer hashes canonical JSON (the checker is handed canonical bytes by its callers: rule 2)
	if fn := c.P.Func("addContentHashesToEvent"); fn != nil {
		for _, dc := range deepCallsTo(fn, fw.NameIs("crypto/sha256.Sum256")) {
			c.CheckDerives(dc.Call.Common().Args[0], dc.Fr, fw.FlowSpec{IsSource: fw.IsResultOf(fw.NameIs("gmsl.CanonicalJSON", "gmsl.CanonicalJSONAssumeValid"), 0), All: true, Use: dc.Call.(ssa.Instruction)}, "3 hash-projection", "addContentHashesToEvent hashes the canonical form", c.P.Pos(dc.Call.Pos()), "", "the bytes that are hashed are not the result of CanonicalJSON: the checker hashes the canonical form, so events whose JSON differs from its canonical form (escapes such as \\u003c, non-shortest \\u escapes) fail their own hash check after building")
		}
	}
	if fn := c.P.Func("checkEventContentHash"); fn != nil {
		c.CheckGate("3 hash-projection", fn, "checkEventContentHash", fw.GuardCallBool("bytes.Equal(computed, claimed)", fw.NameIs("bytes.Equal"), true), fw.ErrNilSuccess(fn, fw.ErrIndex(fn), nil))
		for _, dc := range deepCallsTo(fn, fw.NameIs("crypto/sha256.Sum256")) {
			c.CheckDerives(dc.Call.Common().Args[0], dc.Fr, fw.FlowSpec{IsSourceIn: isRootParam(fn, 0), Through: fw.ThroughNames(map[string][]int{"github.com/tidwall/sjson.DeleteBytes": {0}}), All: true, Use: dc.Call.(ssa.Instruction)}, "3 hash-projection", "checkEventContentHash hashes its input minus the excluded members", c.P.Pos(dc.Call.Pos()), "", "the hashed bytes do not derive from the input event")
		}
	}
}

func checkUntrustedCtor(c *fw.Ctx, short string, fn *ssa.Function) {
	rule := "1 redact-on-mismatch"
	// the check may live in an unexported helper the constructor ends with (`return finish(...)`):
	// the analysis then runs in that helper, after showing that the constructor hands back
	// exactly what the helper returns
	dcs := deepCallsTo(fn, hashCheckName)
	if len(dcs) == 0 && c.P.Func("checkEventContentHash") == nil {
		// the routine that compares the hashes no longer exists under the name the rule knows (it was
		// renamed or became a method): its absence from the constructor says nothing
		c.Undecided(rule, short+" checks the content hash", "no routine named checkEventContentHash exists in this tree; the content-hash check was not located")
		return
	}
	if len(dcs) == 0 {
		c.Fail(rule, short+" checks the content hash", c.P.Pos(fn.Pos()), "no content-hash check is reachable from the constructor: a tampered event is returned unredacted")
		return
	}
	if len(dcs) > 1 {
		c.Undecided(rule, short+" checks the content hash", fmt.Sprintf("%d content-hash checks found, the rule expects one", len(dcs)))
		return
	}
	hc, hfr := dcs[0].Call, dcs[0].Fr
	outer := fn
	if hfr != nil {
		if hfr.Parent != nil {
			c.Undecided(rule, short+" checks the content hash", "the content-hash check is nested more than one helper deep")
			return
		}
		site := hfr.Site
		delegated := true
		for _, r := range fw.Returns(fn) {
			if !reachesInstr(site, r) || len(r.Results) == 0 {
				continue
			}
			if cst, ok := r.Results[0].(*ssa.Const); ok && cst.Value == nil {
				continue
			}
			ex, isEx := r.Results[0].(*ssa.Extract)
			if !isEx || ex.Tuple != ssa.Value(site) || ex.Index != 0 {
				delegated = false
			}
		}
		if !delegated {
			c.Undecided(rule, short+" checks the content hash", "the constructor does not simply return the result of "+fw.FuncName(hfr.Callee)+", in which the hash is checked")
			return
		}
		fn = hfr.Callee
	}
	// the failure edge
	var failBlock *ssa.BasicBlock
	for _, iff := range fw.Ifs(fn) {
		v, trueMeansNil, ok := fw.NilCheck(iff.Cond)
		if !ok {
			continue
		}
		if cc, _ := fw.CallOf(fw.Origin(v)); cc == hc {
			e := fw.IfEdge(iff.Block(), !trueMeansNil)
			failBlock = e.To
		}
	}
	if failBlock == nil {
		c.Fail(rule, short+" branches on the content-hash result", c.P.Pos(hc.Pos()), "the result of the content-hash check is never tested")
		return
	}
	// redacted = true stores
	var redStores []ssa.Instruction
	for _, st := range fw.FieldStores(fn, "eventV1", "redacted") {
		if cst, ok := st.Val.(*ssa.Const); ok && cst.Value != nil && cst.Value.String() == "true" {
			redStores = append(redStores, st)
		}
	}
	// ... or calls of a function / method that performs that store: on every path (must) or on some (may)
	marks := func(f *ssa.Function) (may, must bool) {
		if f == nil || len(f.Blocks) == 0 {
			return false, false
		}
		for _, st := range fw.FieldStores(f, "eventV1", "redacted") {
			cst, ok := st.Val.(*ssa.Const)
			if !ok || cst.Value == nil || cst.Value.String() != "true" {
				continue
			}
			may = true
			all := true
			for _, r := range fw.Returns(f) {
				if !st.Block().Dominates(r.Block()) {
					all = false
				}
			}
			if all {
				must = true
			}
		}
		return
	}
	var mayMarks []ssa.Instruction
	for _, call := range fw.Calls(fn) {
		var cands []*ssa.Function
		if cal := call.Common().StaticCallee(); cal != nil {
			cands = append(cands, cal)
		} else if call.Common().IsInvoke() {
			name := call.Common().Method.Name()
			for _, f := range c.P.SrcFuncs() {
				if f.Name() == name && f.Signature.Recv() != nil {
					cands = append(cands, f)
				}
			}
		}
		anyMay, allMust := false, len(cands) > 0
		for _, f := range cands {
			may, must := marks(f)
			anyMay = anyMay || may
			allMust = allMust && must
		}
		ins, _ := call.(ssa.Instruction)
		switch {
		case allMust:
			redStores = append(redStores, ins)
		case anyMay:
			mayMarks = append(mayMarks, ins)
		}
	}
	redactRes := fw.IsResultOf(redactName, 0)
	nret := 0
	for _, r := range fw.Returns(fn) {
		reach := fw.ReachableFrom(failBlock, nil)
		if !reach[r.Block()] {
			continue
		}
		// error returns are fine
		if len(r.Results) == 2 {
			if cst, ok := r.Results[0].(*ssa.Const); ok && cst.Value == nil {
				continue
			}
		}
		nret++
		val := r.Results[0]
		construct := short + ": on hash mismatch only the redacted form is returned"
		// case 1: the re-parse (possibly produced by an unexported helper)
		reparse := fw.Derives3(val, fw.FlowSpec{All: true, Use: r, IsSourceIn: func(v ssa.Value, fr *fw.Frame) bool {
			cc, idx := fw.CallOf(v)
			if cc == nil || idx > 0 || !strings.HasSuffix(fw.CalleeName(cc), ".NewEventFromTrustedJSON") {
				return false
			}
			args := cc.Common().Args
			flag, _ := rootOf(args[len(args)-1], fr)
			cst, isC := flag.(*ssa.Const)
			okFlag := isC && cst.Value != nil && cst.Value.String() == "true"
			okSrc := fw.Derives3In(args[len(args)-2], fr, fw.FlowSpec{IsSource: redactRes, Through: fw.ThroughNames(map[string][]int{"gmsl.CanonicalJSONAssumeValid": {0}, "gmsl.CanonicalJSON": {0}}), All: true}) == fw.Yes
			if !(okSrc && okFlag) {
				c.Fail(rule, construct, c.P.Pos(cc.Pos()), fmt.Sprintf("the event re-parsed after a hash mismatch is not the redaction (derives=%v) marked redacted (flag=%v)", okSrc, okFlag))
			}
			return true
		}})
		if reparse == fw.Yes {
			c.Ok(rule, construct, c.P.Pos(fw.InstrPos(r)), "re-parse of the redaction, redacted=true")
			continue
		}
		// case 2: the receiver itself: only with redacted=true stored on every path from the failure edge
		if fw.PathAvoiding(failBlock, redStores, r) {
			if reparse == fw.Unknown {
				c.Undecided(rule, construct, "the value returned after a content-hash mismatch could not be traced")
				continue
			}
			if len(mayMarks) > 0 && !fw.PathAvoiding(failBlock, append(append([]ssa.Instruction{}, redStores...), mayMarks...), r) {
				c.Undecided(rule, construct, "the event is marked redacted inside a call that may or may not do so on every path")
				continue
			}
			c.Fail(rule, construct, c.P.Pos(fw.InstrPos(r)), "after a content-hash mismatch the parsed event can be returned without having been marked redacted (no `redacted = true` on the path from the mismatch to this return)")
			continue
		}
		// and only if the redaction was computed and compared equal (the bytes.Equal edge)
		okEq := false
		eq := deepCallsTo(fn, fw.NameIs("bytes.Equal"))
		for _, e := range eq {
			sp := fw.FlowSpec{IsSource: redactRes, Through: fw.ThroughNames(map[string][]int{"gmsl.CanonicalJSONAssumeValid": {0}}), All: true}
			a0 := fw.DerivesFromIn(e.Call.Common().Args[0], e.Fr, sp)
			a1 := fw.DerivesFromIn(e.Call.Common().Args[1], e.Fr, sp)
			if a0 != a1 {
				okEq = true
			}
		}
		c.Expect(okEq, rule, construct, c.P.Pos(fw.InstrPos(r)), "receiver returned only when its JSON equals its redaction", "no comparison of the event with its redaction was recognised before the receiver is returned after a hash mismatch")
	}
	c.Min(rule+" "+short+" returns after mismatch", nret, 2)
	checkNoOpRedact(c, rule, short, outer)

	// 2. bytes: hash argument = canonicalised stripped input = stored eventJSON = decoded bytes
	rule2 := "2 hashed-bytes"
	canon := fw.NameIs("gmsl.CanonicalJSONAssumeValid")
	harg := hc.Common().Args[0]
	// the argument is the canonicalised value itself, or a load of the field it was stored in
	var cc ssa.CallInstruction
	fam := fw.FamilyOf(fn)
	canonOK := fw.DerivesFromIn(harg, hfr, fw.FlowSpec{All: true, Family: fam, IsSource: func(v ssa.Value) bool {
		if k, _ := fw.CallOf(v); k != nil && canon(fw.CalleeName(k)) {
			cc = k
			return true
		}
		return false
	}})
	if !canonOK || cc == nil {
		// positive evidence only: the bytes that are hashed are the input as received
		if a, afr := rootOf(harg, hfr); afr == nil && isParam(a, outer, 0) {
			c.Fail(rule2, short+": the hash is checked on canonicalised bytes", c.P.Pos(hc.Pos()), "the content-hash check is applied to the JSON as received, not to the canonicalised stripped bytes")
		} else {
			c.Undecided(rule2, short+": the hash is checked on canonicalised bytes", "the bytes given to the content-hash check could not be traced to CanonicalJSONAssumeValid")
		}
		return
	}
	c.Ok(rule2, short+": the hash is checked on canonicalised bytes", c.P.Pos(hc.Pos()), "")
	pre := cc.Common().Args[0]
	okStrip := fw.DerivesFromIn(pre, hfr, fw.FlowSpec{IsSource: fw.IsResultOf(fw.NameIs("github.com/tidwall/sjson.DeleteBytes"), 0)})
	c.Expect(okStrip, rule2, short+": the hashed bytes are the stripped input", c.P.Pos(cc.Pos()), "", "the canonicalised bytes could not be traced to the key-stripping deletions")
	// stored eventJSON is the same value
	okStore := false
	for _, f := range []*ssa.Function{fn, outer} {
		for _, st := range fw.FieldStores(f, "eventV1", "eventJSON") {
			if st.Val == harg {
				okStore = true
			}
			if k, _ := fw.CallOf(st.Val); k != nil && k == cc {
				okStore = true
			}
		}
	}
	c.Expect(okStore, rule2, short+": the stored JSON is the hashed JSON", c.P.Pos(hc.Pos()), "", "no store of the hashed value into eventJSON was recognised")
	// decoded bytes: json.Unmarshal's input is the same stripped value
	um := deepCallsTo(outer, fw.NameIs("encoding/json.Unmarshal"))
	preRoot, _ := rootOf(pre, hfr)
	same, raw, other := 0, 0, 0
	for _, u := range um {
		a, afr := rootOf(u.Call.Common().Args[0], u.Fr)
		// a second decode, of the redaction, into the struct that already holds the tampered
		// event: encoding/json leaves fields of absent keys untouched, so what redaction removed
		// stays observable (Redacts(), sticky durations, ...)
		if fw.Derives3In(u.Call.Common().Args[0], u.Fr, fw.FlowSpec{IsSource: fw.IsResultOf(redactName, 0), Through: fw.ThroughNames(map[string][]int{"gmsl.CanonicalJSONAssumeValid": {0}, "gmsl.CanonicalJSON": {0}}), All: true}) == fw.Yes {
			// the destinations of the first decode(s): the event under construction
			populated := func(d ssa.Value) bool {
				d, _ = rootOf(fw.Unwrap(d), u.Fr)
				d = fw.Unwrap(d)
				for _, u2 := range um {
					if u2.Call == u.Call {
						continue
					}
					d2, _ := rootOf(fw.Unwrap(u2.Call.Common().Args[1]), u2.Fr)
					d2 = fw.Unwrap(d2)
					if d2 == d {
						return true
					}
					// `&res` and `res` (a load of the same variable)
					if ld, ok := d2.(*ssa.UnOp); ok && ld.Op == token.MUL && ld.X == d {
						return true
					}
					if ld, ok := d.(*ssa.UnOp); ok && ld.Op == token.MUL && ld.X == d2 {
						return true
					}
					// `&res` where res holds the event decoded into before
					if al, ok := d.(*ssa.Alloc); ok {
						for _, ref := range *al.Referrers() {
							if st, isSt := ref.(*ssa.Store); isSt && st.Addr == ssa.Value(al) && fw.Unwrap(st.Val) == d2 {
								return true
							}
						}
					}
				}
				return false
			}
			if populated(u.Call.Common().Args[1]) {
				c.Fail(rule2, short+": the redacted form is parsed into a fresh event", c.P.Pos(u.Call.Pos()), "the redaction is decoded with json.Unmarshal into the event that was already populated from the tampered JSON: fields whose keys the redaction removed keep their tampered values")
				continue
			}
		}
		switch {
		case a == preRoot:
			same++
		case afr == nil && isParam(a, outer, 0):
			raw++ // the bytes as received, before the keys were stripped
		default:
			other++
		}
	}
	// the redaction that replaces a tampered event is computed from the same (stripped) bytes
	for _, rc := range deepCallsTo(outer, redactName) {
		args := rc.Call.Common().Args
		if len(args) == 0 {
			continue
		}
		a, afr := rootOf(args[len(args)-1], rc.Fr)
		if afr == nil && isParam(a, outer, 0) {
			c.Fail(rule2, short+": the redaction is computed from the stripped bytes", c.P.Pos(rc.Call.Pos()), "RedactEventJSON is applied to the JSON as received, not to the stripped bytes that were parsed, hashed and stored: keys added by other servers survive into the redacted form, and the comparison with the stored JSON always differs")
		}
	}
	construct2 := short + ": struct fields are decoded from the stripped bytes"
	switch {
	case raw > 0:
		c.Fail(rule2, construct2, c.P.Pos(fn.Pos()), "json.Unmarshal into the event struct reads the bytes as received, not the stripped ones that are hashed and stored (keys added by other servers, e.g. event_id or unsigned, become observable through accessors)")
	case same > 0 && other == 0:
		c.Ok(rule2, construct2, c.P.Pos(fn.Pos()), "")
	default:
		c.Undecided(rule2, construct2, fmt.Sprintf("the bytes given to json.Unmarshal could not be identified with the hashed ones (%d identified, %d not)", same, other))
	}
}

// checkNoOpRedact: Redact() returns at once for an event already marked redacted. A
// constructor that marks its event redacted and then relies on Redact() (directly or in a
// helper it hands the event to) to strip it hands back the tampered content under the flag.
func checkNoOpRedact(c *fw.Ctx, rule, short string, ctor *ssa.Function) {
	rootAlloc := func(v ssa.Value, fr *fw.Frame) ssa.Value {
		r, _ := rootOf(v, fr)
		for i := 0; i < 6; i++ {
			switch x := r.(type) {
			case *ssa.FieldAddr:
				r = x.X
				continue
			case *ssa.MakeInterface:
				r = x.X
				continue
			case *ssa.ChangeInterface:
				r = x.X
				continue
			}
			break
		}
		return r
	}
	for _, dc := range deepCallsTo(ctor, func(n string) bool { return strings.HasSuffix(n, ".Redact") }) {
		var recv ssa.Value
		if dc.Call.Common().IsInvoke() {
			recv = dc.Call.Common().Value
		} else if len(dc.Call.Common().Args) > 0 {
			recv = dc.Call.Common().Args[0]
		}
		if recv == nil {
			continue
		}
		obj := rootAlloc(recv, dc.Fr)
		// the instruction of the constructor through which the call is reached
		var site ssa.Instruction = dc.Call.(ssa.Instruction)
		for f := dc.Fr; f != nil; f = f.Parent {
			site = f.Site
		}
		for _, st := range fw.FieldStores(ctor, "eventV1", "redacted") {
			k, isC := st.Val.(*ssa.Const)
			if !isC || k.Value == nil || k.Value.String() != "true" {
				continue
			}
			if rootAlloc(st.Addr, nil) != obj {
				continue
			}
			if st.Block().Dominates(site.Block()) && reachesInstr(st, site) {
				c.Fail(rule, short+": an event is not marked redacted before Redact() is asked to strip it", c.P.Pos(dc.Call.Pos()), "Redact() is called on the event after `redacted = true` was stored on it ("+c.P.Pos(fw.InstrPos(st))+"): Redact() returns immediately for an event that is already marked, so the tampered fields stay in place under the redacted flag")
			}
		}
	}
}


// checkDecodedOnce (rule 5): encoding/json leaves the fields of its target alone when their
// members are absent from the input. An event object that has been decoded from the received
// bytes and is then decoded into again from other bytes (the redacted form) therefore keeps
// whatever the first decode put into the fields that redaction removed (redacts, the sticky
// markers, ...): the typed accessors leak what the redaction was meant to hide. Within one
// constructor no object receives two decodes one of which can follow the other.
func checkDecodedOnce(c *fw.Ctx, short string, fn *ssa.Function) {
	rule := "5 decoded-once"
	type dec struct {
		call   ssa.CallInstruction
		target string
		bytes  string
	}
	var ds []dec
	for _, u := range fw.CallsTo(fn, true, fw.NameIs("encoding/json.Unmarshal")) {
		args := u.Common().Args
		if len(args) != 2 {
			continue
		}
		t := fw.UnwrapIface(args[1])
		ds = append(ds, dec{u, fw.Sig(t), fw.Sig(args[0])})
	}
	construct := short + ": an event object is decoded into once"
	bad := ""
	for i := range ds {
		for j := range ds {
			if i == j || ds[i].target != ds[j].target || ds[i].bytes == ds[j].bytes {
				continue
			}
			a, b := ds[i].call.(ssa.Instruction), ds[j].call.(ssa.Instruction)
			if a.Parent() != b.Parent() || a == b {
				continue
			}
			if a.Block() != b.Block() && reachesInstr(a, b) || a.Block() == b.Block() && instrBefore(a, b) {
				bad = c.P.Pos(ds[j].call.Pos())
			}
		}
	}
	switch {
	case bad != "":
		c.Fail(rule, construct, bad, "the object that was decoded from the received bytes is decoded into a second time from other bytes: fields whose members are absent from the second input (those the redaction removed) keep the values of the first - Redacts(), the sticky markers and the like still show the tampered event")
	case len(ds) == 0:
		c.Undecided(rule, construct, "no json.Unmarshal in the constructor itself")
	default:
		c.Ok(rule, construct, c.P.Pos(fn.Pos()), "")
	}
}

func instrBefore(a, b ssa.Instruction) bool {
	for _, ins := range a.Block().Instrs {
		if ins == a {
			return true
		}
		if ins == b {
			return false
		}
	}
	return false
}
