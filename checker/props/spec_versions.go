package props

// Oracle §4.1: the room-version matrix, transcribed from the Matrix specification
// (room versions 1-12) and, for the unstable versions, from the composition their own
// registration comment declares. Independent of the code under analysis.

var allVersions = []string{"1", "2", "3", "4", "5", "6", "7", "8", "9", "10", "11", "12",
	"org.matrix.msc4014", "org.matrix.msc3667", "org.matrix.msc3787", "org.matrix.hydra.11"}

func in(v string, set ...string) bool {
	for _, s := range set {
		if s == v {
			return true
		}
	}
	return false
}

func pick(cond bool, a, b string) string {
	if cond {
		return a
	}
	return b
}

// specCell returns the value the specification assigns to (version, field) of RoomVersionImpl.
// Function-valued cells are named by the (short) full name of the expected function;
// constants by their exact string. ok=false: the oracle has no opinion on that field.
func specCell(v, field string) (string, bool) {
	g := func(n string) string { return "gmsl." + n }
	v1to2 := in(v, "1", "2")
	v1to4 := in(v, "1", "2", "3", "4")
	v1to5 := v1to4 || v == "5"
	v1to6 := v1to5 || v == "6"
	hydraLike := in(v, "12", "org.matrix.hydra.11")
	restricted := in(v, "8", "9", "10", "11", "12", "org.matrix.msc4014", "org.matrix.msc3787", "org.matrix.hydra.11")
	switch field {
	case "ver":
		return v, true
	case "stable":
		return pick(in(v, "1", "2", "3", "4", "5", "6", "7", "8", "9", "10", "11", "12"), "true", "false"), true
	case "stateResAlgorithm": // StateResV1=1, V2=2, V2_1=3
		switch {
		case v == "1":
			return "1", true
		case hydraLike:
			return "3", true
		}
		return "2", true
	case "eventFormat":
		return pick(v1to2, "1", "2"), true
	case "eventIDFormat":
		switch {
		case v1to2:
			return "1", true
		case v == "3":
			return "2", true
		}
		return "3", true
	case "redactionAlgorithm":
		switch {
		case v1to5:
			return "redaction:v1", true
		case in(v, "6", "7", "org.matrix.msc3667"):
			return "redaction:v6", true
		case v == "8":
			return "redaction:v8", true
		case in(v, "9", "10", "org.matrix.msc4014", "org.matrix.msc3787"):
			return "redaction:v9", true
		}
		return "redaction:v11", true
	case "signatureValidityCheckFunc":
		return pick(v1to4, g("NoStrictValidityCheck"), g("StrictValiditySignatureCheck")), true
	case "canonicalJSONCheck":
		return pick(v1to5, g("noVerifyCanonicalJSON"), g("verifyEnforcedCanonicalJSON")), true
	case "checkPowerLevelEvent":
		switch {
		case v1to5:
			return g("checkPowerLevelEventV1"), true
		case hydraLike:
			return g("checkPowerLevelEventV3"), true
		}
		return g("checkPowerLevelEventV2"), true
	case "parsePowerLevelsFunc":
		return pick(in(v, "10", "11", "12", "org.matrix.msc4014", "org.matrix.msc3667", "org.matrix.hydra.11"), g("parseIntegerPowerLevels"), g("parsePowerLevels")), true
	case "checkKnockingAllowedFunc":
		return pick(v1to6, g("disallowKnocking"), g("checkKnocking")), true
	case "checkRestrictedJoinAllowedFunc":
		return pick(restricted, g("allowRestrictedJoins"), g("disallowRestrictedJoins")), true
	case "restrictedJoinServernameFunc":
		return pick(restricted, g("extractAuthorisedViaServerName"), g("emptyAuthorisedViaServerName")), true
	case "checkRestrictedJoin":
		return pick(restricted, g("checkRestrictedJoin"), g("noCheckRestrictedJoin")), true
	case "checkCreateEvent":
		switch {
		case hydraLike:
			return g("checkCreateEventV3"), true
		case v == "11":
			return g("checkCreateEventV2"), true
		}
		return g("checkCreateEventV1"), true
	case "newEventFromUntrustedJSONFunc":
		return g("newEventFromUntrustedJSON" + pick(v1to2, "V1", pick(hydraLike, "V3", "V2"))), true
	case "newEventFromTrustedJSONFunc":
		return g("newEventFromTrustedJSON" + pick(v1to2, "V1", pick(hydraLike, "V3", "V2"))), true
	case "newEventFromTrustedJSONWithEventIDFunc":
		return g("newEventFromTrustedJSONWithEventID" + pick(v1to2, "V1", pick(hydraLike, "V3", "V2"))), true
	case "domainlessRoomID", "privilegedCreators":
		return pick(hydraLike, "true", "false"), true
	}
	return "", false
}

// Oracle §4.2: redaction keep-lists.
var topLevelV1 = []string{"event_id", "type", "room_id", "sender", "state_key", "content", "hashes", "signatures", "depth", "prev_events", "prev_state", "auth_events", "origin", "origin_server_ts", "membership"}
var topLevelV11 = []string{"event_id", "type", "room_id", "sender", "state_key", "content", "hashes", "signatures", "depth", "prev_events", "auth_events", "origin_server_ts"}

var plKeysV1 = []string{"ban", "events", "events_default", "kick", "redact", "state_default", "users", "users_default"}

type redactionSpec struct {
	top     []string
	content map[string][]string
	// nested keys the flat tables cannot express (v11: third_party_invite.signed)
	nested map[string][]string
}

var redactionSpecs = map[string]redactionSpec{
	"redaction:v1": {top: topLevelV1, content: map[string][]string{
		"m.room.member": {"membership"}, "m.room.create": {"creator"}, "m.room.join_rules": {"join_rule"},
		"m.room.power_levels": plKeysV1, "m.room.aliases": {"aliases"}, "m.room.history_visibility": {"history_visibility"}}},
	"redaction:v6": {top: topLevelV1, content: map[string][]string{
		"m.room.member": {"membership"}, "m.room.create": {"creator"}, "m.room.join_rules": {"join_rule"},
		"m.room.power_levels": plKeysV1, "m.room.history_visibility": {"history_visibility"}}},
	"redaction:v8": {top: topLevelV1, content: map[string][]string{
		"m.room.member": {"membership"}, "m.room.create": {"creator"}, "m.room.join_rules": {"join_rule", "allow"},
		"m.room.power_levels": plKeysV1, "m.room.history_visibility": {"history_visibility"}}},
	"redaction:v9": {top: topLevelV1, content: map[string][]string{
		"m.room.member": {"membership", "join_authorised_via_users_server"}, "m.room.create": {"creator"}, "m.room.join_rules": {"join_rule", "allow"},
		"m.room.power_levels": plKeysV1, "m.room.history_visibility": {"history_visibility"}}},
	"redaction:v11": {top: topLevelV11, content: map[string][]string{
		"m.room.member": {"membership", "join_authorised_via_users_server"}, "m.room.create": {}, // {} = keep all
		"m.room.join_rules":   {"join_rule", "allow"},
		"m.room.power_levels": append(append([]string{}, plKeysV1...), "invite"), "m.room.history_visibility": {"history_visibility"},
		"m.room.redaction": {"redacts"}},
		nested: map[string][]string{"m.room.member": {"third_party_invite.signed"}}},
}
