package props

import (
	"fmt"
	"strings"

	"gmslverif/fw"

	"golang.org/x/tools/go/ssa"
)

func init() { register("C07", checkC07) }

const (
	sigNewM    = "*recv.newMember.Membership"
	sigOldM    = "*recv.oldMember.Membership"
	sigSenderM = "*recv.senderMember.Membership"
	sigJR      = "**recv.allowerContext.joinRule.JoinRule"
	sigSL      = "(*gmsl.allowerContext).userPowerLevel(*recv.allowerContext,*recv.senderID)"
	sigTL      = "(*gmsl.allowerContext).userPowerLevel(*recv.allowerContext,*recv.targetID)"
	sigAL      = "(*gmsl.allowerContext).userPowerLevel(*recv.allowerContext,*recv.newMember.AuthorisedVia)"
	sigPL      = "**recv.allowerContext.powerLevels."
	sigRJ      = "(*gmsl.membershipAllower).membershipAllowedSelfForRestrictedJoin(recv)"
)

var memberships = []string{"join", "leave", "invite", "ban", "knock", "other"}
var rel3 = []string{"<", "=", ">"}
var tf = []string{"true", "false"}

func checkC07(c *fw.Ctx) {
	c.Explanation = "C07 (static): the authorisation code is loop-free branching over equality tests on membership / join-rule strings, order comparisons between power levels and a few boolean facts, so each rule function denotes a finite decision table. Engine T extracts the complete table of each function from SSA path conditions (no execution, no solver) and the check evaluates it on every assignment of the abstract domain against an oracle transcribed from the specification plus the enumerated departures D1-D17 (DESIGN.md 4.4): dispatch by event type, membership dispatch incl. the creator's first join, self membership changes under every join rule, restricted-join authorisation, changes to other users (ban/kick/unban/invite), knocking, the common sender/level/@-state-key checks, m.federate, power-level defaults and the user-level / event-level defaulting. Any branch condition the oracle does not know is reported (undecided) rather than ignored."
	c.Exhaustive = true
	c.NotDecidedClause("third-party-invite signature logic (D6) beyond its dispatch condition")
	c.NotDecidedClause("that JSON decoding of contents yields the atoms (membership really is what the content says)")
	c.NotDecidedClause("the v1/v2 redaction domain rule beyond the version switch; userIDQuerier behaviour")
	c.NotDecidedClause("randomly composed concrete events (a runtime notion)")

	// 1. entry gate and dispatch
	if fn := mustFunc(c, "1 dispatch", "Allowed"); fn != nil {
		c.CheckGate("1 dispatch", fn, "Allowed", fw.GuardCallBool("authEvents.Valid()", func(n string) bool { return strings.HasSuffix(n, ".Valid") }, true), fw.ErrNilSuccess(fn, fw.ErrIndex(fn), fw.IsTail(fw.NameIs("(*gmsl.allowerContext).allowed"))))
		ok := len(fw.CallsTo(fn, false, fw.NameIs("(*gmsl.allowerContext).allowed"))) == 1
		c.Expect(ok, "1 dispatch", "Allowed decides through allowerContext.allowed", c.P.Pos(fn.Pos()), "", "Allowed does not return the verdict of the dispatcher")
	}
	checkDispatch(c)
	checkMembershipDispatch(c)
	checkSelf(c)
	checkRestricted(c)
	checkOther(c)
	checkKnockFuncs(c)
	checkCommon(c)
	checkLevels(c)
	checkHandlersPassCommon(c)
	checkVersionMatrix(c, "9 version-columns", setOf("checkKnockingAllowedFunc", "checkRestrictedJoinAllowedFunc", "checkPowerLevelEvent", "parsePowerLevelsFunc", "checkCreateEvent", "privilegedCreators"))
	checkCreateRules(c)
}

func checkDispatch(c *fw.Ctx) {
	fn := mustFunc(c, "1 dispatch", "(*allowerContext).allowed")
	want := map[string]string{
		"m.room.create": "createEventAllowed", "m.room.aliases": "aliasEventAllowed", "m.room.member": "memberEventAllowed",
		"m.room.power_levels": "powerLevelsEventAllowed", "m.room.redaction": "redactEventAllowed", "m.other": "defaultEventAllowed",
	}
	vars := []tvar{{"type", []string{"m.room.create", "m.room.aliases", "m.room.member", "m.room.power_levels", "m.room.redaction", "m.other"}}}
	ip := &interp{lhs: map[string]string{"(gmsl.PDU).Type(param:event)": "type"}}
	compareTable(c, "1 dispatch", "event type -> handler", fn, 0, vars, ip, func(a asg) string {
		return "call:(*gmsl.allowerContext)." + want[a["type"]]
	}, nil)
}

// membershipAllowed: room check, federation, creator's first join, third-party invite, self/other.
func checkMembershipDispatch(c *fw.Ctx) {
	rule := "2 membership-dispatch"
	fn := mustFunc(c, rule, "(*membershipAllower).membershipAllowed")
	vars := []tvar{
		{"room", tf}, {"senderKnown", tf}, {"federate", tf}, {"targetIsCreator", tf}, {"newM", []string{"join", "invite", "other"}},
		{"self", tf}, {"onePrev", tf}, {"prevIsCreate", tf}, {"tpi", tf},
	}
	ip := &interp{
		lhs: map[string]string{sigNewM: "newM"},
		bools: map[string]string{
			"(**recv.allowerContext.create.roomID == (gmsl/spec.RoomID).String((gmsl.PDU).RoomID(param:event)))": "room",
			"(*recv.targetID == (gmsl.PDU).SenderID(**recv.allowerContext.createEvent))":                         "targetIsCreator",
			"(*recv.senderID == *recv.targetID)":                                                                 "self",
			"(*recv.targetID == *recv.senderID)":                                                                 "self",
			"(builtin.len((gmsl.PDU).PrevEventIDs(param:event)) == 1)":                                           "onePrev",
			"(*(gmsl.PDU).PrevEventIDs(param:event)[0] == **recv.allowerContext.create.eventID)":                 "prevIsCreate",
		},
		fixed: map[string]bool{
			`((gmsl.PDU).Type(param:event) == "m.room.member")`:                                                    true,
			"(encoding/json.Unmarshal((gmsl.PDU).Content(param:event),local:*gmsl.membershipContent) == nil)":      true,
			"(*local:*gmsl.membershipContent.MXIDMapping == nil)":                                                  true, // non pseudo-ID path
			"(dyn(**recv.allowerContext.userIDQuerier)(**recv.allowerContext.roomID,*recv.senderID)#1 == nil)":     true,
			"(gmsl/spec.NewUserID(**local:*gmsl.membershipContent.MXIDMapping.UserID,true)#1 == nil)":              true,
			"(phi(nil|nil|gmsl/spec.NewUserID(**local:*gmsl.membershipContent.MXIDMapping.UserID,true)#0) == nil)": true, // no mapping: the querier is asked
		},
		match: func(atom string, a asg) (bool, bool) {
			switch {
			case strings.HasPrefix(atom, "((*gmsl.CreateContent).UserIDAllowed(*recv.allowerContext.create,") && strings.HasSuffix(atom, " == nil)"):
				return a["federate"] == "true", true
			case strings.HasPrefix(atom, "(phi(phi(nil|nil|gmsl/spec.NewUserID(") && strings.HasSuffix(atom, "#0) == nil)"):
				return a["senderKnown"] != "true", true
			case atom == "(*recv.newMember.ThirdPartyInvite == nil)":
				return a["tpi"] != "true", true
			}
			return false, false
		},
	}
	m := "call:(*gmsl.membershipAllower)."
	compareTable(c, rule, "membership event -> rule family", fn, 0, vars, ip, func(a asg) string {
		switch {
		case a["room"] != "true", a["senderKnown"] != "true", a["federate"] != "true":
			return "reject"
		case a["targetIsCreator"] == "true" && a["newM"] == "join" && a["self"] == "true" && a["onePrev"] == "true" && a["prevIsCreate"] == "true":
			return "accept" // the creator's first join (D14: the create event's sender)
		case a["newM"] == "invite" && a["tpi"] == "true":
			return m + "membershipAllowedFromThirdPartyInvite"
		case a["self"] == "true":
			return m + "membershipAllowedSelf"
		}
		return m + "membershipAllowedOther"
	}, nil)
}

func checkSelf(c *fw.Ctx) {
	rule := "3 membership-self"
	fn := mustFunc(c, rule, "(*membershipAllower).membershipAllowedSelf")
	vars := []tvar{{"newM", memberships}, {"oldM", memberships}, {"jr", []string{"public", "invite", "knock", "restricted", "knock_restricted", "other"}}, {"rj", []string{"err", "invite", "public"}}}
	restricted := func(a asg) bool { return a["jr"] == "restricted" || a["jr"] == "knock_restricted" }
	ip := &interp{
		lhs: map[string]string{sigNewM: "newM", sigOldM: "oldM", sigJR: "jr"},
		match: func(atom string, a asg) (bool, bool) {
			switch atom {
			case "(" + sigRJ + "#1 == nil)":
				return a["rj"] != "err", true
			case "(" + sigRJ + `#0 == "public")`:
				return a["rj"] == "public", true
			case "(phi(" + sigJR + "|" + sigRJ + `#0) == "public")`:
				if restricted(a) {
					return a["rj"] == "public", true
				}
				return a["jr"] == "public", true
			}
			return false, false
		},
	}
	compareTable(c, rule, "self membership change", fn, 0, vars, ip, func(a asg) string {
		n, o := a["newM"], a["oldM"]
		if n == "leave" && o == "leave" {
			return "accept" // D1
		}
		if o == "ban" {
			return "reject" // D17
		}
		switch n {
		case "knock":
			return "call:(gmsl.IRoomVersion).CheckKnockingAllowed"
		case "join":
			eff := a["jr"]
			if restricted(a) {
				switch a["rj"] {
				case "err":
					return "reject"
				case "public":
					return "accept"
				}
				eff = a["rj"]
			} else if a["rj"] != "err" {
				// rj is irrelevant when the rule is not restricted: evaluate once
				return ""
			}
			if o == "invite" || o == "join" || eff == "public" {
				return "accept"
			}
			return "reject"
		case "leave":
			if o == "join" || o == "invite" || o == "knock" {
				return "accept"
			}
			return "reject"
		}
		return "reject"
	}, nil)
	// the knock delegation passes the right arguments
	for _, call := range fw.CallsTo(fn, false, fw.NameIs("(gmsl.IRoomVersion).CheckKnockingAllowed")) {
		var sigs []string
		for _, a := range call.Common().Args {
			sigs = append(sigs, fw.Sig(a))
		}
		got := strings.Join(sigs, " ; ")
		want := "(gmsl.IRoomVersion).Version(*recv.roomVersionImpl) ; *recv.senderID ; *recv.targetID ; " + sigJR + " ; " + sigOldM
		c.Check(got == want, rule, "knock check receives (version, sender, target, join rule, previous membership)", c.P.Pos(call.Pos()), "", "arguments are ["+got+"]")
	}
}

func checkRestricted(c *fw.Ctx) {
	rule := "4 restricted-join"
	fn := mustFunc(c, rule, "(*membershipAllower).membershipAllowedSelfForRestrictedJoin")
	if fn == nil {
		return
	}
	member := "(gmsl.AuthEventProvider).Member(**recv.allowerContext.provider,*recv.newMember.AuthorisedVia)"
	vars := []tvar{{"supported", tf}, {"oldM", []string{"join", "invite", "other"}}, {"via", []string{"empty", "set"}}, {"pseudo", tf}, {"validID", tf},
		{"found", tf}, {"authM", []string{"join", "other"}}, {"ai", rel3}}
	ip := &interp{
		lhs: map[string]string{sigOldM: "oldM", "(gmsl.PDU).Membership(" + member + "#0)#0": "authM"},
		rel: map[string]string{sigAL + "|" + sigPL + "Invite": "ai"},
		bools: map[string]string{
			"((gmsl.IRoomVersion).CheckRestrictedJoinsAllowed(*recv.roomVersionImpl) == nil)": "supported",
			"(gmsl.SplitID(64,*recv.newMember.AuthorisedVia)#2 == nil)":                       "validID",
		},
		fixed: map[string]bool{
			"(" + member + "#1 == nil)":                          true,
			"((gmsl.PDU).Membership(" + member + "#0)#1 == nil)": true,
		},
		match: func(atom string, a asg) (bool, bool) {
			switch atom {
			case `(*recv.newMember.AuthorisedVia == "")`:
				return a["via"] == "empty", true
			case `((gmsl.IRoomVersion).Version(*recv.roomVersionImpl) == "org.matrix.msc4014")`:
				return a["pseudo"] == "true", true
			case "(" + member + "#0 == nil)":
				return a["found"] != "true", true
			}
			return false, false
		},
	}
	oracle := func(a asg) string {
		if a["supported"] != "true" {
			return `reject:""`
		}
		if a["oldM"] == "join" || a["oldM"] == "invite" || a["via"] == "empty" {
			return `accept:"invite"`
		}
		if a["pseudo"] != "true" && a["validID"] != "true" {
			return `reject:""`
		}
		if a["found"] != "true" || a["authM"] != "join" || a["ai"] == "<" {
			return `reject:""`
		}
		return `accept:"public"`
	}
	compareTable(c, rule, "restricted join authorisation", fn, 1, vars, ip, oracle, func(r fw.Row) string {
		if r.Outcome == "reject" {
			return `reject:""` // what accompanies the error is not part of the rule
		}
		v := fw.Sig(r.Ret.Results[0])
		if v != `"invite"` && v != `"public"` {
			return "unknown:" + v // the effective join rule is encoded in a way the rule does not know
		}
		return r.Outcome + ":" + v
	})
}

func checkOther(c *fw.Ctx) {
	rule := "5 membership-other"
	fn := mustFunc(c, rule, "(*membershipAllower).membershipAllowedOther")
	vars := []tvar{{"newM", memberships}, {"oldM", []string{"ban", "join", "other"}}, {"senderM", []string{"join", "other"}},
		{"st", rel3}, {"sb", rel3}, {"sk", rel3}, {"si", rel3}}
	ip := &interp{
		lhs: map[string]string{sigNewM: "newM", sigOldM: "oldM", sigSenderM: "senderM"},
		rel: map[string]string{sigSL + "|" + sigTL: "st", sigSL + "|" + sigPL + "Ban": "sb", sigSL + "|" + sigPL + "Kick": "sk", sigSL + "|" + sigPL + "Invite": "si"},
	}
	ge := func(r string) bool { return r != "<" }
	compareTable(c, rule, "membership change of another user", fn, 0, vars, ip, func(a asg) string {
		if a["senderM"] != "join" {
			return "reject"
		}
		switch a["newM"] {
		case "ban":
			if ge(a["sb"]) && a["st"] == ">" {
				return "accept"
			}
			return "reject"
		case "leave":
			if a["oldM"] == "ban" { // D16
				if ge(a["sb"]) {
					return "accept"
				}
				return "reject"
			}
			if ge(a["sk"]) && a["st"] == ">" {
				return "accept"
			}
			return "reject"
		case "invite":
			if a["si"] == "<" {
				return "reject"
			}
			if a["oldM"] == "join" || a["oldM"] == "ban" {
				return "reject"
			}
			return "accept"
		}
		return "reject"
	}, nil)
}

func checkKnockFuncs(c *fw.Ctx) {
	rule := "6 knocking"
	t := loadVersionTable(c, rule)
	if t == nil {
		return
	}
	allow := fnByShortName(c.P, t.cell("7", "checkKnockingAllowedFunc"))
	deny := fnByShortName(c.P, t.cell("1", "checkKnockingAllowedFunc"))
	if allow == nil || deny == nil {
		c.Undecided(rule, "knock rule functions", "not found")
		return
	}
	vars := []tvar{{"jr", []string{"knock", "knock_restricted", "public", "invite", "restricted", "other"}}, {"prev", memberships}}
	ip := &interp{lhs: map[string]string{"param:joinRule": "jr", "param:prevMembership": "prev"}, bools: map[string]string{}, match: func(atom string, a asg) (bool, bool) {
		if atom == "(param:sender == param:target)" {
			return true, true
		}
		return false, false
	}}
	compareTable(c, rule, "knock under join rule x previous membership (v7+ and unstable versions)", allow, 0, vars, ip, func(a asg) string {
		if a["jr"] != "knock" && a["jr"] != "knock_restricted" { // D12
			return "reject"
		}
		if a["prev"] == "join" || a["prev"] == "invite" || a["prev"] == "ban" {
			return "reject"
		}
		return "accept"
	}, nil)
	compareTable(c, rule, "knock in versions without knocking", deny, 0, vars, ip, func(a asg) string { return "reject" }, nil)
	// restricted-join support functions
	for ver, want := range map[string]string{"1": "reject", "8": "accept"} {
		fn := fnByShortName(c.P, t.cell(ver, "checkRestrictedJoinAllowedFunc"))
		if fn == nil {
			c.Undecided(rule, "restricted-join support function of v"+ver, "not found")
			continue
		}
		compareTable(c, rule, "restricted-join support of v"+ver, fn, 0, nil, &interp{}, func(a asg) string { return want }, nil)
	}
}

func checkCommon(c *fw.Ctx) {
	rule := "7 common-checks"
	fn := mustFunc(c, rule, "(*eventAllower).commonChecks")
	q := "dyn(**recv.allowerContext.userIDQuerier)(**recv.allowerContext.roomID,(gmsl.PDU).SenderID(param:event))"
	lvl := "(*gmsl.allowerContext).userPowerLevel(*recv.allowerContext,(gmsl.PDU).SenderID(param:event))"
	need := "(*gmsl.PowerLevelContent).EventLevel(*recv.allowerContext.powerLevels,(gmsl.PDU).Type(param:event),((gmsl.PDU).StateKey(param:event) != nil))"
	vars := []tvar{{"room", tf}, {"found", tf}, {"federate", tf}, {"senderM", []string{"join", "other"}}, {"lv", rel3}, {"sk", []string{"none", "empty", "at-own", "at-other", "plain"}}}
	ip := &interp{
		lhs: map[string]string{"*recv.member.Membership": "senderM"},
		rel: map[string]string{lvl + "|" + need: "lv"},
		bools: map[string]string{
			"((gmsl/spec.RoomID).String((gmsl.PDU).RoomID(param:event)) == **recv.allowerContext.create.roomID)": "room",
			"((*gmsl.CreateContent).UserIDAllowed(*recv.allowerContext.create,*" + q + "#0) == nil)":             "federate",
		},
		fixed: map[string]bool{"(" + q + "#1 == nil)": true},
		match: func(atom string, a asg) (bool, bool) {
			sk := a["sk"]
			switch atom {
			case "(" + q + "#0 == nil)":
				return a["found"] != "true", true
			case "((gmsl.PDU).StateKey(param:event) == nil)":
				return sk == "none", true
			case "(builtin.len(*(gmsl.PDU).StateKey(param:event)) > 0)":
				return sk != "empty" && sk != "none", true
			case "(*(gmsl.PDU).StateKey(param:event)[0] == 64)":
				return sk == "at-own" || sk == "at-other", true
			case "(*(gmsl.PDU).StateKey(param:event) == (gmsl.PDU).SenderID(param:event))":
				return sk == "at-own", true
			}
			return false, false
		},
		// any further test of the state key's text is an independent input: "begins with '@'" is
		// all the rule may depend on
		free: func(atom string) bool {
			return strings.Contains(atom, "(gmsl.PDU).StateKey(param:event)") && !strings.Contains(atom, "gmsl.") || strings.HasPrefix(atom, "(strings.") && strings.Contains(atom, "(gmsl.PDU).StateKey(param:event)")
		},
	}
	compareTable(c, rule, "room / sender / m.federate / membership / level / @-state-key", fn, 0, vars, ip, func(a asg) string {
		switch {
		case a["room"] != "true", a["found"] != "true", a["federate"] != "true", a["senderM"] != "join", a["lv"] == "<":
			return "reject"
		case a["sk"] == "at-other":
			return "reject"
		}
		return "accept"
	}, nil)
	// m.federate
	if d := mustFunc(c, rule, "(*CreateContent).DomainAllowed"); d != nil {
		ipd := &interp{bools: map[string]string{"(param:domain == *recv.senderDomain)": "same", "(*recv.Federate == nil)": "unset", "**recv.Federate": "flag"}}
		compareTable(c, rule, "m.federate", d, 0, []tvar{{"same", tf}, {"unset", tf}, {"flag", tf}}, ipd, func(a asg) string {
			if a["same"] == "true" || a["unset"] == "true" || a["flag"] == "true" {
				return "accept"
			}
			return "reject"
		}, nil)
	}
}

// entryValue normalises the outcome of a map-entry return (comma-ok or plain lookup).
func entryValue(r fw.Row) string { return strings.TrimSuffix(r.Outcome, "#0") }

// zeroTestOfEntry: a test of a looked-up level against zero (an independent input: whether an
// entry is present, not whether it is zero, decides the defaulting).
func zeroTestOfEntry(atom string) bool {
	return strings.HasPrefix(atom, "(*recv.") && strings.HasSuffix(atom, " == 0)") && strings.Contains(atom, "[")
}

// checkLevels: userPowerLevel, UserLevel, EventLevel, NotificationLevel, Defaults.
func checkLevels(c *fw.Ctx) {
	rule := "8 levels"
	if fn := mustFunc(c, rule, "(*allowerContext).userPowerLevel"); fn != nil {
		vars := []tvar{{"priv", tf}, {"isCreator", tf}, {"noPL", tf}, {"isCreateSender", tf}}
		ip := &interp{bools: map[string]string{
			"*recv.privilegedCreators":                                 "priv",
			"slices.Contains(*recv.creators,param:userID)":             "isCreator",
			"(*recv.powerLevelsEvent == nil)":                          "noPL",
			"(param:userID == (gmsl.PDU).SenderID(*recv.createEvent))": "isCreateSender",
		}}
		compareTable(c, rule, "effective user power level", fn, 0, vars, ip, func(a asg) string {
			switch {
			case a["priv"] == "true" && a["isCreator"] == "true":
				return "value:*global:gmsl.CreatorPowerLevel"
			case a["noPL"] == "true" && a["isCreateSender"] == "true":
				return "value:(*global:gmsl.CreatorPowerLevel - 1)"
			case a["noPL"] == "true":
				return "value:0"
			}
			return "call:(*gmsl.PowerLevelContent).UserLevel"
		}, nil)
	}
	if fn := mustFunc(c, rule, "(*PowerLevelContent).EventLevel"); fn != nil {
		vars := []tvar{{"tpi", tf}, {"listed", tf}, {"state", tf}}
		ip := &interp{bools: map[string]string{
			`(param:eventType == "m.room.third_party_invite")`: "tpi",
			"*recv.Events[param:eventType]#1":                  "listed",
			"param:isState":                                    "state",
		}, free: zeroTestOfEntry}
		compareTable(c, rule, "required level of an event type", fn, 0, vars, ip, func(a asg) string {
			switch {
			case a["tpi"] == "true":
				return "value:*recv.Invite"
			case a["listed"] == "true":
				return "value:*recv.Events[param:eventType]"
			case a["state"] == "true":
				return "value:*recv.StateDefault"
			}
			return "value:*recv.EventsDefault"
		}, entryValue)
	}
	if fn := mustFunc(c, rule, "(*PowerLevelContent).UserLevel"); fn != nil {
		ip := &interp{bools: map[string]string{"*recv.Users[param:senderID]#1": "listed"}, free: zeroTestOfEntry}
		compareTable(c, rule, "user level defaulting", fn, 0, []tvar{{"listed", tf}}, ip, func(a asg) string {
			if a["listed"] == "true" {
				return "value:*recv.Users[param:senderID]"
			}
			return "value:*recv.UsersDefault"
		}, entryValue)
	}
	if fn := mustFunc(c, rule, "(*PowerLevelContent).NotificationLevel"); fn != nil {
		ip := &interp{bools: map[string]string{"*recv.Notifications[param:notification]#1": "listed"}, free: zeroTestOfEntry}
		compareTable(c, rule, "notification level defaulting", fn, 0, []tvar{{"listed", tf}}, ip, func(a asg) string {
			if a["listed"] == "true" {
				return "value:*recv.Notifications[param:notification]"
			}
			return "value:50"
		}, entryValue)
	}
	// Defaults(): constant stores
	if fn := mustFunc(c, rule, "(*PowerLevelContent).Defaults"); fn != nil {
		want := map[string]string{"Invite": "0", "Ban": "50", "Kick": "50", "Redact": "50", "UsersDefault": "0", "EventsDefault": "0", "StateDefault": "50"}
		got := map[string]string{}
		for _, b := range fn.Blocks {
			for _, ins := range b.Instrs {
				if st, ok := ins.(*ssa.Store); ok {
					if fa, ok := st.Addr.(*ssa.FieldAddr); ok {
						got[derefStructOf(fa.X.Type()).Field(fa.Field).Name()] = fw.Sig(st.Val)
					}
				}
			}
		}
		for _, k := range fw.SortedKeys(want) {
			c.Check(got[k] == want[k], rule, "default "+k, c.P.Pos(fn.Pos()), got[k], fmt.Sprintf("default of %s is %s, the specification says %s", k, got[k], want[k]))
		}
		okN := false
		for _, b := range fn.Blocks {
			for _, ins := range b.Instrs {
				if mu, ok := ins.(*ssa.MapUpdate); ok && fw.Sig(mu.Key) == `"room"` && fw.Sig(mu.Value) == "50" {
					okN = true
				}
			}
		}
		c.Check(okN, rule, "default notifications.room", c.P.Pos(fn.Pos()), "50", "notifications.room default is not 50")
	}
	// no-power-levels-event defaults (D3)
	if fn := mustFunc(c, rule, "NewPowerLevelContentFromAuthEvents"); fn != nil {
		okU, okS := false, false
		for _, b := range fn.Blocks {
			for _, ins := range b.Instrs {
				if mu, ok := ins.(*ssa.MapUpdate); ok && fw.Sig(mu.Key) == "param:creatorUserID" && fw.Sig(mu.Value) == "9007199254740991" {
					okU = true
				}
				if st, ok := ins.(*ssa.Store); ok {
					if fa, ok := st.Addr.(*ssa.FieldAddr); ok && derefStructOf(fa.X.Type()).Field(fa.Field).Name() == "StateDefault" && fw.Sig(st.Val) == "50" {
						okS = true
					}
				}
			}
		}
		c.Check(okU && okS, rule, "no power-levels event: creator 2^53-1, state_default 50 (D3)", c.P.Pos(fn.Pos()), "", fmt.Sprintf("creator level ok=%v state_default ok=%v", okU, okS))
		c.Expect(len(deepCallsTo(fn, fw.NameIs("(*gmsl.PowerLevelContent).Defaults"))) >= 1, rule, "no power-levels event: remaining levels take the defaults", c.P.Pos(fn.Pos()), "", "no call of Defaults() was found in the routine or its helpers")
	}
	// who may read user levels directly: only userPowerLevel (and the old/new comparison helpers)
	reach := fw.ReachableFuncs(c.Graph(), []*ssa.Function{c.P.Func("(*allowerContext).allowed")}, func(f *ssa.Function) bool { return c.P.IsRepoFunc(f) })
	n := 0
	for f := range reach {
		for _, call := range fw.CallsTo(f, false, fw.NameIs("(*gmsl.PowerLevelContent).UserLevel")) {
			recv := fw.Sig(call.Common().Args[0])
			if !strings.Contains(recv, "allowerContext.powerLevels") && !strings.HasSuffix(recv, "recv.powerLevels") {
				continue // levels of an old/new content passed as a parameter
			}
			n++
			ok := fw.FuncName(f) == "(*gmsl.allowerContext).userPowerLevel"
			c.Check(ok, rule, "user levels of the room state are read through userPowerLevel (creators, missing PL event): "+fw.FuncName(f), c.P.Pos(call.Pos()), "", fw.FuncName(f)+" reads powerLevels.UserLevel directly: privileged creators (v12) and the no-power-levels defaults are bypassed")
		}
	}
	c.Min(rule+" UserLevel call sites on room state", n, 1)
	checkCreatorGate(c, rule)
}

// handlers pass through commonChecks
func checkHandlersPassCommon(c *fw.Ctx) {
	rule := "1 dispatch"
	for _, spec := range []string{"(*allowerContext).powerLevelsEventAllowed", "(*allowerContext).redactEventAllowed", "(*allowerContext).defaultEventAllowed"} {
		if fn := mustFunc(c, rule, spec); fn != nil {
			c.CheckGate(rule, fn, spec, fw.GuardCallErrNil("commonChecks", fw.NameIs("(*gmsl.eventAllower).commonChecks")), fw.ErrNilSuccess(fn, fw.ErrIndex(fn), fw.IsTail(fw.NameIs("(*gmsl.eventAllower).commonChecks", "gmsl.checkUserLevels"))))
			c.CheckGate(rule, fn, spec, fw.GuardCallErrNil("newEventAllower", fw.NameIs("(*gmsl.allowerContext).newEventAllower")), fw.ErrNilSuccess(fn, fw.ErrIndex(fn), fw.IsTail(fw.NameIs("(*gmsl.eventAllower).commonChecks", "gmsl.checkUserLevels"))))
		}
	}
	if fn := mustFunc(c, rule, "(*allowerContext).memberEventAllowed"); fn != nil {
		c.CheckGate(rule, fn, "memberEventAllowed", fw.GuardCallErrNil("newMembershipAllower", fw.NameIs("(*gmsl.allowerContext).newMembershipAllower")), fw.ErrNilSuccess(fn, fw.ErrIndex(fn), fw.IsTail(fw.NameIs("(*gmsl.membershipAllower).membershipAllowed"))))
	}
}

func checkCreateRules(c *fw.Ctx) {
	rule := "10 create"
	if fn := mustFunc(c, rule, "(*allowerContext).createEventAllowed"); fn != nil {
		succ := fw.ErrNilSuccess(fn, fw.ErrIndex(fn), fw.IsTail(func(n string) bool { return strings.HasSuffix(n, ".CheckCreateEvent") }))
		c.CheckGate(rule, fn, "createEventAllowed", fw.GuardCallBool("state key is empty", func(n string) bool { return strings.HasSuffix(n, ".StateKeyEquals") }, true), succ)
		c.CheckGate(rule, fn, "createEventAllowed", fw.GuardCond("no prev_events", func(v ssa.Value) (bool, bool) {
			s := fw.Sig(v)
			if s == "(builtin.len((gmsl.PDU).PrevEventIDs(param:event)) > 0)" {
				return false, true
			}
			return false, false
		}), succ)
	}
	t := loadVersionTable(c, rule)
	if t == nil {
		return
	}
	dom := "((gmsl/spec.UserID).Domain(param:sender) == (gmsl/spec.RoomID).Domain((gmsl.PDU).RoomID(param:event)))"
	dom2 := "((*gmsl/spec.UserID).Domain(param:sender) == (gmsl/spec.RoomID).Domain((gmsl.PDU).RoomID(param:event)))"
	for _, ver := range []string{"1", "11", "12"} {
		fn := fnByShortName(c.P, t.cell(ver, "checkCreateEvent"))
		if fn == nil {
			c.Undecided(rule, "create rule of v"+ver, "not found")
			continue
		}
		vars := []tvar{{"domain", tf}, {"decodes", tf}, {"creator", tf}, {"hasVersion", tf}, {"known", tf}, {"hasAdditional", tf}, {"roomID", tf}}
		ip := &interp{match: func(atom string, a asg) (bool, bool) {
			switch {
			case atom == dom || atom == dom2 || (strings.Contains(atom, ".Domain(") && strings.Contains(atom, "RoomID(param:event)")):
				return a["domain"] == "true", true
			case strings.HasPrefix(atom, "(encoding/json.Unmarshal((gmsl.PDU).Content(param:event)"):
				return a["decodes"] == "true", true
			case strings.HasSuffix(atom, ".Creator == nil)"):
				return a["creator"] != "true", true
			case strings.HasSuffix(atom, ".RoomVersion == nil)"):
				return a["hasVersion"] != "true", true
			case strings.HasPrefix(atom, "dyn(param:knownRoomVersion)("):
				return a["known"] == "true", true
			case strings.HasSuffix(atom, ".AdditionalCreators == nil)"):
				return a["hasAdditional"] != "true", true
			case strings.HasPrefix(atom, "(encoding/json.Unmarshal((gmsl.PDU).JSON(param:event)"):
				return true, true
			case strings.HasSuffix(atom, `.RoomID == "")`):
				return a["roomID"] != "true", true
			case strings.Contains(atom, "< builtin.len(") && strings.Contains(atom, "AdditionalCreators"):
				return false, true // loop over additional creators: exhausted (each element valid)
			}
			return false, false
		}}
		compareTable(c, rule, "create-event rule of v"+ver, fn, 0, vars, ip, func(a asg) string {
			switch ver {
			case "1":
				if a["domain"] != "true" || a["decodes"] != "true" || a["creator"] != "true" || (a["hasVersion"] == "true" && a["known"] != "true") {
					return "reject"
				}
				return "accept"
			case "11":
				if a["domain"] != "true" {
					return "reject"
				}
				return "accept"
			}
			if a["decodes"] != "true" || (a["hasVersion"] == "true" && a["known"] != "true") || a["roomID"] == "true" {
				return "reject"
			}
			return "accept"
		}, nil)
	}
}
