package props

import (
	"fmt"
	"go/constant"
	"go/token"
	"go/types"
	"strings"

	"gmslverif/fw"

	"golang.org/x/tools/go/ssa"
)

func init() { register("C20", checkC20) }

func isVerifySignature(n string) bool { return strings.HasSuffix(n, "Macaroon).VerifySignature") }
func isAddCaveat(n string) bool       { return strings.HasSuffix(n, "Macaroon).AddFirstPartyCaveat") }

func checkC20(c *fw.Ctx) {
	c.Explanation = "C20 (static): ValidateToken's success is gated on decoding, VerifySignature under the configured secret and verifyCaveats for the configured user (arguments followed through extracted helpers); the caveat verifier's accumulator is extracted: each of the three required caveat classes (generation, user, expiry) contributes its own bit under its own condition, the success constant equals the OR of exactly those bits and the 'unknown caveat' bit lies outside it (a counting accumulator is refused: repeating one class reaches the count); issuer and validator use the same caveat constants, the issued caveats derive from the generation constant, the user prefix + the given user and the time prefix + clock; the macaroon id is the user id that GetUserFromToken returns; both sides read the absolute clock (time.Now().Unix(), no rounding or field accessors) and the 120 s default applies iff no duration was given; the expiry comparison is strict."
	c.NotDecidedClause("HMAC soundness of the macaroon library; behaviour at particular instants; that the duration is added unscaled")
	c20Gates(c)
	c20Mask(c)
	c20Expiry(c)
	c20FailingCaveat(c)
	c20EveryTimeCaveat(c)
	c20NoKeylessCache(c)
	c20NoCutsetForPrefix(c)
	c20Issuer(c)
	c20Clock(c)
	c20Fresh(c)
}

// 6. every token is built on a macaroon of its own: the object that receives the caveats is
// created (macaroon.New) or copied (Clone) by this call and is not also published to state
// that outlives the call (a package-level variable, a sync.Map, a map or slice held in one):
// otherwise the caveats of one token accumulate on the macaroon of the next.
func c20Fresh(c *fw.Ctx) {
	rule := "6 fresh-macaroon"
	fn := mustFunc(c, rule, "tokens.GenerateLoginToken")
	if fn == nil {
		return
	}
	isNew := fw.IsResultOf(fw.NameIs("gopkg.in/macaroon.v2.New"), -1)
	isClone := fw.IsResultOf(func(n string) bool { return strings.HasSuffix(n, "Macaroon).Clone") }, -1)
	n := 0
	for _, dc := range fw.DeepCalls(fn, isAddCaveat, nil) {
		args := dc.Call.Common().Args
		if len(args) < 1 {
			continue
		}
		n++
		var news, shared []ssa.Value
		fw.DerivesFromIn(args[0], dc.Fr, fw.FlowSpec{IsSource: func(v ssa.Value) bool {
			switch {
			case isClone(v):
				return false
			case isNew(v):
				news = append(news, v)
			default:
				if g, ok := v.(*ssa.Global); ok {
					shared = append(shared, g)
				}
				if call, _ := fw.CallOf(v); call != nil && strings.HasPrefix(fw.CalleeName(call), "(*sync.Map).Load") {
					shared = append(shared, v)
				}
			}
			return false
		}})
		pos := c.P.Pos(dc.Call.Pos())
		construct := "caveats are added to a macaroon owned by this call (" + fw.FuncName(dc.Call.Parent()) + ")"
		bad := ""
		for _, v := range shared {
			bad = "the macaroon that receives the caveat is read from shared state (" + fw.Sig(v) + ") without being copied"
		}
		for _, v := range news {
			if esc := escapesToShared(v); esc != "" {
				bad = "the macaroon created here is also published to " + esc + ": later calls that reuse it see the caveats added by this one (a later token carries an earlier token's expiry)"
			}
		}
		if bad != "" {
			c.Fail(rule, construct, pos, bad)
		} else {
			c.Ok(rule, construct, pos, fmt.Sprintf("%d creation sites, none published", len(news)))
		}
	}
	c.Min(rule+" caveat sites", n, 1)
}

// escapesToShared: the value (or an interface / pointer copy of it) is stored into a
// package-level variable, a sync.Map, or a map / slice loaded from a package-level variable.
func escapesToShared(v ssa.Value) string {
	seen := map[ssa.Value]bool{}
	var walk func(x ssa.Value, d int) string
	walk = func(x ssa.Value, d int) string {
		if d > 6 || seen[x] || x.Referrers() == nil {
			return ""
		}
		seen[x] = true
		for _, ref := range *x.Referrers() {
			switch r := ref.(type) {
			case *ssa.Extract, *ssa.MakeInterface, *ssa.ChangeType, *ssa.Phi, *ssa.ChangeInterface:
				if s := walk(r.(ssa.Value), d+1); s != "" {
					return s
				}
			case *ssa.Store:
				if r.Val == x {
					if rootIsGlobal(r.Addr) {
						return "the package-level variable " + fw.Sig(r.Addr)
					}
				}
			case *ssa.MapUpdate:
				if r.Value == x && rootIsGlobal(r.Map) {
					return "a package-level map"
				}
			case ssa.CallInstruction:
				name := fw.CalleeName(r)
				if strings.HasPrefix(name, "(*sync.Map).") && (strings.HasSuffix(name, "Store") || strings.HasSuffix(name, "LoadOrStore") || strings.HasSuffix(name, "Swap")) {
					return "a sync.Map (" + name + ")"
				}
			}
		}
		return ""
	}
	return walk(v, 0)
}

func rootIsGlobal(v ssa.Value) bool {
	for i := 0; i < 8; i++ {
		switch x := v.(type) {
		case *ssa.Global:
			return true
		case *ssa.FieldAddr:
			v = x.X
		case *ssa.IndexAddr:
			v = x.X
		case *ssa.UnOp:
			v = x.X
		default:
			return false
		}
	}
	return false
}

// opField: the value is read from field `name` of the parameter op of the outermost function.
func opField(name string) func(v ssa.Value, fr *fw.Frame) bool {
	return func(v ssa.Value, fr *fw.Frame) bool {
		if fr != nil {
			return false
		}
		s := fw.Sig(v)
		return strings.HasSuffix(s, "param:op."+name) || strings.HasSuffix(s, "param:op."+name+")")
	}
}

// 1. ValidateToken: gates and what they are applied to
func c20Gates(c *fw.Ctx) {
	rule := "1 gates"
	fn := mustFunc(c, rule, "tokens.ValidateToken")
	if fn == nil {
		return
	}
	succ := fw.ErrNilSuccess(fn, fw.ErrIndex(fn), nil)
	c.CheckGate(rule, fn, "ValidateToken", fw.GuardCallErrNil("deSerializeMacaroon", fw.NameIs("gmsl/tokens.deSerializeMacaroon")), succ)
	c.CheckGate(rule, fn, "ValidateToken", fw.GuardCallErrNil("VerifySignature", isVerifySignature), succ)
	c.CheckGate(rule, fn, "ValidateToken", fw.GuardCallErrNil("verifyCaveats", fw.NameIs("gmsl/tokens.verifyCaveats")), succ)
	stop := func(f *ssa.Function) bool { return fw.FuncName(f) == "gmsl/tokens.verifyCaveats" }
	nSig := 0
	for _, dc := range fw.DeepCalls(fn, isVerifySignature, stop) {
		args := dc.Call.Common().Args
		if len(args) < 2 {
			continue
		}
		nSig++
		pos := c.P.Pos(dc.Call.Pos())
		c.CheckDerives(args[1], dc.Fr, fw.FlowSpec{IsSourceIn: opField("ServerPrivateKey")}, rule, "the signature is verified under the configured secret", pos, "", "the key given to VerifySignature ("+fw.Sig(args[1])+") is not op.ServerPrivateKey")
		c.CheckDerives(args[0], dc.Fr, fw.FlowSpec{IsSource: fw.IsResultOf(fw.NameIs("gmsl/tokens.deSerializeMacaroon"), 0)}, rule, "the macaroon whose signature is verified is the decoded token", pos, "", "the macaroon given to VerifySignature is not the result of deSerializeMacaroon")
	}
	c.Expect(nSig > 0, rule, "ValidateToken reaches VerifySignature", c.P.Pos(fn.Pos()), "", "no VerifySignature call found under ValidateToken")
	for _, dc := range fw.DeepCalls(fn, fw.NameIs("gmsl/tokens.verifyCaveats"), nil) {
		args := dc.Call.Common().Args
		pos := c.P.Pos(dc.Call.Pos())
		c.CheckDerives(args[0], dc.Fr, fw.FlowSpec{IsSource: fw.IsResultOf(isVerifySignature, 0)}, rule, "the caveats checked are the ones the signature covers", pos, "", "verifyCaveats is given "+fw.Sig(args[0])+", not the conditions returned by VerifySignature")
		c.CheckDerives(args[1], dc.Fr, fw.FlowSpec{IsSourceIn: opField("UserID")}, rule, "the verified caveats are checked for the configured user", pos, "", "verifyCaveats is given the user "+fw.Sig(args[1])+", not op.UserID")
	}
}

type maskBit struct {
	val  int64
	cond fw.DNF
	pos  string
	op   token.Token
}

func hasAtom(t fw.Term, pos bool, subs ...string) bool { return termHas(t, lit{subs, pos}) }

func prefixEvidence(t fw.Term, prefix string) bool {
	q := `"` + prefix + `")`
	return hasAtom(t, true, "strings.HasPrefix(", q) || hasAtom(t, true, "strings.CutPrefix(", q+"#1")
}

// remainder: the text after the prefix, as rendered in an atom
func remainderForms(prefix string) []string {
	return []string{fmt.Sprintf("[%d:]", len(prefix)), `"` + prefix + `")#0`, "strings.TrimPrefix("}
}

func mentionsAny(a string, subs []string) bool {
	for _, s := range subs {
		if strings.Contains(a, s) {
			return true
		}
	}
	return false
}

// 2. the accumulator of verifyCaveats
func c20Mask(c *fw.Ctx) {
	rule := "2 caveat-mask"
	fn := mustFunc(c, rule, "tokens.verifyCaveats")
	if fn == nil {
		return
	}
	var bits []maskBit
	var adds []maskBit
	unknownContribution := ""
	// a table of rules (function values held in a list, or in the fields of list entries, and
	// called while visiting the caveats) decides which bit a caveat earns where the rule cannot see it
	for _, f := range fw.RegionOf(fn, nil) {
		for _, call := range fw.Calls(f) {
			if call.Common().IsInvoke() || call.Common().StaticCallee() != nil {
				continue
			}
			v := call.Common().Value
			if fld, ok := v.(*ssa.UnOp); ok {
				if fa, isFA := fld.X.(*ssa.FieldAddr); isFA {
					v = fa.X // a function-valued field of a table entry
				}
			}
			if fld, ok := v.(*ssa.Field); ok {
				v = fld.X
			}
			if funcFromTable(v, 0) || tableEntry(v, 0) {
				unknownContribution = ": the caveats are classified by a table of function values (call at " + c.P.Pos(call.Pos()) + ")"
			}
		}
	}
	collect := func(f *ssa.Function, outer fw.DNF, fr *fw.Frame) {}
	_ = collect
	for _, b := range fn.Blocks {
		for _, ins := range b.Instrs {
			bo, ok := ins.(*ssa.BinOp)
			if !ok || (bo.Op != token.OR && bo.Op != token.ADD) {
				continue
			}
			if bt, isB := bo.Type().Underlying().(*types.Basic); !isB || bt.Info()&types.IsInteger == 0 {
				continue
			}
			// only accumulators: the result is carried around the loop
			if !feedsPhi(bo) {
				continue
			}
			here, okC := fw.CondAt(nil, b)
			if !okC {
				c.Undecided(rule, "mask contributions", "path condition too large")
				continue
			}
			for _, opnd := range []ssa.Value{bo.X, bo.Y} {
				if n, isC := fw.ConstInt(opnd); isC {
					mb := maskBit{n, here, c.P.Pos(fw.InstrPos(bo)), bo.Op}
					if bo.Op == token.OR {
						bits = append(bits, mb)
					} else if condMentions(here, `"gen = 1"`, `"user_id = "`, `"time < "`) {
						// a counter stepped under a caveat test (not the loop index)
						adds = append(adds, mb)
					}
					continue
				}
				call, isCall := opnd.(*ssa.Call)
				if !isCall {
					continue
				}
				callee := fw.Followable(call, nil)
				if callee == nil {
					unknownContribution = fw.CalleeName(call)
					continue
				}
				fr := &fw.Frame{Site: call, Callee: callee}
				fw.WithSubst(fr.Subst(), func() {
					t, err := fw.ExtractTable(callee, 0)
					if err != nil {
						unknownContribution = fw.FuncName(callee) + ": " + err.Error()
						return
					}
					for _, r := range t.Rows {
						n, isC := fw.ConstInt(r.Val)
						if !isC {
							unknownContribution = "the helper " + fw.FuncName(callee) + " returns a non-constant mask " + r.Outcome
							continue
						}
						if n == 0 {
							continue
						}
						mb := maskBit{n, andAll(here, r.Cond), c.P.Pos(fw.InstrPos(r.Ret)), bo.Op}
						if bo.Op == token.OR {
							bits = append(bits, mb)
						} else {
							adds = append(adds, mb)
						}
					}
				})
			}
		}
	}
	every := func(d fw.DNF, f func(t fw.Term) bool) bool {
		if len(d) == 0 {
			return false
		}
		for _, term := range d {
			if !f(term) {
				return false
			}
		}
		return true
	}
	const userP, timeP = "user_id = ", "time < "
	classes := []struct {
		name    string
		related []string
		is      func(t fw.Term) bool
	}{
		{"generation caveat", []string{`"gen = 1"`}, func(t fw.Term) bool { return hasAtom(t, true, `== "gen = 1")`) }},
		{"user caveat", []string{`"` + userP + `"`}, func(t fw.Term) bool {
			if hasAtom(t, true, `("`+userP+`" + param:userID)`, "==") {
				return true
			}
			if !prefixEvidence(t, userP) {
				return false
			}
			for _, rf := range remainderForms(userP) {
				if hasAtom(t, true, rf, "param:userID", " == ") {
					return true
				}
			}
			return false
		}},
		{"expiry caveat", []string{`"` + timeP + `"`}, func(t fw.Term) bool {
			if !prefixEvidence(t, timeP) {
				return false
			}
			for _, rf := range remainderForms(timeP) {
				if hasAtom(t, true, "gmsl/tokens.verifyExpiry(", rf) {
					return true
				}
			}
			return false
		}},
	}
	// a verifier that records the classes in boolean flags instead of bits: a loop-carried
	// boolean that becomes true under a class condition records that class. When at least one
	// class is recorded this way, a class without any recorder is not required at all.
	if len(bits) == 0 && len(adds) == 0 {
		recorded := map[string]string{}
		for _, b := range fn.Blocks {
			for _, ins := range b.Instrs {
				phi, isPhi := ins.(*ssa.Phi)
				if !isPhi {
					break
				}
				if bt, isB := phi.Type().Underlying().(*types.Basic); !isB || bt.Kind() != types.Bool {
					continue
				}
				for i, e := range phi.Edges {
					cst, isC := e.(*ssa.Const)
					if !isC || cst.Value == nil || cst.Value.String() != "true" || i >= len(b.Preds) {
						continue
					}
					here, okC := fw.CondAt(nil, b.Preds[i])
					if !okC {
						continue
					}
					for _, cl := range classes {
						if every(here, cl.is) {
							recorded[cl.name] = c.P.Pos(fw.InstrPos(b.Preds[i].Instrs[len(b.Preds[i].Instrs)-1]))
						}
					}
				}
			}
		}
		if len(recorded) > 0 {
			for _, cl := range classes {
				construct := "a verified " + cl.name + " is recorded"
				if pos, ok := recorded[cl.name]; ok {
					c.Ok(rule, construct, pos, "boolean flag")
				} else if unknownContribution == "" {
					c.Fail(rule, construct, c.P.Pos(fn.Pos()), fmt.Sprintf("the verifier records the caveat classes in boolean flags (%d of 3 found) but nothing records a valid %s: a token lacking it validates", len(recorded), cl.name))
				} else {
					c.Undecided(rule, construct, "no flag for the "+cl.name+" was recognised"+unknownContribution)
				}
			}
			return
		}
	}
	if len(bits) == 0 && len(adds) == 0 {
		// no accumulator at all: does success depend on anything recorded while visiting the caveats?
		if tbl, err := fw.ExtractTable(fn, fw.ErrIndex(fn)); err == nil {
			stateless := ""
			nAccept := 0
			for _, r := range tbl.Rows {
				if r.Outcome != "accept" {
					continue
				}
				nAccept++
				for _, term := range r.Cond {
					carried := false
					for _, l := range term {
						// a loop-carried value other than the position in the caveat list
						if strings.Contains(l.Atom, "phi(") && !strings.Contains(l.Atom, "builtin.len(") {
							carried = true
						}
						// ... or an aggregate / object that the loop can write to (an array of flags, a
						// map, a set, the fields of a verifier object)
						if strings.Contains(l.Atom, "local:") || strings.Contains(l.Atom, "makemap") || strings.Contains(l.Atom, "makeslice") || strings.Contains(l.Atom, "recv.") {
							carried = true
						}
					}
					if !carried {
						stateless = c.P.Pos(fw.InstrPos(r.Ret))
					}
				}
			}
			if nAccept > 0 && stateless != "" {
				c.Fail(rule, "the caveat classes are recorded idempotently", stateless, "verifyCaveats returns success without consulting anything recorded while visiting the caveats: a token that lacks a required caveat (even a bare macaroon signed with the server key) validates")
				return
			}
		}
	}
	if len(bits) == 0 {
		if len(adds) > 0 {
			c.Fail(rule, "the caveat classes are recorded idempotently", adds[0].pos, fmt.Sprintf("verifyCaveats counts satisfied caveats (%d additions into a loop-carried counter, no bit set): the count is reached by repeating one class, so a token lacking a required caveat can validate", len(adds)))
		} else {
			c.Undecided(rule, "mask contributions", "verifyCaveats has no bit-mask accumulator the rule recognises")
		}
		return
	}
	c.Ok(rule, "the caveat classes are recorded idempotently", bits[0].pos, fmt.Sprintf("%d OR contributions", len(bits)))
	required := int64(0)
	decided := true
	for _, cl := range classes {
		var found, related []maskBit
		for _, b := range bits {
			if every(b.cond, cl.is) {
				found = append(found, b)
				continue
			}
			for _, term := range b.cond {
				for _, l := range term {
					if l.Pos && mentionsAny(l.Atom, cl.related) {
						related = append(related, b)
					}
				}
			}
		}
		construct := "a verified " + cl.name + " sets its own bit"
		switch {
		case len(found) == 1 && found[0].val != 0 && found[0].val&(found[0].val-1) == 0 && required&found[0].val == 0:
			c.Ok(rule, construct, found[0].pos, fmt.Sprint(found[0].val))
			required |= found[0].val
		case len(found) >= 1:
			c.Fail(rule, construct, found[0].pos, fmt.Sprintf("%d contributions under the %s condition (values %v, bits already taken %d): the class does not own one bit of the mask", len(found), cl.name, bitVals(found), required))
			decided = false
		case len(related) > 0 || unknownContribution != "":
			c.Undecided(rule, construct, "a contribution mentions the "+cl.name+" but not in a form the rule recognises"+unknownContribution)
			decided = false
		default:
			c.Fail(rule, construct, c.P.Pos(fn.Pos()), fmt.Sprintf("0 bit operations under the %s condition: the presence of a valid %s is not recorded, so a token lacking it can validate", cl.name, cl.name))
			decided = false
		}
	}
	if !decided {
		return
	}
	// the unknown-caveat bit
	var unknownBit int64
	for _, b := range bits {
		known := false
		for _, cl := range classes {
			if every(b.cond, cl.is) {
				known = true
			}
		}
		if !known {
			unknownBit |= b.val
		}
	}
	switch {
	case unknownBit != 0 && unknownBit&required == 0:
		c.Ok(rule, "an unknown caveat sets a bit outside the required ones", c.P.Pos(fn.Pos()), fmt.Sprint(unknownBit))
	case unknownBit != 0:
		c.Fail(rule, "an unknown caveat sets a bit outside the required ones", c.P.Pos(fn.Pos()), fmt.Sprintf("unknown-caveat bit %d overlaps the required mask %d", unknownBit, required))
	default:
		// no bit at all: an unknown caveat may be refused on the spot instead
		c.Undecided(rule, "an unknown caveat sets a bit outside the required ones", "no bit is set for an unknown caveat; whether it is refused another way was not traced")
	}
	// success constant
	tbl, err := fw.ExtractTable(fn, fw.ErrIndex(fn))
	if err != nil {
		c.Undecided(rule, "success iff the accumulated mask equals exactly the required bits", err.Error())
		return
	}
	verdict, detail := "undecided", "no accepting return found"
	for _, r := range tbl.Rows {
		if r.Outcome != "accept" {
			continue
		}
		if verdict == "undecided" {
			verdict = "ok"
		}
		for _, term := range r.Cond {
			hit, other := false, ""
			for _, l := range term {
				if !strings.HasPrefix(l.Atom, "(phi(") {
					continue
				}
				switch {
				case l.Pos && strings.HasSuffix(l.Atom, fmt.Sprintf(" == %d)", required)):
					hit = true
				case !l.Pos && strings.HasSuffix(l.Atom, fmt.Sprintf(" != %d)", required)):
					hit = true
				case l.Pos && strings.Contains(l.Atom, " == "):
					other = l.Atom
				}
			}
			switch {
			case hit:
			case other != "":
				verdict, detail = "fail", fmt.Sprintf("success is returned under %s, not under mask == %d (the OR of the generation, user and expiry bits)", other, required)
			default:
				if verdict != "fail" {
					verdict, detail = "undecided", "a success return is not guarded by a comparison of the mask with a constant"
				}
			}
		}
	}
	construct := "success iff the accumulated mask equals exactly the required bits"
	switch verdict {
	case "ok":
		c.Ok(rule, construct, c.P.Pos(fn.Pos()), fmt.Sprint(required))
	case "fail":
		c.Fail(rule, construct, c.P.Pos(fn.Pos()), detail)
	default:
		c.Undecided(rule, construct, detail)
	}
}

func condMentions(d fw.DNF, subs ...string) bool {
	for _, t := range d {
		for _, l := range t {
			if mentionsAny(l.Atom, subs) {
				return true
			}
		}
	}
	return false
}

func bitVals(bs []maskBit) []int64 {
	var out []int64
	for _, b := range bs {
		out = append(out, b.val)
	}
	return out
}

func feedsPhi(v ssa.Value) bool {
	seen := map[ssa.Value]bool{}
	var walk func(x ssa.Value, d int) bool
	walk = func(x ssa.Value, d int) bool {
		if d > 6 || seen[x] {
			return false
		}
		seen[x] = true
		for _, ref := range *x.Referrers() {
			switch r := ref.(type) {
			case *ssa.Phi:
				return true
			case *ssa.Convert:
				if walk(r, d+1) {
					return true
				}
			case *ssa.BinOp:
				if (r.Op == token.OR || r.Op == token.ADD) && walk(r, d+1) {
					return true
				}
			}
		}
		return false
	}
	return walk(v, 0)
}

// verifyExpiry: true only under a strict comparison of the clock with the parsed expiry
func c20Expiry(c *fw.Ctx) {
	rule := "2 caveat-mask"
	construct := "the expiry test is now < expiry (strict), false on an unparsable value"
	fn := mustFunc(c, rule, "tokens.verifyExpiry")
	if fn == nil {
		return
	}
	tbl, err := fw.ExtractTable(fn, 0)
	if err != nil {
		c.Undecided(rule, construct, err.Error())
		return
	}
	tbl.SplitBoolValues(func(string) bool { return true })
	const parsed = "strconv.ParseInt(param:t,10,64)#0"
	nTrue := 0
	verdict, detail := "ok", ""
	for _, r := range tbl.Rows {
		if r.Outcome == "value:false" {
			continue
		}
		if r.Outcome != "value:true" {
			if verdict == "ok" {
				verdict, detail = "undecided", "verifyExpiry returns "+r.Outcome
			}
			continue
		}
		nTrue++
		for _, t := range r.Cond {
			strict := hasAtom(t, true, "(param:now < "+parsed+")") || hasAtom(t, true, "("+parsed+" > param:now)") || hasAtom(t, false, "(param:now >= "+parsed+")") || hasAtom(t, false, "("+parsed+" <= param:now)")
			lax := hasAtom(t, true, "(param:now <= "+parsed+")") || hasAtom(t, true, "("+parsed+" >= param:now)") || hasAtom(t, false, "(param:now > "+parsed+")") || hasAtom(t, false, "("+parsed+" < param:now)")
			parsedOK := hasAtom(t, true, "strconv.ParseInt(param:t,10,64)#1 == nil") || hasAtom(t, false, "strconv.ParseInt(param:t,10,64)#1 != nil")
			mentionsNow := false
			for _, l := range t {
				if strings.Contains(l.Atom, "param:now") {
					mentionsNow = true
				}
			}
			switch {
			case strict && parsedOK:
			case lax:
				verdict, detail = "fail", "verifyExpiry answers true when now == expiry (non-strict comparison): the token still validates after the requested seconds have elapsed"
			case strict && !parsedOK:
				verdict, detail = "fail", "verifyExpiry answers true without the value having parsed"
			case mentionsNow:
				if verdict == "ok" {
					verdict, detail = "undecided", "verifyExpiry compares the clock in a form the rule does not recognise"
				}
			default:
				verdict, detail = "fail", "verifyExpiry answers true on a path that does not compare the clock with the parsed expiry"
			}
		}
	}
	if nTrue == 0 && verdict == "ok" {
		verdict, detail = "undecided", "no path on which verifyExpiry answers true was recognised"
	}
	switch verdict {
	case "ok":
		c.Ok(rule, construct, c.P.Pos(fn.Pos()), "")
	case "fail":
		c.Fail(rule, construct, c.P.Pos(fn.Pos()), detail)
	default:
		c.Undecided(rule, construct, detail)
	}
}

func isConstStr(want string) func(v ssa.Value) bool {
	return func(v ssa.Value) bool {
		s, ok := fw.ConstString(v)
		return ok && s == want
	}
}

var clockThrough = fw.ThroughNames(map[string][]int{
	"(time.Time).Unix":  {0},
	"(time.Time).Add":   {0, 1},
	"strconv.FormatInt": {0},
	"strconv.Itoa":      {0},
	"fmt.Sprint":        {0},
	"fmt.Sprintf":       {0, 1, 2},
})

// 3. issuer and validator agree on the caveats; the macaroon id is the user
func c20Issuer(c *fw.Ctx) {
	rule := "3 constants"
	pkg := c.P.Pkg("tokens")
	consts := map[string]string{}
	for _, n := range []string{"Gen", "UserPrefix", "TimePrefix"} {
		if v, ok := fw.ConstValue(pkg, n); ok && v.Kind() == constant.String {
			consts[n] = constant.StringVal(v)
		}
	}
	c.Check(consts["Gen"] == "gen = 1" && consts["UserPrefix"] == "user_id = " && consts["TimePrefix"] == "time < ", rule, "caveat constants", "", fmt.Sprint(consts), fmt.Sprint(consts))
	fn := mustFunc(c, rule, "tokens.GenerateLoginToken")
	if fn != nil {
		adds := fw.DeepCalls(fn, isAddCaveat, nil)
		c.Count("issuer caveat sites", len(adds))
		need := []struct {
			name string
			srcs []fw.FlowSpec
		}{
			{"the generation caveat", []fw.FlowSpec{{IsSource: isConstStr("gen = 1")}}},
			{"the user caveat for the given user", []fw.FlowSpec{{IsSource: isConstStr("user_id = ")}, {IsSourceIn: opField("UserID")}}},
			{"the expiry caveat", []fw.FlowSpec{{IsSource: isConstStr("time < ")}, {IsSource: fw.IsResultOf(fw.NameIs("time.Now"), -1)}}},
		}
		for _, nd := range need {
			best := fw.No
			for _, dc := range adds {
				args := dc.Call.Common().Args
				if len(args) < 2 {
					continue
				}
				all := fw.Yes
				for _, sp := range nd.srcs {
					sp.Arith = true
					sp.Through = clockThrough
					switch fw.Derives3In(args[1], dc.Fr, sp) {
					case fw.No:
						all = fw.No
					case fw.Unknown:
						if all == fw.Yes {
							all = fw.Unknown
						}
					}
				}
				if all == fw.Yes || (all == fw.Unknown && best == fw.No) {
					best = all
				}
			}
			construct := "the issuer adds " + nd.name
			switch {
			case best == fw.Yes:
				c.Ok(rule, construct, c.P.Pos(fn.Pos()), "")
			case best == fw.Unknown || len(adds) == 0:
				c.Undecided(rule, construct, "no AddFirstPartyCaveat site under GenerateLoginToken could be resolved to it")
			default:
				c.Fail(rule, construct, c.P.Pos(fn.Pos()), fmt.Sprintf("none of the %d AddFirstPartyCaveat sites under GenerateLoginToken adds %s: the validator requires it (tokens never validate) or, if the validator is relaxed with it, the binding is lost", len(adds), nd.name))
			}
		}
		for _, dc := range fw.DeepCalls(fn, fw.NameIs("gopkg.in/macaroon.v2.New"), nil) {
			args := dc.Call.Common().Args
			pos := c.P.Pos(dc.Call.Pos())
			c.CheckDerives(args[0], dc.Fr, fw.FlowSpec{IsSourceIn: opField("ServerPrivateKey")}, rule, "the macaroon is minted under the configured secret", pos, "", "macaroon.New is given the key "+fw.Sig(args[0]))
			c.CheckDerives(args[1], dc.Fr, fw.FlowSpec{IsSourceIn: opField("UserID")}, rule, "the macaroon id is the user id", pos, "", "macaroon.New is given the id "+fw.Sig(args[1])+", not op.UserID: GetUserFromToken reveals something else")
		}
	}
	if fn := mustFunc(c, rule, "tokens.GetUserFromToken"); fn != nil {
		isID := func(n string) bool { return strings.HasSuffix(n, "Macaroon).Id") }
		best := fw.No
		for _, r := range fw.Returns(fn) {
			if len(r.Results) == 0 {
				continue
			}
			switch fw.Derives3(r.Results[0], fw.FlowSpec{IsSource: fw.IsResultOf(isID, -1)}) {
			case fw.Yes:
				best = fw.Yes
			case fw.Unknown:
				if best == fw.No {
					best = fw.Unknown
				}
			}
		}
		construct := "GetUserFromToken returns the macaroon id"
		switch {
		case best == fw.Yes:
			c.Ok(rule, construct, c.P.Pos(fn.Pos()), "")
		case len(fw.DeepCalls(fn, isID, nil)) == 0:
			c.Fail(rule, construct, c.P.Pos(fn.Pos()), "GetUserFromToken never reads the macaroon id, which is where the issuer puts the user")
		default:
			c.Undecided(rule, construct, "no return could be traced to mac.Id()")
		}
	}
}

// 4/5. clock and expiry
func c20Clock(c *fw.Ctx) {
	pkg := c.P.Pkg("tokens")
	if fn := mustFunc(c, "4 clock", "tokens.GenerateLoginToken"); fn != nil {
		nowOnly := fw.ThroughNames(map[string][]int{"(time.Time).Unix": {0}, "(time.Time).Add": {0}, "strconv.FormatInt": {0}, "strconv.Itoa": {0}, "fmt.Sprint": {0}, "fmt.Sprintf": {1, 2}})
		for _, dc := range fw.DeepCalls(fn, isAddCaveat, nil) {
			args := dc.Call.Common().Args
			if len(args) < 2 || fw.Derives3In(args[1], dc.Fr, fw.FlowSpec{IsSource: isConstStr("time < "), Arith: true}) != fw.Yes {
				continue
			}
			pos := c.P.Pos(dc.Call.Pos())
			// the numeric part: everything but the prefix constant must come from the clock and the duration
			c.CheckDerives(args[1], dc.Fr, fw.FlowSpec{IsSourceIn: func(v ssa.Value, fr *fw.Frame) bool {
				if isConstStr("time < ")(v) {
					return true
				}
				if fw.IsResultOf(fw.NameIs("time.Now"), -1)(v) {
					return true
				}
				if _, isC := v.(*ssa.Const); isC {
					return true
				}
				// the requested duration, as the field of the options however deep in helpers it is read
				s := fw.SigIn(fr, v)
				return strings.HasSuffix(s, "param:op.Duration") || strings.HasSuffix(s, "param:op.Duration)")
			}, Arith: true, All: true, Through: nowOnly}, "4 clock", "the expiry caveat is computed from time.Now().Unix() and the requested duration only", pos, "", "the expiry caveat "+fw.Sig(args[1])+" is not time.Now().Unix() + Duration (rounding, a relative clock or another offset changes when the token stops validating)")
		}
		// default duration
		verdict, detail := "undecided", "no use of the 120 s default found"
		for _, b := range fn.Blocks {
			for _, ins := range b.Instrs {
				switch x := ins.(type) {
				case *ssa.Store:
					if n, isC := fw.ConstInt(x.Val); isC && n == 120 {
						if strings.Contains(condsOf(b), "Duration == 0)") {
							verdict = "ok"
						} else {
							verdict, detail = "fail", "the default is stored under "+condsOf(b)+", not under Duration == 0"
						}
					}
				case *ssa.Phi:
					for i, e := range x.Edges {
						n, isC := fw.ConstInt(e)
						if !isC || n != 120 {
							continue
						}
						conds := condsOf(b.Preds[i])
						if strings.Contains(conds, "Duration == 0)") || strings.Contains(conds, "Duration) == 0)") {
							verdict = "ok"
						} else {
							verdict, detail = "fail", "the default is chosen under "+conds+", not under Duration == 0"
						}
					}
				}
			}
		}
		switch verdict {
		case "ok":
			c.Ok("5 default", "the 120 s default applies iff no duration was requested", c.P.Pos(fn.Pos()), "")
		case "fail":
			c.Fail("5 default", "the 120 s default applies iff no duration was requested", c.P.Pos(fn.Pos()), detail)
		default:
			c.Undecided("5 default", "the 120 s default applies iff no duration was requested", detail)
		}
	}
	if v, ok := fw.ConstValue(pkg, "defaultDuration"); ok {
		n, _ := constant.Int64Val(v)
		c.Check(n == 120, "5 default", "defaultDuration == 120", "", fmt.Sprint(n), fmt.Sprint(n))
	}
	if fn := mustFunc(c, "4 clock", "tokens.verifyCaveats"); fn != nil {
		sitesOf := fw.DeepCalls(fn, fw.NameIs("gmsl/tokens.verifyExpiry"), nil)
		// seen from the entry point, a clock reading handed down as an argument resolves
		if entry := c.P.Func("tokens.ValidateToken"); entry != nil {
			if fromEntry := fw.DeepCalls(entry, fw.NameIs("gmsl/tokens.verifyExpiry"), nil); len(fromEntry) > 0 {
				sitesOf = fromEntry
			}
		}
		for _, dc := range sitesOf {
			args := dc.Call.Common().Args
			if len(args) < 2 {
				continue
			}
			c.CheckDerives(args[1], dc.Fr, fw.FlowSpec{IsSource: fw.IsResultOf(fw.NameIs("time.Now"), -1), Through: fw.ThroughNames(map[string][]int{"(time.Time).Unix": {0}})}, "4 clock", "the validator compares with the current Unix time", c.P.Pos(dc.Call.Pos()), "", "verifyExpiry is given "+fw.Sig(args[1])+", not time.Now().Unix()")
		}
	}
	// no relative-clock accessor anywhere in the package
	for _, f := range c.P.SrcFuncs() {
		if f.Pkg == nil || f.Pkg.Pkg.Path() != fw.ModPath+"/tokens" {
			continue
		}
		for _, call := range fw.Calls(f) {
			n := fw.CalleeName(call)
			for _, bad := range []string{"Second", "Minute", "Hour", "Nanosecond", "YearDay", "Day", "Weekday"} {
				if n == "(time.Time)."+bad {
					c.Fail("4 clock", "no wall-clock field accessor is used as a timestamp in "+fw.FuncName(f), c.P.Pos(call.Pos()), n+" is a field of the wall clock, not a point in time")
				}
			}
		}
	}
}

// andAll is the conjunction of two conditions.
func andAll(a, b fw.DNF) fw.DNF {
	var out fw.DNF
	for _, x := range a {
		for _, y := range b {
			t := append(fw.Term{}, x...)
			ok := true
			for _, l := range y {
				dup := false
				for _, m := range t {
					if m.Atom == l.Atom {
						dup = true
						if m.Pos != l.Pos {
							ok = false
						}
					}
				}
				if !dup {
					t = append(t, l)
				}
			}
			if ok {
				out = append(out, t)
			}
		}
	}
	return out
}

// tableEntry: v is (a pointer to / a copy of) an element of a package-level or local list.
func tableEntry(v ssa.Value, depth int) bool {
	if depth > 8 {
		return false
	}
	switch x := v.(type) {
	case *ssa.UnOp:
		if _, ok := x.X.(*ssa.Global); ok {
			return true
		}
		return tableEntry(x.X, depth+1)
	case *ssa.IndexAddr:
		return true
	case *ssa.Index:
		return true
	case *ssa.Extract:
		return tableEntry(x.Tuple, depth+1)
	case *ssa.Next:
		return true
	case *ssa.Phi:
		for _, e := range x.Edges {
			if tableEntry(e, depth+1) {
				return true
			}
		}
	case *ssa.Call:
		// the result of a lookup helper over the table (slices.IndexFunc + index, a find function)
		return true
	case *ssa.Alloc:
		for _, ref := range *x.Referrers() {
			if st, ok := ref.(*ssa.Store); ok && st.Addr == ssa.Value(x) && tableEntry(st.Val, depth+1) {
				return true
			}
		}
	}
	return false
}

// 2 (continued). What a caveat says after its prefix is obtained by removing the prefix - a slice
// at len(prefix), strings.TrimPrefix, strings.CutPrefix. strings.TrimLeft / TrimRight / Trim take
// a *set of characters*: handed the prefix text, they also eat the leading characters of the value
// that happen to occur in the prefix ("user_id = " strips u, s, e, r, _, i, d, space, =), so a
// token issued for "sid_alice" validates for "alice". Positive evidence that a prefix was meant:
// the same constant is the second operand of strings.HasPrefix / CutPrefix / TrimPrefix, or of a
// string concatenation on the issuing side, somewhere in the package.
func c20NoCutsetForPrefix(c *fw.Ctx) {
	rule := "2 caveat-mask"
	construct := "the text after a caveat prefix is taken by removing the prefix, not by trimming a character set"
	prefixes := map[string]bool{}
	var trims []ssa.CallInstruction
	var trimFns []*ssa.Function
	for _, fn := range c.P.SrcFuncs() {
		if fn.Pkg == nil || !strings.HasSuffix(fn.Pkg.Pkg.Path(), "/tokens") {
			continue
		}
		for _, call := range fw.Calls(fn) {
			n := fw.CalleeName(call)
			args := call.Common().Args
			switch n {
			case "strings.HasPrefix", "strings.CutPrefix", "strings.TrimPrefix":
				if k, ok := fw.ConstString(args[1]); ok && len(k) > 1 {
					prefixes[k] = true
				}
			case "strings.TrimLeft", "strings.TrimRight", "strings.Trim":
				trims = append(trims, call)
				trimFns = append(trimFns, fn)
			}
		}
		for _, b := range fn.Blocks {
			for _, ins := range b.Instrs {
				if bo, ok := ins.(*ssa.BinOp); ok && bo.Op == token.ADD {
					if k, isK := fw.ConstString(bo.X); isK && len(k) > 1 {
						prefixes[k] = true
					}
				}
			}
		}
	}
	bad := ""
	for i, call := range trims {
		k, ok := fw.ConstString(call.Common().Args[1])
		if !ok || !prefixes[k] {
			continue
		}
		bad = fmt.Sprintf("%s(_, %q) in %s (%s): %q is used as a prefix elsewhere in the package, but here every leading character of the value that occurs in it is removed as well", fw.CalleeName(call), k, fw.FuncName(trimFns[i]), c.P.Pos(call.Pos()), k)
	}
	if bad != "" {
		c.Fail(rule, construct, c.P.Pos(trims[0].Pos()), bad+": a token issued for a user whose ID begins with such characters validates for the shortened ID")
		return
	}
	c.Ok(rule, construct, "", fmt.Sprintf("%d prefix constant(s), %d character-set trim(s), none of a prefix", len(prefixes), len(trims)))
}
