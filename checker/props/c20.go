package props

import (
	"fmt"
	"go/constant"
	"go/token"
	"strings"

	"gmslverif/fw"

	"golang.org/x/tools/go/ssa"
)

func init() { register("C20", checkC20) }

func checkC20(c *fw.Ctx) {
	c.Explanation = "C20 (static): ValidateToken's success is gated on decoding, VerifySignature under the configured secret and verifyCaveats for the configured user; the caveat verifier's bit arithmetic is extracted: each of the three required caveat classes (generation, user, expiry) contributes its own bit under its own condition, the success constant equals the OR of exactly those bits and the 'unknown caveat' bit lies outside it; issuer and validator use the same caveat constants, the macaroon id is the user id that GetUserFromToken returns; both sides read an absolute clock (time.Now().Unix()) and the issued expiry is exactly now + duration with the 120 s default applied iff no duration was given; the expiry comparison is strict."
	c.NotDecidedClause("HMAC soundness of the macaroon library; behaviour at particular instants")
	c.NotDecidedClause("known and outside this check: one satisfied time caveat suffices (a holder may append a later one); a non-matching extra user_id caveat is ignored")
	// 1. gates
	if fn := mustFunc(c, "1 gates", "tokens.ValidateToken"); fn != nil {
		succ := fw.ErrNilSuccess(fn, fw.ErrIndex(fn), nil)
		c.CheckGate("1 gates", fn, "ValidateToken", fw.GuardCallErrNil("deSerializeMacaroon", fw.NameIs("gmsl/tokens.deSerializeMacaroon")), succ)
		c.CheckGate("1 gates", fn, "ValidateToken", fw.GuardCallErrNil("VerifySignature", func(n string) bool { return strings.HasSuffix(n, "Macaroon).VerifySignature") }), succ)
		c.CheckGate("1 gates", fn, "ValidateToken", fw.GuardCallErrNil("verifyCaveats", fw.NameIs("gmsl/tokens.verifyCaveats")), succ)
		for _, call := range fw.CallsTo(fn, false, func(n string) bool { return strings.HasSuffix(n, "Macaroon).VerifySignature") }) {
			s := argSigs(call)
			c.Check(strings.HasSuffix(s[1], "param:op.ServerPrivateKey"), "1 gates", "the signature is verified under the configured secret", c.P.Pos(call.Pos()), "", "VerifySignature key is "+s[1])
		}
		for _, call := range fw.CallsTo(fn, false, fw.NameIs("gmsl/tokens.verifyCaveats")) {
			s := argSigs(call)
			c.Check(strings.Contains(s[0], "VerifySignature(") && strings.HasSuffix(s[0], "#0") && strings.HasSuffix(s[1], "param:op.UserID"), "1 gates", "the verified caveats are checked for the configured user", c.P.Pos(call.Pos()), "", "verifyCaveats("+strings.Join(s, ", ")+")")
		}
	}
	// 2. mask arithmetic
	if fn := mustFunc(c, "2 caveat-mask", "tokens.verifyCaveats"); fn != nil {
		type bit struct {
			val  int64
			cond fw.DNF
			pos  string
		}
		var bits []bit
		// contributions to the mask: `mask |= const` under a condition, or `mask |= helper(...)`
		// where the helper returns constants under conditions (entered, parameters substituted)
		for _, b := range fn.Blocks {
			for _, ins := range b.Instrs {
				bo, ok := ins.(*ssa.BinOp)
				if !ok || bo.Op != token.OR {
					continue
				}
				here, okC := fw.CondAt(nil, b)
				if !okC {
					c.Undecided("2 caveat-mask", "mask contributions", "path condition too large")
					continue
				}
				for _, opnd := range []ssa.Value{bo.X, bo.Y} {
					if n, isC := fw.ConstInt(opnd); isC {
						bits = append(bits, bit{n, here, c.P.Pos(fw.InstrPos(bo))})
						continue
					}
					call, isCall := opnd.(*ssa.Call)
					if !isCall {
						continue
					}
					callee := fw.Followable(call, nil)
					if callee == nil {
						continue
					}
					fr := &fw.Frame{Site: call, Callee: callee}
					fw.WithSubst(fr.Subst(), func() {
						t, err := fw.ExtractTable(callee, 0)
						if err != nil {
							c.Undecided("2 caveat-mask", "mask contributions", err.Error())
							return
						}
						for _, r := range t.Rows {
							n, isC := fw.ConstInt(r.Val)
							if !isC {
								c.Undecided("2 caveat-mask", "mask contributions", "the helper "+fw.FuncName(callee)+" returns a non-constant mask "+r.Outcome)
								continue
							}
							if n == 0 {
								continue
							}
							bits = append(bits, bit{n, andAll(here, r.Cond), c.P.Pos(fw.InstrPos(r.Ret))})
						}
					})
				}
			}
		}
		// a class holds for a contribution when every way of reaching it establishes the class's atoms
		every := func(d fw.DNF, want ...lit) bool {
			if len(d) == 0 {
				return false
			}
			for _, term := range d {
				for _, w := range want {
					if !termHas(term, w) {
						return false
					}
				}
			}
			return true
		}
		classes := map[string]func(d fw.DNF) bool{
			"generation caveat": func(d fw.DNF) bool { return every(d, lit{[]string{`== "gen = 1")`}, true}) },
			"user caveat": func(d fw.DNF) bool {
				return every(d, lit{[]string{"strings.HasPrefix(", `"user_id = ")`}, true}, lit{[]string{"[10:]", "param:userID"}, true})
			},
			"expiry caveat": func(d fw.DNF) bool {
				return every(d, lit{[]string{"strings.HasPrefix(", `"time < ")`}, true}, lit{[]string{"gmsl/tokens.verifyExpiry("}, true})
			},
		}
		required := int64(0)
		for _, name := range []string{"generation caveat", "user caveat", "expiry caveat"} {
			var found []bit
			for _, b := range bits {
				if classes[name](b.cond) {
					found = append(found, b)
				}
			}
			ok := len(found) == 1 && found[0].val != 0 && found[0].val&(found[0].val-1) == 0 && required&found[0].val == 0
			c.Check(ok, "2 caveat-mask", "a verified "+name+" sets its own bit", c.P.Pos(fn.Pos()), "", fmt.Sprintf("%d bit operations under the %s condition: the presence of a valid %s is not recorded, so a token lacking it can validate", len(found), name, name))
			if len(found) == 1 {
				required |= found[0].val
			}
		}
		// the unknown-caveat bit
		var unknownBit int64
		for _, b := range bits {
			known := false
			for _, f := range classes {
				if f(b.cond) {
					known = true
				}
			}
			if !known {
				unknownBit |= b.val
			}
		}
		c.Check(unknownBit != 0 && unknownBit&required == 0, "2 caveat-mask", "an unknown caveat sets a bit outside the required ones", c.P.Pos(fn.Pos()), fmt.Sprint(unknownBit), fmt.Sprintf("unknown-caveat bit %d overlaps the required mask %d (or is missing)", unknownBit, required))
		// success constant
		okSucc := false
		tbl, err := fw.ExtractTable(fn, fw.ErrIndex(fn))
		if err == nil {
			for _, r := range tbl.Rows {
				if r.Outcome != "accept" {
					continue
				}
				okSucc = true
				for _, term := range r.Cond {
					hit := false
					for _, l := range term {
						if l.Pos && strings.HasSuffix(l.Atom, fmt.Sprintf(" == %d)", required)) && strings.HasPrefix(l.Atom, "(phi(") {
							hit = true
						}
					}
					if !hit {
						okSucc = false
					}
				}
			}
		}
		c.Check(okSucc, "2 caveat-mask", "success iff the accumulated mask equals exactly the required bits", c.P.Pos(fn.Pos()), fmt.Sprint(required), fmt.Sprintf("the success return is not guarded by mask == %d (the OR of the generation, user and expiry bits)", required))
	}
	if fn := mustFunc(c, "2 caveat-mask", "tokens.verifyExpiry"); fn != nil {
		tbl, err := fw.ExtractTable(fn, 0)
		ok := err == nil
		if ok {
			for _, r := range tbl.Rows {
				switch {
				case r.Outcome == "value:false":
				case strings.HasPrefix(r.Outcome, "value:(param:now < strconv.ParseInt(param:t,10,64)#0)"):
				default:
					ok = false
				}
			}
		}
		c.Check(ok, "2 caveat-mask", "the expiry test is now < expiry (strict), false on an unparsable value", c.P.Pos(fn.Pos()), "", "verifyExpiry returns something else")
	}
	// 3. constants agree
	pkg := c.P.Pkg("tokens")
	consts := map[string]string{}
	for _, n := range []string{"Gen", "UserPrefix", "TimePrefix"} {
		if v, ok := fw.ConstValue(pkg, n); ok && v.Kind() == constant.String {
			consts[n] = constant.StringVal(v)
		}
	}
	c.Check(consts["Gen"] == "gen = 1" && consts["UserPrefix"] == "user_id = " && consts["TimePrefix"] == "time < ", "3 constants", "caveat constants", "", fmt.Sprint(consts), fmt.Sprint(consts))
	if fn := mustFunc(c, "3 constants", "tokens.generateBaseMacaroon"); fn != nil {
		var added []string
		for _, call := range fw.CallsTo(fn, false, func(n string) bool { return strings.HasSuffix(n, "Macaroon).AddFirstPartyCaveat") }) {
			added = append(added, fw.Sig(call.Common().Args[1]))
		}
		c.Check(len(added) == 2 && added[0] == `"gen = 1"` && added[1] == `("user_id = " + param:userID)`, "3 constants", "the issuer adds the generation caveat and the user caveat for the given user", c.P.Pos(fn.Pos()), strings.Join(added, " ; "), "caveats added: "+strings.Join(added, " ; "))
		for _, call := range fw.CallsTo(fn, false, fw.NameIs("gopkg.in/macaroon.v2.New")) {
			s := argSigs(call)
			c.Check(s[0] == "param:secret" && s[1] == "param:userID", "3 constants", "the macaroon is minted under the secret with the user id as its id", c.P.Pos(call.Pos()), "", "macaroon.New("+strings.Join(s, ", ")+")")
		}
	}
	if fn := mustFunc(c, "3 constants", "tokens.GetUserFromToken"); fn != nil {
		ok := false
		for _, r := range fw.Returns(fn) {
			if strings.Contains(fw.Sig(r.Results[0]), "Macaroon).Id(") {
				ok = true
			}
		}
		c.Check(ok, "3 constants", "GetUserFromToken returns the macaroon id", c.P.Pos(fn.Pos()), "", "no return of mac.Id()")
	}
	// 4/5. clock and expiry
	if fn := mustFunc(c, "4 clock", "tokens.GenerateLoginToken"); fn != nil {
		for _, call := range fw.CallsTo(fn, false, func(n string) bool { return strings.HasSuffix(n, "Macaroon).AddFirstPartyCaveat") }) {
			s := fw.Sig(call.Common().Args[1])
			want := `("time < " + strconv.FormatInt(((time.Time).Unix(time.Now()) + *&param:op.Duration),10))`
			alt := `("time < " + strconv.Itoa(((time.Time).Unix(time.Now()) + *&param:op.Duration)))`
			c.Check(s == want || s == alt, "4 clock", "the expiry caveat is exactly now (Unix seconds) + requested duration", c.P.Pos(call.Pos()), s, "expiry caveat is "+s+": it is not time.Now().Unix() + Duration (rounding, a relative clock or another offset changes when the token stops validating)")
		}
		// default
		okD := false
		for _, b := range fn.Blocks {
			for _, ins := range b.Instrs {
				if st, ok := ins.(*ssa.Store); ok && strings.HasSuffix(fw.Sig(st.Addr), "param:op.Duration") && fw.Sig(st.Val) == "120" {
					okD = strings.Contains(condsOf(b), "(*&param:op.Duration == 0)")
				}
			}
		}
		c.Check(okD, "5 default", "the 120 s default applies iff no duration was requested", c.P.Pos(fn.Pos()), "", "no store of 120 under Duration == 0")
	}
	if v, ok := fw.ConstValue(pkg, "defaultDuration"); ok {
		n, _ := constant.Int64Val(v)
		c.Check(n == 120, "5 default", "defaultDuration == 120", "", fmt.Sprint(n), fmt.Sprint(n))
	}
	if fn := mustFunc(c, "4 clock", "tokens.verifyCaveats"); fn != nil {
		for _, call := range fw.CallsTo(fn, false, fw.NameIs("gmsl/tokens.verifyExpiry")) {
			s := fw.Sig(call.Common().Args[1])
			c.Check(s == "(time.Time).Unix(time.Now())", "4 clock", "the validator compares with the current Unix time", c.P.Pos(call.Pos()), s, "verifyExpiry is given "+s)
		}
	}
	// no relative-clock accessor anywhere in the package
	for _, f := range c.P.SrcFuncs() {
		if f.Pkg == nil || f.Pkg.Pkg.Path() != fw.ModPath+"/tokens" {
			continue
		}
		for _, call := range fw.Calls(f) {
			n := fw.CalleeName(call)
			for _, bad := range []string{"Second", "Minute", "Hour", "Nanosecond", "YearDay", "Day", "Weekday"} {
				if n == "(time.Time)."+bad {
					c.Fail("4 clock", "no wall-clock field accessor is used as a timestamp in "+fw.FuncName(f), c.P.Pos(call.Pos()), n+" is a field of the wall clock, not a point in time")
				}
			}
		}
	}
}

// andAll is the conjunction of two conditions.
func andAll(a, b fw.DNF) fw.DNF {
	var out fw.DNF
	for _, x := range a {
		for _, y := range b {
			t := append(fw.Term{}, x...)
			ok := true
			for _, l := range y {
				dup := false
				for _, m := range t {
					if m.Atom == l.Atom {
						dup = true
						if m.Pos != l.Pos {
							ok = false
						}
					}
				}
				if !dup {
					t = append(t, l)
				}
			}
			if ok {
				out = append(out, t)
			}
		}
	}
	return out
}
