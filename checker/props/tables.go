package props

import (
	"os"
	"go/types"
	"fmt"
	"sort"
	"strings"

	"gmslverif/fw"

	"golang.org/x/tools/go/ssa"
)

// ---- harness for decision-table comparison (engine T) ----

// tvar is a variable of the abstract input domain.
type tvar struct {
	name   string
	values []string
}

// asg is one assignment of the domain.
type asg map[string]string

// interp maps atoms of the code's table to truth values under an assignment.
// lhs: signature of the left operand of `(lhs == "const")` atoms -> variable name.
// rel: "a|b" (signatures of integer operands) -> variable name whose value is "<", "=" or ">".
// bools: atom signature -> variable name whose value is "true"/"false".
// fixed: atoms with a fixed truth value (code-only atoms fixed to their passing value).
type interp struct {
	lhs   map[string]string
	rel   map[string]string
	bools map[string]string
	fixed map[string]bool
	// match: optional fallback
	match func(atom string, a asg) (bool, bool)
	// expand: optional; atoms (calls of unexported helpers) to expand although match claims them
	expand func(atom string) bool
	// free: optional; atoms the rule does not know but accepts as independent inputs of the
	// decision (e.g. a test of another field of the same record): they are enumerated over
	// true/false, and the specification's outcome must hold for both
	free func(atom string) bool
}

func parseEq(atom string) (lhs, rhs string, ok bool) {
	if !strings.HasPrefix(atom, "(") || !strings.HasSuffix(atom, ")") {
		return "", "", false
	}
	in := atom[1 : len(atom)-1]
	i := strings.LastIndex(in, " == ")
	if i < 0 {
		return "", "", false
	}
	return in[:i], in[i+4:], true
}

func parseCmp(atom string) (a, op, b string, ok bool) {
	if !strings.HasPrefix(atom, "(") || !strings.HasSuffix(atom, ")") {
		return
	}
	in := atom[1 : len(atom)-1]
	for _, o := range []string{" <= ", " >= ", " < ", " > ", " == "} {
		// split at top level: find the operator not inside parentheses
		depth := 0
		for i := 0; i+len(o) <= len(in); i++ {
			switch in[i] {
			case '(', '[':
				depth++
			case ')', ']':
				depth--
			}
			if depth == 0 && in[i:i+len(o)] == o {
				return in[:i], strings.TrimSpace(o), in[i+len(o):], true
			}
		}
	}
	return
}

// swapEq returns `(b == a)` for an atom `(a == b)` (top-level operator), or "".
func swapEq(atom string) string {
	x, op, y, ok := parseCmp(atom)
	if !ok || op != "==" {
		return ""
	}
	return "(" + y + " == " + x + ")"
}

// env interprets atoms; equality atoms are tried in both operand orders (the extractor
// canonicalises the order, rules may have been written either way).
func (ip *interp) env(a asg) fw.Env {
	one := ip.env1(a)
	strict := *ip
	strict.match = nil
	explicit := strict.env1(a)
	return func(atom string) (bool, bool) {
		sw := swapEq(atom)
		if v, ok := explicit(atom); ok {
			return v, true
		}
		if sw != "" {
			if v, ok := explicit(sw); ok {
				return v, true
			}
		}
		if v, ok := one(atom); ok {
			return v, true
		}
		if sw != "" {
			return one(sw)
		}
		return false, false
	}
}

func (ip *interp) env1(a asg) fw.Env {
	return func(atom string) (bool, bool) {
		if v, ok := ip.fixed[atom]; ok {
			return v, true
		}
		if name, ok := ip.bools[atom]; ok {
			return a[name] == "true", true
		}
		if l, r, ok := parseEq(atom); ok && strings.HasPrefix(r, `"`) {
			if name, ok := ip.lhs[l]; ok {
				return `"`+a[name]+`"` == r, true
			}
		}
		if x, op, y, ok := parseCmp(atom); ok {
			if name, ok := ip.rel[x+"|"+y]; ok {
				return evalRel(a[name], op), true
			}
			if name, ok := ip.rel[y+"|"+x]; ok {
				return evalRel(flipRel(a[name]), op), true
			}
		}
		if ip.match != nil {
			return ip.match(atom, a)
		}
		return false, false
	}
}

func flipRel(r string) string {
	switch r {
	case "<":
		return ">"
	case ">":
		return "<"
	}
	return r
}

func evalRel(rel, op string) bool {
	switch op {
	case "<":
		return rel == "<"
	case "<=":
		return rel == "<" || rel == "="
	case ">":
		return rel == ">"
	case ">=":
		return rel == ">" || rel == "="
	case "==":
		return rel == "="
	}
	return false
}

// enumerate calls f for every assignment of vars.
func enumerate(vars []tvar, f func(a asg)) int {
	n := 0
	a := asg{}
	var rec func(i int)
	rec = func(i int) {
		if i == len(vars) {
			cp := asg{}
			for k, v := range a {
				cp[k] = v
			}
			n++
			f(cp)
			return
		}
		for _, v := range vars[i].values {
			a[vars[i].name] = v
			rec(i + 1)
		}
	}
	rec(0)
	return n
}

func (a asg) String() string {
	ks := make([]string, 0, len(a))
	for k := range a {
		ks = append(ks, k)
	}
	sort.Strings(ks)
	var ps []string
	for _, k := range ks {
		ps = append(ps, k+"="+a[k])
	}
	return strings.Join(ps, " ")
}

// outcomeOf normalises a row outcome for comparison (callee names shortened).
func outcomeOf(r fw.Row) string {
	return r.Outcome
}

// compareTable evaluates fn's decision table on every assignment and compares with oracle.
// oracle returns the expected outcome, or "" to skip an (infeasible) assignment.
// rowValue (optional) post-processes the row into the compared outcome.
// compareTablePrep (optional, set by a caller around one compareTable call): rewrites the
// extracted table before it is evaluated (e.g. rows that return the result of a library
// three-way comparison are split into their three outcomes).
var compareTablePrep func(t *fw.Table)

func compareTable(c *fw.Ctx, rule, what string, fn *ssa.Function, resIdx int, vars []tvar, ip *interp, oracle func(a asg) string, rowValue func(r fw.Row) string) {
	if fn == nil {
		return
	}
	t, err := fw.ExtractTable(fn, resIdx)
	if err != nil {
		c.Undecided(rule, what, err.Error())
		return
	}
	if compareTablePrep != nil {
		compareTablePrep(t)
	}
	if rowValue == nil {
		rowValue = outcomeOf
	}
	// conditions the rule does not know but that are calls to repository helpers are
	// replaced by the helpers' own conditions (extract-function refactors are transparent)
	first := asg{}
	for _, v := range vars {
		if len(v.values) > 0 {
			first[v.name] = v.values[0]
		}
	}
	env0 := ip.env(first)
	// atoms the rule does not know are expanded; a rule with a catch-all matcher names the
	// helper atoms it wants expanded nevertheless (ip.expand)
	t.ExpandUnknown(func(atom string) bool {
		if ip.expand != nil && ip.expand(atom) && fw.AtomCallsUnexportedHelper(atom) {
			return false
		}
		_, ok := env0(atom)
		return ok
	})
	// `return helper(...)` into an unexported helper the oracle does not name: use the helper's rows
	oracleOutcomes := map[string]bool{}
	enumerate(vars, func(a asg) { oracleOutcomes[oracle(a)] = true })
	t.InlineTailCalls(func(f *ssa.Function) int {
		if resIdx < f.Signature.Results().Len() {
			return resIdx
		}
		return fw.ErrIndex(f)
	}, func(r fw.Row) bool { return oracleOutcomes[rowValue(r)] })
	t.ExpandUnknown(func(atom string) bool {
		if ip.expand != nil && ip.expand(atom) && fw.AtomCallsUnexportedHelper(atom) {
			return false
		}
		_, ok := env0(atom)
		return ok
	})
	t.SplitBoolValues(func(atom string) bool { _, ok := env0(atom); return ok })
	c.SawFn(fw.FuncName(fn))
	if dbg := os.Getenv("GMSL_DEBUG_TABLE"); dbg != "" && strings.Contains(what, dbg) {
		for _, r := range t.Rows {
			fmt.Fprintf(os.Stderr, "ROW %s => %s\n    %s\n", c.P.Pos(fw.InstrPos(r.Ret)), rowValue(r), r.Cond.String())
		}
	}
	if ip.free != nil {
		freeNames := map[string]string{}
		for _, a := range t.Atoms() {
			if _, ok := env0(a); !ok && ip.free(a) {
				name := fmt.Sprintf("free%d", len(freeNames)+1)
				freeNames[a] = name
				vars = append(vars, tvar{name, []string{"true", "false"}})
			}
		}
		if len(freeNames) > 0 {
			cp := *ip
			prev := ip.match
			cp.match = func(atom string, a asg) (bool, bool) {
				if n, ok := freeNames[atom]; ok {
					return a[n] == "true", true
				}
				if prev != nil {
					return prev(atom, a)
				}
				return false, false
			}
			ip = &cp
		}
	}
	mismatches := map[string]string{} // construct -> detail (deduplicated by code row + expectation)
	unknown := map[string]bool{}
	notUnderstood := map[string]bool{}
	rowsUsed := map[*ssa.Return]bool{}
	n := enumerate(vars, func(a asg) {
		want := oracle(a)
		if want == "" {
			return
		}
		rows, maybe, unk := t.Eval3(ip.env(a))
		if len(rows) == 0 && want == "<no path>" {
			return // the rules call this combination infeasible and no path is established for it
		}
		if len(rows) == 0 && len(maybe) > 0 {
			// no path is established; the candidates are the paths that depend on conditions the
			// rule does not know. If they all decide what the rules decide, those conditions do
			// not matter; if none does, every feasible path disagrees; otherwise not decided.
			agree, disagree := 0, 0
			for _, r := range maybe {
				if rowValue(r) == want {
					agree++
				} else if oracleOutcomes[rowValue(r)] {
					disagree++
				}
			}
			switch {
			case disagree == 0 && agree == len(maybe):
				for _, r := range maybe {
					rowsUsed[r.Ret] = true
				}
				return
			case agree == 0 && disagree == len(maybe):
				rows = maybe
			default:
				for _, u := range unk {
					unknown[u] = true
				}
				return
			}
		} else if len(rows) == 0 {
			for _, u := range unk {
				unknown[u] = true
			}
			if len(unk) > 0 {
				return
			}
		}
		outs := map[string]bool{}
		var pos []string
		for _, r := range rows {
			outs[rowValue(r)] = true
			rowsUsed[r.Ret] = true
			pos = append(pos, c.P.Pos(fw.InstrPos(r.Ret)))
		}
		got := strings.Join(sortedSet(outs), "|")
		if len(rows) == 0 {
			got = "<no path>"
		}
		foreign := false
		for o := range outs {
			if !oracleOutcomes[o] && strings.HasPrefix(o, "value:") && strings.ContainsAny(o, "(") {
				foreign = true // a computed value the interpretation cannot evaluate
			}
		}
		// the decision is delegated to a method of an unexported interface (a strategy object) or
		// to a function value: what it decides is not visible in this table
		for _, r := range rows {
			if !oracleOutcomes[rowValue(r)] && r.Call != nil {
				cm := r.Call.Common()
				if cm.IsInvoke() {
					if named, ok := cm.Value.Type().(*types.Named); ok && named.Obj() != nil && !named.Obj().Exported() {
						foreign = true
					}
				} else if cm.StaticCallee() == nil {
					foreign = true
				}
			}
		}
		if got != want && (strings.Contains(got, "unknown") || (foreign && len(rows) > 0)) {
			notUnderstood[fmt.Sprintf("for [%s] the code's outcome is not understood (%s)", a.String(), got)] = true
			return
		}
		if got != want {
			key := fmt.Sprintf("%s: %s expected %s", what, strings.Join(dedupStr(pos), ","), want)
			if _, seen := mismatches[key]; !seen {
				mismatches[key] = fmt.Sprintf("for [%s] the code decides %s (path to %s), the rules decide %s", a.String(), got, strings.Join(dedupStr(pos), ","), want)
			}
		}
	})
	c.Count("table_rows_evaluated", n)
	c.Count("table_leaves", len(t.Rows))
	for u := range unknown {
		c.Undecided(rule, what+": unrecognised branch condition", "the function branches on a condition the rule does not know: "+u)
	}
	for u := range notUnderstood {
		c.Undecided(rule, what+": outcome not understood", u)
		break
	}
	if len(mismatches) == 0 && (len(notUnderstood) > 0 || len(unknown) > 0) {
		return
	}
	if len(mismatches) == 0 {
		c.Ok(rule, what, c.P.Pos(fn.Pos()), fmt.Sprintf("%d assignments x %d leaves agree with the rules", n, len(t.Rows)))
		return
	}
	for _, k := range fw.SortedKeys(mismatches) {
		c.Fail(rule, k, c.P.Pos(fn.Pos()), mismatches[k])
	}
}

// splitThreeWay: a row that returns cmp.Compare(x, y) (or strings.Compare is left alone: it is
// the final tie-break the rules name) stands for three rows: x < y gives -1, x == y gives 0,
// x > y gives 1.
func splitThreeWay(t *fw.Table) {
	var out []fw.Row
	for _, r := range t.Rows {
		call, ok := r.Call.(*ssa.Call)
		if !ok || r.Outcome != "call:cmp.Compare" || len(call.Call.Args) != 2 {
			out = append(out, r)
			continue
		}
		x, y := fw.Sig(call.Call.Args[0]), fw.Sig(call.Call.Args[1])
		eqX, eqY := x, y
		if eqX > eqY {
			eqX, eqY = eqY, eqX
		}
		for _, alt := range []struct {
			atom, outcome string
		}{{"(" + x + " < " + y + ")", "value:-1"}, {"(" + eqX + " == " + eqY + ")", "value:0"}, {"(" + x + " > " + y + ")", "value:1"}} {
			nr := r
			nr.Call = nil
			nr.Outcome = alt.outcome
			nr.Cond = fw.AndLit(r.Cond, fw.Lit{Atom: alt.atom, Pos: true})
			if len(nr.Cond) > 0 {
				out = append(out, nr)
			}
		}
	}
	t.Rows = out
}

func dedupStr(in []string) []string {
	seen := map[string]bool{}
	var out []string
	for _, s := range in {
		if !seen[s] {
			seen[s] = true
			out = append(out, s)
		}
	}
	sort.Strings(out)
	return out
}

// evalDNF evaluates a condition under env; unknown atoms are collected.
func evalDNF(d fw.DNF, env fw.Env, unknown map[string]bool) bool {
	for _, term := range d {
		ok := true
		for _, l := range term {
			v, known := env(l.Atom)
			if !known {
				unknown[l.Atom] = true
				ok = false
				break
			}
			if v != l.Pos {
				ok = false
				break
			}
		}
		if ok {
			return true
		}
	}
	return false
}

// trueDNF: the condition (from the entry of fn) under which the boolean value v, used in block
// `at`, is true: constant alternatives of `a && b` / `a || b` phis contribute their edge
// condition, a non-constant alternative contributes its edge condition and itself as an atom.
func trueDNF(fn *ssa.Function, v ssa.Value, at *ssa.BasicBlock) (fw.DNF, error) {
	rows, err := fw.ValueRows(fn, v, at)
	if err != nil {
		return nil, err
	}
	var out fw.DNF
	for _, r := range rows {
		if cst, isC := r.Val.(*ssa.Const); isC {
			if cst.Value != nil && cst.Value.String() == "true" {
				out = append(out, r.Cond...)
			}
			continue
		}
		cv, neg := fw.BoolCond(r.Val)
		for _, term := range r.Cond {
			t := append(fw.Term{}, term...)
			t = append(t, fw.Lit{Atom: fw.Sig(cv), Pos: !neg})
			out = append(out, t)
		}
	}
	return out, nil
}
