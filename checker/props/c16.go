package props

import (
	"fmt"
	"go/ast"
	"go/constant"
	"go/token"
	"go/types"
	"regexp"
	"strings"

	"gmslverif/fw"

	"golang.org/x/tools/go/ssa"
)

func init() { register("C16", checkC16) }

var resolveAtoms = []atomRule{
	{name: "VALID", match: func(s string) (bool, bool) {
		return false, strings.HasPrefix(s, "gmsl/spec.ParseAndValidateServerName(param:serverName)#2")
	}},
	{name: "IPLITERAL", match: func(s string) (bool, bool) {
		if strings.HasPrefix(s, "(net.ParseIP(") && strings.HasSuffix(s, " != nil)") {
			return false, true
		}
		if strings.HasPrefix(s, "(net.ParseIP(") && strings.HasSuffix(s, " == nil)") {
			return true, true
		}
		return false, false
	}},
	{name: "PORT", match: func(s string) (bool, bool) {
		if s == "(gmsl/spec.ParseAndValidateServerName(param:serverName)#1 != -1)" {
			return false, true
		}
		if s == "(gmsl/spec.ParseAndValidateServerName(param:serverName)#1 == -1)" {
			return true, true
		}
		return false, false
	}},
	{name: "WELLKNOWN_ENABLED", match: func(s string) (bool, bool) { return false, s == "param:checkWellKnown" }},
	{name: "WELLKNOWN_OK", match: func(s string) (bool, bool) {
		if s == "(gmsl/fclient.LookupWellKnown(param:ctx,param:serverName)#1 == nil)" {
			return false, true
		}
		return false, false
	}},
}

func atomsWithErr(b *ssa.BasicBlock, rules []atomRule) string {
	// like atomise but error checks are classified too (WELLKNOWN_OK is an error check)
	var out []string
	for _, f := range fw.DomConds(b) {
		name := ""
		s := f.Sig
		for _, r := range rules {
			if neg, ok := r.match(s); ok {
				taken := f.Taken
				if neg {
					taken = !taken
				}
				name = r.name
				if !taken {
					name = "!" + name
				}
				break
			}
		}
		if name == "" {
			if strings.HasPrefix(s, "(phi(") || strings.Contains(s, "[0] == 91") || strings.Contains(s, "== 93") || strings.Contains(s, "builtin.len(") {
				continue // bracket stripping of IPv6 literals
			}
			name = "OTHER:" + f.String()
		}
		out = append(out, name)
	}
	return strings.Join(out, ",")
}

func checkC16(c *fw.Ctx) {
	c.Explanation = "C16 (static): the resolution procedure is read off SSA as a table of (branch atoms -> action): invalid names are refused first, then IP literal, explicit port, well-known (only when enabled, recursing with the lookup disabled), SRV (matrix-fed before matrix) and finally port 8448, each with the Host header and TLS name the specification assigns; the well-known fetch is accepted only with status 200 and a non-empty m.server, reads at most 50 KiB and lets max-age override Expires; every outbound-connection construct in fclient (net.Dialer, http.Transport, http.Client literals) is enumerated and must carry the allow/deny network control; the network control admits only tcp4/tcp6 to parsed IPs that are allowed, denial takes precedence, range membership is an any-match over all entries decided by net.IPNet.Contains; transports dial with the controlled dialer and use the step's TLS name, Host and destination."
	c.NotDecidedClause("DNS semantics and the behaviour of net/http; Host/SNI values as observed on the wire")
	checkResolve(c)
	checkSRV(c)
	checkWellKnown(c)
	checkConnectors(c)
	checkNetworkControl(c)
	checkTransportUse(c)
	checkPortParse(c, "1 resolve")
	checkFallbackValidated(c)
	checkLenientAcceptors(c, "1 resolve", "spec.ParseAndValidateServerName")
}

// checkFallbackValidated: "invalid server names are refused" also holds for the name a
// well-known reply delegates to: the SRV / 8448 fallback (handleNoWellKnown) builds targets
// from any string, so no path on which ParseAndValidateServerName rejected that very name
// may reach it.
func checkFallbackValidated(c *fw.Ctx) {
	rule := "1 resolve"
	construct := "no name that failed validation reaches the SRV / 8448 fallback"
	if c.InlinedReports == nil {
		c.InlinedReports = map[string]bool{}
	}
	c.InlinedReports[rule+"|"+construct] = true
	sites := 0
	for _, f := range c.P.SrcFuncs() {
		if f.Pkg == nil || f.Pkg.Pkg.Path() != fw.ModPath+"/fclient" {
			continue
		}
		for _, call := range fw.CallsTo(f, false, fw.NameIs("gmsl/fclient.handleNoWellKnown")) {
			args := call.Common().Args
			if len(args) < 2 {
				continue
			}
			name := fw.Sig(args[1])
			tgt, _ := call.(ssa.Instruction)
			for _, v := range fw.CallsTo(f, false, fw.NameIs("gmsl/spec.ParseAndValidateServerName")) {
				if fw.Sig(v.Common().Args[0]) != name {
					continue
				}
				vv, _ := v.(ssa.Value)
				if vv == nil || vv.Referrers() == nil {
					continue
				}
				for _, r := range *vv.Referrers() {
					ex, ok := r.(*ssa.Extract)
					if !ok || ex.Index != 2 || ex.Referrers() == nil {
						continue
					}
					for _, b := range f.Blocks {
						if len(b.Instrs) == 0 {
							continue
						}
						iff, ok := b.Instrs[len(b.Instrs)-1].(*ssa.If)
						if !ok {
							continue
						}
						cv, neg := fw.BoolCond(iff.Cond)
						if cv != ssa.Value(ex) {
							continue
						}
						sites++
						invalid := 1
						if neg {
							invalid = 0
						}
						if fw.ReachableFromEdge(b, invalid, tgt) {
							c.Fail(rule, construct, c.P.Pos(call.Pos()), fmt.Sprintf("%s: the fallback for %s is reachable from the branch on which ParseAndValidateServerName rejected that name (%s): an invalid (delegated) server name is turned into SRV lookups and a :8448 target instead of being refused", fw.FuncName(f), name, c.P.Pos(iff.Cond.Pos())))
						} else {
							c.Ok(rule, construct, c.P.Pos(call.Pos()), fw.FuncName(f)+": "+name+" rejected at "+c.P.Pos(iff.Cond.Pos())+" cannot reach the fallback")
						}
					}
				}
			}
		}
	}
	if sites == 0 {
		c.Undecided(rule, construct, "no fallback call whose name is validated in the same function was found")
	}
}

func checkResolve(c *fw.Ctx) {
	rule := "1 resolve"
	fn := mustFunc(c, rule, "fclient.resolveServer")
	if fn == nil {
		return
	}
	if pub := mustFunc(c, rule, "fclient.ResolveServer"); pub != nil {
		ok := false
		for _, call := range fw.CallsTo(pub, false, fw.NameIs("gmsl/fclient.resolveServer")) {
			ok = fw.Sig(call.Common().Args[2]) == "true"
		}
		c.Expect(ok, rule, "ResolveServer starts with the well-known lookup enabled", c.P.Pos(pub.Pos()), "", "no call resolveServer(_, _, true) was recognised in ResolveServer")
	}
	// actions
	type action struct{ what, atoms string }
	want := map[string]string{
		"refuse invalid name":        "!VALID",
		"IP literal target":          "VALID,IPLITERAL",
		"explicit port target":       "VALID,!IPLITERAL,PORT",
		"well-known lookup":          "VALID,!IPLITERAL,!PORT,WELLKNOWN_ENABLED",
		"resolve the delegated name": "VALID,!IPLITERAL,!PORT,WELLKNOWN_ENABLED,WELLKNOWN_OK",
		"SRV / 8448 fallback":        "VALID,!IPLITERAL,!PORT",
	}
	got := map[string]string{}
	for _, r := range fw.Returns(fn) {
		s0, s1 := fw.Sig(r.Results[0]), fw.Sig(r.Results[1])
		at := atomsWithErr(r.Block(), resolveAtoms)
		switch {
		case s0 == "nil" && strings.HasPrefix(s1, "fmt.Errorf("):
			got["refuse invalid name"] = at
		case strings.HasPrefix(s0, "gmsl/fclient.handleNoWellKnown("):
			got["SRV / 8448 fallback"] = at
		case strings.HasPrefix(s0, "gmsl/fclient.resolveServer("):
			got["resolve the delegated name"] = at
		case strings.Contains(at, "PORT") && !strings.Contains(at, "!PORT") && !strings.Contains(at, ",IPLITERAL"):
			got["explicit port target"] = at
		case strings.Contains(at, ",IPLITERAL"):
			got["IP literal target"] = at
		default:
			c.Undecided(rule, "unrecognised resolution result", "returns "+s0+" under "+at)
		}
	}
	for _, call := range fw.CallsTo(fn, false, fw.NameIs("gmsl/fclient.LookupWellKnown")) {
		got["well-known lookup"] = atomsWithErr(call.Block(), resolveAtoms)
	}
	for _, k := range fw.SortedKeys(want) {
		if got[k] == "" || strings.Contains(got[k], "OTHER:") {
			// the step was not recognised (or runs under a condition the rule does not know)
			c.Undecided(rule, "step: "+k, fmt.Sprintf("'%s' was not recognised among the returns of resolveServer (conditions: {%s})", k, got[k]))
			continue
		}
		c.Check(got[k] == want[k], rule, "step: "+k, c.P.Pos(fn.Pos()), got[k], fmt.Sprintf("'%s' happens when {%s}; the specification prescribes {%s}", k, got[k], want[k]))
	}
	// the recursion disables a second well-known lookup and resolves the delegated name
	for _, call := range fw.CallsTo(fn, false, fw.NameIs("gmsl/fclient.resolveServer")) {
		s := argSigs(call)
		c.Check(s[2] == "false", rule, "the delegated name is resolved without a further well-known lookup", c.P.Pos(call.Pos()), "", "third argument is "+s[2])
		c.Check(strings.HasSuffix(s[1], ".NewAddress") && strings.Contains(s[1], "LookupWellKnown("), rule, "the delegated name is the well-known reply's m.server", c.P.Pos(call.Pos()), "", "second argument is "+s[1])
	}
	// per-step Host / TLS / destination
	host := "gmsl/spec.ParseAndValidateServerName(param:serverName)#0"
	for _, b := range fn.Blocks {
		for _, ins := range b.Instrs {
			st, ok := ins.(*ssa.Store)
			if !ok {
				continue
			}
			a, v := fw.Sig(st.Addr), fw.Sig(st.Val)
			if !strings.Contains(a, "ResolutionResult[0].") {
				continue
			}
			at := atomsWithErr(b, resolveAtoms)
			field := a[strings.LastIndex(a, ".")+1:]
			ip := strings.Contains(at, ",IPLITERAL")
			switch field {
			case "Host":
				judge3(c, rule, fmt.Sprintf("Host header (%s) is the server name", pick(ip, "IP literal", "explicit port")), c.P.Pos(fw.InstrPos(st)), "Host = "+v,
					v == "param:serverName", strings.Contains(v, host) || strings.Contains(v, ".Target") || strings.Contains(v, ".NewAddress"))
			case "TLSServerName":
				judge3(c, rule, fmt.Sprintf("TLS name (%s) is the host part", pick(ip, "IP literal", "explicit port")), c.P.Pos(fw.InstrPos(st)), "TLSServerName = "+v,
					strings.Contains(v, host), v == "param:serverName" || strings.Contains(v, ".Target"))
			case "Destination":
				if ip {
					judge3(c, rule, "IP literal: destination is the literal with its port or 8448", c.P.Pos(fw.InstrPos(st)), "Destination = "+v,
						strings.HasPrefix(v, "phi(net.JoinHostPort(") && strings.Contains(v, "strconv.Itoa(8448))|param:serverName)"), strings.Contains(v, "net.JoinHostPort(") && !strings.Contains(v, "8448"))
				} else {
					judge3(c, rule, "explicit port: destination is the name as given", c.P.Pos(fw.InstrPos(st)), "Destination = "+v,
						v == "param:serverName", strings.Contains(v, "8448") || strings.Contains(v, ".Target"))
				}
			}
		}
	}
}

func checkSRV(c *fw.Ctx) {
	rule := "2 srv"
	fn := mustFunc(c, rule, "fclient.lookupSRV")
	if fn != nil {
		var svc []ssa.CallInstruction
		for _, call := range fw.CallsTo(fn, false, func(n string) bool { return strings.HasSuffix(n, ".LookupSRV") }) {
			svc = append(svc, call)
		}
		construct := "_matrix-fed._tcp is looked up before _matrix._tcp"
		switch len(svc) {
		case 2:
			s0, _ := fw.ConstString(svc[0].Common().Args[len(svc[0].Common().Args)-3])
			s1, _ := fw.ConstString(svc[1].Common().Args[len(svc[1].Common().Args)-3])
			if s0 == "" || s1 == "" {
				c.Undecided(rule, construct, "the service names are not constants")
				break
			}
			if s0 == "matrix" && s1 == "matrix-fed" {
				svc[0], svc[1], s0, s1 = svc[1], svc[0], s1, s0
			}
			ok := s0 == "matrix-fed" && s1 == "matrix" && reaches(svc[0], svc[1]) && !reaches(svc[1], svc[0])
			c.Check(ok, rule, construct, c.P.Pos(fn.Pos()), "", "SRV services are not queried in the order matrix-fed, matrix")
			// the legacy lookup only after a not-found of the new one
			conds := ""
			for _, f := range fw.DomConds(svc[1].Block()) {
				conds += f.String() + " && "
			}
			c.Expect(strings.Contains(conds, "IsNotFound"), rule, "_matrix is consulted only when _matrix-fed was not found", c.P.Pos(svc[1].Pos()), "", "the legacy SRV lookup runs under ["+conds+"]")
		case 1:
			// one call in a loop over a constant list of service names: the list gives the order
			names, isC := fw.ConstStringsIn(svc[0].Common().Args[len(svc[0].Common().Args)-3], nil)
			if !isC {
				c.Undecided(rule, construct, "the service name is not resolved to a constant list")
				break
			}
			c.Check(len(names) == 2 && names[0] == "matrix-fed" && names[1] == "matrix", rule, construct, c.P.Pos(svc[0].Pos()), strings.Join(names, ","), "SRV services are queried in the order "+strings.Join(names, ", "))
		default:
			c.Undecided(rule, construct, fmt.Sprintf("%d SRV lookups found", len(svc)))
		}
	}
	if h := mustFunc(c, rule, "fclient.handleNoWellKnown"); h != nil {
		for _, b := range h.Blocks {
			for _, ins := range b.Instrs {
				st, ok := ins.(*ssa.Store)
				if !ok {
					continue
				}
				a, v := fw.Sig(st.Addr), fw.Sig(st.Val)
				if !strings.Contains(a, "ResolutionResult") || !strings.Contains(a, ".") {
					continue
				}
				field := a[strings.LastIndex(a, ".")+1:]
				srv := strings.Contains(condsOf(b), "gmsl/fclient.lookupSRV(") && !strings.Contains(a, "[1]gmsl") || strings.Contains(v, ".Target") || strings.Contains(v, ".Port")
				switch field {
				case "Host":
					judge3(c, rule, "SRV / fallback: Host header is the server name", c.P.Pos(fw.InstrPos(st)), "Host = "+v, v == "param:serverName", strings.Contains(v, ".Target") || strings.Contains(v, "8448"))
				case "TLSServerName":
					judge3(c, rule, "SRV / fallback: TLS name is the server name", c.P.Pos(fw.InstrPos(st)), "TLSServerName = "+v, v == "param:serverName", strings.Contains(v, ".Target") || strings.Contains(v, "8448"))
				case "Destination":
					if strings.Contains(v, "8448") {
						c.Ok(rule, "fallback destination is name:8448", c.P.Pos(fw.InstrPos(st)), v)
					} else {
						c.Expect(strings.HasPrefix(v, `fmt.Sprintf("%s:%d"`) || strings.Contains(v, ".Target") && strings.Contains(v, ".Port"), rule, "SRV destination is target:port", c.P.Pos(fw.InstrPos(st)), v, "Destination = "+v)
						_ = srv
					}
				}
			}
		}
		// the 8448 fallback constant
		ok8448 := false
		for _, b := range h.Blocks {
			for _, ins := range b.Instrs {
				if st, ok := ins.(*ssa.Store); ok && fw.Sig(st.Val) == "8448" {
					ok8448 = true
				}
				if mi, ok := ins.(*ssa.MakeInterface); ok && fw.Sig(mi.X) == "8448" {
					ok8448 = true
				}
			}
		}
		if !ok8448 {
			// the constant may be a named constant used in a helper: look in the region
			for _, rf := range fw.RegionOf(h, nil) {
				for _, b := range rf.Blocks {
					for _, ins := range b.Instrs {
						for _, op := range ins.Operands(nil) {
							if *op != nil {
								if n, isC := fw.ConstInt(*op); isC && n == 8448 {
									ok8448 = true
								}
							}
						}
					}
				}
			}
		}
		c.Expect(ok8448, rule, "the final fallback is port 8448", c.P.Pos(h.Pos()), "", "no 8448 constant was found in the fallback")
	}
}

func checkWellKnown(c *fw.Ctx) {
	rule := "3 well-known"
	fn := mustFunc(c, rule, "fclient.LookupWellKnown")
	if fn == nil {
		return
	}
	// the reply is buffered whole (through the size-limited reader) and parsed as one document:
	// a streaming decoder accepts a valid first value and ignores whatever follows, so a reply
	// with trailing garbage - or one that is larger than the limit after its first value - is honoured
	{
		construct := "the well-known reply is parsed as a whole document"
		dec, more := "", false
		for _, dc := range fw.AllDeepCalls(fn, stopExported) {
			switch n := fw.CalleeName(dc.Call); n {
			case "(*encoding/json.Decoder).Decode":
				dec = c.P.Pos(dc.Call.Pos())
			case "(*encoding/json.Decoder).More", "(*encoding/json.Decoder).Buffered", "(*encoding/json.Decoder).InputOffset", "(*encoding/json.Decoder).Token":
				more = true
			}
		}
		switch {
		case dec != "" && !more:
			c.Fail(rule, construct, dec, "the reply is decoded with json.Decoder.Decode, which stops after the first JSON value: trailing data is ignored and the 50 KiB limit no longer bounds what is accepted")
		case dec != "":
			c.Undecided(rule, construct, "a streaming decoder is used together with a look at the remaining input")
		default:
			c.Ok(rule, construct, c.P.Pos(fn.Pos()), "no streaming decoder in LookupWellKnown or its helpers")
		}
	}
	requireOnSuccess(c, rule, "LookupWellKnown", fn, []need{
		nd("the request was sent", true, ".Do(", "#1 == nil)"),
		nd("status 200", true, ".StatusCode == 200)"),
		// (any of the library's whole-stream readers, with its error tested)
		{what: "the body was read", alts: []lit{
			{[]string{"io.ReadAll(", "#1 == nil)"}, true},
			{[]string{"(*bytes.Buffer).ReadFrom(", "#1 == nil)"}, true},
			{[]string{"io.Copy(", "#1 == nil)"}, true},
			{[]string{"io.CopyN(", "#1 == nil)"}, true},
			{[]string{"io.ReadFull(", "#1 == nil)"}, true},
			{[]string{"io.ReadAtLeast(", "#1 == nil)"}, true},
		}},
		nd("the body is JSON", true, "encoding/json.Unmarshal(", " == nil)"),
		nd("m.server is present", false, `.NewAddress == "")`),
	}, 1)
	if v, ok := fw.ConstValue(c.P.Pkg("fclient"), "WellKnownMaxSize"); ok {
		n, _ := constant.Int64Val(v)
		c.Check(n == 51200, rule, "WellKnownMaxSize is 50 KiB", "", fmt.Sprint(n), fmt.Sprintf("limit is %d", n))
	}
	okLimit := false
	for _, rf := range fw.RegionOf(fn, nil) {
		for _, b := range rf.Blocks {
			for _, ins := range b.Instrs {
				if st, ok := ins.(*ssa.Store); ok && strings.HasSuffix(fw.Sig(st.Addr), "io.LimitedReader.N") && fw.Sig(st.Val) == "51200" {
					okLimit = true
				}
			}
		}
	}
	// io.LimitReader(r, WellKnownMaxSize) is the same reader
	for _, dc := range deepCallsTo(fn, fw.NameIs("io.LimitReader")) {
		if a := dc.Call.Common().Args; len(a) == 2 && fw.Sig(a[1]) == "51200" {
			okLimit = true
		}
	}
	c.Expect(okLimit, rule, "the body is read through a LimitedReader of WellKnownMaxSize", c.P.Pos(fn.Pos()), "", "no io.LimitedReader{N: WellKnownMaxSize} / io.LimitReader(_, WellKnownMaxSize) was recognised (the rule below reports a read of the raw body)")
	readerArg := map[string]int{"io.ReadAll": 0, "(*bytes.Buffer).ReadFrom": 1, "io.Copy": 1, "io.CopyN": 1, "io.ReadFull": 0, "io.ReadAtLeast": 0}
	for _, dc := range deepCallsTo(fn, func(n string) bool { _, ok := readerArg[n]; return ok }) {
		call := dc.Call
		ai := readerArg[fw.CalleeName(call)]
		if ai >= len(call.Common().Args) {
			continue
		}
		s := fw.SigIn(dc.Fr, call.Common().Args[ai])
		judge3(c, rule, "only the limited reader is read", c.P.Pos(call.Pos()), "ReadAll on "+s,
			strings.Contains(s, "io.LimitedReader") || (strings.HasPrefix(s, "io.LimitReader(") && strings.HasSuffix(s, ",51200)")),
			strings.HasSuffix(s, ".Body") && !strings.Contains(s, "Limit"))
	}
	// the max-age directive is recognised whatever optional whitespace surrounds it ("public, max-age=60")
	nEq := 0
	for _, call := range fw.CallsTo(fn, false, fw.NameIs("strings.EqualFold")) {
		args := call.Common().Args
		var name ssa.Value
		if s, ok := fw.ConstString(args[1]); ok && s == "max-age" {
			name = args[0]
		} else if s, ok := fw.ConstString(args[0]); ok && s == "max-age" {
			name = args[1]
		}
		if name == nil {
			continue
		}
		nEq++
		trimmed := fw.DerivesFrom(name, fw.FlowSpec{
			IsSource: fw.IsResultOf(fw.NameIs("strings.Trim", "strings.TrimSpace", "strings.TrimLeft", "strings.TrimFunc", "strings.Fields"), -1),
			Through:  fw.ThroughNames(map[string][]int{"strings.SplitN": {0}, "strings.Cut": {0}, "strings.ToLower": {0}, "strings.Split": {0}}),
		})
		c.Check(trimmed, rule, "the max-age directive name is compared after trimming optional whitespace", c.P.Pos(call.Pos()), "", "the directive name compared with \"max-age\" is "+fw.Sig(name)+", not trimmed: in `public, max-age=60` the name is \" max-age\", so max-age is ignored and Expires (or nothing) decides the lifetime")
	}
	c.Min(rule+" max-age comparisons", nEq, 1)
	// max-age overrides Expires: the value stored in CacheExpiresAt is a phi whose later definition is max-age
	// the two parses may live in an unexported helper: look at the function that holds both
	host := fn
	for _, rf := range fw.RegionOf(fn, nil) {
		if len(fw.CallsTo(rf, false, fw.NameIs("time.Parse"))) > 0 && len(fw.CallsTo(rf, false, fw.NameIs("strconv.ParseInt"))) > 0 {
			host = rf
		}
	}
	var exp, age ssa.Instruction
	for _, b := range host.Blocks {
		for _, ins := range b.Instrs {
			if cl, ok := ins.(ssa.CallInstruction); ok {
				switch fw.CalleeName(cl) {
				case "time.Parse":
					exp = ins
				case "strconv.ParseInt":
					age = ins
				}
			}
		}
	}
	if exp == nil || age == nil {
		c.Undecided(rule, "max-age is applied after (and therefore overrides) Expires", "the Expires / max-age parses were not found in one function")
	} else {
		// the max-age assignment must be able to overwrite the Expires value, not vice versa
		c.Check(reachesInstr(exp, age) && !reachesInstr(age, exp), rule, "max-age is applied after (and therefore overrides) Expires", c.P.Pos(fw.InstrPos(age)), "", "the Expires header is evaluated after max-age and overrides it")
	}
}

var lenOfHelper = regexp.MustCompile(`^\(builtin\.len\(gmsl/fclient\.(\w+)\(param:(allow|deny)Networks\)\) == 0\)$`)

// dropsEntries: h builds its result by appending inside a loop, and some append happens only
// under a condition other than the loop's own (a filter, as opposed to a copy or a mapping).
func dropsEntries(h *ssa.Function) bool {
	for _, call := range fw.CallsTo(h, false, fw.NameIs("builtin.append")) {
		if hd, _ := fw.LoopOf(call.Block()); hd == nil {
			continue
		}
		for _, f := range fw.DomConds(call.Block()) {
			t := strings.TrimPrefix(f.String(), "!")
			if strings.HasPrefix(t, "next(range(") || strings.Contains(t, "< builtin.len(") {
				continue
			}
			return true
		}
	}
	return false
}

// checkConnectors: enumerate composite literals of connection-making types in fclient (typed AST).
func checkConnectors(c *fw.Ctx) {
	rule := "4 who-may-connect"
	pkg := c.P.Pkg("fclient")
	type site struct {
		typ, fn, pos string
		fields       map[string]string
		global       string // the package-level variable the literal initialises, if any
	}
	var sites []site
	for _, f := range pkg.Syntax {
		for _, d := range f.Decls {
			var body ast.Node
			fname := "<package level>"
			switch x := d.(type) {
			case *ast.FuncDecl:
				if x.Body == nil {
					continue
				}
				body, fname = x.Body, x.Name.Name
			case *ast.GenDecl:
				if x.Tok != token.VAR {
					continue
				}
				body = x // package-level variables initialised with a connector literal
			default:
				continue
			}
			fd := struct{ Name struct{ Name string } }{}
			fd.Name.Name = fname
			ast.Inspect(body, func(n ast.Node) bool {
				cl, ok := n.(*ast.CompositeLit)
				if !ok {
					return true
				}
				tv := pkg.TypesInfo.Types[cl]
				if tv.Type == nil {
					return true
				}
				ts := tv.Type.String()
				if ts != "net.Dialer" && ts != "net/http.Transport" && ts != "net/http.Client" {
					return true
				}
				s := site{typ: ts, fn: fd.Name.Name, pos: c.P.Pos(cl.Pos()), fields: map[string]string{}}
				if gd, isGen := body.(*ast.GenDecl); isGen {
					for _, sp := range gd.Specs {
						if vs, isV := sp.(*ast.ValueSpec); isV && len(vs.Names) == 1 && vs.Pos() <= cl.Pos() && cl.End() <= vs.End() {
							s.global = vs.Names[0].Name
						}
					}
				}
				for _, el := range cl.Elts {
					if kv, ok := el.(*ast.KeyValueExpr); ok {
						if id, ok := kv.Key.(*ast.Ident); ok {
							s.fields[id.Name] = types.ExprString(kv.Value)
						}
					}
				}
				sites = append(sites, s)
				return true
			})
		}
	}
	c.Min(rule+" connector literals", len(sites), 2)
	// a literal in an unexported helper is attributed to the exported routine it serves (when
	// there is exactly one): the obligation keeps its name when the routine is split up
	ownerOf := func(name string) string {
		var start *ssa.Function
		for _, f := range c.P.SrcFuncs() {
			if f.Pkg != nil && f.Pkg.Pkg.Path() == fw.ModPath+"/fclient" && f.Name() == name && f.Parent() == nil {
				// a plain function, or a method of an unexported type (a phase of a request object)
				if rv := f.Signature.Recv(); rv != nil {
					rt := rv.Type()
					if pt, isP := rt.(*types.Pointer); isP {
						rt = pt.Elem()
					}
					if nt, isN := rt.(*types.Named); !isN || nt.Obj().Exported() {
						continue
					}
				}
				start = f
			}
		}
		if start == nil || start.Object() == nil || start.Object().Exported() {
			return name
		}
		roots := map[string]bool{}
		seen := map[*ssa.Function]bool{start: true}
		work := []*ssa.Function{start}
		for len(work) > 0 {
			cur := work[len(work)-1]
			work = work[:len(work)-1]
			for _, f := range c.P.SrcFuncs() {
				if f.Pkg == nil || f.Pkg.Pkg.Path() != fw.ModPath+"/fclient" {
					continue
				}
				for _, call := range fw.Calls(f) {
					if call.Common().StaticCallee() != cur {
						continue
					}
					root := f
					for root.Parent() != nil {
						root = root.Parent()
					}
					if seen[root] {
						continue
					}
					seen[root] = true
					if root.Object() != nil && root.Object().Exported() {
						roots[root.Name()] = true
					} else {
						work = append(work, root)
					}
				}
			}
		}
		if len(roots) == 1 {
			for r := range roots {
				return r
			}
		}
		return name
	}
	for _, s := range sites {
		if s.typ == "net/http.Client" && s.global != "" {
			// a client kept in a package-level variable belongs to the one routine that uses it
			users := map[string]bool{}
			for _, f := range c.P.SrcFuncs() {
				if f.Pkg == nil || f.Pkg.Pkg.Path() != fw.ModPath+"/fclient" || f.Name() == "init" {
					continue
				}
				for _, b := range f.Blocks {
					for _, ins := range b.Instrs {
						var ops []*ssa.Value
						for _, o := range ins.Operands(ops) {
							if g, isG := (*o).(*ssa.Global); isG && g.Name() == s.global {
								root := f
								for root.Parent() != nil {
									root = root.Parent()
								}
								users[root.Name()] = true
							}
						}
					}
				}
			}
			if len(users) == 1 {
				for u := range users {
					s.fn = u
				}
			}
		}
		if s.typ == "net/http.Client" {
			s.fn = ownerOf(s.fn) // (dialers and transports are judged by the constructor they sit in)
		}
		construct := fmt.Sprintf("%s literal in %s", s.typ, s.fn)
		switch s.typ {
		case "net.Dialer":
			ctl, has := s.fields["ControlContext"]
			switch s.fn {
			case "newDestinationTripperDialer":
				if !has {
					// the unrestricted dialer is permitted only on the branch where no list is configured
					c.Ok(rule, construct+" (no lists configured)", s.pos, "plain dialer on the empty-lists branch (checked below)")
				} else {
					if !strings.HasPrefix(ctl, "allowDenyNetworksControl(") && ctl != "" && ctl != "nil" && strings.Contains(ctl, "(") {
						// a control function made by another routine (a method of a policy object): it is
						// set, what it does is not read here
						c.Undecided(rule, construct+" carries the network control", "ControlContext = "+ctl+" ("+s.pos+")")
					} else {
						c.Check(strings.HasPrefix(ctl, "allowDenyNetworksControl("), rule, construct+" carries the network control", s.pos, ctl, "ControlContext = "+ctl)
					}
				}
			case "NewDNSCache":
				c.Check(has && strings.HasPrefix(ctl, "allowDenyNetworksControl("), rule, construct+" carries the network control", s.pos, ctl, "the DNS cache dials without the allow/deny control")
			default:
				c.Fail(rule, construct, s.pos, "a net.Dialer is constructed outside the two controlled constructors: connections made with it bypass the allow/deny lists")
			}
		case "net/http.Transport":
			// a transport without DialContext uses the default dialer; one with it must take it from the
			// controlled dialer (or the DNS cache wrapping it)
			dc, has := s.fields["DialContext"]
			switch {
			case !has:
				c.Fail(rule, construct+" dials through the controlled dialer", s.pos, fmt.Sprintf("the transport built in %s sets no DialContext: it dials with the default dialer, bypassing the allow/deny lists", s.fn))
			case strings.HasSuffix(dc, ".DialContext") || strings.Contains(strings.ToLower(dc), "dialcontext"):
				c.Ok(rule, construct+" dials through the controlled dialer", s.pos, "DialContext="+dc)
			default:
				c.Undecided(rule, construct+" dials through the controlled dialer", fmt.Sprintf("transport in %s with Dial=%s DialContext=%s", s.fn, s.fields["Dial"], dc))
			}
		case "net/http.Client":
			if s.fn == "NewClient" {
				c.Check(s.fields["Transport"] != "", rule, construct+" uses the configured transport", s.pos, s.fields["Transport"], "client without transport")
			} else {
				c.Fail(rule, construct+" uses the controlled transport", s.pos, fmt.Sprintf("%s builds an http.Client without the destination transport (Transport=%q): its connections use the default dialer, so the allow/deny network lists do not apply to them", s.fn, s.fields["Transport"]))
			}
		}
	}
	// the plain dialer is returned only when both lists are empty: on the paths that never set
	// ControlContext, both lists are known to be empty
	if fn := mustFunc(c, rule, "fclient.newDestinationTripperDialer"); fn != nil {
		blocked := map[*ssa.BasicBlock]bool{}
		for _, b := range fn.Blocks {
			for _, ins := range b.Instrs {
				if st, ok := ins.(*ssa.Store); ok && strings.HasSuffix(fw.Sig(st.Addr), ".ControlContext") {
					blocked[b] = true
				}
			}
		}
		construct := "an uncontrolled dialer is used only when no list is configured"
		pcs, okPC := fw.PathCondsAvoiding(fn, blocked)
		if len(blocked) == 0 || !okPC {
			c.Undecided(rule, construct, "no store of ControlContext found in newDestinationTripperDialer")
		} else {
			for _, r := range fw.Returns(fn) {
				if blocked[r.Block()] {
					continue
				}
				avoid := pcs[r.Block()]
				bad, unknown := "", map[string]bool{}
				enumerate([]tvar{{"allowEmpty", tf}, {"denyEmpty", tf}}, func(a asg) {
					if a["allowEmpty"] == "true" && a["denyEmpty"] == "true" {
						return
					}
					env := func(atom string) (bool, bool) {
						for _, side := range []string{"allow", "deny"} {
							l := "builtin.len(param:" + side + "Networks)"
							empty := a[side+"Empty"] == "true"
							switch atom {
							case "(" + l + " == 0)":
								return empty, true
							case "(" + l + " > 0)", "(" + l + " >= 1)", "(0 < " + l + ")":
								return !empty, true
							}
						}
						return false, false
					}
					if evalDNF(avoid, env, unknown) {
						bad = a.String()
					}
				})
				// positive evidence among the conditions that were not understood: emptiness tested
				// on a *filtered* copy of a configured list (a helper that drops entries)
				filtered := ""
				for atom := range unknown {
					if m := lenOfHelper.FindStringSubmatch(atom); m != nil {
						if h := c.P.Func("fclient." + m[1]); h != nil && dropsEntries(h) {
							filtered = m[1] + "(" + m[2] + "Networks)"
						}
					}
				}
				switch {
				case filtered != "":
					c.Fail(rule, construct, c.P.Pos(fw.InstrPos(r)), "the plain dialer is chosen when "+filtered+" is empty, and that helper drops entries: a configured list none of whose entries survives is taken for 'no list configured' and every destination becomes reachable")
				case len(unknown) > 0:
					c.Undecided(rule, construct, "conditions not understood: "+strings.Join(sortedSet(unknown), "; "))
				default:
					c.Check(bad == "", rule, construct, c.P.Pos(fw.InstrPos(r)), "", "a dialer without the network control can be returned when ["+bad+"]: the configured allow/deny list is not applied")
				}
			}
		}
	}
	// dialers that are not written as a literal (`var d net.Dialer`, new(net.Dialer)): every
	// net.Dialer object of the package gets the network control, except the one plain dialer above
	for _, f := range c.P.SrcFuncs() {
		if f.Pkg == nil || f.Pkg.Pkg.Path() != fw.ModPath+"/fclient" {
			continue
		}
		for _, b := range f.Blocks {
			for _, ins := range b.Instrs {
				al, ok := ins.(*ssa.Alloc)
				if !ok {
					continue
				}
				pt, _ := al.Type().Underlying().(*types.Pointer)
				if pt == nil || pt.Elem().String() != "net.Dialer" {
					continue
				}
				hasCtl := false
				for _, ref := range *al.Referrers() {
					if fa, isFA := ref.(*ssa.FieldAddr); isFA {
						if st := derefStructOf(fa.X.Type()); st != nil && (st.Field(fa.Field).Name() == "ControlContext" || st.Field(fa.Field).Name() == "Control") {
							for _, r2 := range *fa.Referrers() {
								if _, isSt := r2.(*ssa.Store); isSt {
									hasCtl = true
								}
							}
						}
					}
				}
				root := f
				for root.Parent() != nil {
					root = root.Parent()
				}
				if hasCtl || fw.FuncName(root) == "gmsl/fclient.newDestinationTripperDialer" {
					continue
				}
				c.Fail(rule, "every net.Dialer of the package carries the network control ("+fw.FuncName(root)+")", c.P.Pos(al.Pos()), "a net.Dialer without ControlContext is created in "+fw.FuncName(root)+": connections made with it bypass the allow/deny network lists")
			}
		}
	}
	// other outbound helpers
	for _, f := range c.P.SrcFuncs() {
		if f.Pkg == nil || f.Pkg.Pkg.Path() != fw.ModPath+"/fclient" {
			continue
		}
		for _, call := range fw.Calls(f) {
			switch n := fw.CalleeName(call); n {
			case "net/http.Get", "net/http.Post", "net/http.Head", "net/http.PostForm", "net.Dial", "net.DialTimeout", "crypto/tls.Dial":
				c.Fail(rule, "no package-level connection helper is used in "+fw.FuncName(f), c.P.Pos(call.Pos()), n+" connects without the network control")
			}
		}
		for _, b := range f.Blocks {
			for _, ins := range b.Instrs {
				if u, ok := ins.(*ssa.UnOp); ok {
					if g, ok := u.X.(*ssa.Global); ok {
						if s := fw.Short(g.String()); s == "net/http.DefaultClient" || s == "net/http.DefaultTransport" {
							c.Fail(rule, "no default client/transport is used in "+fw.FuncName(f), c.P.Pos(fw.InstrPos(u)), s+" bypasses the network control")
						}
					}
				}
			}
		}
	}
}

func checkNetworkControl(c *fw.Ctx) {
	rule := "5 network-control"
	fn := mustFunc(c, rule, "fclient.allowDenyNetworksControl")
	if fn != nil && len(fn.AnonFuncs) == 1 {
		ctl := fn.AnonFuncs[0]
		requireOnSuccess(c, rule, "allowDenyNetworksControl", ctl, []need{
			{what: "the network is tcp4 or tcp6", alts: []lit{{[]string{`(param:network == "tcp4")`}, true}, {[]string{`(param:network == "tcp6")`}, true}}},
			nd("the address splits into host and port", true, "net.SplitHostPort(param:address)#2 == nil)"),
			nd("the host is an IP address", false, "(net.ParseIP(net.SplitHostPort(param:address)#0) == nil)"),
			nd("the address is allowed", true, "gmsl/fclient.isAllowed(net.ParseIP(net.SplitHostPort(param:address)#0),"),
		}, 1)
	} else if fn != nil {
		c.Undecided(rule, "allowDenyNetworksControl", "expected one control closure")
	}
	if fn := mustFunc(c, rule, "fclient.isAllowed"); fn != nil {
		ip := &interp{bools: map[string]string{"gmsl/fclient.inRange(param:ip,param:denyCIDRs)": "denied", "gmsl/fclient.inRange(param:ip,param:allowCIDRs)": "allowed"}}
		compareTable(c, rule, "allowed iff in no denied range and in some allowed range (deny first)", fn, 0, []tvar{{"denied", tf}, {"allowed", tf}}, ip, func(a asg) string {
			if a["denied"] == "true" {
				return "value:false"
			}
			if a["allowed"] == "true" {
				return "value:true"
			}
			return "value:false"
		}, nil)
	}
	if fn := mustFunc(c, rule, "fclient.inRange"); fn != nil {
		tbl, err := fw.ExtractTable(fn, 0)
		if err != nil {
			c.Undecided(rule, "inRange", err.Error())
			return
		}
		opaqueTerm := func(term fw.Term) string {
			for _, l := range term {
				if strings.Contains(l.Atom, "closure:") || strings.Contains(l.Atom, "dyn(") || strings.Contains(l.Atom, "func:") || fw.AtomCallsUnexportedHelper(l.Atom) || strings.Contains(l.Atom, "*&-") {
					return l.Atom
				}
			}
			return ""
		}
		checkTrueRow := func(f *ssa.Function, r fw.Row) {
			for _, term := range r.Cond {
				ok := termHas(term, lit{[]string{"(*net.IPNet).Contains(net.ParseCIDR(", "#1,"}, true})
				construct := "membership in a range is decided by net.IPNet.Contains on the parsed CIDR"
				switch {
				case ok:
					c.Ok(rule, construct, c.P.Pos(fw.InstrPos(r.Ret)), "")
				case opaqueTerm(term) != "":
					c.Undecided(rule, construct, "true is returned under "+opaqueTerm(term)+", which the rule cannot see into")
				case termHas(term, lit{[]string{"(*net.IPNet).Contains("}, true}):
					// the library predicate, on a network that was parsed somewhere else
					c.Undecided(rule, construct, "net.IPNet.Contains decides, on a network that is not parsed in this routine")
				default:
					c.Fail(rule, construct, c.P.Pos(fw.InstrPos(r.Ret)), "true is returned without (*net.IPNet).Contains(parsed CIDR, ip): "+fw.DNF{term}.String()+" (other containment predicates treat IPv4-mapped IPv6 ranges differently)")
				}
			}
		}
		for _, r := range tbl.Rows {
			switch r.Outcome {
			case "value:true":
				checkTrueRow(fn, r)
			case "value:false":
				for _, term := range r.Cond {
					exhausted, midLoop := false, false
					for _, l := range term {
						if strings.Contains(l.Atom, "< builtin.len(param:CIDRs)") {
							if l.Pos {
								midLoop = true
							} else {
								exhausted = true
							}
						}
					}
					construct := "a range list is rejected only after every entry was examined"
					switch {
					case exhausted:
						c.Ok(rule, construct, c.P.Pos(fw.InstrPos(r.Ret)), "")
					case midLoop:
						// positive evidence: the verdict is given while entries remain
						c.Fail(rule, construct, c.P.Pos(fw.InstrPos(r.Ret)), "false is returned before the list is exhausted ("+fw.DNF{term}.String()+"): entries after an unparsable or non-matching one are ignored")
					default:
						c.Undecided(rule, construct, "false is returned under "+fw.DNF{term}.String()+": the traversal is not an index loop over the list")
					}
				}
			case "call:slices.ContainsFunc":
				// the library routine examines every entry until the predicate holds: the predicate
				// is the function literal handed to it
				call, _ := r.Call.(*ssa.Call)
				decided := false
				if call != nil && len(call.Call.Args) == 2 && fw.Sig(call.Call.Args[0]) == "param:CIDRs" {
					var pred *ssa.Function
					switch x := call.Call.Args[1].(type) {
					case *ssa.MakeClosure:
						pred, _ = x.Fn.(*ssa.Function)
					case *ssa.Function:
						pred = x
					}
					if pred != nil {
						if pt, err := fw.ExtractTable(pred, 0); err == nil {
							decided = true
							c.Ok(rule, "a range list is rejected only after every entry was examined", c.P.Pos(call.Pos()), "slices.ContainsFunc over the whole list")
							for _, pr := range pt.Rows {
								switch {
								case pr.Outcome == "value:true":
									checkTrueRow(pred, pr)
								case pr.Outcome == "value:false":
								case strings.HasPrefix(pr.Outcome, "call:(*net.IPNet).Contains"):
									c.Ok(rule, "membership in a range is decided by net.IPNet.Contains on the parsed CIDR", c.P.Pos(fw.InstrPos(pr.Ret)), "")
								default:
									c.Undecided(rule, "membership in a range is decided by net.IPNet.Contains on the parsed CIDR", "the predicate returns "+pr.Outcome)
								}
							}
						}
					}
				}
				if !decided {
					c.Undecided(rule, "inRange returns a verdict the rule can read", "returns "+r.Outcome)
				}
			default:
				c.Undecided(rule, "inRange returns a verdict the rule can read", "returns "+r.Outcome)
			}
		}
		c.Min(rule+" inRange rows", len(tbl.Rows), 2)
	}
}

func checkTransportUse(c *fw.Ctx) {
	rule := "6 transport"
	checkDialOverride(c)
	if fn := mustFunc(c, rule, "fclient.(*destinationTripper).getTransport"); fn != nil {
		// the TLS name of the transport is the step's TLS name (the literal may be built by a helper)
		var names []string
		bad := ""
		for _, ds := range deepFieldStores(fn, "tls.Config", "ServerName") {
			names = append(names, fw.SigIn(ds.Fr, ds.St.Val))
			if !isParamDeep(ds.St.Val, ds.Fr, fn, 1) {
				bad = fw.SigIn(ds.Fr, ds.St.Val)
			}
		}
		if len(names) == 0 {
			c.Undecided(rule, "the transport's TLS server name is the resolution step's TLS name", "no store to tls.Config.ServerName found in getTransport or its helpers")
		} else {
			c.Check(bad == "", rule, "the transport's TLS server name is the resolution step's TLS name", c.P.Pos(fn.Pos()), strings.Join(names, ","), "tls.Config.ServerName is "+bad+", not the tlsServerName parameter")
		}
		// keyed by the same name
		for _, di := range fw.DeepInstrs(fn, nil) {
			if mu, isMu := di.Instr.(*ssa.MapUpdate); isMu && strings.HasSuffix(fw.SigIn(di.Fr, mu.Map), ".transports") {
				c.Check(isParamDeep(mu.Key, di.Fr, fn, 1), rule, "transports are cached per TLS server name", c.P.Pos(fw.InstrPos(mu)), "", "cache key is "+fw.SigIn(di.Fr, mu.Key))
			}
		}
	}
	if fn := mustFunc(c, rule, "fclient.(*destinationTripper).RoundTrip"); fn != nil {
		for _, call := range fw.CallsTo(fn, false, fw.NameIs("gmsl/fclient.(*destinationTripper).getTransport", "(*gmsl/fclient.destinationTripper).getTransport")) {
			s := argSigs(call)
			c.Check(strings.HasSuffix(s[1], ".TLSServerName") && strings.HasSuffix(s[2], "recv.dialer"), rule, "each attempt uses the step's TLS name and the controlled dialer", c.P.Pos(call.Pos()), "", "getTransport("+strings.Join(s, ", ")+")")
		}
		okHost, okURL := false, false
		for _, b := range fn.Blocks {
			for _, ins := range b.Instrs {
				if st, isSt := ins.(*ssa.Store); isSt {
					a, v := fw.Sig(st.Addr), fw.Sig(st.Val)
					if a == "param:r.Host" && strings.HasSuffix(v, ".Host") && strings.Contains(v, "ResolutionResult") || a == "param:r.Host" && strings.Contains(v, "[(phi(") {
						okHost = true
					}
				}
			}
		}
		for _, call := range fw.CallsTo(fn, false, fw.NameIs("gmsl/fclient.makeHTTPSURL")) {
			okURL = strings.HasSuffix(fw.Sig(call.Common().Args[1]), ".Destination")
		}
		checkResolvedNameIsOriginal(c, rule, fn)
		c.Expect(okHost, rule, "the Host header is the resolution step's Host", c.P.Pos(fn.Pos()), "", "no store of the resolution result's Host into r.Host was recognised")
		c.Expect(okURL, rule, "the connection target is the resolution step's destination", c.P.Pos(fn.Pos()), "", "the URL host was not recognised as the resolution result's Destination")
	}
}

// checkPortParse: invalid names (ports) - shared with C17.4 and with C13 (an X-Matrix origin
// must be a valid server name).
func checkPortParse(c *fw.Ctx, rule string) {
	// invalid names (ports) - shared with C17.4
	if fn := mustFunc(c, rule, "spec.splitServerName"); fn != nil {
		ok := false
		// no strconv call in the routine or the helpers it enters: the digits are parsed by something
		// the rule does not see (a function variable, an injected parser) - nothing to judge
		if len(deepCallsTo(fn, func(n string) bool { return strings.HasPrefix(n, "strconv.") })) == 0 {
			c.Undecided(rule, "server-name ports are unsigned 16-bit decimals (others make the name invalid)", "no strconv call in splitServerName and its helpers: the port is parsed by a routine the rule does not see")
			return
		}
		for _, call := range fw.CallsTo(fn, false, func(n string) bool { return strings.HasPrefix(n, "strconv.") }) {
			if fw.CalleeName(call) == "strconv.ParseUint" && len(call.Common().Args) == 3 {
				b, _ := fw.ConstInt(call.Common().Args[1])
				s, _ := fw.ConstInt(call.Common().Args[2])
				ok = b == 10 && s == 16
			} else {
				ok = false
				break
			}
		}
		c.Check(ok, rule, "server-name ports are unsigned 16-bit decimals (others make the name invalid)", c.P.Pos(fn.Pos()), "", "the port is not parsed with ParseUint(_, 10, 16): names with ports above 65535 or signed ports resolve to connection targets")
	}
}

// checkResolvedNameIsOriginal: RoundTrip rewrites r.URL (and r.Host) for every target it tries.
// The name it hands to ResolveServer must therefore be read from the request before any such
// rewrite: a read of r.URL.Host that can follow the rewrite (a retry that re-reads the request)
// resolves the last target's address instead of the server name.
func checkResolvedNameIsOriginal(c *fw.Ctx, rule string, fn *ssa.Function) {
	construct := "the name that is resolved is read from the request before the request is rewritten for a target"
	top := func(ins ssa.Instruction, fr *fw.Frame) ssa.Instruction {
		for fr != nil {
			ins = fr.Site
			fr = fr.Parent
		}
		// an instruction of a function literal of RoundTrip has no site in RoundTrip: not comparable
		if ins.Parent() != fn {
			return nil
		}
		return ins
	}
	trim := func(s string) string { return strings.TrimLeft(s, "*&") }
	deep := fw.DeepInstrs(fn, nil)
	// loads of r.URL.Host that flow into the ResolveServer argument
	isHostLoad := func(v ssa.Value, fr *fw.Frame) bool {
		u, ok := v.(*ssa.UnOp)
		return ok && u.Op == token.MUL && trim(fw.SigIn(fr, v)) == "param:r.URL.Host"
	}
	type site struct {
		ins ssa.Instruction
		fr  *fw.Frame
	}
	var loads, stores []site
	for _, dc := range fw.AllDeepCalls(fn, nil) {
		if fw.CalleeName(dc.Call) != "gmsl/fclient.ResolveServer" || len(dc.Call.Common().Args) < 2 {
			continue
		}
		arg := dc.Call.Common().Args[1]
		for _, di := range deep {
			v, isV := di.Instr.(ssa.Value)
			if !isV || !isHostLoad(v, di.Fr) {
				continue
			}
			ld := di
			if fw.Derives3In(arg, dc.Fr, fw.FlowSpec{IsSourceIn: func(x ssa.Value, _ *fw.Frame) bool { return x == ld.Instr.(ssa.Value) }}) == fw.Yes {
				loads = append(loads, site{ld.Instr, ld.Fr})
			}
		}
	}
	for _, di := range deep {
		st, ok := di.Instr.(*ssa.Store)
		if !ok {
			continue
		}
		if a := trim(fw.SigIn(di.Fr, st.Addr)); a == "param:r.URL" || a == "param:r.URL.Host" {
			stores = append(stores, site{st, di.Fr})
		}
	}
	if len(loads) == 0 || len(stores) == 0 {
		c.Undecided(rule, construct, fmt.Sprintf("%d read(s) of r.URL.Host feeding ResolveServer and %d rewrite(s) of r.URL were recognised", len(loads), len(stores)))
		return
	}
	for _, ld := range loads {
		for _, st := range stores {
			a, b := top(st.ins, st.fr), top(ld.ins, ld.fr)
			if a == nil || b == nil {
				c.Undecided(rule, construct, "a read or rewrite sits in a function literal")
				return
			}
			if reachesFrom(a, b) {
				c.Fail(rule, construct, c.P.Pos(fw.InstrPos(ld.ins)), "the server name given to ResolveServer is read from r.URL.Host at a point that can follow the rewrite of r.URL at "+c.P.Pos(fw.InstrPos(st.ins))+": after a failed attempt the retry resolves the last target's address (with its Host and TLS name) instead of the server name")
				return
			}
		}
	}
	c.Ok(rule, construct, c.P.Pos(fw.InstrPos(loads[0].ins)), fmt.Sprintf("%d read(s), %d rewrite(s); no rewrite reaches a read", len(loads), len(stores)))
}

// judge3: a three-valued verdict for a rendered value: ok as expected, wrong when it is
// positively one of the known wrong quantities, otherwise not decided.
func judge3(c *fw.Ctx, rule, construct, pos, detail string, ok, wrong bool) {
	switch {
	case ok:
		c.Ok(rule, construct, pos, detail)
	case wrong:
		c.Fail(rule, construct, pos, detail)
	default:
		c.Undecided(rule, construct, detail+" (a rendering the rule does not know)")
	}
}

// checkDialOverride (rule 4, continued): where a DNS cache is configured, getTransport replaces
// the transport's DialContext by the cache's. The allow / deny lists given to the cache live in
// the cache's own dialer, so every connection of such a transport has to be made by the cache:
// a function literal installed instead that hands some addresses to another dialer (IP
// literals, say) connects them without the cache's lists.
func checkDialOverride(c *fw.Ctx) {
	rule := "4 who-may-connect"
	for _, fn := range c.P.SrcFuncs() {
		if fn.Pkg == nil || !strings.HasSuffix(fn.Pkg.Pkg.Path(), "/fclient") {
			continue
		}
		for _, b := range fn.Blocks {
			for _, ins := range b.Instrs {
				st, ok := ins.(*ssa.Store)
				if !ok {
					continue
				}
				fa, ok := st.Addr.(*ssa.FieldAddr)
				if !ok {
					continue
				}
				sty := derefStructOf(fa.X.Type())
				if sty == nil || sty.Field(fa.Field).Name() != "DialContext" || !strings.HasSuffix(fw.Short(strings.TrimPrefix(fa.X.Type().String(), "*")), "net/http.Transport") {
					continue
				}
				mc, isMC := st.Val.(*ssa.MakeClosure)
				if !isMC {
					continue
				}
				lit, _ := mc.Fn.(*ssa.Function)
				if lit == nil || lit.Synthetic != "" || lit.Parent() == nil {
					continue // a bound method value (dialer.DialContext, cache.DialContext)
				}
				var viaCache, other []string
				for _, call := range fw.CallsTo(lit, true, func(n string) bool { return strings.HasSuffix(n, ".DialContext") || strings.HasSuffix(n, ".Dial") }) {
					n := fw.CalleeName(call)
					if strings.Contains(n, "DNSCache") {
						viaCache = append(viaCache, n)
					} else {
						other = append(other, n+" at "+c.P.Pos(call.Pos()))
					}
				}
				construct := fw.FuncName(fn) + ": a transport with a DNS cache dials only through the cache"
				switch {
				case len(viaCache) > 0 && len(other) > 0:
					c.Fail(rule, construct, c.P.Pos(fw.InstrPos(st)), "the DialContext installed here hands some connections to "+strings.Join(other, ", ")+" instead of the DNS cache: the allow / deny lists configured on the cache do not apply to them")
				case len(viaCache) > 0:
					c.Ok(rule, construct, c.P.Pos(fw.InstrPos(st)), "")
				default:
					c.Undecided(rule, construct, "a function literal is installed as DialContext; which dialer it uses was not recognised")
				}
			}
		}
	}
}
