package props

import (
	"fmt"
	"go/token"
	"strings"

	"gmslverif/fw"

	"golang.org/x/tools/go/ssa"
)

// versionLike: the rendered condition speaks about the room version or the creators state of
// the context (the rule cannot tell what it means: not decided). A positive test of the
// privileged-creators trait itself is what the rule looks for.
func privilegedCond(s string) (positive, versionLike bool) {
	neg := strings.HasPrefix(s, "!")
	t := strings.TrimPrefix(s, "!")
	if strings.Contains(t, "rivilegedCreators") {
		// `flag`, `flag == true`, `!flag == false` ... : only the plain positive forms count
		if !neg && !strings.Contains(t, "== false") && !strings.Contains(t, "!= true") {
			return true, true
		}
		return false, true
	}
	if strings.Contains(t, "ersion") || strings.Contains(t, ".creators") || strings.Contains(t, "verImpl") {
		return false, true
	}
	return false, false
}

// staticSitesOf: the static call sites of fn in the repository, and whether fn is also used as
// a value (stored in a table, passed as a callback): then it has callers the walk cannot see.
func staticSitesOf(c *fw.Ctx, fn *ssa.Function) (sites []ssa.CallInstruction, escapes bool) {
	for _, f := range c.P.SrcFuncs() {
		for _, b := range f.Blocks {
			for _, ins := range b.Instrs {
				if call, ok := ins.(ssa.CallInstruction); ok && call.Common().StaticCallee() == fn {
					sites = append(sites, call)
					// fn may additionally be among the arguments
					for _, a := range call.Common().Args {
						if a == ssa.Value(fn) {
							escapes = true
						}
					}
					continue
				}
				for _, op := range ins.Operands(nil) {
					if op != nil && *op == ssa.Value(fn) {
						escapes = true
					}
				}
			}
		}
	}
	// package initialisers (the room-version table) are synthetic functions
	for _, pk := range c.P.SSA.AllPackages() {
		if c.P.Pkgs[pk.Pkg.Path()] == nil {
			continue
		}
		if init := pk.Func("init"); init != nil {
			for _, b := range init.Blocks {
				for _, ins := range b.Instrs {
					for _, op := range ins.Operands(nil) {
						if op != nil && *op == ssa.Value(fn) {
							escapes = true
						}
					}
				}
			}
		}
	}
	return
}

// grantPoints: where the loaded creator level is *used as a level*: returns, call arguments,
// stores, phi edges (the predecessor block), arithmetic other than the "- 1" of the
// no-power-levels default. Comparisons against the constant grant nothing.
func grantPoints(v ssa.Value, seen map[ssa.Value]bool, out *[]*ssa.BasicBlock) {
	if seen[v] {
		return
	}
	seen[v] = true
	refs := v.Referrers()
	if refs == nil {
		return
	}
	for _, r := range *refs {
		switch x := r.(type) {
		case *ssa.Phi:
			for i, e := range x.Edges {
				if e == v && i < len(x.Block().Preds) {
					*out = append(*out, x.Block().Preds[i])
				}
			}
		case *ssa.BinOp:
			switch x.Op {
			case token.EQL, token.NEQ, token.LSS, token.LEQ, token.GTR, token.GEQ:
				continue
			case token.SUB:
				if n, ok := fw.ConstInt(x.Y); ok && n == 1 && x.X == v {
					continue // 2^53-1: the level of the room creator when there is no power-levels event (all versions)
				}
			}
			*out = append(*out, x.Block())
		case *ssa.Convert:
			grantPoints(x, seen, out)
		case *ssa.ChangeType:
			grantPoints(x, seen, out)
		case *ssa.DebugRef:
		default:
			*out = append(*out, r.Block())
		}
	}
}

// checkCreatorGate: the infinite creator level exists only in room versions with privileged
// creators. Every place that hands out CreatorPowerLevel as somebody's level must be reached
// only under a positive test of that trait - in the function itself or at every call site of
// the unexported helpers that contain it. Positive evidence of a violation: a grant point none
// of whose dominating conditions, up to an exported function or a function used as a value,
// mentions the room version or the creators state at all.
func checkCreatorGate(c *fw.Ctx, rule string) {
	g := c.P.SSAPkg("").Var("CreatorPowerLevel")
	if g == nil {
		c.Undecided(rule, "the creator level is granted only under the privileged-creators trait", "global CreatorPowerLevel not found")
		return
	}
	n := 0
	for _, fn := range c.P.SrcFuncs() {
		if fn.Pkg == nil || fn.Pkg != c.P.SSAPkg("") {
			if fn.Parent() == nil || !c.P.IsRepoFunc(fn) {
				continue
			}
		}
		for _, b := range fn.Blocks {
			for _, ins := range b.Instrs {
				ld, ok := ins.(*ssa.UnOp)
				if !ok || ld.Op != token.MUL || ld.X != ssa.Value(g) {
					continue
				}
				var pts []*ssa.BasicBlock
				grantPoints(ld, map[ssa.Value]bool{}, &pts)
				if len(pts) == 0 {
					continue
				}
				n++
				construct := fmt.Sprintf("%s: the creator level is granted only under the privileged-creators trait", fw.FuncName(fn))
				verdict, why := creatorGateAt(c, pts, 0, map[*ssa.Function]bool{})
				switch verdict {
				case fw.Yes:
					c.Ok(rule, construct, c.P.Pos(ld.Pos()), "")
				case fw.No:
					c.Fail(rule, construct, c.P.Pos(ld.Pos()), "CreatorPowerLevel is handed out as a level on a path that never tests PrivilegedCreators ("+why+"): in room versions 1-11 the creator has no level beyond the power-levels event, so this lets a creator exceed the levels in force")
				default:
					c.Undecided(rule, construct, why)
				}
			}
		}
	}
	c.Min(rule+" creator-level grant sites", n, 2)
}

func creatorGateAt(c *fw.Ctx, pts []*ssa.BasicBlock, depth int, busy map[*ssa.Function]bool) (fw.Tri, string) {
	res := fw.Yes
	why := ""
	for _, b := range pts {
		pos, like := false, false
		conds := fw.CondStrings(b)
		for _, s := range conds {
			p, l := privilegedCond(s)
			pos = pos || p
			like = like || l
		}
		if pos {
			continue
		}
		if like {
			if res == fw.Yes {
				res, why = fw.Unknown, "reached under "+strings.Join(conds, " && ")+", which the rule cannot interpret"
			}
			continue
		}
		// nothing here: the callers decide
		fn := b.Parent()
		for fn.Parent() != nil {
			// a closure: the conditions under which it is created stand in for its call
			par := fn.Parent()
			var mk *ssa.BasicBlock
			for _, pb := range par.Blocks {
				for _, ins := range pb.Instrs {
					if mc, ok := ins.(*ssa.MakeClosure); ok && mc.Fn == ssa.Value(fn) {
						mk = pb
					}
				}
			}
			if mk == nil {
				break
			}
			t, w := creatorGateAt(c, []*ssa.BasicBlock{mk}, depth+1, busy)
			if t == fw.Yes {
				fn = nil
				break
			}
			if t == fw.Unknown {
				if res == fw.Yes {
					res, why = t, w
				}
				fn = nil
				break
			}
			return fw.No, w
		}
		if fn == nil {
			continue
		}
		here := fmt.Sprintf("%s reached under [%s]", fw.FuncName(fn), strings.Join(conds, " && "))
		if fn.Parent() != nil {
			return fw.No, here
		}
		if busy[fn] || depth > 4 {
			if res == fw.Yes {
				res, why = fw.Unknown, "call chain too deep at "+fw.FuncName(fn)
			}
			continue
		}
		sites, escapes := staticSitesOf(c, fn)
		exported := fn.Object() != nil && fn.Object().Exported()
		if exported || escapes || len(sites) == 0 {
			return fw.No, here
		}
		busy[fn] = true
		var cb []*ssa.BasicBlock
		for _, s := range sites {
			cb = append(cb, s.Block())
		}
		t, w := creatorGateAt(c, cb, depth+1, busy)
		delete(busy, fn)
		if t == fw.No {
			return fw.No, here + " <- " + w
		}
		if t == fw.Unknown && res == fw.Yes {
			res, why = t, w
		}
	}
	return res, why
}
