package props

import (
	"fmt"
	"go/token"
	"go/types"
	"reflect"
	"strings"

	"gmslverif/fw"

	"golang.org/x/tools/go/ssa"
)

func init() { register("C05", checkC05) }

var redactName = fw.NameIs("(gmsl.IRoomVersion).RedactEventJSON", "(gmsl.RoomVersionImpl).RedactEventJSON")

func checkC05(c *fw.Ctx) {
	c.Explanation = "C05 (static): the version->redaction binding and the redaction keep-tables (content keep-lists as literals, top-level keep-lists as struct tags of the projection types) are evaluated from the source and compared exhaustively with the specification's redaction algorithms; the generic redaction routine is checked to copy content values unchanged under the same key, keyed on presence; projection fields are checked to be carried as raw JSON; signing, reference hashing, signature verification and in-place Redact() are checked to operate on the output of the room version's redaction."
	c.Exhaustive = true
	c.NotDecidedClause("idempotence of redaction and survival of signatures as behaviours (they follow from the table/flow rules plus C01 uniqueness, not proved end to end)")
	c.NotDecidedClause("numeric fidelity of content values through encoding/json's float64 decoding above 2^53")

	// 1. tables, bound per version
	t := loadVersionTable(c, "1 tables")
	if t != nil {
		seen := map[string]bool{}
		n := 0
		for _, ver := range t.versions {
			exp, ok := specCell(ver, "redactionAlgorithm")
			if !ok {
				continue
			}
			fnShort := t.cell(ver, "redactionAlgorithm")
			n++
			key := fnShort + "=>" + exp
			if seen[key] {
				c.Ok("1 tables", fmt.Sprintf("version %s redaction binding", ver), t.rowPos[ver], fnShort+" (checked with an earlier version) = "+exp)
				continue
			}
			seen[key] = true
			checkRedactionFunc(c, ver, fnShort, exp, t.rowPos[ver])
		}
		c.Min("1 tables versions", n, 16)
	}
	checkTablesReadOnly(c)
	checkGenericRedaction(c)
	checkRedactedFlows(c)
	checkRedactMethods(c)
}

// checkRedactionFunc compares what fnShort passes to the generic routine with the oracle exp.
func checkRedactionFunc(c *fw.Ctx, ver, fnShort, exp, pos string) {
	rule := "1 tables"
	sp := redactionSpecs[exp]
	got, detail := redactionKeyOf(c, fnShort)
	construct := fmt.Sprintf("version %s redaction binding", ver)
	if got == exp {
		c.Ok(rule, construct, pos, fnShort+" implements "+exp+" (top-level and content keep-lists equal)")
	} else if got != "" {
		c.Fail(rule, construct, pos, fmt.Sprintf("%s implements %s but the specification assigns %s to version %s", fnShort, got, exp, ver))
		return
	} else if strings.HasPrefix(detail, "UNRESOLVED:") {
		c.Undecided(rule, construct, detail)
		return
	} else {
		c.Fail(rule, construct, pos, fmt.Sprintf("%s does not implement %s: %s", fnShort, exp, detail))
	}
	// nested keep keys that a flat table cannot express
	for typ, paths := range sp.nested {
		for _, p := range paths {
			c.Fail(rule, fmt.Sprintf("%s keeps %s of %s", exp, p, typ), pos, fmt.Sprintf("the specification keeps content.%s for %s in this algorithm; the keep-table used by %s has only top-level content keys and drops it", p, typ, fnShort))
		}
	}
}

// checkGenericRedaction: rules on the routine every redaction wrapper calls.
func checkGenericRedaction(c *fw.Ctx) {
	rule := "2 routine"
	// find by role: the generic function with three parameters called by the wrappers
	var generic *ssa.Function
	for _, fn := range c.P.SrcFuncs() {
		if fn.Pkg == nil || fn.Pkg.Pkg.Path() != fw.ModPath {
			continue
		}
		if o := fn.Origin(); o != nil && o != fn && fw.FuncName(fn) == "gmsl.redactEventJSON" {
			generic = fn // any instance
			break
		}
	}
	if generic == nil {
		if g := c.P.Func("redactEventJSON"); g != nil {
			generic = g
		}
	}
	if generic == nil || generic.Blocks == nil {
		// instantiated bodies are reached through the wrappers
		for _, fn := range c.P.SrcFuncs() {
			for _, call := range fw.Calls(fn) {
				if cal := call.Common().StaticCallee(); cal != nil && fw.FuncName(cal) == "gmsl.redactEventJSON" && cal.Blocks != nil {
					generic = cal
				}
			}
		}
	}
	if generic == nil || generic.Blocks == nil {
		c.Undecided(rule, "generic redaction routine", "no instantiated body of redactEventJSON found")
		return
	}
	c.SawFn("redactEventJSON")
	// the projection the event is decoded into is a fresh value per call: json.Unmarshal leaves
	// the fields of absent keys as they are, so a recycled struct (a pool, a package-level
	// variable) leaks the previous event's keys into the next redaction
	nProj := 0
	for _, f := range c.P.SrcFuncs() {
		for _, call := range fw.Calls(f) {
			cal := call.Common().StaticCallee()
			if cal == nil || fw.FuncName(cal) != "gmsl.redactEventJSON" || f == cal || len(call.Common().Args) < 2 {
				continue
			}
			nProj++
			arg := call.Common().Args[1]
			shared := ""
			fresh := false
			fw.DerivesFrom(arg, fw.FlowSpec{IsSource: func(v ssa.Value) bool {
				switch x := v.(type) {
				case *ssa.Alloc:
					fresh = true
				case *ssa.Global:
					shared = "the package-level variable " + fw.Sig(x)
				}
				if k, _ := fw.CallOf(v); k != nil && strings.HasPrefix(fw.CalleeName(k), "(*sync.Pool).Get") {
					shared = "a sync.Pool"
				}
				return false
			}})
			construct := fw.FuncName(f) + ": the redaction projection is a fresh value"
			switch {
			case shared != "":
				c.Fail(rule, construct, c.P.Pos(call.Pos()), "the struct the event is decoded into comes from "+shared+": json.Unmarshal does not clear fields whose keys are absent, so keys of a previously redacted (or refused) event appear in this event's redacted form")
			case fresh:
				c.Ok(rule, construct, c.P.Pos(call.Pos()), "")
			default:
				c.Undecided(rule, construct, "origin of the projection argument not recognised: "+fw.Sig(arg))
			}
		}
	}
	c.Count("projection call sites", nProj)
	// (a) every map update into the new content copies a value obtained by a comma-ok lookup
	//     under the same key, and is guarded by that lookup's ok flag.
	updates := 0
	for _, rf := range fw.RegionOf(generic, nil) {
		for _, b := range rf.Blocks {
			for _, ins := range b.Instrs {
				mu, ok := ins.(*ssa.MapUpdate)
				if !ok {
					continue
				}
				updates++
				construct := "content copy keeps key and value"
				val := fw.Unwrap(mu.Value)
				ex, isEx := val.(*ssa.Extract)
				var lk *ssa.Lookup
				if isEx {
					lk, _ = ex.Tuple.(*ssa.Lookup)
				}
				// the other presence-keyed form: key and value of one step of a range over the original content
				if isEx && ex.Index == 2 {
					if nx, isNx := ex.Tuple.(*ssa.Next); isNx {
						if k2, isK := fw.Unwrap(mu.Key).(*ssa.Extract); isK && k2.Tuple == ssa.Value(nx) && k2.Index == 1 {
							c.Ok(rule, construct, c.P.Pos(fw.InstrPos(mu)), "key and value of one entry of the original content")
							continue
						}
					}
				}
				if lk == nil || !lk.CommaOk || ex.Index != 0 {
					// a plain lookup materialises absent keys with a zero value: that is the evidence;
					// any other origin of the value is not decided here
					if plain, isPlain := val.(*ssa.Lookup); isPlain && !plain.CommaOk {
						c.Fail(rule, construct, c.P.Pos(fw.InstrPos(mu)), "the value stored into the redacted content is read with a plain map lookup: an absent key is materialised with a zero value")
					} else {
						c.Undecided(rule, construct, "the value stored into the redacted content at "+c.P.Pos(fw.InstrPos(mu))+" is neither a comma-ok lookup nor a range entry of the original content")
					}
					continue
				}
				if lk.Index != mu.Key && fw.Sig(lk.Index) != fw.Sig(mu.Key) {
					c.Fail(rule, construct, c.P.Pos(fw.InstrPos(mu)), "the value is stored under a different key than it was read from")
					continue
				}
				// guarded by ok of the same lookup
				guarded := false
				for d := b; d != nil && !guarded; d = d.Idom() {
					id := d.Idom()
					if id == nil {
						break
					}
					iff, isIf := id.Instrs[len(id.Instrs)-1].(*ssa.If)
					if !isIf {
						continue
					}
					cv, neg := fw.BoolCond(iff.Cond)
					if e2, ok := cv.(*ssa.Extract); ok && e2.Tuple == ssa.Value(lk) && e2.Index == 1 && !neg && id.Succs[0] == d {
						guarded = true
					}
				}
				if !guarded {
					c.Fail(rule, "content copy is keyed on presence", c.P.Pos(fw.InstrPos(mu)), "the copy of a kept content key is not guarded by the presence flag of the lookup (a present key with a null/zero value would be dropped, or an absent key materialised)")
					continue
				}
				c.Ok(rule, construct, c.P.Pos(fw.InstrPos(mu)), "value of comma-ok lookup, same key, guarded by ok")
			}
		}
	}
	c.Min(rule+" content copies", updates, 1)
	// (b) SetContent is called on every path to the success return, and the success value is json.Marshal of the projection
	// the content setter of the projection, by name or by shape (one map[string]interface{}
	// parameter, no result, called on the projection)
	var setc []ssa.CallInstruction
	for _, call := range fw.Calls(generic) {
		n := fw.CalleeName(call)
		if strings.HasSuffix(n, ".SetContent") {
			setc = append(setc, call)
			continue
		}
		sig := call.Common().Signature()
		if sig == nil || sig.Results().Len() != 0 || sig.Params().Len() != 1 {
			continue
		}
		if m, isMap := sig.Params().At(0).Type().Underlying().(*types.Map); isMap && (call.Common().IsInvoke() || sig.Recv() != nil) {
			if _, isIface := m.Elem().Underlying().(*types.Interface); isIface {
				setc = append(setc, call)
			}
		}
	}
	if len(setc) == 0 {
		c.Undecided(rule, "SetContent precedes marshalling", "no content setter of the projection was recognised in the routine")
	}
	if len(setc) > 0 {
		// paths that reach json.Marshal without SetContent keep the decoded content as it is: that
		// is the "keep all fields" case and only right for a type listed with an empty keep-list
		blocked := map[*ssa.BasicBlock]bool{}
		for _, sc := range setc {
			blocked[sc.Block()] = true
		}
		_ = types.Typ
		pcs, okPC := fw.PathCondsAvoiding(generic, blocked)
		verdict, detail := "ok", ""
		for _, m := range fw.CallsTo(generic, false, fw.NameIs("encoding/json.Marshal")) {
			if blocked[m.Block()] {
				// same block as a SetContent: order inside the block
				continue
			}
			if !okPC {
				verdict, detail = "undecided", "path conditions too large"
				break
			}
			for _, term := range pcs[m.Block()] {
				listed := hasAtom(term, true, "[", ".GetType(", "#1")
				empty := hasAtom(term, true, "builtin.len(", " == 0)") || hasAtom(term, false, "builtin.len(", " > 0)") || hasAtom(term, false, "builtin.len(", " != 0)")
				if !(listed && empty) {
					verdict, detail = "fail", "json.Marshal of the projection is reachable without the filtered content having been installed, under "+fw.DNF{term}.String()+" (only a type listed with an empty keep-list keeps all of its content)"
				}
			}
		}
		switch verdict {
		case "ok":
			c.Ok(rule, "SetContent precedes marshalling", c.P.Pos(fw.InstrPos(setc[0])), "")
		case "fail":
			c.Fail(rule, "SetContent precedes marshalling", c.P.Pos(fw.InstrPos(setc[0])), detail)
		default:
			c.Undecided(rule, "SetContent precedes marshalling", detail)
		}
	}
	// (c) "keep all" only when the type is listed with an empty keep-list
	//     => the content passed through unfiltered is control-dependent on (ok && len(keep)==0)
	// (d) projection structs: every field except type/content is raw JSON
	pkg := c.P.Pkg("")
	nproj := 0
	sc := pkg.Types.Scope()
	for _, name := range sc.Names() {
		tn, ok := sc.Lookup(name).(*types.TypeName)
		if !ok {
			continue
		}
		st, ok := tn.Type().Underlying().(*types.Struct)
		if !ok || !implementsProjection(tn) {
			continue
		}
		nproj++
		for i := 0; i < st.NumFields(); i++ {
			f := st.Field(i)
			tag := reflect.StructTag(st.Tag(i)).Get("json")
			key := strings.Split(tag, ",")[0]
			omit := strings.Contains(tag, ",omitempty")
			ts := fw.Short(f.Type().String())
			construct := fmt.Sprintf("projection %s field %s is value-preserving", name, key)
			switch key {
			case "type":
				c.Check(ts == "string" && !omit, rule, construct, c.P.Pos(f.Pos()), ts, "type must be a plain string without omitempty")
			case "content":
				c.Check(strings.HasPrefix(ts, "map[string]") && !omit, rule, construct, c.P.Pos(f.Pos()), ts, "content must be a JSON object map without omitempty")
			default:
				c.Check(ts == "gmsl/spec.RawJSON" && omit, rule, construct, c.P.Pos(f.Pos()), ts, fmt.Sprintf("kept top-level key %q is carried as %s (omitempty=%v): anything but raw JSON re-encodes the value and, with omitempty, drops zero values such as 0", key, ts, omit))
			}
		}
	}
	c.Min(rule+" projection structs", nproj, 2)
}

func implementsProjection(tn *types.TypeName) bool {
	ms := types.NewMethodSet(types.NewPointer(tn.Type()))
	have := map[string]bool{}
	for i := 0; i < ms.Len(); i++ {
		have[ms.At(i).Obj().Name()] = true
	}
	return have["GetType"] && have["GetContent"] && have["SetContent"]
}

// checkRedactedFlows: consumers that must work on the redacted form.
func checkRedactedFlows(c *fw.Ctx) {
	rule := "3 redacted-form"
	fromRedaction := fw.FlowSpec{
		IsSource: fw.IsResultOf(redactName, 0),
		All:      true,
	}
	// signEvent: SignJSON's message
	if fn := mustFunc(c, rule, "signEvent"); fn != nil {
		calls := fw.CallsTo(fn, false, fw.NameIs("gmsl.SignJSON"))
		for _, call := range calls {
			ok := fw.DerivesFrom(call.Common().Args[3], fromRedaction)
			c.Check(ok, rule, "signEvent signs the redacted event", c.P.Pos(call.Pos()), "", "the message passed to SignJSON does not derive (on every path) from RedactEventJSON")
		}
		c.Min(rule+" signEvent SignJSON sites", len(calls), 1)
	}
	// referenceOfEvent: the hashed bytes derive from the redacted JSON
	if fn := mustFunc(c, rule, "referenceOfEvent"); fn != nil {
		// (the steps may live in unexported helpers of referenceOfEvent)
		calls := deepCallsTo(fn, fw.NameIs("crypto/sha256.Sum256"))
		for _, dc := range calls {
			c.CheckDerives(dc.Call.Common().Args[0], dc.Fr, fw.FlowSpec{IsSource: fw.IsResultOf(fw.NameIs("gmsl.CanonicalJSON"), 0), All: true}, rule, "referenceOfEvent hashes canonical JSON", c.P.Pos(dc.Call.Pos()), "", "the reference hash input is not the result of CanonicalJSON")
		}
		c.Min(rule+" referenceOfEvent hash sites", len(calls), 1)
		best := fw.Unknown
		sawRaw := false
		for _, dc := range deepCallsTo(fn, fw.NameIs("encoding/json.Unmarshal")) {
			switch fw.Derives3In(dc.Call.Common().Args[0], dc.Fr, fromRedaction) {
			case fw.Yes:
				best = fw.Yes
			case fw.No:
				if isParamDeep(dc.Call.Common().Args[0], dc.Fr, fn, 0) {
					sawRaw = true
				}
			}
		}
		switch {
		case best == fw.Yes:
			c.Ok(rule, "referenceOfEvent decodes the redacted event", c.P.Pos(fn.Pos()), "")
		case sawRaw:
			c.Fail(rule, "referenceOfEvent decodes the redacted event", c.P.Pos(fn.Pos()), "the event map that is hashed is decoded from the unredacted input, not from the output of RedactEventJSON")
		default:
			c.Undecided(rule, "referenceOfEvent decodes the redacted event", "no json.Unmarshal of the redaction found under referenceOfEvent")
		}
	}
	// every VerifyJSONRequest for an event carries the redacted JSON
	for _, spec := range []string{"VerifyEventSignatures", "HandleSendJoin", "HandleInvite"} {
		fn := mustFunc(c, rule, spec)
		if fn == nil {
			continue
		}
		stores := regionFieldStores(fn, "VerifyJSONRequest", "Message")
		isJSON := fw.IsResultOf(func(n string) bool { return strings.HasSuffix(n, ").JSON") }, 0)
		nred := 0
		for _, st := range stores {
			if fw.DerivesFrom(st.Val, fromRedaction) {
				nred++
				c.Ok(rule, spec+": VerifyJSONRequest.Message is the redacted event", c.P.Pos(fw.InstrPos(st)), "")
				continue
			}
			// requests over other payloads (e.g. the mxid mapping of pseudo-ID rooms) are not event
			// signatures; a request over the event's JSON that bypasses the redaction is the violation
			if fw.DerivesFrom(st.Val, fw.FlowSpec{IsSource: isJSON}) {
				c.Fail(rule, spec+": VerifyJSONRequest.Message is the redacted event", c.P.Pos(fw.InstrPos(st)), "a verification request is built over the event's JSON without passing it through RedactEventJSON")
			}
		}
		c.Min(rule+" "+spec+" request sites", nred, 1)
		// and the redaction input is the event's own JSON
		for _, call := range regionCallsTo(fn, redactName) {
			arg := call.Common().Args
			if len(arg) == 0 {
				continue
			}
			src := arg[len(arg)-1]
			ok := fw.DerivesFrom(src, fw.FlowSpec{IsSource: fw.IsResultOf(func(n string) bool { return strings.HasSuffix(n, ".JSON") || strings.HasSuffix(n, ").JSON") }, 0), All: true})
			c.Check(ok, rule, spec+": redaction input is the event's JSON", c.P.Pos(call.Pos()), "", "RedactEventJSON is applied to something other than the event's JSON()")
		}
	}
}

// checkRedactMethods: eventV1.Redact / eventV2.Redact.
func checkRedactMethods(c *fw.Ctx) {
	rule := "4 Redact"
	for _, spec := range []string{"(*eventV1).Redact", "(*eventV2).Redact"} {
		fn := mustFunc(c, rule, spec)
		if fn == nil {
			continue
		}
		// RedactEventJSON applied, result flows into the eventJSON field store
		stores := fw.FieldStores(fn, "eventV1", "eventJSON")
		ok := false
		for _, st := range stores {
			if fw.DerivesFrom(st.Val, fw.FlowSpec{IsSource: fw.IsResultOf(redactName, 0), Through: fw.ThroughNames(map[string][]int{"gmsl.EnforcedCanonicalJSON": {0}, "gmsl.CanonicalJSON": {0}, "gmsl.CanonicalJSONAssumeValid": {0}}), All: true}) {
				ok = true
			}
		}
		c.Check(ok, rule, spec+" stores the redacted JSON", c.P.Pos(fn.Pos()), "", "the eventJSON installed by Redact() does not derive from RedactEventJSON")
		// redacted = true stored
		rs := fw.FieldStores(fn, "eventV1", "redacted")
		okT := false
		for _, st := range rs {
			if cst, isC := st.Val.(*ssa.Const); isC && cst.Value != nil && cst.Value.String() == "true" {
				okT = true
			}
		}
		c.Check(okT, rule, spec+" marks the event redacted", c.P.Pos(fn.Pos()), "", "Redact() never sets redacted = true")
		// no way through Redact() avoids the room version's redaction, except when the event is
		// already marked redacted; in particular the flag is never set without it
		must := fw.MustCallSites(fn, redactName)
		// paths on which the event is already marked redacted are excluded by removing the edge
		// taken when the receiver's redacted flag is set
		already := map[fw.Edge]bool{}
		for _, iff := range fw.Ifs(fn) {
			cv, neg := fw.BoolCond(iff.Cond)
			if strings.HasSuffix(fw.Sig(cv), ".redacted") && strings.HasPrefix(fw.Sig(cv), "*recv") {
				already[fw.IfEdge(iff.Block(), !neg)] = true
			}
		}
		nret := 0
		for _, r := range fw.Returns(fn) {
			if !fw.PathAvoidingEdges(fn.Blocks[0], nil, r, already) {
				continue // reachable only for already redacted events
			}
			nret++
			if len(must) == 0 {
				c.Undecided(rule, spec+" always applies the room version's redaction", "no call of RedactEventJSON (direct or through a helper that always makes it) was found")
				continue
			}
			c.Check(!fw.PathAvoidingEdges(fn.Blocks[0], must, r, already), rule, spec+" always applies the room version's redaction", c.P.Pos(fw.InstrPos(r)), "", "Redact() can return without having run RedactEventJSON although the event was not marked redacted: top-level keys outside the keep-list survive")
		}
		c.Min(rule+" "+spec+" returns", nret, 1)
		for _, st := range rs {
			if len(must) == 0 {
				break
			}
			c.Check(!fw.PathAvoidingEdges(fn.Blocks[0], must, st, already), rule, spec+" sets the redacted flag only after redacting", c.P.Pos(fw.InstrPos(st)), "", "redacted = true can be stored on a path that never ran RedactEventJSON")
		}
		// roomVersion carried over
		rv := fw.FieldStores(fn, "eventV1", "roomVersion")
		c.Check(len(rv) >= 1, rule, spec+" keeps the room version", c.P.Pos(fn.Pos()), "", "Redact() does not carry roomVersion over to the redacted event")
	}
}

// checkTablesReadOnly ("1 tables"): the keep-tables are package-level maps shared by every
// redaction; a write or delete on one of them (directly, or through a parameter of a helper that
// is handed the table) changes the redaction of some room version for the rest of the process.
// Building a table by copying another one is fine; mutating the other one is not.
func checkTablesReadOnly(c *fw.Ctx) {
	rule := "1 tables"
	construct := "the keep-tables are never written after they were built"
	isTable := func(g *ssa.Global) bool {
		if g.Pkg == nil || g.Pkg.Pkg.Path() != fw.ModPath {
			return false
		}
		if _, ok := g.Type().Underlying().(*types.Pointer).Elem().Underlying().(*types.Map); !ok {
			return false
		}
		return strings.HasSuffix(c.P.Fset.Position(g.Pos()).Filename, "redactevent.go")
	}
	// call sites per function, for parameters
	sites := map[*ssa.Function][]ssa.CallInstruction{}
	funcs := c.P.SrcFuncs()
	withInit := append([]*ssa.Function{}, funcs...)
	if pk := c.P.SSAPkg(""); pk != nil {
		// package-level initialisers run in the synthesized init function
		if ini := pk.Func("init"); ini != nil {
			withInit = append(withInit, ini)
		}
	}
	for _, f := range withInit {
		for _, call := range fw.Calls(f) {
			if cal := call.Common().StaticCallee(); cal != nil {
				sites[cal] = append(sites[cal], call)
			}
		}
	}
	var origin func(v ssa.Value, depth int, seen map[ssa.Value]bool) *ssa.Global
	origin = func(v ssa.Value, depth int, seen map[ssa.Value]bool) *ssa.Global {
		if depth > 6 || seen[v] {
			return nil
		}
		seen[v] = true
		switch x := v.(type) {
		case *ssa.UnOp:
			if x.Op == token.MUL {
				if g, ok := x.X.(*ssa.Global); ok && isTable(g) {
					return g
				}
				if o := fw.LoadOrigin(x); o != ssa.Value(x) {
					return origin(o, depth+1, seen)
				}
				if a, ok := x.X.(*ssa.Alloc); ok {
					for _, ref := range *a.Referrers() {
						if st, ok := ref.(*ssa.Store); ok && st.Addr == ssa.Value(a) {
							if g := origin(st.Val, depth+1, seen); g != nil {
								return g
							}
						}
					}
				}
			}
		case *ssa.Phi:
			for _, e := range x.Edges {
				if g := origin(e, depth+1, seen); g != nil {
					return g
				}
			}
		case *ssa.ChangeType:
			return origin(x.X, depth+1, seen)
		case *ssa.Parameter:
			fn := x.Parent()
			idx := -1
			for i, p := range fn.Params {
				if p == x {
					idx = i
				}
			}
			for _, call := range sites[fn] {
				args := call.Common().Args
				if idx >= 0 && idx < len(args) {
					if g := origin(args[idx], depth+1, seen); g != nil {
						return g
					}
				}
			}
		}
		return nil
	}
	nTables, nWrites, nBad := 0, 0, 0
	for _, f := range funcs {
		if f.Pkg == nil || f.Pkg.Pkg.Path() != fw.ModPath {
			continue
		}
		for _, b := range f.Blocks {
			for _, ins := range b.Instrs {
				var m ssa.Value
				what := ""
				switch x := ins.(type) {
				case *ssa.MapUpdate:
					m, what = x.Map, "written"
				case *ssa.Call:
					if fw.CalleeName(x) == "builtin.delete" && len(x.Call.Args) > 0 {
						m, what = x.Call.Args[0], "deleted from"
					}
				}
				if m == nil {
					continue
				}
				nWrites++
				if g := origin(m, 0, map[ssa.Value]bool{}); g != nil {
					nBad++
					c.Fail(rule, construct, c.P.Pos(fw.InstrPos(ins)), fmt.Sprintf("%s is %s in %s: the table is shared, so the redaction algorithm of the versions bound to it changes", g.Name(), what, fw.FuncName(f)))
				}
			}
		}
	}
	for _, mem := range c.P.SSAPkg("").Members {
		if g, ok := mem.(*ssa.Global); ok && isTable(g) {
			nTables++
		}
	}
	c.Count("keep-tables (package-level maps of redactevent.go)", nTables)
	c.Count("map writes / deletes examined for a keep-table operand", nWrites)
	if nTables == 0 {
		c.Undecided(rule, construct, "no package-level keep-table found")
		return
	}
	if nBad > 0 {
		return
	}
	c.Ok(rule, construct, "", fmt.Sprintf("%d tables, %d map writes / deletes in the package, none on a table", nTables, nWrites))
}
