package props

import (
	"fmt"
	"go/types"
	"regexp"
	"strings"

	"gmslverif/fw"

	"golang.org/x/tools/go/ssa"
)

func init() { register("C15", checkC15) }

// need: a literal that must hold on every path to success. Any of the alternatives suffices.
type need struct {
	what string
	alts []lit
	// probe (optional): the suffix of the callee an unexported helper would have to call in
	// order to establish the need; a helper whose region never calls it is not opaque for it
	probe string
	// subject (optional, with probe): the rendered value the need is about; a dynamic call that
	// is not handed that value cannot establish the need either
	subject string
	// about (optional): substrings one of which a dynamic call's rendering must contain for
	// the call to be able to establish the need (what the need is about: the event's content,
	// say); a callback that is handed none of it does not excuse a missing test
	about []string
}

type lit struct {
	subs []string
	pos  bool
}

func termHas(t fw.Term, l lit) bool {
	for _, x := range t {
		if x.Pos != l.pos {
			continue
		}
		if containsAll(x.Atom, l.subs...) {
			return true
		}
		// a variable captured by a closure lives in a cell: `*&x` is `x`
		if strings.Contains(x.Atom, "*&") {
			subs := make([]string, len(l.subs))
			for i, sb := range l.subs {
				subs[i] = strings.ReplaceAll(sb, "*&", "")
			}
			if containsAll(strings.ReplaceAll(x.Atom, "*&", ""), subs...) {
				return true
			}
		}
		// equality is commutative: the extractor orders the operands canonically
		if sw := swapEq(x.Atom); sw != "" && containsAll(sw, l.subs...) {
			return true
		}
	}
	return false
}

// requireOnSuccess: every path-condition term of every success return of fn contains each needed literal.
// success rows: the error result (errIdx) is nil / the first result is non-nil.
func requireOnSuccess(c *fw.Ctx, rule, fname string, fn *ssa.Function, needs []need, minSuccess int) {
	requireOnSuccessIdx(c, rule, fname, fn, fw.ErrIndex(fn), needs, minSuccess)
}

func requireOnSuccessIdx(c *fw.Ctx, rule, fname string, fn *ssa.Function, idx int, needs []need, minSuccess int) {
	if idx < 0 {
		c.Undecided(rule, fname, "no error-like result to classify success by")
		return
	}
	t, err := fw.ExtractTable(fn, idx)
	if err != nil {
		c.Undecided(rule, fname, err.Error())
		return
	}
	c.SawFn(fw.FuncName(fn))
	expandHelpersForNeeds(t, needs)
	var succ []fw.Row
	for _, r := range t.Rows {
		if r.Outcome == "accept" {
			succ = append(succ, r)
		}
	}
	if len(succ) < minSuccess {
		c.Undecided(rule, fname+": success returns", fmt.Sprintf("found %d success return(s), expected at least %d", len(succ), minSuccess))
		return
	}
	c.Count("success_terms", len(succ))
	// a table of stages (functions held in a package-level or local list and called in a loop)
	// hides every check it performs from the path conditions
	stageTable := ""
	for _, call := range fw.Calls(fn) {
		if call.Common().IsInvoke() || call.Common().StaticCallee() != nil {
			continue
		}
		if funcFromTable(call.Common().Value, 0) {
			stageTable = c.P.Pos(call.Pos())
		}
	}
	if stageTable == "" {
		if od := fw.OpaqueDispatch(fn); strings.Contains(od, "table") {
			stageTable = od
		}
	}
	for _, n := range needs {
		bad, opaque := "", ""
		badTerm := ""
		for _, r := range succ {
			for _, term := range r.Cond {
				ok := false
				for _, l := range n.alts {
					if termHas(term, l) {
						ok = true
					}
				}
				if ok {
					continue
				}
				// a condition computed by a function literal handed to a library routine
				// (slices.IndexFunc(xs, func...) and the like) may establish what is needed:
				// the rule cannot see into it
				op := ""
				for _, l := range term {
					if strings.Contains(l.Atom, "closure:") || strings.Contains(l.Atom, "func:") {
						op = l.Atom
					}
					// the result of an unexported helper (a method of a request object, a function
					// with several results) that the expansion could not open
					if fw.AtomCallsUnexportedHelper(l.Atom) || strings.Contains(l.Atom, "dyn(") {
						hs := fw.AtomHelpers(l.Atom)
						if len(hs) == 0 {
							hs = mentionedHelpers(c, l.Atom)
						}
						if len(hs) > 0 && n.probe != "" {
							any := false
							for _, h := range hs {
								if regionCalls(h, n.probe) {
									any = true
								}
							}
							if !any {
								continue // the helper cannot establish this need: it never makes the call
							}
						}
						if n.subject != "" && strings.Contains(l.Atom, "dyn(") && fw.AtomHelper(l.Atom) == nil && !dynGiven(l.Atom, n.subject) {
							continue // no callback in this condition is handed the value
						}
						if len(n.about) > 0 && strings.Contains(l.Atom, "dyn(") && fw.AtomHelper(l.Atom) == nil && !mentionsAny(l.Atom, n.about) {
							continue // the callback sees nothing of what the need is about
						}
						op = l.Atom
					} else if hs := mentionedHelpers(c, l.Atom); len(hs) > 0 {
						// a test of a field of a helper's result (a verdict struct): what it says was
						// decided inside the helper
						any := n.probe == ""
						for _, h := range hs {
							if n.probe != "" && regionCalls(h, n.probe) {
								any = true
							}
						}
						if any {
							op = l.Atom
						}
					}
				}
				if op != "" {
					opaque = op
				} else if bad == "" {
					bad = c.P.Pos(fw.InstrPos(r.Ret))
					badTerm = fw.DNF{term}.String()
				}
			}
		}
		if bad != "" && stageTable != "" {
			c.Undecided(rule, fname+": success requires "+n.what, "the function runs a table of stages (call at "+stageTable+"): what they check is not visible in its path conditions")
			continue
		}
		switch {
		case bad != "":
			c.Fail(rule, fname+": success requires "+n.what, c.P.Pos(fn.Pos()), fmt.Sprintf("the success return at %s is reachable on a path that does not establish: %s [path: %s]", bad, n.what, badTerm))
		case opaque != "":
			c.Undecided(rule, fname+": success requires "+n.what, "a success path depends on "+opaque+", which the rule cannot see into")
		default:
			c.Ok(rule, fname+": success requires "+n.what, c.P.Pos(fn.Pos()), "")
		}
	}
}

// expandHelpersForNeeds: checks moved into unexported helpers are looked up inside the helpers
// (atoms that test a helper's result and that no need mentions are replaced by the helper's own
// conditions).
func expandHelpersForNeeds(t *fw.Table, needs []need) {
	t.ExpandUnknown(func(atom string) bool {
		if !fw.AtomCallsUnexportedHelper(atom) {
			return true
		}
		for _, n := range needs {
			for _, l := range n.alts {
				if containsAll(atom, l.subs...) {
					return true
				}
				if sw := swapEq(atom); sw != "" && containsAll(sw, l.subs...) {
					return true
				}
			}
		}
		return false
	})
}

func nd(what string, pos bool, subs ...string) need {
	return need{what: what, alts: []lit{{subs, pos}}}
}

// dynGiven: some dynamic call rendered in atom (`dyn(f)(a,b)`) has subject among its arguments.
func dynGiven(atom, subject string) bool {
	for i := 0; i+4 <= len(atom); i++ {
		if !strings.HasPrefix(atom[i:], "dyn(") {
			continue
		}
		// skip the callee expression
		j, depth := i+3, 0
		for ; j < len(atom); j++ {
			if atom[j] == '(' {
				depth++
			} else if atom[j] == ')' {
				depth--
				if depth == 0 {
					break
				}
			}
		}
		if j+1 >= len(atom) || atom[j+1] != '(' {
			continue
		}
		// the argument list
		k, start := j+1, j+2
		depth = 0
		for ; k < len(atom); k++ {
			switch atom[k] {
			case '(', '[':
				depth++
			case ')', ']':
				depth--
			case ',':
				if depth == 1 {
					if atom[start:k] == subject {
						return true
					}
					start = k + 1
				}
			}
			if depth == 0 {
				break
			}
		}
		if k <= len(atom) && start <= k && atom[start:k] == subject {
			return true
		}
	}
	return false
}

// regionCalls: some function of h's region calls a function whose name ends in suffix.
// mentionedHelpers: the unexported repository functions with a body whose calls are rendered
// inside the atom (`(gmsl.examine(param:input)#2.fault == 0)`).
var helperInAtom = regexp.MustCompile(`(\(\*?gmsl[\w/]*\.\w+\)\.[a-z_]\w*|gmsl[\w/]*\.[a-z_]\w*)\(`)

var srcFuncIndex map[string]*ssa.Function

func mentionedHelpers(c *fw.Ctx, atom string) []*ssa.Function {
	if !strings.Contains(atom, "gmsl") {
		return nil
	}
	if srcFuncIndex == nil {
		srcFuncIndex = map[string]*ssa.Function{}
		for _, f := range c.P.SrcFuncs() {
			if len(f.Blocks) > 0 && f.Parent() == nil {
				srcFuncIndex[fw.FuncName(f)] = f
			}
		}
	}
	// only a helper whose result is what the atom tests (the rendering starts with its call):
	// a helper result that is merely handed on as an argument decides nothing here
	t := strings.TrimLeft(atom, "!(*&")
	var out []*ssa.Function
	if loc := helperInAtom.FindStringSubmatchIndex(t); loc != nil && loc[0] == 0 {
		if f := srcFuncIndex[t[loc[2]:loc[3]]]; f != nil && !stopExported(f) {
			out = append(out, f)
		}
	}
	return out
}

func regionCalls(h *ssa.Function, suffix string) bool {
	for _, dc := range fw.AllDeepCalls(h, nil) {
		if strings.HasSuffix(fw.CalleeName(dc.Call), suffix) {
			return true
		}
	}
	return false
}

func checkC15(c *fw.Ctx) {
	c.Explanation = "C15 (static): for every handshake entry point the path condition of each success return is extracted from SSA (engine T) and shown to imply every guard the handshake prescribes (remote supports the version, user belongs to the requesting server, local server in the room, restricted-join authorisation, template checks, auth rules; for send_join: parsed event, state key = sender, sender's server = origin, room and event ID match, membership join, valid signature of the sender's server under the strict rule, not banned, authorising user local; for invites: known version, room match, type/membership, valid signature, not already joined in known rooms); the event returned by send_join / invite is the result of Sign(local server, key, private key) applied to the checked event; PerformJoin's success requires make_join, a known version, a successful build, send_join, a create event of a known version and the federation-response checks."
	c.NotDecidedClause("querier semantics and the remote server's behaviour")
	ev := "(gmsl.IRoomVersion).NewEventFromUntrustedJSON(gmsl.GetRoomVersion(*&param:input.RoomVersion)#0,*&param:input.JoinEvent)#0"

	if fn := mustFunc(c, "1 make_join", "HandleMakeJoin"); fn != nil {
		tb := "dyn(*&param:input.BuildEventTemplate)("
		requireOnSuccess(c, "1 make_join", "HandleMakeJoin", fn, []need{
			nd("the remote supports the room version", true, "param:input.RoomVersion", "param:input.RemoteVersions"),
			nd("the user belongs to the requesting server", true, ".Domain(&param:input.UserID) == *&param:input.RequestOrigin)"),
			nd("the local server is in the room", true, "*&param:input.LocalServerInRoom"),
			nd("the restricted-join check passed", true, ".CheckRestrictedJoin(", "#1 == nil)"),
			// (the argument handed to the builder is not part of the obligation)
			nd("the template builder succeeded", true, tb, ")#2 == nil)"),
			nd("the template event exists", false, tb, ")#0 == nil)"),
			nd("the template state exists", false, tb, ")#1 == nil)"),
			nd("the template is a member event", true, ".Type("+tb, ")#0) == \"m.room.member\")"),
			nd("the state is a valid auth provider", true, "gmsl.NewAuthEvents("+tb, ")#1)#1 == nil)"),
			nd("the join passes the auth rules", true, "gmsl.Allowed("+tb, ")#0,gmsl.NewAuthEvents("+tb, ")#1)#0,*&param:input.UserIDQuerier) == nil)"),
		}, 1)
		// the restricted-join result is put into the template
		ok := false
		for _, st := range fw.FieldStores(fn, "MemberContent", "AuthorisedVia") {
			if strings.Contains(fw.Sig(st.Val), ".CheckRestrictedJoin(") && strings.HasSuffix(fw.Sig(st.Val), "#0") {
				ok = true
			}
		}
		c.Check(ok, "1 make_join", "the authorising user chosen by the restricted-join check is the one put into the template", c.P.Pos(fn.Pos()), "", "AuthorisedVia is not the result of CheckRestrictedJoin")
	}
	checkRestrictedJoinSelection(c)
	if fn := mustFunc(c, "2 make_leave", "HandleMakeLeave"); fn != nil {
		tb := "dyn(*&param:input.BuildEventTemplate)("
		requireOnSuccess(c, "2 make_leave", "HandleMakeLeave", fn, []need{
			nd("the user belongs to the requesting server", true, ".Domain(&param:input.UserID) == *&param:input.RequestOrigin)"),
			nd("the local server is in the room", true, "*&param:input.LocalServerInRoom"),
			nd("the template builder succeeded", true, tb, ")#2 == nil)"),
			nd("the template event exists", false, tb, ")#0 == nil)"),
			nd("the template state exists", false, tb, ")#1 == nil)"),
			nd("the template is a member event", true, ".Type("+tb, ")#0) == \"m.room.member\")"),
			nd("the leave passes the auth rules", true, "gmsl.Allowed("+tb, ")#0,", " == nil)"),
		}, 1)
	}
	if fn := mustFunc(c, "3 send_join", "HandleSendJoin"); fn != nil {
		// memberships are keyed by the sender ID of the room (a pseudo ID in pseudo-ID rooms):
		// the ban / already-joined lookup must use the event's sender ID, not the resolved user ID
		for _, dc := range deepCallsTo(fn, func(n string) bool { return strings.HasSuffix(n, ".CurrentMembership") }) {
			args := dc.Call.Common().Args
			if len(args) == 0 {
				continue
			}
			key := args[len(args)-1]
			c.CheckDerives(key, dc.Fr, fw.FlowSpec{IsSource: fw.IsResultOf(func(n string) bool { return strings.HasSuffix(n, ".SenderID") }, -1)}, "3 send_join",
				"HandleSendJoin looks the joiner's membership up under the event's sender ID", c.P.Pos(dc.Call.Pos()), "",
				"CurrentMembership is queried with "+fw.SigIn(dc.Fr, key)+", not with the event's sender ID: in pseudo-ID rooms the membership (a ban) is recorded under the pseudo ID and the lookup misses it")
		}
		vj := "(gmsl.JSONVerifier).VerifyJSONs("
		requireOnSuccess(c, "3 send_join", "HandleSendJoin", fn, []need{
			nd("a known room version", true, "gmsl.GetRoomVersion(*&param:input.RoomVersion)#1 == nil)"),
			nd("the event parses as untrusted JSON", true, ".NewEventFromUntrustedJSON(", "#1 == nil)"),
			{what: "the event is an m.room.member event", alts: []lit{{[]string{".Type(" + ev + ") == \"m.room.member\")"}, true}}, probe: ".Type", subject: ev},
			nd("a state key is present", false, ".StateKey("+ev+") == nil)"),
			nd("the state key is not empty", false, ".StateKeyEquals("+ev+",\"\")"),
			nd("the state key equals the sender", true, ".StateKeyEquals("+ev+",(gmsl.PDU).SenderID("+ev+"))"),
			nd("the sender resolves to a user", true, "dyn(*&param:input.UserIDQuerier)(*&param:input.RoomID,(gmsl.PDU).SenderID("+ev+"))#1 == nil)"),
			// (a helper that never asks for a domain cannot make this comparison)
			{what: "the sender belongs to the requesting server", alts: []lit{{[]string{".Domain(dyn(*&param:input.UserIDQuerier)(", " == *&param:input.RequestOrigin)"}, true}}, probe: ".Domain", about: []string{"RequestOrigin"}},
			nd("the room ID matches the request", true, ".RoomID("+ev+")) == (gmsl/spec.RoomID).String(*&param:input.RoomID))"),
			nd("the event ID matches the request", true, ".EventID("+ev+") == *&param:input.EventID)"),
			nd("the membership is readable", true, ".Membership("+ev+")#1 == nil)"),
			nd("the membership is join", true, ".Membership("+ev+")#0 == \"join\")"),
			nd("the event can be redacted", true, ".RedactEventJSON(", "#1 == nil)"),
			nd("signature verification ran without error", true, vj, "#1 == nil)"),
			nd("the sender's server validly signed the event", true, vj, "#0[0].Error == nil)"),
			nd("the current membership is known", true, ".CurrentMembership(", "#1 == nil)"),
			nd("the user is not banned", false, ".CurrentMembership(", "#0 == \"ban\")"),
			nd("the member content decodes", true, "encoding/json.Unmarshal((gmsl.PDU).Content("+ev+"),local:*gmsl.MemberContent) == nil)"),
			{what: "the authorising user, if any, is valid and local", alts: []lit{{[]string{"(*local:*gmsl.MemberContent.AuthorisedVia == \"\")"}, true}, {[]string{".Domain(gmsl/spec.NewUserID(*local:*gmsl.MemberContent.AuthorisedVia,true)#0) == *&param:input.LocalServerName)"}, true}}, about: []string{".Content(", "AuthorisedVia", "MemberContent"}},
		}, 1)
		// what is verified
		for f, want := range map[string][]string{"Message": {".RedactEventJSON(", ".JSON(" + ev + ")"}, "AtTS": {".OriginServerTS(" + ev + ")"}, "ValidityCheckingFunc": {"func:gmsl.StrictValiditySignatureCheck"}, "ServerName": {"phi(", ".Domain(dyn(*&param:input.UserIDQuerier)("}} {
			stores := deepFieldStores(fn, "VerifyJSONRequest", f)
			construct := "the signature check covers " + f + " = " + strings.Join(want, " ")
			okAny, resolvedAll := false, len(stores) > 0
			var sigs []string
			for _, ds := range stores {
				sg := fw.SigIn(ds.Fr, ds.St.Val)
				sigs = append(sigs, sg)
				if containsAll(sg, want...) {
					okAny = true
				}
				if strings.Contains(sg, "...") || strings.Contains(sg, "param:") && ds.Fr != nil && !strings.Contains(sg, "param:input") {
					resolvedAll = false
				}
			}
			switch {
			case okAny:
				c.Ok("3 send_join", construct, c.P.Pos(fn.Pos()), strings.Join(sigs, " | "))
			case resolvedAll && len(stores) == 1:
				c.Fail("3 send_join", construct, c.P.Pos(fw.InstrPos(stores[0].St)), "the request is built with "+f+" = "+sigs[0])
			default:
				c.Undecided("3 send_join", construct, fmt.Sprintf("%d stores: %s", len(stores), strings.Join(sigs, " | ")))
			}
		}
		// every returned JoinEvent is the counter-signed checked event
		stores := fw.FieldStores(fn, "HandleSendJoinResponse", "JoinEvent")
		for _, st := range stores {
			s := fw.Sig(st.Val)
			ok := strings.HasPrefix(s, "(gmsl.PDU).Sign("+ev+",") && containsAll(s, "*&param:input.LocalServerName", "*&param:input.KeyID", "*&param:input.PrivateKey")
			construct := "the returned join event is the checked event counter-signed by the local server"
			signed := strings.HasPrefix(s, "(gmsl.PDU).Sign(")
			switch {
			case ok:
				c.Ok("3 send_join", construct, c.P.Pos(fw.InstrPos(st)), "")
			case !signed:
				// positive evidence: what is returned is not the result of Sign at all
				c.Fail("3 send_join", construct, c.P.Pos(fw.InstrPos(st)), "HandleSendJoinResponse.JoinEvent = "+s+": an accepted join is returned without the local server's signature")
			case signed && !containsAll(s, "input.LocalServerName", "input.KeyID", "input.PrivateKey"):
				c.Fail("3 send_join", construct, c.P.Pos(fw.InstrPos(st)), "HandleSendJoinResponse.JoinEvent = "+s+": the event is not signed with the local server's name, key id and key")
			default:
				c.Undecided("3 send_join", construct, "the signed event ("+s+") could not be identified with the event that was checked")
			}
		}
		c.Min("3 send_join response sites", len(stores), 1)
	}
	if fn := mustFunc(c, "4 invite", "HandleInvite"); fn != nil {
		inv := "*&param:input.InviteEvent"
		// success of HandleInvite = success of the common checks (tail) plus its own guards: treat the tail call as success
		t, err := fw.ExtractTable(fn, fw.ErrIndex(fn))
		if err != nil {
			c.Undecided("4 invite", "HandleInvite", err.Error())
		} else {
			needs := []need{
				nd("a known room version", true, "gmsl.GetRoomVersion(*&param:input.RoomVersion)#1 == nil)"),
				nd("the room ID matches the request", true, ".RoomID("+inv+")) == (gmsl/spec.RoomID).String(*&param:input.RoomID))"),
				nd("the event is a member event", true, ".Type("+inv+") == \"m.room.member\")"),
				nd("the membership is invite", true, ".Membership("+inv+")#0 == \"invite\")"),
				nd("the event can be redacted", true, ".RedactEventJSON(", "#1 == nil)"),
				nd("the sender resolves to a user", true, "dyn(*&param:input.UserIDQuerier)(", "#1 == nil)"),
				nd("signature verification ran without error", true, ".VerifyJSONs(", "#1 == nil)"),
				nd("the sender's server validly signed the invite", true, ".VerifyJSONs(", "#0[0].Error == nil)"),
			}
			expandHelpersForNeeds(t, needs)
			n := 0
			for _, r := range t.Rows {
				if r.Outcome != "call:gmsl.handleInviteCommonChecks" {
					switch {
					case r.Outcome == "reject":
						c.Ok("4 invite", "HandleInvite decides only through the common checks", c.P.Pos(fw.InstrPos(r.Ret)), "")
					case strings.HasPrefix(r.Outcome, "call:") && (strings.Contains(r.Outcome, "$") || !strings.HasPrefix(r.Outcome, "call:gmsl.") || strings.Contains(r.Outcome, "(")):
						// what a local closure or a function value returns (`return badJSON("…")`,
						// `return internalError(err, "…")`) is not read here
						c.Undecided("4 invite", "HandleInvite decides only through the common checks", "a return hands back the result of "+strings.TrimPrefix(r.Outcome, "call:")+" ("+c.P.Pos(fw.InstrPos(r.Ret))+")")
					default:
						c.Fail("4 invite", "HandleInvite decides only through the common checks", c.P.Pos(fw.InstrPos(r.Ret)), "a return with outcome "+r.Outcome)
					}
					continue
				}
				n++
				for _, nn := range needs {
					bad := false
					for _, term := range r.Cond {
						ok := false
						for _, l := range nn.alts {
							if termHas(term, l) {
								ok = true
							}
						}
						if !ok {
							bad = true
						}
					}
					if bad && opaqueCompareInRow(r, nn) {
						c.Undecided("4 invite", "HandleInvite: acceptance requires "+nn.what, "the test is made on a value obtained through a callback")
						continue
					}
					c.Check(!bad, "4 invite", "HandleInvite: acceptance requires "+nn.what, c.P.Pos(fw.InstrPos(r.Ret)), "", "the common checks are reachable without establishing: "+nn.what)
				}
				// the event handed on is the counter-signed invite
				s := fw.Sig(r.Call.Common().Args[2])
				ok := strings.HasPrefix(s, "(gmsl.PDU).Sign("+inv+",") && containsAll(s, ".Domain(&param:input.InvitedUser)", "*&param:input.KeyID", "*&param:input.PrivateKey")
				c.Check(ok, "4 invite", "the invite handed on is the checked event counter-signed for the invited user's server", c.P.Pos(r.Call.Pos()), "", "third argument is "+s)
			}
			c.Min("4 invite tail sites", n, 1)
		}
		for f, want := range map[string][]string{"Message": {".RedactEventJSON(", ".JSON(" + inv + ")"}, "AtTS": {".OriginServerTS(" + inv + ")"}, "ValidityCheckingFunc": {"func:gmsl.StrictValiditySignatureCheck"}, "ServerName": {".Domain(dyn(*&param:input.UserIDQuerier)("}} {
			stores := deepFieldStores(fn, "VerifyJSONRequest", f)
			construct := "the signature check covers " + f + " = " + strings.Join(want, " ")
			okAny, resolvedAll := false, len(stores) > 0
			var sigs []string
			for _, ds := range stores {
				sg := fw.SigIn(ds.Fr, ds.St.Val)
				sigs = append(sigs, sg)
				if containsAll(sg, want...) {
					okAny = true
				}
				if strings.Contains(sg, "...") || strings.Contains(sg, "param:") && ds.Fr != nil && !strings.Contains(sg, "param:input") {
					resolvedAll = false
				}
			}
			switch {
			case okAny:
				c.Ok("4 invite", construct, c.P.Pos(fn.Pos()), strings.Join(sigs, " | "))
			case resolvedAll && len(stores) == 1:
				c.Fail("4 invite", construct, c.P.Pos(fw.InstrPos(stores[0].St)), "the request is built with "+f+" = "+sigs[0])
			default:
				c.Undecided("4 invite", construct, fmt.Sprintf("%d stores: %s", len(stores), strings.Join(sigs, " | ")))
			}
		}
	}
	if fn := mustFunc(c, "4 invite", "handleInviteCommonChecks"); fn != nil {
		requireOnSuccess(c, "4 invite", "handleInviteCommonChecks", fn, []need{
			nd("the known-room query succeeded", true, ".IsKnownRoom(", "#1 == nil)"),
			{what: "in a known room the invited user is not already joined", alts: []lit{{[]string{"(gmsl.RoomQuerier).IsKnownRoom(", "#0"}, false}, {[]string{"gmsl.abortIfAlreadyJoined(param:ctx,*&param:input.RoomID,*&param:input.InvitedSenderID,*&param:input.MembershipQuerier) == nil)"}, true}}},
			nd("the stripped state could be attached", true, "gmsl.setUnsignedFieldForInvite(param:event,", " == nil)"),
		}, 1)
		// the already-joined guard depends on nothing but the room being known: wherever the call
		// sits (the function or a helper), no condition on the inviter-supplied stripped state
		// stands between the handler's entry and it
		nAJ := 0
		for _, dc := range deepCallsTo(fn, fw.NameIs("gmsl.abortIfAlreadyJoined")) {
			nAJ++
			dep := ""
			for _, f := range fw.DeepFacts(dc.Fr, dc.Call.Block()) {
				// (a test of the merged state - supplied or generated - is the same for both origins)
				merged := strings.Contains(f, "phi(") && strings.Contains(f, "input.StrippedState") && strings.Contains(f, "GenerateStrippedState(")
				if strings.Contains(f, "StrippedState") && !merged {
					dep = f
				}
			}
			c.Check(dep == "", "4 invite", "the already-joined check runs for every known room, whoever supplied the stripped state", c.P.Pos(dc.Call.Pos()), "", "the already-joined check is reached only under "+dep+": for a known room it is skipped depending on whether the inviter supplied invite_room_state")
		}
		if nAJ == 0 {
			c.Undecided("4 invite", "the already-joined check runs for every known room, whoever supplied the stripped state", "no call of abortIfAlreadyJoined in the region of handleInviteCommonChecks")
		}
	}
	if fn := mustFunc(c, "4 invite", "abortIfAlreadyJoined"); fn != nil {
		requireOnSuccess(c, "4 invite", "abortIfAlreadyJoined", fn, []need{
			nd("the membership query succeeded", true, ".CurrentMembership(", "#1 == nil)"),
			nd("the user is not joined", false, ".CurrentMembership(", "#0 == \"join\")"),
		}, 1)
	}
	if fn := mustFunc(c, "5 invite_v3", "HandleInviteV3"); fn != nil {
		t, err := fw.ExtractTable(fn, fw.ErrIndex(fn))
		if err == nil {
			needs := []need{
				nd("a known room version", true, "gmsl.GetRoomVersion(*&param:input.HandleInviteInput.RoomVersion)#1 == nil)"),
				nd("the room ID matches the request", true, "InviteProtoEvent.RoomID == (gmsl/spec.RoomID).String("),
				nd("a sender ID was obtained", true, "dyn(*&param:input.GetOrCreateSenderID)(", "#2 == nil)"),
				nd("the invite event was built", true, ".Build(", "#1 == nil)"),
				// what is built and signed on the remote server's word is an invite and nothing else
				// (fix 0eca1c8: a power-levels event or a join came back signed as an accepted invite)
				nd("the proposed event is a member event", true, "InviteProtoEvent.Type == \"m.room.member\")"),
				{what: "the proposed membership is invite", alts: []lit{{[]string{"Membership", "== \"invite\")"}, true}}},
			}
			expandHelpersForNeeds(t, needs)
			n := 0
			for _, r := range t.Rows {
				if r.Outcome != "call:gmsl.handleInviteCommonChecks" {
					continue
				}
				n++
				for _, nn := range needs {
					bad := false
					for _, term := range r.Cond {
						if !termHas(term, nn.alts[0]) {
							bad = true
						}
					}
					if bad && opaqueCompareInRow(r, nn) {
						c.Undecided("5 invite_v3", "HandleInviteV3: acceptance requires "+nn.what, "the test is made on a value obtained through a callback")
						continue
					}
					c.Check(!bad, "5 invite_v3", "HandleInviteV3: acceptance requires "+nn.what, c.P.Pos(fw.InstrPos(r.Ret)), "", "not established on every path: "+nn.what)
				}
			}
			c.Min("5 invite_v3 tail sites", n, 1)
		} else {
			c.Undecided("5 invite_v3", "HandleInviteV3", err.Error())
		}
	}
	checkPerformJoin(c)
}

func checkRestrictedJoinSelection(c *fw.Ctx) {
	rule := "1 make_join"
	t := loadVersionTable(c, rule)
	if t == nil {
		return
	}
	fn := fnByShortName(c.P, t.cell("8", "checkRestrictedJoin"))
	if fn == nil {
		c.Undecided(rule, "restricted-join authoriser selection", "not found")
		return
	}
	c.SawFn(fw.FuncName(fn))
	// every return of a non-empty user id is under: resident room, user joined, and (creator or level >= invite)
	n := 0
	pc, ok := fw.PathConds(fn)
	if !ok {
		c.Undecided(rule, "restricted-join authoriser selection", "path conditions too large")
		return
	}
	needs := []need{
		nd("the local server is in the allowed room", true, ".LocalServerInRoom"),
		nd("the joining user is in the allowed room", true, ".UserJoinedToRoom"),
		nd("the chosen event is a member event with a state key", false, ".StateKey(", " == nil)"),
		{what: "the chosen user is a creator or may invite", alts: []lit{{[]string{"slices.Contains(", "reators"}, true}, {[]string{".UserLevel(", " < ", ".Invite)"}, false}, {[]string{".UserLevel(", " >= ", ".Invite)"}, true}, {[]string{"slices.Contains(phi("}, true},
			// (a membership test in a set of creators kept as a map)
			{[]string{"reators", "]#1"}, true}, {[]string{"reators", ".has("}, true}, {[]string{"reators", ".Contains("}, true}}},
	}
	known := func(atom string) bool {
		if !fw.AtomCallsUnexportedHelper(atom) {
			return true
		}
		for _, nn := range needs {
			for _, l := range nn.alts {
				if containsAll(atom, l.subs...) {
					return true
				}
			}
		}
		return false
	}
	for _, r := range fw.Returns(fn) {
		s := fw.Sig(r.Results[0])
		if s == `""` {
			continue
		}
		n++
		// the selection loop may live in an unexported helper: its conditions are part of the path
		cond := fw.ExpandDNF(pc[r.Block()], known)
		for _, nn := range needs {
			bad, opaque := false, ""
			for _, term := range cond {
				ok := false
				for _, l := range nn.alts {
					if termHas(term, l) {
						ok = true
					}
				}
				if !ok {
					bad = true
					// a condition decided inside an unexported helper that could not be opened may be what establishes it
					for _, l := range term {
						if fw.AtomCallsUnexportedHelper(l.Atom) {
							opaque = l.Atom
						}
						// the verdict of a local closure or of a function value (`mayInvite(user)`)
						if strings.Contains(l.Atom, "closure:") || strings.Contains(l.Atom, "func:") || strings.Contains(l.Atom, "dyn(") || strings.Contains(l.Atom, "$") {
							opaque = l.Atom
						}
					}
				}
			}
			if bad && opaque != "" {
				c.Undecided(rule, "restricted join: an authorising user is returned only if "+nn.what, "the path depends on "+opaque+", which the rule could not open")
				continue
			}
			c.Check(!bad, rule, "restricted join: an authorising user is returned only if "+nn.what, c.P.Pos(fw.InstrPos(r)), "", "a user id is returned on a path that does not establish it")
		}
		// the returned id is the state key of one of the allowed room's joined members
		okVal := fw.DerivesFrom(r.Results[0], fw.FlowSpec{All: true, IsSourceIn: func(v ssa.Value, fr *fw.Frame) bool {
			u, isU := v.(*ssa.UnOp)
			if !isU {
				return false
			}
			call, _ := fw.CallOf(u.X)
			if call == nil || !strings.HasSuffix(fw.CalleeName(call), ".StateKey") {
				return false
			}
			recv := call.Common().Value
			if !call.Common().IsInvoke() && len(call.Common().Args) > 0 {
				recv = call.Common().Args[0]
			}
			return strings.Contains(fw.SigIn(fr, recv), ".JoinedUsers")
		}})
		c.Check(okVal, rule, "restricted join: the authorising user is a joined member of the allowed room", c.P.Pos(fw.InstrPos(r)), s, "returned id is "+s)
	}
	c.Min(rule+" authoriser returns", n, 1)
}

func checkPerformJoin(c *fw.Ctx) {
	rule := "6 perform_join"
	fn := mustFunc(c, rule, "PerformJoin")
	if fn == nil {
		return
	}
	// success: second result (*FederationError) nil
	requireOnSuccessIdx(c, rule, "PerformJoin", fn, 1, []need{
		nd("make_join succeeded", true, ".MakeJoin(", "#1 == nil)"),
		nd("the room version is known", true, "gmsl.GetRoomVersion(", "#1 == nil)"),
		nd("the join event was built", true, ".Build(", "#1 == nil)"),
		nd("send_join succeeded", true, ".SendJoin(", "#1 == nil)"),
		nd("the auth chain contains a create event of a known version", true, "gmsl.checkEventsContainCreateEvent(", " == nil)"),
		nd("the federation-response checks passed", true, "gmsl.CheckSendJoinResponse(", "#1 == nil)"),
	}, 1)
	// the join event that is returned is the one the response checks were run on (apart from the
	// unsigned data set afterwards): an event adopted after the checks is returned unchecked
	var checked []ssa.Value
	for _, call := range fw.CallsTo(fn, false, fw.NameIs("gmsl.CheckSendJoinResponse")) {
		if len(call.Common().Args) > 4 {
			checked = append(checked, call.Common().Args[4])
		}
	}
	for _, ds := range deepFieldStores(fn, "PerformJoinResponse", "JoinEvent") {
		if len(checked) == 0 || ds.Fr != nil {
			c.Undecided(rule, "the returned join event is the one that was checked against the response", "the call of CheckSendJoinResponse or the construction of the result was not recognised")
			continue
		}
		isChecked := func(v ssa.Value) bool {
			for _, w := range checked {
				if v == w {
					return true
				}
			}
			return false
		}
		// the alternatives of the returned value (phi operands, looking through SetUnsigned)
		var other []string
		seen := map[ssa.Value]bool{}
		var walk func(v ssa.Value)
		walk = func(v ssa.Value) {
			if seen[v] {
				return
			}
			seen[v] = true
			if isChecked(v) {
				return
			}
			switch x := v.(type) {
			case *ssa.Phi:
				for _, e := range x.Edges {
					walk(e)
				}
				return
			case *ssa.Extract:
				if cl, ok := x.Tuple.(*ssa.Call); ok && strings.HasSuffix(fw.CalleeName(cl), ".SetUnsigned") {
					if cl.Call.IsInvoke() {
						walk(cl.Call.Value)
					} else if len(cl.Call.Args) > 0 {
						walk(cl.Call.Args[0])
					}
					return
				}
			}
			other = append(other, fw.Sig(v))
		}
		walk(ds.St.Val)
		c.Check(len(other) == 0, rule, "the returned join event is the one that was checked against the response", c.P.Pos(fw.InstrPos(ds.St)), "", "PerformJoin can return "+strings.Join(other, " / ")+", which was not handed to CheckSendJoinResponse: a join event supplied by the remote server is adopted after the checks ran")
	}
	// a remote-supplied join event replaces the local one only if well formed
	for _, b := range fn.Blocks {
		for _, ins := range b.Instrs {
			if phi, ok := ins.(*ssa.Phi); ok && strings.Contains(fw.Short(phi.Type().String()), "gmsl.PDU") {
				for i, e := range phi.Edges {
					if cc, ri := fw.CallOf(e); cc != nil && ri == 0 && strings.HasSuffix(fw.CalleeName(cc), ".NewEventFromUntrustedJSON") && strings.Contains(fw.Sig(e), "GetJoinEvent") {
						conds := condsOf(phi.Block().Preds[i])
						pc, _ := fw.PathConds(fn)
						ok := false
						for _, term := range pc[phi.Block().Preds[i]] {
							if termHas(term, lit{[]string{"gmsl.isWellFormedJoinMemberEvent("}, true}) && termHas(term, lit{[]string{".NewEventFromUntrustedJSON(", "#1 == nil)"}, true}) {
								ok = true
							} else {
								ok = false
								break
							}
						}
						c.Check(ok, rule, "the remote's copy of the join event is adopted only if it parses and is a well-formed join of this user in this room", c.P.Pos(fw.InstrPos(phi)), conds, "adopted under ["+conds+"]")
					}
				}
			}
		}
	}
	if w := mustFunc(c, rule, "isWellFormedJoinMemberEvent"); w != nil {
		t, err := fw.ExtractTable(w, 0)
		if err == nil {
			for _, r := range t.Rows {
				if r.Outcome != "value:true" {
					continue
				}
				for _, nn := range []need{nd("membership readable", true, ".Membership(param:event)#1 == nil)"), nd("membership join", true, ".Membership(param:event)#0 == \"join\")"), nd("same room", true, ".RoomID(param:event)) == "), nd("state key is the sender", true, ".StateKeyEquals(param:event,param:senderID)")} {
					bad := false
					for _, term := range r.Cond {
						if !termHas(term, nn.alts[0]) {
							bad = true
						}
					}
					c.Check(!bad, rule, "a well-formed join has "+nn.what, c.P.Pos(fw.InstrPos(r.Ret)), "", "true is returned without "+nn.what)
				}
			}
		}
	}
	if ce := mustFunc(c, rule, "checkEventsContainCreateEvent"); ce != nil {
		requireOnSuccess(c, rule, "checkEventsContainCreateEvent", ce, []need{
			nd("a create event with empty state key is present", true, ".Type(", " == \"m.room.create\")"),
			nd("its content decodes", true, "encoding/json.Unmarshal(", " == nil)"),
			nd("its room version is registered", true, "gmsl.RoomVersions()[", "]#1"),
		}, 1)
	}
}

// funcFromTable: the function value v is an element of a list of functions (a package-level
// variable or a local array / slice literal), e.g. the loop variable of `for _, stage := range stages`.
func funcFromTable(v ssa.Value, depth int) bool {
	if depth > 8 {
		return false
	}
	switch x := v.(type) {
	case *ssa.UnOp:
		if g, ok := x.X.(*ssa.Global); ok {
			_, isSlice := g.Type().Underlying().(*types.Pointer).Elem().Underlying().(*types.Slice)
			_, isArr := g.Type().Underlying().(*types.Pointer).Elem().Underlying().(*types.Array)
			return isSlice || isArr
		}
		return funcFromTable(x.X, depth+1)
	case *ssa.IndexAddr:
		return funcFromTable(x.X, depth+1)
	case *ssa.Index:
		return funcFromTable(x.X, depth+1)
	case *ssa.Slice:
		return funcFromTable(x.X, depth+1)
	case *ssa.Extract:
		return funcFromTable(x.Tuple, depth+1)
	case *ssa.Next:
		return funcFromTable(x.Iter, depth+1)
	case *ssa.Range:
		return funcFromTable(x.X, depth+1)
	case *ssa.Phi:
		for _, e := range x.Edges {
			if funcFromTable(e, depth+1) {
				return true
			}
		}
	case *ssa.Alloc:
		if arr, ok := x.Type().Underlying().(*types.Pointer).Elem().Underlying().(*types.Array); ok {
			_, isFn := arr.Elem().Underlying().(*types.Signature)
			return isFn
		}
	}
	return false
}

// opaqueCompareInRow: every term of the row carries a positive comparison between the result of
// a dynamic call (a callback handed to a shared helper: `eventRoomID() == input.RoomID.String()`)
// and the second operand the need names - the need may well be established, through a value the
// table cannot name.
func opaqueCompareInRow(r fw.Row, nn need) bool {
	if len(nn.alts) == 0 || len(nn.alts[0].subs) == 0 {
		return false
	}
	last := nn.alts[0].subs[len(nn.alts[0].subs)-1]
	// the part of the need's pattern after the comparison operator
	if i := strings.Index(last, "== "); i >= 0 {
		last = last[i+3:]
	}
	last = strings.TrimSuffix(strings.TrimSuffix(last, ")"), ")")
	if len(last) < 8 {
		return false
	}
	for _, term := range r.Cond {
		found := false
		for _, x := range term {
			if x.Pos && strings.Contains(x.Atom, "dyn(") && strings.Contains(x.Atom, " == ") && strings.Contains(x.Atom, last) {
				found = true
			}
		}
		if !found {
			return false
		}
	}
	return len(r.Cond) > 0
}
