package props

import (
	"fmt"
	"go/types"
	"strings"

	"gmslverif/fw"

	"golang.org/x/tools/go/ssa"
)

func init() { register("C12", checkC12) }

func checkC12(c *fw.Ctx) {
	c.Explanation = "C12 (static): in checkUsingKeys the only store of a nil Error is dominated by: key present for (server, key id), WasValidAt(request time, request's validity rule) true, VerifyJSON(server, key id, that key, message) nil; VerifyJSONs first marks every request failed, queries the database before any fetcher, prunes a request only for expired keys or keys still valid now, hands fetchers the pruned request map, stores what was fetched on every path to the final return and returns one result per request; the validity rules are extracted as decision tables (expired => at < expired_ts, else the version's rule; strict rule caps at 7 days); key responses are mapped into results only behind CheckKeys(...).AllChecksOK (and, via a notary, a verified notary signature decided per response); CheckKeys conjoins name match, future validity, presence of an ed25519 key and valid self-signatures; the clock passed to CheckKeys is required to be the current time."
	c.NotDecidedClause("liveness ('succeeds whenever the database or a fetcher supplies such a key') and behaviour under fetcher fault sequences")
	c.NotDecidedClause("cryptographic validity (C02)")
	checkUsingKeysRule(c)
	checkSelfVerifier(c)
	checkFetchedOverwrite(c)
	checkValidityTables(c)
	checkVerifyJSONsFlow(c)
	checkFetchers(c)
	checkCheckKeys(c)
}

// nilAlt is one way a value can be nil, with the condition (from the entry of the function
// that holds it, conjoined with the conditions of the call sites it was reached through).
type nilAlt struct {
	kind string // "nil" (constant nil), "verify" (result of VerifyJSON), "existing" (the result's previous error), "other"
	cond fw.DNF
	pos  string
	desc string
}

// nilAlternatives enumerates where the error value v (in frame fr, used in block at) can get a
// nil from: constants, VerifyJSON results, the previous error, through phis (also loop-carried)
// and unexported helpers (whose returns are enumerated with their own conditions).
func nilAlternatives(c *fw.Ctx, v ssa.Value, fr *fw.Frame, at *ssa.BasicBlock, outer fw.DNF, depth int) []nilAlt {
	if depth > 6 {
		return []nilAlt{{kind: "other", cond: outer, desc: "too deep"}}
	}
	fn := at.Parent()
	var rows []fw.Row
	var err error
	fw.WithSubst(fr.Subst(), func() { rows, err = fw.ValueRowsLoops(fn, v, at) })
	if err != nil {
		return []nilAlt{{kind: "other", cond: outer, desc: err.Error()}}
	}
	var out []nilAlt
	for _, r := range rows {
		cond := andAll(outer, r.Cond)
		if len(cond) == 0 {
			continue
		}
		val := fw.Unwrap(r.Val)
		if o := fw.LoadOrigin(val); o != val {
			val = fw.Unwrap(o)
		}
		// known non-nil on this alternative: every term says (val == nil) is false
		sig := fw.SigIn(fr, val)
		nonNil := true
		for _, term := range cond {
			has := false
			for _, l := range term {
				if !l.Pos && l.Atom == "("+sig+" == nil)" {
					has = true
				}
			}
			if !has {
				nonNil = false
			}
		}
		if nonNil {
			continue
		}
		pos := c.P.Pos(r.Via.Instrs[0].Pos())
		// known nil on this alternative (`if err != nil { continue }; x.Error = err`)
		knownNil := len(cond) > 0
		for _, term := range cond {
			has := false
			for _, l := range term {
				if l.Pos && l.Atom == "("+sig+" == nil)" {
					has = true
				}
			}
			if !has {
				knownNil = false
			}
		}
		if _, isC := val.(*ssa.Const); !isC && knownNil {
			out = append(out, nilAlt{"nil", cond, pos, sig + " (nil on this path)"})
			continue
		}
		switch x := val.(type) {
		case *ssa.Const:
			if x.Value == nil {
				out = append(out, nilAlt{"nil", cond, pos, "constant nil"})
			}
		case *ssa.MakeInterface, *ssa.Alloc:
			// a concrete error value
		case *ssa.Parameter:
			if arg, ok := fr.ArgOf(x); ok {
				out = append(out, nilAlternatives(c, arg, fr.Parent, fr.Site.Block(), dropFrameLocal(cond), depth+1)...)
			} else {
				out = append(out, nilAlt{"other", cond, pos, "parameter " + x.Name()})
			}
		case *ssa.UnOp:
			if strings.HasSuffix(sig, ".Error") {
				out = append(out, nilAlt{"existing", cond, pos, sig})
			} else {
				out = append(out, nilAlt{"other", cond, pos, sig})
			}
		case *ssa.Call:
			name := fw.CalleeName(x)
			switch {
			case name == "gmsl.VerifyJSON":
				out = append(out, nilAlt{"verify", cond, pos, sig})
			case name == "fmt.Errorf" || name == "errors.New":
			default:
				if callee := fw.Followable(x, fr); callee != nil {
					nf := &fw.Frame{Site: x, Callee: callee, Parent: fr}
					for _, ret := range fw.Returns(callee) {
						if callee.Recover != nil && ret.Block() == callee.Recover {
							continue
						}
						ei := fw.ErrIndex(callee)
						if ei < 0 || ei >= len(ret.Results) {
							continue
						}
						out = append(out, nilAlternatives(c, ret.Results[ei], nf, ret.Block(), cond, depth+1)...)
					}
				} else {
					out = append(out, nilAlt{"other", cond, pos, sig})
				}
			}
		default:
			out = append(out, nilAlt{"other", cond, pos, sig})
		}
	}
	return out
}

// dropFrameLocal keeps a condition as it is (conditions of an entered helper are rendered with
// the call's arguments, so they remain meaningful in the caller).
func dropFrameLocal(d fw.DNF) fw.DNF { return d }

func checkUsingKeysRule(c *fw.Ctx) {
	rule := "1 accept"
	fn := mustFunc(c, rule, "(*KeyRing).checkUsingKeys")
	if fn == nil {
		return
	}
	// (the map may be the parameter itself or, inside a function literal, the captured parameter)
	keyLit := lit{[]string{"keys[", "]#1"}, true}
	validLit := lit{[]string{"(gmsl.PublicKeyLookupResult).WasValidAt("}, true}
	verifyLit := lit{[]string{"(gmsl.VerifyJSON(", " == nil)"}, true}
	n := 0
	for _, ds := range deepFieldStores(fn, "VerifyJSONResult", "Error") {
		n++
		site := fw.DNF{fw.Term{}}
		if ds.Fr != nil {
			if d, ok := fw.CondAt(ds.Fr.Parent, ds.Fr.Site.Block()); ok {
				site = d
			}
		}
		alts := nilAlternatives(c, ds.St.Val, ds.Fr, ds.St.Block(), site, 0)
		bad, unknown := 0, 0
		for _, a := range alts {
			var needs []lit
			switch a.kind {
			case "nil":
				needs = []lit{keyLit, validLit, verifyLit}
			case "verify":
				needs = []lit{keyLit, validLit}
			case "existing":
				continue
			default:
				unknown++
				c.Undecided(rule, "a verification result is marked successful only behind key present, key valid at the time, VerifyJSON nil", "a value stored into VerifyJSONResult.Error could not be classified: "+a.desc)
				continue
			}
			for _, term := range a.cond {
				for _, nl := range needs {
					if !termHas(term, nl) {
						bad++
						c.Fail(rule, "a verification result is marked successful only behind key present, key valid at the time, VerifyJSON nil", c.P.Pos(fw.InstrPos(ds.St)), fmt.Sprintf("the error stored at %s can be nil (%s, from %s) on a path that has not established %s: a request can be reported verified without a valid signature under a known, valid key", c.P.Pos(fw.InstrPos(ds.St)), a.desc, a.pos, strings.Join(nl.subs, "…")))
						break
					}
				}
				if bad > 0 {
					break
				}
			}
		}
		if bad == 0 && unknown == 0 {
			c.Ok(rule, "a verification result is marked successful only behind key present, key valid at the time, VerifyJSON nil", c.P.Pos(fw.InstrPos(ds.St)), fmt.Sprintf("%d possibly-nil alternative(s), all guarded", len(alts)))
		}
	}
	c.Min(rule+" stores to VerifyJSONResult.Error in checkUsingKeys", n, 1)
	// arguments
	for _, dc := range deepCallsTo(fn, fw.NameIs("(gmsl.PublicKeyLookupResult).WasValidAt")) {
		var s []string
		for _, a := range dc.Call.Common().Args {
			s = append(s, fw.SigIn(dc.Fr, a))
		}
		ok := len(s) == 3 && strings.Contains(s[0], "param:keys[") && strings.HasSuffix(s[1], ".AtTS") && strings.HasSuffix(s[2], ".ValidityCheckingFunc") && strings.Contains(s[1], "param:requests[")
		c.Expect(ok, rule, "validity is judged at the request's timestamp with the request's rule", c.P.Pos(dc.Call.Pos()), "", "WasValidAt("+strings.Join(s, ", ")+")")
	}
	for _, dc := range deepCallsTo(fn, fw.NameIs("gmsl.VerifyJSON")) {
		var s []string
		for _, a := range dc.Call.Common().Args {
			s = append(s, fw.SigIn(dc.Fr, a))
		}
		ok := len(s) == 4 && strings.HasSuffix(s[0], ".ServerName") && strings.Contains(s[1], "param:keyIDs[") && strings.Contains(s[2], "param:keys[") && strings.HasSuffix(s[2], ".Key") && strings.HasSuffix(s[3], ".Message")
		c.Expect(ok, rule, "the signature is verified for the request's server, the key id being tried, the looked-up key and the request's message", c.P.Pos(dc.Call.Pos()), "", "VerifyJSON("+strings.Join(s, ", ")+")")
	}
	// no other function of the key ring marks a result successful
	for _, f := range c.P.SrcFuncs() {
		if f.Pkg == nil || f.Pkg.Pkg.Path() != fw.ModPath || f.Parent() != nil {
			continue
		}
		inRegion := false
		for _, rf := range fw.RegionOf(fn, nil) {
			if rf == f {
				inRegion = true
			}
		}
		if inRegion || fw.FuncName(f) == "(gmsl.JSONVerifierSelf).VerifyJSONs" {
			continue
		}
		for _, st := range fw.FieldStores(f, "VerifyJSONResult", "Error") {
			if cst, isC := st.Val.(*ssa.Const); isC && cst.Value == nil {
				c.Fail(rule, "no other function marks a verification result successful ("+fw.FuncName(f)+")", c.P.Pos(fw.InstrPos(st)), "a nil error is stored into a VerifyJSONResult outside checkUsingKeys")
			}
		}
	}
}

// checkSelfVerifier: the pseudo-ID verifier marks a request verified only with VerifyJSON's own result.
func checkSelfVerifier(c *fw.Ctx) {
	rule := "1 accept"
	fn := c.P.Func("(JSONVerifierSelf).VerifyJSONs")
	if fn == nil {
		return
	}
	for _, ds := range deepFieldStores(fn, "VerifyJSONResult", "Error") {
		bad := ""
		for _, a := range nilAlternatives(c, ds.St.Val, ds.Fr, ds.St.Block(), fw.DNF{fw.Term{}}, 0) {
			switch a.kind {
			case "nil":
				ok := true
				for _, term := range a.cond {
					if !termHas(term, lit{[]string{"(gmsl.VerifyJSON(", " == nil)"}, true}) {
						ok = false
					}
				}
				if !ok {
					bad = a.desc + " at " + a.pos
				}
			case "other":
				c.Undecided(rule, "JSONVerifierSelf reports a request verified only on VerifyJSON's nil result", "a stored error could not be classified: "+a.desc)
			}
		}
		c.Check(bad == "", rule, "JSONVerifierSelf reports a request verified only on VerifyJSON's nil result", c.P.Pos(fw.InstrPos(ds.St)), "", "a nil error is stored without a successful VerifyJSON ("+bad+"): a required signer whose key cannot be used counts as verified")
	}
}

// checkFetchedOverwrite: keys returned by a fetcher replace what the database supplied (the
// database copy may be stale, which is why the key was requested again).
func checkFetchedOverwrite(c *fw.Ctx) {
	rule := "3 flow"
	fn := c.P.Func("(KeyRing).VerifyJSONs")
	if fn == nil {
		return
	}
	for _, di := range fw.DeepInstrs(fn, nil) {
		mu, ok := di.Instr.(*ssa.MapUpdate)
		if !ok || !strings.Contains(mu.Map.Type().String(), "PublicKeyLookupRequest]") || !strings.Contains(fw.SigIn(di.Fr, mu.Value), "KeyFetchers") {
			continue
		}
		mapSig := fw.SigIn(di.Fr, mu.Map)
		guarded := ""
		for _, f := range fw.DeepFacts(di.Fr, mu.Block()) {
			if strings.HasPrefix(strings.TrimPrefix(f, "!"), mapSig+"[") {
				guarded = f
			}
		}
		c.Check(guarded == "", rule, "a fetched key replaces the database's copy", c.P.Pos(fw.InstrPos(mu)), "", "the fetched key is stored only under "+guarded+": a stale database entry (lapsed valid_until_ts, or since expired) keeps being used although a fresh answer was obtained")
	}
}

// siteBlock: the block of the outermost-but-one call site of a deep store (for CondAt).
func siteBlock(ds deepStore) *ssa.BasicBlock {
	if ds.Fr == nil {
		return ds.St.Block()
	}
	return ds.Fr.Site.Block()
}

func checkValidityTables(c *fw.Ctx) {
	rule := "2 validity"
	if fn := mustFunc(c, rule, "(PublicKeyLookupResult).WasValidAt"); fn != nil {
		// tests of other fields of the key record are independent inputs: the rule must hold whatever they say
		ruleAtom := "dyn(param:signatureValidityCheck)(param:atTs,*&recv.ValidUntilTS)"
		ip := &interp{bools: map[string]string{"(*&recv.ExpiredTS == 0)": "notExpired", ruleAtom: "ruleOK", "(param:atTs < *&recv.ExpiredTS)": "before"}, free: func(atom string) bool {
			return strings.HasPrefix(atom, "(*&recv.") && (strings.HasSuffix(atom, " == 0)") || strings.HasSuffix(atom, " == nil)"))
		}}
		// the answer is the version's rule for a key that has not expired, and "signed before the
		// expiry" for one that has - whichever of the two the code happens to evaluate first
		compareTable(c, rule, "expired keys: at < expired_ts; otherwise the signature validity rule on valid_until_ts", fn, 0, []tvar{{"notExpired", tf}, {"ruleOK", tf}, {"before", tf}}, ip, func(a asg) string {
			if a["notExpired"] == "true" {
				return "value:" + a["ruleOK"]
			}
			return "value:" + a["before"]
		}, nil)
	}
	if fn := mustFunc(c, rule, "StrictValiditySignatureCheck"); fn != nil {
		after := "(time.Time).After((gmsl/spec.Timestamp).Time(param:atTs),phi((gmsl/spec.Timestamp).Time(param:validUntil)|(time.Time).Add(time.Now(),604800000000000)))"
		ip := &interp{bools: map[string]string{"(param:validUntil == 0)": "unset", after: "late"}}
		compareTable(c, rule, "strict rule: valid_until_ts set, capped at now + 7 days, at <= cap", fn, 0, []tvar{{"unset", tf}, {"late", tf}}, ip, func(a asg) string {
			if a["unset"] == "true" || a["late"] == "true" {
				return "value:false"
			}
			return "value:true"
		}, nil)
		// the cap replaces valid_until only when valid_until is after the cap
		ok := false
		for _, iff := range fw.Ifs(fn) {
			if fw.Sig(iff.Cond) == "(time.Time).After((gmsl/spec.Timestamp).Time(param:validUntil),(time.Time).Add(time.Now(),604800000000000))" {
				ok = true
			}
		}
		// positive evidence of a wrong cap: the constant added to now is not 7 days
		wrongCap := ""
		for _, call := range fw.CallsTo(fn, false, fw.NameIs("(time.Time).Add")) {
			if d, isC := fw.ConstInt(call.Common().Args[len(call.Common().Args)-1]); isC && d != 604800000000000 {
				wrongCap = fmt.Sprint(d)
			}
		}
		switch {
		case wrongCap != "":
			c.Fail(rule, "the 7-day cap applies when valid_until_ts is later than now + 7 days", c.P.Pos(fn.Pos()), "the cap added to now is "+wrongCap+"ns, not 7 days")
		case ok:
			c.Ok(rule, "the 7-day cap applies when valid_until_ts is later than now + 7 days", c.P.Pos(fn.Pos()), "")
		default:
			c.Undecided(rule, "the 7-day cap applies when valid_until_ts is later than now + 7 days", "no test validUntil.After(now + 168h) in the form the rule knows (the table rule above decides the behaviour when it understands the code)")
		}
	}
	if fn := mustFunc(c, rule, "NoStrictValidityCheck"); fn != nil {
		compareTable(c, rule, "lenient rule accepts", fn, 0, nil, &interp{}, func(a asg) string { return "value:true" }, nil)
	}
}

func checkVerifyJSONsFlow(c *fw.Ctx) {
	rule := "3 flow"
	fn := mustFunc(c, rule, "(KeyRing).VerifyJSONs")
	if fn == nil {
		return
	}
	reqMap := "(*gmsl.KeyRing).publicKeyRequests(&recv,param:requests,makeslice,makeslice)"
	var dbFetch, fetcherFetch, store []ssa.CallInstruction
	for _, call := range fw.Calls(fn) {
		switch fw.CalleeName(call) {
		case "(gmsl.KeyFetcher).FetchKeys":
			if strings.Contains(fw.Sig(call.Common().Value), "KeyDatabase") {
				dbFetch = append(dbFetch, call)
			} else {
				fetcherFetch = append(fetcherFetch, call)
			}
		case "(gmsl.KeyDatabase).StoreKeys":
			store = append(store, call)
		}
	}
	checkParallelSlices(c, rule, fn)
	c.Expect(len(dbFetch) == 1 && len(fetcherFetch) == 1 && len(store) == 1, rule, "one database query, one fetcher loop, one store", c.P.Pos(fn.Pos()), "", fmt.Sprintf("the flow was not recognised in VerifyJSONs itself: db=%d fetchers=%d store=%d", len(dbFetch), len(fetcherFetch), len(store)))
	if len(dbFetch) != 1 || len(fetcherFetch) != 1 || len(store) != 1 {
		return
	}
	_, bad := fw.MustPrecede(fn, func(i ssa.Instruction) bool { return i == dbFetch[0].(ssa.Instruction) }, func(i ssa.Instruction) bool { return i == fetcherFetch[0].(ssa.Instruction) })
	c.Check(len(bad) == 0, rule, "the key database is consulted before any fetcher", c.P.Pos(fetcherFetch[0].Pos()), "", "a fetcher can be called without the database having been queried")
	// (the same value: whatever builds it)
	c.Check(dbFetch[0].Common().Args[1] == fetcherFetch[0].Common().Args[1], rule, "database and fetchers are asked for the (pruned) request map", c.P.Pos(fetcherFetch[0].Pos()), "", "the fetchers are asked for "+fw.Sig(fetcherFetch[0].Common().Args[1])+", the database for "+fw.Sig(dbFetch[0].Common().Args[1]))
	reqMap = fw.Sig(dbFetch[0].Common().Args[1])
	// pruning: every delete on the request map
	nd := 0
	for _, call := range fw.CallsTo(fn, false, fw.NameIs("builtin.delete")) {
		if fw.Sig(call.Common().Args[0]) != reqMap {
			continue
		}
		nd++
		_ = condsOf
		key := fw.Sig(call.Common().Args[1])
		switch {
		case strings.Contains(key, "KeyDatabase"):
			// every way of reaching the prune has established: expired, or now < valid_until_ts
			pcs, okPC := fw.PathConds(fn)
			if !okPC {
				c.Undecided(rule, "a database key prunes its request only if it is expired or still valid now", "path condition too large")
				break
			}
			okAll := len(pcs[call.Block()]) > 0
			why := ""
			for _, term := range pcs[call.Block()] {
				okTerm := false
				for _, l := range term {
					if strings.HasSuffix(l.Atom, ".ExpiredTS == 0)") && !l.Pos {
						okTerm = true // expired
					}
					if l.Pos && strings.HasPrefix(l.Atom, "(gmsl/spec.AsTimestamp(time.Now()) < ") && strings.HasSuffix(l.Atom, ".ValidUntilTS)") {
						okTerm = true // still valid now
					}
					if !l.Pos && strings.HasSuffix(l.Atom, " < gmsl/spec.AsTimestamp(time.Now()))") && strings.Contains(l.Atom, ".ValidUntilTS") {
						// !(valid_until < now) is valid_until >= now: not the strict rule
						okTerm = false
					}
				}
				if !okTerm {
					okAll = false
					why = fw.DNF{term}.String()
				}
			}
			c.Check(okAll, rule, "a database key prunes its request only if it is expired or still valid now", c.P.Pos(call.Pos()), "", "request pruned under ["+why+"]: neither `expired_ts != 0` nor `now < valid_until_ts` is established on that path")
		case strings.Contains(key, "KeyFetchers"):
			c.Ok(rule, "a fetched key prunes its request", c.P.Pos(call.Pos()), "")
		default:
			c.Fail(rule, "requests are pruned only by database or fetcher results", c.P.Pos(call.Pos()), "delete of "+key)
		}
	}
	c.Min(rule+" prune sites", nd, 1)
	// StoreKeys on every path from the fetcher loop to a success return after it
	succ := fw.ErrNilSuccess(fn, fw.ErrIndex(fn), nil)
	lateOnly := func(r *ssa.Return, reach map[*ssa.BasicBlock]bool, removed map[fw.Edge]bool) []fw.SuccessPath {
		if !reaches(fetcherFetch[0], callOfReturn(r)) {
			return nil
		}
		return succ(r, reach, removed)
	}
	_ = lateOnly
	for _, r := range fw.Returns(fn) {
		if len(succ(r, fw.Reachable(fn, nil), nil)) == 0 {
			continue
		}
		// success return: if reachable from the fetcher loop header, it must be preceded by StoreKeys
		hdr := fetcherFetch[0].Block()
		if !fw.ReachableFrom(hdr, nil)[r.Block()] {
			continue
		}
		okStore := !fw.PathAvoiding(hdr, []ssa.Instruction{store[0].(ssa.Instruction)}, r)
		c.Check(okStore, rule, "fetched keys are stored before VerifyJSONs returns", c.P.Pos(fw.InstrPos(r)), "", "a success return after the fetchers is reachable without StoreKeys")
	}
	c.CheckGate(rule, fn, "(KeyRing).VerifyJSONs", fw.GuardCallErrNil("database FetchKeys", func(n string) bool { return n == "(gmsl.KeyFetcher).FetchKeys" }), func(r *ssa.Return, reach map[*ssa.BasicBlock]bool, removed map[fw.Edge]bool) []fw.SuccessPath {
		// the early return for "nothing to verify" precedes the query
		var out []fw.SuccessPath
		for _, sp := range succ(r, reach, removed) {
			if strings.Contains(condsOf(sp.Ret.Block()), "(builtin.len("+fw.Sig(dbFetch[0].Common().Args[1])+") == 0)") {
				continue
			}
			out = append(out, sp)
		}
		return out
	})
	// checkUsingKeys is applied after fetching with the merged keys
	cu := fw.CallsTo(fn, false, fw.NameIs("(*gmsl.KeyRing).checkUsingKeys"))
	if len(cu) == 0 {
		c.Undecided(rule, "results are decided from the merged keys after fetching", "no call of (*KeyRing).checkUsingKeys in VerifyJSONs itself")
	} else {
		last := cu[len(cu)-1]
		c.Check(reaches(fetcherFetch[0], last), rule, "results are decided from the merged keys after fetching", c.P.Pos(fn.Pos()), "", fmt.Sprintf("none of the %d checkUsingKeys sites follows the fetcher loop: keys obtained from fetchers never reach a verdict", len(cu)))
	}
	// one result per request, returned as such
	okLen, otherLen := false, ""
	for _, di := range fw.DeepInstrs(fn, nil) {
		if ms, ok := di.Instr.(*ssa.MakeSlice); ok && strings.Contains(ms.Type().String(), "VerifyJSONResult") {
			if sl := fw.SigIn(di.Fr, ms.Len); sl == "builtin.len(param:requests)" {
				okLen = true
			} else {
				otherLen = sl
			}
		}
	}
	switch {
	case okLen:
		c.Ok(rule, "one result per request", c.P.Pos(fn.Pos()), "")
	case otherLen != "" && !strings.Contains(otherLen, "requests") && !strings.Contains(otherLen, "param:") && !strings.Contains(otherLen, "free:"):
		c.Fail(rule, "one result per request", c.P.Pos(fn.Pos()), "results is make([]VerifyJSONResult, "+otherLen+"), not one per request")
	default:
		c.Undecided(rule, "one result per request", "no make([]VerifyJSONResult, len(requests)) was recognised in VerifyJSONs and its helpers")
	}
	// every request starts failed: VerifyJSONs itself (outside checkUsingKeys) stores no error that can be nil
	nonNil := 0
	stopCheck := func(f *ssa.Function) bool { return strings.HasSuffix(fw.FuncName(f), ").checkUsingKeys") }
	for _, di := range fw.DeepInstrs(fn, stopCheck) {
		st, isSt := di.Instr.(*ssa.Store)
		if !isSt {
			continue
		}
		fa, isFA := st.Addr.(*ssa.FieldAddr)
		if !isFA {
			continue
		}
		sty := derefStructOf(fa.X.Type())
		if sty == nil || sty.Field(fa.Field).Name() != "Error" || !strings.HasSuffix(fw.Short(strings.TrimPrefix(fa.X.Type().String(), "*")), "VerifyJSONResult") {
			continue
		}
		nonNil++
		bad := ""
		for _, a := range nilAlternatives(c, st.Val, di.Fr, st.Block(), fw.DNF{fw.Term{}}, 0) {
			kind := a.kind
			if kind == "nil" && len(a.cond) > 0 {
				// nil stored behind VerifyJSON == nil: an accept site (in a routine rule 1 is not
				// anchored on), not a result marked successful although no key was tried
				all := true
				for _, term := range a.cond {
					if !termHas(term, lit{[]string{"(gmsl.VerifyJSON(", " == nil)"}, true}) {
						all = false
					}
				}
				if all {
					kind = "verify"
				}
			}
			switch kind {
			case "nil":
				bad = a.desc + " at " + a.pos
			case "verify":
				// the verdict of VerifyJSON stored by a routine that is not the one rule 1 is anchored
				// on (renamed or moved): an accept site whose guards were not examined
				c.Undecided(rule, "VerifyJSONs itself never marks a result successful", "a VerifyJSON verdict is stored outside (*KeyRing).checkUsingKeys at "+a.pos+": the guards of that accept site were not examined")
			case "other":
				c.Undecided(rule, "VerifyJSONs itself never marks a result successful", "a value stored into a result's Error could not be classified: "+a.desc)
			}
		}
		c.Check(bad == "", rule, "VerifyJSONs itself never marks a result successful", c.P.Pos(fw.InstrPos(st)), "", "a possibly-nil error is stored ("+bad+"): a request is reported verified although no key was tried")
	}
	c.Min(rule+" initial failure stores", nonNil, 1)
	if pk := mustFunc(c, rule, "(*KeyRing).publicKeyRequests"); pk != nil {
		ok := false
		for _, iff := range fw.Ifs(pk) {
			if s := fw.Sig(iff.Cond); strings.Contains(s, " <= ") && strings.HasSuffix(s, "].AtTS)") {
				ok = true
			}
		}
		c.Expect(ok, rule, "a key is requested for the latest timestamp it is needed at", c.P.Pos(pk.Pos()), "", "no max over AtTS was recognised")
	}
}

func callOfReturn(r *ssa.Return) ssa.CallInstruction { return nil }

func checkFetchers(c *fw.Ctx) {
	rule := "4 responses"
	mapper := fw.NameIs("gmsl.mapServerKeysToPublicKeyLookupResult")
	n := 0
	for _, spec := range []string{"(*PerspectiveKeyFetcher).FetchKeys", "(*DirectKeyFetcher).fetchKeysForServer", "(*DirectKeyFetcher).fetchNotaryKeysForServer"} {
		fn := mustFunc(c, rule, spec)
		if fn == nil {
			continue
		}
		for _, call := range fw.CallsTo(fn, false, mapper) {
			n++
			conds := condsOf(call.Block())
			ok := strings.Contains(conds, "gmsl.CheckKeys(") && strings.Contains(conds, ".AllChecksOK") && !strings.Contains(conds, "!*&gmsl.CheckKeys(") && !strings.Contains(conds, "!gmsl.CheckKeys(")
			c.Check(ok, rule, spec+": keys are accepted only if CheckKeys(...).AllChecksOK", c.P.Pos(call.Pos()), "", "the key response is mapped into results under ["+conds+"]")
			// CheckKeys is given the expected server name and the same response
			for _, ck := range fw.CallsTo(fn, false, fw.NameIs("gmsl.CheckKeys")) {
				s := argSigs(ck)
				mapped := fw.Sig(call.Common().Args[0])
				c.Check(strings.TrimPrefix(s[2], "*&") == strings.TrimPrefix(mapped, "*&") || strings.Contains(mapped, strings.TrimPrefix(s[2], "*&")), rule, spec+": the checked response is the one that is accepted", c.P.Pos(ck.Pos()), "", "CheckKeys on "+s[2]+", accepted "+mapped)
				// 5. clock
				okNow := strings.Contains(s[1], "time.Now()")
				c.Check(okNow, "5 clock", spec+": CheckKeys is given the current time", c.P.Pos(ck.Pos()), "", "the `now` argument is "+s[1]+": the 'valid_until_ts is in the future' check is vacuous and stale key responses are accepted")
			}
		}
	}
	c.Min(rule+" accept sites", n, 1)
	// a server asked directly for its own keys is checked against the name it was asked under, not
	// against the name its response claims (a response naming another server would check itself)
	if fn := c.P.Func("(*DirectKeyFetcher).fetchKeysForServer"); fn != nil {
		for _, dc := range deepCallsTo(fn, fw.NameIs("gmsl.CheckKeys")) {
			args := dc.Call.Common().Args
			a0, a2 := fw.SigIn(dc.Fr, args[0]), strings.TrimPrefix(fw.SigIn(dc.Fr, args[2]), "*&")
			construct := "fetchKeysForServer: the response is checked against the server name that was asked"
			switch {
			case isParamDeep(args[0], dc.Fr, fn, 2):
				c.Ok(rule, construct, c.P.Pos(dc.Call.Pos()), a0)
			case a2 != "" && strings.Contains(a0, a2):
				c.Fail(rule, construct, c.P.Pos(dc.Call.Pos()), "CheckKeys compares the response's server name with "+a0+", which is taken from the response itself: any self-signed response passes, and its keys are filed under the name it claims")
			default:
				c.Undecided(rule, construct, "expected server name is "+a0)
			}
		}
	}
	// perspective: notary signature verified with a configured key, decided per response
	if fn := c.P.Func("(*PerspectiveKeyFetcher).FetchKeys"); fn != nil {
		for _, call := range fw.CallsTo(fn, false, mapper) {
			h, _ := fw.LoopOf(call.Block())
			if h == nil {
				c.Undecided(rule, "notary responses are processed in a loop", "the acceptance of a response is not inside a loop of FetchKeys itself (a helper per response)")
				continue
			}
			// no boolean state may be carried across iterations of the response loop
			for _, ins := range h.Instrs {
				if phi, ok := ins.(*ssa.Phi); ok && strings.Contains(phi.Type().String(), "bool") {
					c.Fail(rule, "the notary-signature verdict is decided per response", c.P.Pos(fw.InstrPos(phi)), "a boolean ("+phi.Comment+") is carried from one notary response to the next: once one response is counter-signed, later responses are accepted without a notary signature")
				}
			}
			c.Ok(rule, "the notary-signature verdict is decided per response", c.P.Pos(call.Pos()), "no boolean phi at the response loop header")
			// within one iteration the accept site is reached only through the edge on which
			// VerifyJSON under the notary's name returned nil (directly or in a helper)
			construct := "a notary response is accepted only past a verified notary signature"
			g := fw.GuardCallErrNil("VerifyJSON (notary)", fw.NameIs("gmsl.VerifyJSON"))
			pass, sites := fw.GatePassEdges(fn, g)
			switch {
			case sites == 0:
				c.Undecided(rule, construct, "no test of the notary signature was recognised in FetchKeys")
			case fw.ReachableWithin(h, call.(ssa.Instruction), pass):
				c.Fail(rule, construct, c.P.Pos(call.Pos()), "within one iteration of the response loop the keys can be accepted on a path that never passes VerifyJSON == nil under the notary's name: such a response is vouched for by nobody but itself")
			default:
				c.Ok(rule, construct, c.P.Pos(call.Pos()), fmt.Sprintf("%d guard site(s)", sites))
			}
		}
		vj := fw.CallsTo(fn, false, fw.NameIs("gmsl.VerifyJSON"))
		okV := len(vj) == 1
		if okV {
			s := argSigs(vj[0])
			okV = strings.Contains(s[0], "recv.PerspectiveServerName") && strings.Contains(s[2], "recv.PerspectiveServerKeys[") && strings.HasSuffix(s[3], ".Raw")
		}
		c.Check(okV, rule, "notary responses are verified against a configured perspective key over the raw response", c.P.Pos(fn.Pos()), "", "VerifyJSON arguments differ")
		// the flag that gates acceptance is set true only after VerifyJSON returned nil
		for _, b := range fn.Blocks {
			for _, ins := range b.Instrs {
				if phi, ok := ins.(*ssa.Phi); ok && strings.Contains(phi.Type().String(), "bool") {
					for i, e := range phi.Edges {
						if cst, isC := e.(*ssa.Const); isC && cst.Value != nil && cst.Value.String() == "true" {
							pred := phi.Block().Preds[i]
							var all []string
							for _, f := range fw.DomConds(pred) {
								all = append(all, f.String())
							}
							full := strings.Join(all, " && ")
							okT := strings.Contains(full, "gmsl.VerifyJSON(") && !strings.Contains(full, "(gmsl.VerifyJSON(") || strings.Contains(full, "!(gmsl.VerifyJSON(") && strings.Contains(full, "!= nil)")
							c.Check(okT, rule, "the notary-signature verdict becomes true only after VerifyJSON succeeded", c.P.Pos(fw.InstrPos(phi)), "", "verdict set true under ["+full+"]")
						}
					}
				}
			}
		}
	}
}

func checkCheckKeys(c *fw.Ctx) {
	rule := "6 CheckKeys"
	fn := mustFunc(c, rule, "CheckKeys")
	if fn == nil {
		return
	}
	want := map[string]string{
		"MatchingServerName": "(param:serverName == *&param:keys.ServerKeyFields.ServerName)",
		"FutureValidUntilTS": "(time.Time).After((gmsl/spec.Timestamp).Time(*&param:keys.ServerKeyFields.ValidUntilTS),param:now)",
	}
	got := map[string]string{}
	for _, b := range fn.Blocks {
		for _, ins := range b.Instrs {
			if st, ok := ins.(*ssa.Store); ok {
				if fa, ok := st.Addr.(*ssa.FieldAddr); ok {
					if s := derefStructOf(fa.X.Type()); s != nil {
						got[s.Field(fa.Field).Name()] = fw.Sig(st.Val)
					}
				}
			}
		}
	}
	for _, k := range fw.SortedKeys(want) {
		switch {
		case got[k] == want[k]:
			c.Ok(rule, "CheckKeys."+k, c.P.Pos(fn.Pos()), got[k])
		case k == "FutureValidUntilTS" && (strings.HasPrefix(got[k], "(time.Time).After(param:now,") || strings.HasPrefix(got[k], "(time.Time).Before((gmsl/spec.Timestamp).Time(")):
			c.Fail(rule, "CheckKeys."+k, c.P.Pos(fn.Pos()), k+" is computed as "+got[k]+": the comparison is reversed (true for responses whose validity has ended)")
		default:
			c.Undecided(rule, "CheckKeys."+k, k+" is computed as "+got[k]+", a form the rule does not know")
		}
	}
	// AllChecksOK: every assignment that can make it true requires either the verdict so far
	// (a load of AllChecksOK) or the name match and the future validity; and some assignment
	// requires the presence of an ed25519 key. (CheckKeys and its helpers are one region.)
	{
		construct := "AllChecksOK is true only with name match, future validity, an ed25519 key and valid self-signatures"
		nst, withKey, undec := 0, 0, 0
		for _, ds := range deepFieldStores(fn, "KeyChecks", "AllChecksOK") {
			nst++
			d, err := trueDNF(ds.St.Parent(), ds.St.Val, ds.St.Block())
			if err != nil {
				undec++
				c.Undecided(rule, construct, err.Error())
				continue
			}
			missing, key := "", len(d) > 0
			for _, term := range d {
				prev := termHas(term, lit{[]string{".AllChecksOK"}, true})
				name := termHas(term, lit{[]string{".MatchingServerName"}, true}) || termHas(term, lit{[]string{"param:serverName == ", ".ServerName"}, true})
				future := termHas(term, lit{[]string{".FutureValidUntilTS"}, true}) || termHas(term, lit{[]string{".After(", ".ValidUntilTS"}, true})
				if !prev && !name {
					missing = "the server-name match"
				}
				if !prev && !future {
					missing = "the future validity of the response"
				}
				if !termHas(term, lit{[]string{"HasEd25519Key"}, true}) {
					key = false
				}
			}
			if key {
				withKey++
			}
			c.Check(missing == "", rule, construct, c.P.Pos(fw.InstrPos(ds.St)), "", "AllChecksOK can become true without "+missing+": it is assigned "+fw.Sig(ds.St.Val)+" under ["+condsOf(ds.St.Block())+"]")
		}
		switch {
		case nst == 0:
			c.Undecided(rule, construct, "no store to KeyChecks.AllChecksOK found in the region of CheckKeys")
		case withKey == 0 && undec == 0:
			// positive evidence needs the presence flag to be what the rule thinks it is: the
			// assignments must be written in terms of the KeyChecks fields
			usesFields := false
			for _, ds := range deepFieldStores(fn, "KeyChecks", "AllChecksOK") {
				if s := fw.Sig(ds.St.Val); strings.Contains(s, ".MatchingServerName") || strings.Contains(s, ".FutureValidUntilTS") || strings.Contains(s, ".AllChecksOK") {
					usesFields = true
				}
			}
			if usesFields {
				c.Fail(rule, construct, c.P.Pos(fn.Pos()), "no assignment of AllChecksOK requires HasEd25519Key: a response without any ed25519 key passes all checks")
			} else {
				c.Undecided(rule, construct, "AllChecksOK is assigned from values that are not the KeyChecks fields (a report object): whether the presence of an ed25519 key is among them was not traced")
			}
		}
	}
	if v := mustFunc(c, rule, "checkVerifyKeys"); v != nil {
		vj := fw.CallsTo(v, false, fw.NameIs("gmsl.VerifyJSON"))
		okV := len(vj) == 1
		if okV {
			s := argSigs(vj[0])
			okV = strings.Contains(s[0], "param:keys.ServerKeyFields.ServerName") && strings.HasSuffix(s[3], "param:keys.Raw") && strings.Contains(s[1], "next(range(")
		}
		c.Check(okV, rule, "each ed25519 key must have signed the raw response under the response's server name", c.P.Pos(v.Pos()), "", "self-signature check arguments differ")
		checkRejectedKeyClearsFlag(c, rule, v)
	}
}

// checkRejectedKeyClearsFlag: inside the loop over the verify keys, every path from the point at
// which an ed25519 key is noted (HasEd25519Key = true) to the end of the iteration either puts
// the key into the returned map of accepted keys or clears the flag that AllEd25519ChecksOK
// points to. A path that does neither lets a malformed or wrongly signed key pass the checks.
func checkRejectedKeyClearsFlag(c *fw.Ctx, rule string, v *ssa.Function) {
	construct := "an ed25519 key that is not accepted clears the all-checks flag"
	var start *ssa.Store
	var flag *ssa.Alloc
	for _, b := range v.Blocks {
		for _, ins := range b.Instrs {
			st, ok := ins.(*ssa.Store)
			if !ok {
				continue
			}
			fa, ok := st.Addr.(*ssa.FieldAddr)
			if !ok {
				continue
			}
			sty := derefStructOf(fa.X.Type())
			if sty == nil {
				continue
			}
			switch sty.Field(fa.Field).Name() {
			case "HasEd25519Key":
				if cst, isC := st.Val.(*ssa.Const); isC && cst.Value != nil && cst.Value.String() == "true" && start == nil {
					start = st
				}
			case "AllEd25519ChecksOK":
				if a, isA := st.Val.(*ssa.Alloc); isA {
					flag = a
				}
			}
		}
	}
	var accepted ssa.Value
	for _, r := range fw.Returns(v) {
		if len(r.Results) > 0 {
			if mk, isMk := r.Results[0].(*ssa.MakeMap); isMk {
				accepted = mk
			}
		}
	}
	if start == nil || flag == nil || accepted == nil {
		c.Undecided(rule, construct, "the note of an ed25519 key, the flag behind AllEd25519ChecksOK or the map of accepted keys was not recognised in checkVerifyKeys")
		return
	}
	header, _ := fw.LoopOf(start.Block())
	if header == nil {
		c.Undecided(rule, construct, "the ed25519 key is not noted inside a loop")
		return
	}
	good := map[*ssa.BasicBlock]bool{}
	sameBlockAfter := false
	for _, b := range v.Blocks {
		seenStart := false
		for _, ins := range b.Instrs {
			if ins == ssa.Instruction(start) {
				seenStart = true
			}
			isGood := false
			switch x := ins.(type) {
			case *ssa.Store:
				if cst, isC := x.Val.(*ssa.Const); isC && x.Addr == ssa.Value(flag) && cst.Value != nil && cst.Value.String() == "false" {
					isGood = true
				}
			case *ssa.MapUpdate:
				isGood = x.Map == accepted
			}
			if isGood {
				good[b] = true
				if b == start.Block() && seenStart {
					sameBlockAfter = true
				}
			}
		}
	}
	if sameBlockAfter {
		c.Ok(rule, construct, c.P.Pos(fw.InstrPos(start)), "")
		return
	}
	removed := map[fw.Edge]bool{}
	for b := range good {
		if b == start.Block() {
			continue
		}
		for _, p := range b.Preds {
			removed[fw.Edge{From: p, To: b}] = true
		}
	}
	reach := fw.ReachableFrom(start.Block(), removed)
	escapes := false
	for _, s := range start.Block().Succs {
		if removed[fw.Edge{From: start.Block(), To: s}] {
			continue
		}
		if s == header || fw.ReachableFrom(s, removed)[header] {
			escapes = true
		}
	}
	_ = reach
	c.Check(!escapes, rule, construct, c.P.Pos(fw.InstrPos(start)), "", "an iteration can end after HasEd25519Key was set without the key being accepted or the flag being cleared: a key of the wrong length or with a bad self-signature passes AllChecksOK")
}

// checkParallelSlices: the results of VerifyJSONs are index-parallel to its requests. Every
// helper in its region that receives both a request slice and the result slice writes
// results[i] for requests[i]; so when the result slice was made with len(X), the request
// slice handed over with it must be X itself, not a filtered or re-built list.
func checkParallelSlices(c *fw.Ctx, rule string, fn *ssa.Function) {
	construct := "helpers receive the result slice together with the request list it was sized from"
	resolve := func(v ssa.Value, fr *fw.Frame) (ssa.Value, *fw.Frame) {
		for i := 0; i < 8; i++ {
			switch x := v.(type) {
			case *ssa.Parameter:
				if a, ok := fr.ArgOf(x); ok {
					v, fr = a, fr.Parent
					continue
				}
			case *ssa.Slice:
				if x.Low == nil && x.High == nil {
					v = x.X
					continue
				}
			case *ssa.ChangeType:
				v = x.X
				continue
			}
			break
		}
		return v, fr
	}
	isSliceOf := func(t types.Type, elem string) bool {
		sl, ok := t.Underlying().(*types.Slice)
		return ok && strings.HasSuffix(fw.Short(sl.Elem().String()), elem)
	}
	n := 0
	for _, dc := range fw.AllDeepCalls(fn, nil) {
		callee := dc.Call.Common().StaticCallee()
		if callee == nil || callee.Pkg == nil || !strings.HasPrefix(callee.Pkg.Pkg.Path(), fw.ModPath) {
			continue
		}
		var req, res ssa.Value
		args := dc.Call.Common().Args
		for _, a := range args {
			switch {
			case isSliceOf(a.Type(), "VerifyJSONRequest"):
				req = a
			case isSliceOf(a.Type(), "VerifyJSONResult"):
				res = a
			}
		}
		if req == nil || res == nil {
			continue
		}
		rv, rfr := resolve(res, dc.Fr)
		mk, ok := rv.(*ssa.MakeSlice)
		if !ok {
			continue
		}
		ln, ok := mk.Len.(*ssa.Call)
		if !ok || fw.CalleeName(ln) != "builtin.len" {
			continue
		}
		sized, _ := resolve(ln.Call.Args[0], rfr)
		qv, _ := resolve(req, dc.Fr)
		n++
		pos := c.P.Pos(dc.Call.Pos())
		switch {
		case qv == sized:
			c.Ok(rule, construct, pos, fw.FuncName(callee)+" gets "+fw.Sig(sized)+" with the results made for it")
		default:
			if _, isParam := qv.(*ssa.Parameter); isParam {
				c.Undecided(rule, construct, "the request list given to "+fw.FuncName(callee)+" could not be traced")
				continue
			}
			c.Fail(rule, construct, pos, fmt.Sprintf("%s is given the request list %s together with results made with len(%s): results[i] no longer belongs to requests[i], verdicts land in the wrong slots", fw.FuncName(callee), fw.SigIn(dc.Fr, req), fw.Sig(sized)))
		}
	}
	if n == 0 {
		c.Undecided(rule, construct, "no helper taking both slices was found in the region of VerifyJSONs")
	}
}
