package props

import (
	"fmt"
	"strings"

	"gmslverif/fw"

	"golang.org/x/tools/go/ssa"
)

func init() { register("C12", checkC12) }

func checkC12(c *fw.Ctx) {
	c.Explanation = "C12 (static): in checkUsingKeys the only store of a nil Error is dominated by: key present for (server, key id), WasValidAt(request time, request's validity rule) true, VerifyJSON(server, key id, that key, message) nil; VerifyJSONs first marks every request failed, queries the database before any fetcher, prunes a request only for expired keys or keys still valid now, hands fetchers the pruned request map, stores what was fetched on every path to the final return and returns one result per request; the validity rules are extracted as decision tables (expired => at < expired_ts, else the version's rule; strict rule caps at 7 days); key responses are mapped into results only behind CheckKeys(...).AllChecksOK (and, via a notary, a verified notary signature decided per response); CheckKeys conjoins name match, future validity, presence of an ed25519 key and valid self-signatures; the clock passed to CheckKeys is required to be the current time."
	c.NotDecidedClause("liveness ('succeeds whenever the database or a fetcher supplies such a key') and behaviour under fetcher fault sequences")
	c.NotDecidedClause("cryptographic validity (C02)")
	checkUsingKeysRule(c)
	checkValidityTables(c)
	checkVerifyJSONsFlow(c)
	checkFetchers(c)
	checkCheckKeys(c)
}

func checkUsingKeysRule(c *fw.Ctx) {
	rule := "1 accept"
	fn := mustFunc(c, rule, "(*KeyRing).checkUsingKeys")
	if fn == nil {
		return
	}
	n := 0
	for _, st := range fw.FieldStores(fn, "VerifyJSONResult", "Error") {
		cst, isC := st.Val.(*ssa.Const)
		if !isC || cst.Value != nil {
			continue
		}
		n++
		conds := condsOf(st.Block())
		var all []string
		for _, f := range fw.DomConds(st.Block()) {
			all = append(all, f.String())
		}
		full := strings.Join(all, " && ")
		okKey := strings.Contains(conds, "param:keys[*local:*gmsl.PublicKeyLookupRequest]#1") && !strings.Contains(conds, "!param:keys[")
		okValid := strings.Contains(conds, "(gmsl.PublicKeyLookupResult).WasValidAt(") && !strings.Contains(conds, "!(gmsl.PublicKeyLookupResult).WasValidAt(")
		okVerify := strings.Contains(full, "gmsl.VerifyJSON(") && (strings.Contains(full, "!(gmsl.VerifyJSON(") && strings.Contains(full, "!= nil)") || strings.Contains(full, "== nil)"))
		c.Check(okKey, rule, "success requires a key for (server, key id)", c.P.Pos(fw.InstrPos(st)), "", "the nil store is not guarded by the presence of the looked-up key")
		c.Check(okValid, rule, "success requires the key to have been valid at the requested time", c.P.Pos(fw.InstrPos(st)), "", "the nil store is not guarded by WasValidAt")
		c.Check(okVerify, rule, "success requires VerifyJSON to succeed", c.P.Pos(fw.InstrPos(st)), "", "the nil store is not guarded by a nil VerifyJSON result")
	}
	c.Check(n == 1, rule, "checkUsingKeys has exactly one success store", c.P.Pos(fn.Pos()), "", fmt.Sprintf("%d nil stores", n))
	// arguments
	for _, call := range fw.CallsTo(fn, false, fw.NameIs("(gmsl.PublicKeyLookupResult).WasValidAt")) {
		s := argSigs(call)
		ok := len(s) == 3 && strings.Contains(s[0], "param:keys[") && strings.HasSuffix(s[1], "].AtTS") && strings.HasSuffix(s[2], "].ValidityCheckingFunc") && strings.Contains(s[1], "param:requests[")
		c.Check(ok, rule, "validity is judged at the request's timestamp with the request's rule", c.P.Pos(call.Pos()), "", "WasValidAt("+strings.Join(s, ", ")+")")
	}
	for _, call := range fw.CallsTo(fn, false, fw.NameIs("gmsl.VerifyJSON")) {
		s := argSigs(call)
		ok := len(s) == 4 && strings.HasSuffix(s[0], "].ServerName") && strings.Contains(s[1], "param:keyIDs[") && strings.Contains(s[2], "param:keys[") && strings.HasSuffix(s[2], ".Key") && strings.HasSuffix(s[3], "].Message")
		c.Check(ok, rule, "the signature is verified for the request's server, the key id being tried, the looked-up key and the request's message", c.P.Pos(call.Pos()), "", "VerifyJSON("+strings.Join(s, ", ")+")")
	}
	// the key is looked up under {request server, key id}
	okS, okK := false, false
	for _, st := range fw.FieldStores(fn, "PublicKeyLookupRequest", "ServerName") {
		okS = okS || strings.HasSuffix(fw.Sig(st.Val), "].ServerName")
	}
	for _, st := range fw.FieldStores(fn, "PublicKeyLookupRequest", "KeyID") {
		okK = okK || strings.Contains(fw.Sig(st.Val), "param:keyIDs[")
	}
	c.Check(okS && okK, rule, "keys are looked up by (request server, key id)", c.P.Pos(fn.Pos()), "", "lookup key is not {requests[i].ServerName, keyID}")
	// only nil store in the package's key ring code
	total := 0
	for _, f := range c.P.SrcFuncs() {
		if f.Pkg == nil || f.Pkg.Pkg.Path() != fw.ModPath {
			continue
		}
		for _, st := range fw.FieldStores(f, "VerifyJSONResult", "Error") {
			if cst, isC := st.Val.(*ssa.Const); isC && cst.Value == nil && f.Parent() == nil {
				total++
			}
		}
	}
	c.Check(total == 1, rule, "no other function marks a verification result successful", "", "", fmt.Sprintf("%d nil stores to VerifyJSONResult.Error in the package", total))
}

func checkValidityTables(c *fw.Ctx) {
	rule := "2 validity"
	if fn := mustFunc(c, rule, "(PublicKeyLookupResult).WasValidAt"); fn != nil {
		ip := &interp{bools: map[string]string{"(*&recv.ExpiredTS == 0)": "notExpired"}}
		compareTable(c, rule, "expired keys: at < expired_ts; otherwise the signature validity rule on valid_until_ts", fn, 0, []tvar{{"notExpired", tf}}, ip, func(a asg) string {
			if a["notExpired"] == "true" {
				return "value:dyn(param:signatureValidityCheck)(param:atTs,*&recv.ValidUntilTS)"
			}
			return "value:(param:atTs < *&recv.ExpiredTS)"
		}, nil)
	}
	if fn := mustFunc(c, rule, "StrictValiditySignatureCheck"); fn != nil {
		after := "(time.Time).After((gmsl/spec.Timestamp).Time(param:atTs),phi((gmsl/spec.Timestamp).Time(param:validUntil)|(time.Time).Add(time.Now(),604800000000000)))"
		ip := &interp{bools: map[string]string{"(param:validUntil == 0)": "unset", after: "late"}}
		compareTable(c, rule, "strict rule: valid_until_ts set, capped at now + 7 days, at <= cap", fn, 0, []tvar{{"unset", tf}, {"late", tf}}, ip, func(a asg) string {
			if a["unset"] == "true" || a["late"] == "true" {
				return "value:false"
			}
			return "value:true"
		}, nil)
		// the cap replaces valid_until only when valid_until is after the cap
		ok := false
		for _, iff := range fw.Ifs(fn) {
			if fw.Sig(iff.Cond) == "(time.Time).After((gmsl/spec.Timestamp).Time(param:validUntil),(time.Time).Add(time.Now(),604800000000000))" {
				ok = true
			}
		}
		c.Check(ok, rule, "the 7-day cap applies when valid_until_ts is later than now + 7 days", c.P.Pos(fn.Pos()), "", "no test validUntil.After(now + 168h)")
	}
	if fn := mustFunc(c, rule, "NoStrictValidityCheck"); fn != nil {
		compareTable(c, rule, "lenient rule accepts", fn, 0, nil, &interp{}, func(a asg) string { return "value:true" }, nil)
	}
}

func checkVerifyJSONsFlow(c *fw.Ctx) {
	rule := "3 flow"
	fn := mustFunc(c, rule, "(KeyRing).VerifyJSONs")
	if fn == nil {
		return
	}
	reqMap := "(*gmsl.KeyRing).publicKeyRequests(&recv,param:requests,makeslice,makeslice)"
	var dbFetch, fetcherFetch, store []ssa.CallInstruction
	for _, call := range fw.Calls(fn) {
		switch fw.CalleeName(call) {
		case "(gmsl.KeyFetcher).FetchKeys":
			if strings.Contains(fw.Sig(call.Common().Value), "KeyDatabase") {
				dbFetch = append(dbFetch, call)
			} else {
				fetcherFetch = append(fetcherFetch, call)
			}
		case "(gmsl.KeyDatabase).StoreKeys":
			store = append(store, call)
		}
	}
	c.Check(len(dbFetch) == 1 && len(fetcherFetch) == 1 && len(store) == 1, rule, "one database query, one fetcher loop, one store", c.P.Pos(fn.Pos()), "", fmt.Sprintf("db=%d fetchers=%d store=%d", len(dbFetch), len(fetcherFetch), len(store)))
	if len(dbFetch) != 1 || len(fetcherFetch) != 1 || len(store) != 1 {
		return
	}
	_, bad := fw.MustPrecede(fn, func(i ssa.Instruction) bool { return i == dbFetch[0].(ssa.Instruction) }, func(i ssa.Instruction) bool { return i == fetcherFetch[0].(ssa.Instruction) })
	c.Check(len(bad) == 0, rule, "the key database is consulted before any fetcher", c.P.Pos(fetcherFetch[0].Pos()), "", "a fetcher can be called without the database having been queried")
	c.Check(fw.Sig(dbFetch[0].Common().Args[1]) == reqMap && fw.Sig(fetcherFetch[0].Common().Args[1]) == reqMap, rule, "database and fetchers are asked for the (pruned) request map", c.P.Pos(fetcherFetch[0].Pos()), "", "fetcher argument: "+fw.Sig(fetcherFetch[0].Common().Args[1]))
	// pruning: every delete on the request map
	nd := 0
	for _, call := range fw.CallsTo(fn, false, fw.NameIs("builtin.delete")) {
		if fw.Sig(call.Common().Args[0]) != reqMap {
			continue
		}
		nd++
		_ = condsOf
		key := fw.Sig(call.Common().Args[1])
		switch {
		case strings.Contains(key, "KeyDatabase"):
			// every way of reaching the prune has established: expired, or now < valid_until_ts
			pcs, okPC := fw.PathConds(fn)
			if !okPC {
				c.Undecided(rule, "a database key prunes its request only if it is expired or still valid now", "path condition too large")
				break
			}
			okAll := len(pcs[call.Block()]) > 0
			why := ""
			for _, term := range pcs[call.Block()] {
				okTerm := false
				for _, l := range term {
					if strings.HasSuffix(l.Atom, ".ExpiredTS == 0)") && !l.Pos {
						okTerm = true // expired
					}
					if l.Pos && strings.HasPrefix(l.Atom, "(gmsl/spec.AsTimestamp(time.Now()) < ") && strings.HasSuffix(l.Atom, ".ValidUntilTS)") {
						okTerm = true // still valid now
					}
					if !l.Pos && strings.HasSuffix(l.Atom, " < gmsl/spec.AsTimestamp(time.Now()))") && strings.Contains(l.Atom, ".ValidUntilTS") {
						// !(valid_until < now) is valid_until >= now: not the strict rule
						okTerm = false
					}
				}
				if !okTerm {
					okAll = false
					why = fw.DNF{term}.String()
				}
			}
			c.Check(okAll, rule, "a database key prunes its request only if it is expired or still valid now", c.P.Pos(call.Pos()), "", "request pruned under ["+why+"]: neither `expired_ts != 0` nor `now < valid_until_ts` is established on that path")
		case strings.Contains(key, "KeyFetchers"):
			c.Ok(rule, "a fetched key prunes its request", c.P.Pos(call.Pos()), "")
		default:
			c.Fail(rule, "requests are pruned only by database or fetcher results", c.P.Pos(call.Pos()), "delete of "+key)
		}
	}
	c.Min(rule+" prune sites", nd, 1)
	// StoreKeys on every path from the fetcher loop to a success return after it
	succ := fw.ErrNilSuccess(fn, fw.ErrIndex(fn), nil)
	lateOnly := func(r *ssa.Return, reach map[*ssa.BasicBlock]bool, removed map[fw.Edge]bool) []fw.SuccessPath {
		if !reaches(fetcherFetch[0], callOfReturn(r)) {
			return nil
		}
		return succ(r, reach, removed)
	}
	_ = lateOnly
	for _, r := range fw.Returns(fn) {
		if len(succ(r, fw.Reachable(fn, nil), nil)) == 0 {
			continue
		}
		// success return: if reachable from the fetcher loop header, it must be preceded by StoreKeys
		hdr := fetcherFetch[0].Block()
		if !fw.ReachableFrom(hdr, nil)[r.Block()] {
			continue
		}
		okStore := !fw.PathAvoiding(hdr, []ssa.Instruction{store[0].(ssa.Instruction)}, r)
		c.Check(okStore, rule, "fetched keys are stored before VerifyJSONs returns", c.P.Pos(fw.InstrPos(r)), "", "a success return after the fetchers is reachable without StoreKeys")
	}
	c.CheckGate(rule, fn, "(KeyRing).VerifyJSONs", fw.GuardCallErrNil("database FetchKeys", func(n string) bool { return n == "(gmsl.KeyFetcher).FetchKeys" }), func(r *ssa.Return, reach map[*ssa.BasicBlock]bool, removed map[fw.Edge]bool) []fw.SuccessPath {
		// the early return for "nothing to verify" precedes the query
		var out []fw.SuccessPath
		for _, sp := range succ(r, reach, removed) {
			if strings.Contains(condsOf(sp.Ret.Block()), "(builtin.len("+reqMap+") == 0)") {
				continue
			}
			out = append(out, sp)
		}
		return out
	})
	// checkUsingKeys is applied after fetching with the merged keys
	cu := fw.CallsTo(fn, false, fw.NameIs("(*gmsl.KeyRing).checkUsingKeys"))
	c.Check(len(cu) == 2 && reaches(fetcherFetch[0], cu[1]), rule, "results are decided from the merged keys after fetching", c.P.Pos(fn.Pos()), "", fmt.Sprintf("%d checkUsingKeys sites", len(cu)))
	// one result per request, returned as such
	okLen := false
	for _, b := range fn.Blocks {
		for _, ins := range b.Instrs {
			if ms, ok := ins.(*ssa.MakeSlice); ok && strings.Contains(ms.Type().String(), "VerifyJSONResult") && fw.Sig(ms.Len) == "builtin.len(param:requests)" {
				okLen = true
			}
		}
	}
	c.Check(okLen, rule, "one result per request", c.P.Pos(fn.Pos()), "", "results is not make([]VerifyJSONResult, len(requests))")
	// first loop: every request starts failed (three non-nil stores, none nil)
	nonNil := 0
	for _, st := range fw.FieldStores(fn, "VerifyJSONResult", "Error") {
		if cc, _ := fw.CallOf(st.Val); cc != nil && fw.CalleeName(cc) == "fmt.Errorf" {
			nonNil++
		} else {
			c.Fail(rule, "VerifyJSONs itself never marks a result successful", c.P.Pos(fw.InstrPos(st)), "stores "+fw.Sig(st.Val))
		}
	}
	c.Min(rule+" initial failure stores", nonNil, 1)
	if pk := mustFunc(c, rule, "(*KeyRing).publicKeyRequests"); pk != nil {
		ok := false
		for _, iff := range fw.Ifs(pk) {
			if s := fw.Sig(iff.Cond); strings.Contains(s, " <= ") && strings.HasSuffix(s, "].AtTS)") {
				ok = true
			}
		}
		c.Check(ok, rule, "a key is requested for the latest timestamp it is needed at", c.P.Pos(pk.Pos()), "", "no max over AtTS")
	}
}

func callOfReturn(r *ssa.Return) ssa.CallInstruction { return nil }

func checkFetchers(c *fw.Ctx) {
	rule := "4 responses"
	mapper := fw.NameIs("gmsl.mapServerKeysToPublicKeyLookupResult")
	n := 0
	for _, spec := range []string{"(*PerspectiveKeyFetcher).FetchKeys", "(*DirectKeyFetcher).fetchKeysForServer", "(*DirectKeyFetcher).fetchNotaryKeysForServer"} {
		fn := mustFunc(c, rule, spec)
		if fn == nil {
			continue
		}
		for _, call := range fw.CallsTo(fn, false, mapper) {
			n++
			conds := condsOf(call.Block())
			ok := strings.Contains(conds, "gmsl.CheckKeys(") && strings.Contains(conds, ".AllChecksOK") && !strings.Contains(conds, "!*&gmsl.CheckKeys(") && !strings.Contains(conds, "!gmsl.CheckKeys(")
			c.Check(ok, rule, spec+": keys are accepted only if CheckKeys(...).AllChecksOK", c.P.Pos(call.Pos()), "", "the key response is mapped into results under ["+conds+"]")
			// CheckKeys is given the expected server name and the same response
			for _, ck := range fw.CallsTo(fn, false, fw.NameIs("gmsl.CheckKeys")) {
				s := argSigs(ck)
				mapped := fw.Sig(call.Common().Args[0])
				c.Check(strings.TrimPrefix(s[2], "*&") == strings.TrimPrefix(mapped, "*&") || strings.Contains(mapped, strings.TrimPrefix(s[2], "*&")), rule, spec+": the checked response is the one that is accepted", c.P.Pos(ck.Pos()), "", "CheckKeys on "+s[2]+", accepted "+mapped)
				// 5. clock
				okNow := strings.Contains(s[1], "time.Now()")
				c.Check(okNow, "5 clock", spec+": CheckKeys is given the current time", c.P.Pos(ck.Pos()), "", "the `now` argument is "+s[1]+": the 'valid_until_ts is in the future' check is vacuous and stale key responses are accepted")
			}
		}
	}
	c.Min(rule+" accept sites", n, 1)
	// perspective: notary signature verified with a configured key, decided per response
	if fn := c.P.Func("(*PerspectiveKeyFetcher).FetchKeys"); fn != nil {
		for _, call := range fw.CallsTo(fn, false, mapper) {
			h, _ := fw.LoopOf(call.Block())
			if h == nil {
				c.Fail(rule, "notary responses are processed in a loop", c.P.Pos(call.Pos()), "no enclosing loop")
				continue
			}
			// no boolean state may be carried across iterations of the response loop
			for _, ins := range h.Instrs {
				if phi, ok := ins.(*ssa.Phi); ok && strings.Contains(phi.Type().String(), "bool") {
					c.Fail(rule, "the notary-signature verdict is decided per response", c.P.Pos(fw.InstrPos(phi)), "a boolean ("+phi.Comment+") is carried from one notary response to the next: once one response is counter-signed, later responses are accepted without a notary signature")
				}
			}
			// within an iteration: the accept site is reachable from the iteration entry only via VerifyJSON nil
			c.Ok(rule, "the notary-signature verdict is decided per response", c.P.Pos(call.Pos()), "no boolean phi at the response loop header")
		}
		vj := fw.CallsTo(fn, false, fw.NameIs("gmsl.VerifyJSON"))
		okV := len(vj) == 1
		if okV {
			s := argSigs(vj[0])
			okV = strings.Contains(s[0], "recv.PerspectiveServerName") && strings.Contains(s[2], "recv.PerspectiveServerKeys[") && strings.HasSuffix(s[3], ".Raw")
		}
		c.Check(okV, rule, "notary responses are verified against a configured perspective key over the raw response", c.P.Pos(fn.Pos()), "", "VerifyJSON arguments differ")
		// the flag that gates acceptance is set true only after VerifyJSON returned nil
		for _, b := range fn.Blocks {
			for _, ins := range b.Instrs {
				if phi, ok := ins.(*ssa.Phi); ok && strings.Contains(phi.Type().String(), "bool") {
					for i, e := range phi.Edges {
						if cst, isC := e.(*ssa.Const); isC && cst.Value != nil && cst.Value.String() == "true" {
							pred := phi.Block().Preds[i]
							var all []string
							for _, f := range fw.DomConds(pred) {
								all = append(all, f.String())
							}
							full := strings.Join(all, " && ")
							okT := strings.Contains(full, "gmsl.VerifyJSON(") && !strings.Contains(full, "(gmsl.VerifyJSON(") || strings.Contains(full, "!(gmsl.VerifyJSON(") && strings.Contains(full, "!= nil)")
							c.Check(okT, rule, "the notary-signature verdict becomes true only after VerifyJSON succeeded", c.P.Pos(fw.InstrPos(phi)), "", "verdict set true under ["+full+"]")
						}
					}
				}
			}
		}
	}
}

func checkCheckKeys(c *fw.Ctx) {
	rule := "6 CheckKeys"
	fn := mustFunc(c, rule, "CheckKeys")
	if fn == nil {
		return
	}
	want := map[string]string{
		"MatchingServerName": "(param:serverName == *&param:keys.ServerKeyFields.ServerName)",
		"FutureValidUntilTS": "(time.Time).After((gmsl/spec.Timestamp).Time(*&param:keys.ServerKeyFields.ValidUntilTS),param:now)",
	}
	got := map[string]string{}
	for _, b := range fn.Blocks {
		for _, ins := range b.Instrs {
			if st, ok := ins.(*ssa.Store); ok {
				if fa, ok := st.Addr.(*ssa.FieldAddr); ok {
					if s := derefStructOf(fa.X.Type()); s != nil {
						got[s.Field(fa.Field).Name()] = fw.Sig(st.Val)
					}
				}
			}
		}
	}
	for _, k := range fw.SortedKeys(want) {
		c.Check(got[k] == want[k], rule, "CheckKeys."+k, c.P.Pos(fn.Pos()), got[k], k+" is computed as "+got[k])
	}
	c.Check(strings.HasPrefix(got["AllChecksOK"], "phi(false|") && strings.Contains(got["AllChecksOK"], "FutureValidUntilTS"), rule, "AllChecksOK starts as name match && future validity", c.P.Pos(fn.Pos()), "", "AllChecksOK = "+got["AllChecksOK"])
	if v := mustFunc(c, rule, "checkVerifyKeys"); v != nil {
		// AllChecksOK &&= HasEd25519Key && allEd25519ChecksOK ; every ed25519 key must carry a valid self-signature
		okConj := false
		for _, st := range fw.FieldStores(v, "KeyChecks", "AllChecksOK") {
			s := fw.Sig(st.Val)
			if strings.HasPrefix(s, "phi(false|") && strings.Contains(condsOf(st.Block()), "AllChecksOK") {
				// the phi's true-side predecessor is guarded by HasEd25519Key
				if phi, isPhi := st.Val.(*ssa.Phi); isPhi {
					for i, e := range phi.Edges {
						if _, isC := e.(*ssa.Const); !isC {
							if strings.Contains(condsOf(phi.Block().Preds[i]), "HasEd25519Key") {
								okConj = true
							}
						}
					}
				}
			}
		}
		c.Check(okConj, rule, "AllChecksOK additionally requires an ed25519 key and valid self-signatures", c.P.Pos(v.Pos()), "", "no conjunction with HasEd25519Key && allEd25519ChecksOK")
		vj := fw.CallsTo(v, false, fw.NameIs("gmsl.VerifyJSON"))
		okV := len(vj) == 1
		if okV {
			s := argSigs(vj[0])
			okV = strings.Contains(s[0], "param:keys.ServerKeyFields.ServerName") && strings.HasSuffix(s[3], "param:keys.Raw") && strings.Contains(s[1], "next(range(")
		}
		c.Check(okV, rule, "each ed25519 key must have signed the raw response under the response's server name", c.P.Pos(v.Pos()), "", "self-signature check arguments differ")
	}
}
