package props

import (
	"fmt"
	"go/token"
	"go/types"
	"strings"

	"gmslverif/fw"

	"golang.org/x/tools/go/ssa"
)

func init() { register("C19", checkC19) }

// guardedUses lists the instructions of fn that use (read or write) the map/slice stored in field
// `field` of the receiver-like base whose signature ends in baseSuffix.
func guardedUses(fn *ssa.Function, fieldSig string) []ssa.Instruction {
	var out []ssa.Instruction
	derived := map[ssa.Value]bool{}
	for _, b := range fn.Blocks {
		for _, ins := range b.Instrs {
			if u, ok := ins.(*ssa.UnOp); ok {
				if s := fw.Sig(u.X); s == fieldSig {
					derived[u] = true
					out = append(out, u)
				}
			}
			if st, ok := ins.(*ssa.Store); ok && fw.Sig(st.Addr) == fieldSig {
				out = append(out, st)
			}
		}
	}
	for _, b := range fn.Blocks {
		for _, ins := range b.Instrs {
			switch x := ins.(type) {
			case *ssa.MapUpdate:
				if derived[x.Map] {
					out = append(out, x)
				}
			case *ssa.Lookup:
				if derived[x.X] {
					out = append(out, x)
				}
			case *ssa.Range:
				if derived[x.X] {
					out = append(out, x)
					for _, ref := range *x.Referrers() {
						if nx, ok := ref.(*ssa.Next); ok {
							out = append(out, nx)
						}
					}
				}
			case ssa.CallInstruction:
				for _, a := range x.Common().Args {
					if derived[a] {
						out = append(out, ins)
					}
				}
			}
		}
	}
	return out
}

var blockingCalls = func(n string) bool {
	switch {
	case strings.HasSuffix(n, ".LookupIPAddr"), strings.HasSuffix(n, ".DialContext"), strings.HasSuffix(n, ".RoundTrip"), strings.HasSuffix(n, "WaitGroup).Wait"),
		strings.HasPrefix(n, "(gmsl.KeyClient)."), strings.HasSuffix(n, ".LookupSRV"), strings.HasPrefix(n, "gmsl/fclient.LookupWellKnown"), strings.HasPrefix(n, "gmsl/fclient.ResolveServer"),
		strings.HasSuffix(n, "http.Client).Do"), n == "time.Sleep":
		return true
	}
	return false
}

func checkC19(c *fw.Ctx) {
	c.Explanation = "C19 (static): lockset analysis (must-hold dataflow over each function's CFG) for the three shared structures - DNSCache.entries under DNSCache.mutex, destinationTripper.transports under transportsMutex, and the DirectKeyFetcher result map under resultsMutex: every use of the guarded map happens with its mutex held, the mutex is shared by all goroutines that share the data, every Lock is released on all paths, no blocking call (resolver, dial, round trip, key client, wait) happens with a mutex held and no function holds two of them; the DNS cache inserts only in the critical section in which the eviction loop established len < size, serves an entry only before its expiry and stores under the looked-up name; the worker pool adds to the WaitGroup before starting workers, workers defer Done and the parent reads the results only after Wait; the PDU interface's read-only accessors do not write to the receiver."
	c.NotDecidedClause("linearizability / 'same result as sequential execution'; races inside third-party code; the sync.Map resolution cache")
	checkDNSCache(c)
	checkTripper(c)
	checkKeyFetcherPool(c)
	checkAccessors(c)
}

// isWriteUse: the use of a guarded map modifies it (needs the write lock).
func isWriteUse(u ssa.Instruction) bool {
	switch x := u.(type) {
	case *ssa.MapUpdate, *ssa.Store:
		return true
	case ssa.CallInstruction:
		if b, ok := x.Common().Value.(*ssa.Builtin); ok && b.Name() == "delete" {
			return true
		}
	}
	return false
}

// checkDecideAndAct: an insertion into the guarded map that is conditional on a lookup of the
// same map (`if _, ok := m[k]; !ok { m[k] = v }`) happens in the critical section of that
// lookup: the mutex is not released between the two (check-then-act).
func checkDecideAndAct(c *fw.Ctx, rule string, fn *ssa.Function, fname, fieldSig, lock string) {
	ops := fw.LockOps(fn)
	for _, u := range guardedUses(fn, fieldSig) {
		mu, ok := u.(*ssa.MapUpdate)
		if !ok {
			continue
		}
		// a re-check after re-locking (double-checked insertion) is fine: one of the lookups
		// that decide the insertion must be in the insertion's critical section
		nLookups, atomic := 0, false
		stale := ""
		for _, f := range fw.DomConds(mu.Block()) {
			cv, _ := fw.BoolCond(f.If.Cond)
			ex, isEx := cv.(*ssa.Extract)
			if !isEx || ex.Index != 1 {
				continue
			}
			lk, isLk := ex.Tuple.(*ssa.Lookup)
			if !isLk || fw.Sig(lk.X) != fw.Sig(mu.Map) {
				continue
			}
			nLookups++
			released := false
			for _, op := range ops {
				if op.Acquire || op.Deferred || !strings.HasPrefix(op.Lock, lock) {
					continue
				}
				if reachesInstr(lk, op.Instr) && reachesInstr(op.Instr, mu) && lk.Block() != mu.Block() {
					released = true
					stale = fmt.Sprintf("the entry is looked up at %s, the mutex is released at %s and the insertion at %s relies on the stale answer: concurrent callers that all missed each create and store their own value (check-then-act)", c.P.Pos(fw.InstrPos(lk)), c.P.Pos(fw.InstrPos(op.Instr)), c.P.Pos(fw.InstrPos(mu)))
				}
			}
			if !released {
				atomic = true
			}
		}
		if nLookups > 0 {
			c.Check(atomic, rule, fname+": an insertion decided by a lookup happens in the lookup's critical section", c.P.Pos(fw.InstrPos(mu)), "", stale)
		}
	}
}

func checkLocked(c *fw.Ctx, rule string, fn *ssa.Function, fname, fieldSig, lock string, min int) {
	checkDecideAndAct(c, rule, fn, fname, fieldSig, lock)
	// an unexported helper that every caller invokes with the mutex held starts with it held
	held := fw.HeldAtFrom(fn, fw.EntryLocks(fn, c.P.SrcFuncs(), 0))
	uses := guardedUses(fn, fieldSig)
	bad := 0
	for _, u := range uses {
		okHeld := held[u][lock]
		if !okHeld && held[u][lock+"#r"] && !isWriteUse(u) {
			okHeld = true // reading under the read lock
		}
		if !okHeld {
			bad++
			c.Fail(rule, fmt.Sprintf("%s: %s is used only with %s held", fname, fieldSig, lock), c.P.Pos(fw.InstrPos(u)), fmt.Sprintf("the shared map is accessed at %s while holding {%s}: a data race with the other users of the cache", c.P.Pos(fw.InstrPos(u)), fw.SortedLocks(held[u])))
		}
	}
	if bad == 0 {
		c.Ok(rule, fmt.Sprintf("%s: %s is used only with %s held", fname, fieldSig, lock), c.P.Pos(fn.Pos()), fmt.Sprintf("%d uses", len(uses)))
	}
	c.Count("guarded_uses", len(uses))
	if len(uses) < min {
		c.Undecided(rule, fname+": guarded uses", fmt.Sprintf("found %d uses of %s, expected at least %d", len(uses), fieldSig, min))
	}
	for _, l := range fw.UnpairedLocks(fn) {
		c.Fail(rule, fname+": every Lock of "+l.Lock+" is released on all paths", c.P.Pos(fw.InstrPos(l.Instr)), "a return is reachable after this Lock without an Unlock")
	}
	// blocking calls under lock, and nested locks
	for _, call := range fw.Calls(fn) {
		h := held[call.(ssa.Instruction)]
		if len(h) == 0 {
			continue
		}
		n := fw.CalleeName(call)
		if blockingCalls(n) {
			c.Fail(rule, fname+": no blocking call while a mutex is held", c.P.Pos(call.Pos()), fmt.Sprintf("%s is called while holding {%s}: every other user of the structure waits for the network", n, fw.SortedLocks(h)))
		}
		_ = h
	}
	// re-entry: a callee (on the same receiver) that takes a mutex the caller still holds on
	// some path blocks forever: sync mutexes are not re-entrant
	may := fw.MayHeldAt(fn, nil)
	for _, call := range fw.Calls(fn) {
		h := may[call.(ssa.Instruction)]
		if len(h) == 0 {
			continue
		}
		if n := fw.CalleeName(call); (strings.HasSuffix(n, "Mutex).Lock") || strings.HasSuffix(n, "Mutex).RLock")) && len(call.Common().Args) > 0 {
			if _, isDefer := call.(*ssa.Defer); !isDefer {
				lk := strings.TrimPrefix(fw.Sig(call.Common().Args[0]), "&")
				if h[lk] {
					c.Fail(rule, fname+": no mutex is locked again while it is held", c.P.Pos(call.Pos()), fmt.Sprintf("%s is locked here while a path reaches this point with it still held (a deferred Unlock only runs at return): the goroutine deadlocks", lk))
				}
			}
		}
		if cc, isCall := call.(*ssa.Call); isCall {
			if callee := cc.Call.StaticCallee(); callee != nil && len(callee.Blocks) > 0 && len(cc.Call.Args) > 0 && callee.Signature.Recv() != nil && fw.Sig(cc.Call.Args[0]) == "recv" {
				for lk := range acquiresOnRecv(callee, 0, map[*ssa.Function]bool{}) {
					if h[lk] || h[lk+"#r"] {
						c.Fail(rule, fname+": no callee re-acquires a mutex the caller holds", c.P.Pos(call.Pos()), fmt.Sprintf("%s locks %s, which is still held here (held: {%s}; a deferred Unlock only runs at return): the goroutine deadlocks with the mutex held and every other user of the structure blocks behind it", fw.FuncName(callee), lk, fw.SortedLocks(h)))
					}
				}
			}
		}
	}
	for _, call := range fw.Calls(fn) {
		h := held[call.(ssa.Instruction)]
		n := fw.CalleeName(call)
		if op := strings.HasSuffix(n, "Mutex).Lock"); op && len(h) > 0 {
			lk := strings.TrimPrefix(fw.Sig(call.Common().Args[0]), "&")
			if !h[lk] {
				c.Fail(rule, fname+": no second mutex is taken while one is held", c.P.Pos(call.Pos()), "lock order hazard: takes "+lk+" while holding "+fw.SortedLocks(h))
			}
		}
	}
}

func checkDNSCache(c *fw.Ctx) {
	rule := "1 dns-cache"
	if c.InlinedReports == nil {
		c.InlinedReports = map[string]bool{}
	}
	// where the room test sits relative to the insertion is judged on whichever view shows both
	// in one function (an eviction loop moved into a helper is invisible to the source view)
	c.InlinedReports[rule+"|eviction and insertion happen in one critical section"] = true
	c.InlinedReports[rule+"|an entry is inserted only after the eviction loop established len(entries) < size"] = true
	lookup := mustFunc(c, rule, "fclient.(*DNSCache).lookup")
	dial := mustFunc(c, rule, "fclient.(*DNSCache).DialContext")
	if lookup == nil || dial == nil {
		return
	}
	checkLocked(c, rule, lookup, "DNSCache.lookup", "recv.entries", "recv.mutex", 1)
	checkLocked(c, rule, dial, "DNSCache.DialContext", "recv.entries", "recv.mutex", 1)
	// every function of the package that touches entries is one of the analysed ones
	for _, f := range c.P.SrcFuncs() {
		if f.Pkg == nil || f.Pkg.Pkg.Path() != fw.ModPath+"/fclient" || f == lookup || f == dial {
			continue
		}
		for _, b := range f.Blocks {
			for _, ins := range b.Instrs {
				if fa, ok := ins.(*ssa.FieldAddr); ok {
					if st := derefStructOf(fa.X.Type()); st != nil && st.Field(fa.Field).Name() == "entries" && strings.HasSuffix(fw.Short(fa.X.Type().String()), "DNSCache") {
						if fw.FuncName(f) == "gmsl/fclient.NewDNSCache" {
							continue // construction, not yet shared
						}
						checkLocked(c, rule, f, fw.FuncName(f), "recv.entries", "recv.mutex", 1)
					}
				}
			}
		}
	}
	// the resolver is called without the lock (it is a blocking call; also checked above) and between the two sections
	// bound: insertion in the same critical section as the eviction loop
	// (the insertion, the eviction loop and the hit test may live in unexported helpers of lookup)
	var insert *ssa.MapUpdate
	var insertFr *fw.Frame
	for _, di := range fw.DeepInstrs(lookup, nil) {
		if mu, ok := di.Instr.(*ssa.MapUpdate); ok && strings.HasSuffix(fw.Sig(mu.Map), ".entries") {
			insert, insertFr = mu, di.Fr
		}
	}
	if insert == nil {
		c.Undecided(rule, "the cache inserts resolved entries", "no insertion into entries found under lookup")
		return
	}
	insFn := insert.Parent()
	c.CheckDerives(insert.Key, insertFr, fw.FlowSpec{IsSourceIn: func(v ssa.Value, fr *fw.Frame) bool {
		return fr == nil && len(lookup.Params) > 2 && v == ssa.Value(lookup.Params[2])
	}}, rule, "an entry is stored under the looked-up host name", c.P.Pos(fw.InstrPos(insert)), "", "the insertion key is "+fw.SigIn(insertFr, insert.Key)+", not the host name that was resolved: one host is served another host's addresses")
	var all []string
	for _, f := range fw.DomConds(insert.Block()) {
		all = append(all, f.String())
	}
	full := strings.Join(all, " && ")
	roomTest := func(s string) bool {
		return strings.Contains(s, "builtin.len(*recv.entries) >= *recv.size)") || strings.Contains(s, "builtin.len(*recv.entries) < *recv.size)")
	}
	var header *ssa.BasicBlock
	for _, iff := range fw.Ifs(insFn) {
		if roomTest(fw.Sig(iff.Cond)) {
			header = iff.Block()
		}
	}
	switch {
	case strings.Contains(full, "!(builtin.len(*recv.entries) >= *recv.size)") || strings.Contains(full, "(builtin.len(*recv.entries) < *recv.size)") && !strings.Contains(full, "!(builtin.len(*recv.entries) < *recv.size)"):
		c.Ok(rule, "an entry is inserted only after the eviction loop established len(entries) < size", c.P.Pos(fw.InstrPos(insert)), "")
	case header == nil:
		// the routine that inserts takes the mutex itself and never looks at the size, while the
		// room test is made elsewhere under lookup: the two are in different critical sections
		locksHere := false
		for _, call := range fw.Calls(insFn) {
			if n := fw.CalleeName(call); strings.HasSuffix(n, "Mutex).Lock") && call.Block().Dominates(insert.Block()) {
				if _, isDefer := call.(*ssa.Defer); !isDefer {
					locksHere = true
				}
			}
		}
		elsewhere := ""
		for _, di := range fw.DeepInstrs(lookup, nil) {
			if iff, ok := di.Instr.(*ssa.If); ok && iff.Parent() != insFn && roomTest(fw.Sig(iff.Cond)) {
				elsewhere = c.P.Pos(fw.InstrPos(iff))
			}
		}
		if locksHere && elsewhere != "" && insFn != lookup {
			c.Fail(rule, "an entry is inserted only after the eviction loop established len(entries) < size", c.P.Pos(fw.InstrPos(insert)), fw.FuncName(insFn)+" locks the mutex, inserts and unlocks without a look at the size; room is made at "+elsewhere+" in another critical section: lookups that overlap in the resolver all insert, and the cache exceeds its size")
			break
		}
		c.Undecided(rule, "an entry is inserted only after the eviction loop established len(entries) < size", "no test of len(entries) against size found in "+fw.FuncName(insFn))
	default:
		c.Fail(rule, "an entry is inserted only after the eviction loop established len(entries) < size", c.P.Pos(fw.InstrPos(insert)), "insertion under ["+full+"]: the room test does not dominate the insertion, so the cache can exceed its size")
	}
	// no Unlock between the eviction loop's header and the insertion
	if header == nil {
		c.Undecided(rule, "the eviction loop tests len(entries) >= size", "eviction loop not found in "+fw.FuncName(insFn))
	} else {
		okSection := true
		for _, op := range fw.LockOps(insFn) {
			if op.Acquire || op.Deferred {
				continue
			}
			if fw.ReachableFrom(header, nil)[op.Instr.Block()] && reachesInstr(op.Instr, insert) {
				okSection = false
				c.Fail(rule, "eviction and insertion happen in one critical section", c.P.Pos(fw.InstrPos(op.Instr)), fmt.Sprintf("the mutex is released at %s between the eviction loop and the insertion: concurrent misses all insert after the room check, so the cache exceeds its size", c.P.Pos(fw.InstrPos(op.Instr))))
			}
		}
		if okSection {
			c.Ok(rule, "eviction and insertion happen in one critical section", c.P.Pos(fw.InstrPos(insert)), "no Unlock between the eviction loop and the insertion")
		}
	}
	// termination: for size <= 0 the loop condition len(entries) >= size holds for the empty map,
	// evicting from it removes nothing, and the loop spins forever with the mutex held (every
	// other caller then blocks on the mutex). The loop must only be entered with a positive size:
	// a dominating test of the size, or a constructor that never stores a non-positive size.
	if header != nil {
		construct := "the eviction loop is entered only with a positive size (it cannot make room in an empty cache)"
		guarded := false
		// (the loop may sit in a helper of lookup: the conditions at its call sites count)
		for _, s := range fw.DeepFacts(insertFr, header) {
			if strings.Contains(s, ".size") && (strings.HasPrefix(s, "!(") && (strings.Contains(s, "<= 0)") || strings.Contains(s, "< 1)")) || !strings.HasPrefix(s, "!") && (strings.Contains(s, "> 0)") || strings.Contains(s, ">= 1)"))) {
				guarded = true
			}
		}
		raw, other := 0, 0
		for _, f := range c.P.SrcFuncs() {
			for _, st := range fw.FieldStores(f, "DNSCache", "size") {
				if _, isParam := st.Val.(*ssa.Parameter); isParam {
					raw++
				} else {
					other++
				}
			}
		}
		switch {
		case guarded:
			c.Ok(rule, construct, c.P.Pos(fw.InstrPos(header.Instrs[len(header.Instrs)-1])), "")
		case raw > 0 && other == 0:
			c.Fail(rule, construct, c.P.Pos(fw.InstrPos(header.Instrs[len(header.Instrs)-1])), "the size is stored as given by the caller and the loop `for len(entries) >= size` is not guarded by a test of it: with size 0 the condition holds for the empty map, nothing can be evicted, and the first lookup spins forever while holding the mutex")
		default:
			c.Undecided(rule, construct, "the size field is not stored straight from a parameter; whether it can be non-positive was not traced")
		}
	}
	// expiry
	pcs, okPC := fw.PathConds(lookup)
	nhit := 0
	for _, r := range fw.Returns(lookup) {
		if fw.Sig(r.Results[1]) != "true" || !okPC {
			continue
		}
		// the hit test may live in an unexported helper: its conditions are part of the path
		cond := fw.ExpandDNF(pcs[r.Block()], func(atom string) bool {
			return !fw.AtomCallsUnexportedHelper(atom) || strings.Contains(atom, "(time.Time).Before(")
		})
		// a return after a fresh resolution is not a cache hit: it stores a new entry first
		fresh := false
		for _, call := range fw.CallsTo(lookup, false, func(n string) bool { return strings.HasSuffix(n, ".LookupIPAddr") }) {
			if call.Block().Dominates(r.Block()) {
				fresh = true
			}
		}
		if fresh {
			continue
		}
		nhit++
		okAll := len(cond) > 0
		for _, term := range cond {
			okTerm := false
			for _, l := range term {
				if l.Pos && strings.Contains(l.Atom, "(time.Time).Before(time.Now(),") && strings.HasSuffix(l.Atom, ".expires)") {
					okTerm = true
				}
			}
			if !okTerm {
				okAll = false
			}
		}
		c.Check(okAll, rule, "a cached entry is served only before its expiry", c.P.Pos(fw.InstrPos(r)), "", "cached hit under ["+cond.String()+"]")
		c.CheckDerives(r.Results[0], nil, fw.FlowSpec{All: true, IsSourceIn: func(v ssa.Value, fr *fw.Frame) bool {
			if k, isC := v.(*ssa.Const); isC && k.Value == nil {
				return true // "no entry" is not another host's entry
			}
			if ex, isEx := v.(*ssa.Extract); isEx {
				v = ex.Tuple
			}
			lk, isLk := v.(*ssa.Lookup)
			return isLk && strings.HasSuffix(fw.SigIn(fr, lk.X), "recv.entries") && fw.SigIn(fr, lk.Index) == "param:name"
		}}, rule, "a cached hit returns the entry of the looked-up name", c.P.Pos(fw.InstrPos(r)), "", "returns "+fw.Sig(r.Results[0]))
	}
	c.Min(rule+" cache-hit returns", nhit, 1)
	for _, st := range fw.FieldStores(lookup, "dnsCacheEntry", "expires") {
		c.Check(fw.Sig(st.Val) == "(time.Time).Add(time.Now(),*recv.duration)", rule, "a new entry expires after the configured duration", c.P.Pos(fw.InstrPos(st)), "", "expires = "+fw.Sig(st.Val))
	}
}

func checkTripper(c *fw.Ctx) {
	rule := "2 transport-cache"
	for _, spec := range []string{"fclient.(*destinationTripper).getTransport", "fclient.(*destinationTripper).reaper"} {
		if fn := mustFunc(c, rule, spec); fn != nil {
			checkLocked(c, rule, fn, strings.TrimPrefix(spec, "fclient."), "recv.transports", "recv.transportsMutex", 2)
		}
	}
	// no other function touches the map
	for _, f := range c.P.SrcFuncs() {
		if f.Pkg == nil || f.Pkg.Pkg.Path() != fw.ModPath+"/fclient" {
			continue
		}
		n := fw.FuncName(f)
		if strings.HasSuffix(n, ".getTransport") || strings.HasSuffix(n, ".reaper") || n == "gmsl/fclient.newDestinationTripper" {
			continue
		}
		for _, b := range f.Blocks {
			for _, ins := range b.Instrs {
				if fa, ok := ins.(*ssa.FieldAddr); ok {
					if st := derefStructOf(fa.X.Type()); st != nil && st.Field(fa.Field).Name() == "transports" {
						checkLocked(c, rule, f, n, "recv.transports", "recv.transportsMutex", 1)
					}
				}
			}
		}
	}
	// RoundTrip does not hold the mutex while sending
	if fn := mustFunc(c, rule, "fclient.(*destinationTripper).RoundTrip"); fn != nil {
		c.Check(len(fw.LockOps(fn)) == 0, rule, "RoundTrip takes no mutex itself (resolution and sending happen unlocked)", c.P.Pos(fn.Pos()), "", "RoundTrip locks a mutex around blocking work")
	}
}

// sharedWithParent: the map written in closure f (nested in or equal to worker) is a variable
// captured from outside the worker (a free variable of the worker itself).
func sharedWithParent(f, worker *ssa.Function, m ssa.Value) bool {
	name := strings.TrimPrefix(fw.Sig(m), "*free:")
	for _, fv := range worker.FreeVars {
		if fv.Name() == name {
			return true
		}
	}
	return false
}

// inFamily: fn is f or a function f is nested in.
func inFamily(fn ssa.Value, f *ssa.Function) bool {
	for x := f; x != nil; x = x.Parent() {
		if fn == ssa.Value(x) {
			return true
		}
	}
	return false
}

func checkKeyFetcherPool(c *fw.Ctx) {
	rule := "3 key-fetch-pool"
	fn := mustFunc(c, rule, "(*DirectKeyFetcher).FetchKeys")
	if fn == nil {
		return
	}
	var worker *ssa.Function
	for _, a := range fn.AnonFuncs {
		for _, call := range fw.Calls(a) {
			if strings.HasSuffix(fw.CalleeName(call), "WaitGroup).Done") {
				worker = a
			}
		}
	}
	if worker == nil {
		c.Undecided(rule, "worker closure", "no closure calling WaitGroup.Done found")
		return
	}
	checkWorkerStays(c, rule, worker)
	// the worker is what `go` starts
	goes := 0
	for _, call := range fw.Calls(fn) {
		if g, ok := call.(*ssa.Go); ok {
			goes++
			tgt := g.Call.Value
			ok2 := false
			if mc, isMC := tgt.(*ssa.MakeClosure); isMC && mc.Fn == ssa.Value(worker) {
				ok2 = true
			}
			c.Check(ok2, rule, "the goroutines run the worker", c.P.Pos(g.Pos()), "", "go starts something else")
		}
	}
	c.Min(rule+" go statements", goes, 1)
	// the job queue cannot block its producer for ever: a plain (blocking) send that can happen
	// after the workers were started is only safe if the workers never stop receiving before the
	// queue is closed; a worker that can return for another reason (its context ended) leaves
	// the producer blocked on a full queue, and Wait() is never reached
	{
		construct := "the producer of the job queue cannot block for ever"
		var goBlocks []*ssa.BasicBlock
		for _, call := range fw.Calls(fn) {
			if g, ok := call.(*ssa.Go); ok {
				goBlocks = append(goBlocks, g.Block())
			}
		}
		lateSend := ""
		for _, b := range fn.Blocks {
			for _, ins := range b.Instrs {
				snd, ok := ins.(*ssa.Send)
				if !ok {
					continue
				}
				for _, gb := range goBlocks {
					if gb == b || fw.ReachableFrom(gb, nil)[b] {
						lateSend = c.P.Pos(snd.Pos())
					}
				}
			}
		}
		// can the worker return before the queue is closed? a return dominated by a condition
		// that is not the comma-ok of a receive
		early := ""
		for _, wf := range fw.FamilyOf(worker) {
			if wf != worker {
				continue
			}
			for _, r := range fw.Returns(wf) {
				for _, f := range fw.DomConds(r.Block()) {
					sg := f.Sig
					if strings.Contains(sg, "<-") || strings.Contains(sg, "recv") && strings.Contains(sg, "#1") || strings.Contains(sg, "next(range(") {
						continue
					}
					if strings.Contains(sg, ".Err(") || strings.Contains(sg, ".Done(") {
						early = f.String() + " (return at " + c.P.Pos(fw.InstrPos(r)) + ")"
					}
				}
			}
		}
		// a queue filled before anybody receives must have room for everything that is put in: the
		// capacity is the length of the very collection whose elements are sent
		short := ""
		shortUnknown := ""
		if lateSend == "" {
			for _, b := range fn.Blocks {
				for _, ins := range b.Instrs {
					snd, ok := ins.(*ssa.Send)
					if !ok {
						continue
					}
					mk, isMk := fw.Unwrap(snd.Chan).(*ssa.MakeChan)
					if !isMk {
						continue
					}
					// the collection the sent values are taken from
					var coll ssa.Value
					if ex, isEx := fw.Unwrap(snd.X).(*ssa.Extract); isEx {
						if nx, isNx := ex.Tuple.(*ssa.Next); isNx {
							if rg, isRg := nx.Iter.(*ssa.Range); isRg {
								coll = rg.X
							}
						}
					}
					if coll == nil {
						continue // not a send per element of a collection
					}
					size := mk.Size
					for {
						if cv, isCv := size.(*ssa.Convert); isCv {
							size = cv.X
							continue
						}
						break
					}
					if call, _ := fw.CallOf(size); call != nil && fw.CalleeName(call) == "builtin.len" {
						if fw.Sig(call.Common().Args[0]) == fw.Sig(coll) {
							continue
						}
						shortUnknown = "the queue's capacity is the length of another collection than the one whose elements are sent at " + c.P.Pos(snd.Pos())
						continue
					}
					switch size.(type) {
					case *ssa.Const, *ssa.Phi, *ssa.BinOp:
						short = "the queue is filled at " + c.P.Pos(snd.Pos()) + " with one job per element of " + fw.Sig(coll) + " before any worker runs, but its capacity is " + fw.Sig(size) + ", not the number of elements: with more elements than that the send blocks for ever (nobody receives yet) and FetchKeys never returns"
					default:
						shortUnknown = "the queue's capacity " + fw.Sig(size) + " could not be related to the number of jobs sent at " + c.P.Pos(snd.Pos())
					}
				}
			}
		}
		switch {
		case short != "":
			c.Fail(rule, construct, c.P.Pos(fn.Pos()), short)
		case shortUnknown != "":
			c.Undecided(rule, construct, shortUnknown)
		case lateSend != "" && early != "":
			c.Fail(rule, construct, lateSend, "jobs are sent (blocking) at "+lateSend+" after the workers were started, and a worker can return under "+early+" while jobs remain: once every worker has gone the producer blocks on the full queue for ever and FetchKeys never returns")
		case lateSend != "":
			c.Undecided(rule, construct, "jobs are sent after the workers were started (at "+lateSend+"); whether a worker can stop early was not established")
		default:
			c.Ok(rule, construct, c.P.Pos(fn.Pos()), "the queue is filled before the workers start (or there is no blocking send)")
		}
	}
	// writes to the shared result map inside the worker and the closures nested in it
	held := fw.HeldAt(worker)
	nw := 0
	var doneDefer ssa.Instruction
	for _, call := range fw.Calls(worker) {
		if _, isD := call.(*ssa.Defer); isD && strings.HasSuffix(fw.CalleeName(call), "WaitGroup).Done") {
			doneDefer = call.(ssa.Instruction)
		}
	}
	for _, wf := range fw.FamilyOf(worker) {
		wheld := held
		if wf != worker {
			wheld = fw.HeldAt(wf)
		}
		for _, b := range wf.Blocks {
			for _, ins := range b.Instrs {
				mu, ok := ins.(*ssa.MapUpdate)
				if !ok {
					continue
				}
				ms := fw.Sig(mu.Map)
				if !strings.HasPrefix(ms, "*free:") || !sharedWithParent(wf, worker, mu.Map) {
					continue // a map local to the worker
				}
				nw++
				h := wheld[mu]
				shared := ""
				for l := range h {
					if strings.HasPrefix(l, "free:") {
						shared = l
					}
				}
				c.Check(shared != "", rule, "workers write the shared result map only under a mutex shared by all workers", c.P.Pos(fw.InstrPos(mu)), shared, fmt.Sprintf("the shared map %s is written while holding {%s}: none of these is shared between the worker goroutines (a mutex declared inside the worker is private to each goroutine), so concurrent merges race", ms, fw.SortedLocks(h)))
				// a write made by a closure nested in the worker must still happen before Done:
				// a deferred closure runs before Done only if it is deferred after it (LIFO)
				if wf != worker {
					okOrder := false
					why := "the closure writing the results is neither called nor deferred by the worker"
					for _, wb := range worker.Blocks {
						for _, wi := range wb.Instrs {
							ci, isCI := wi.(ssa.CallInstruction)
							if !isCI {
								continue
							}
							mc, isMC := ci.Common().Value.(*ssa.MakeClosure)
							if !isMC || !inFamily(mc.Fn, wf) {
								continue
							}
							switch wi.(type) {
							case *ssa.Call:
								okOrder = true
							case *ssa.Defer:
								if doneDefer != nil && fw.PathAvoiding(worker.Blocks[0], []ssa.Instruction{doneDefer}, wi) {
									why = "the merge is deferred before Done is: deferred calls run last-in-first-out, so Done (and the parent's Wait) can complete before the results are merged"
								} else if doneDefer != nil {
									okOrder = true
								}
							case *ssa.Go:
								why = "the results are written by a goroutine the WaitGroup does not wait for"
							}
						}
					}
					c.Check(okOrder, rule, "a worker's writes to the shared results happen before its Done", c.P.Pos(fw.InstrPos(mu)), "", why)
				}
			}
		}
	}
	c.Min(rule+" shared writes in worker", nw, 1)
	for _, l := range fw.UnpairedLocks(worker) {
		c.Fail(rule, "worker: every Lock is released on all paths", c.P.Pos(fw.InstrPos(l.Instr)), "a return is reachable with "+l.Lock+" held")
	}
	for _, call := range fw.Calls(worker) {
		if h := held[call.(ssa.Instruction)]; len(h) > 0 && (blockingCalls(fw.CalleeName(call)) || strings.Contains(fw.CalleeName(call), "fetchKeysForServer") || strings.Contains(fw.CalleeName(call), "fetchNotaryKeysForServer")) {
			c.Fail(rule, "worker: no fetch while the results mutex is held", c.P.Pos(call.Pos()), fw.CalleeName(call)+" under "+fw.SortedLocks(h))
		}
	}
	// WaitGroup discipline
	var add, wait ssa.CallInstruction
	for _, call := range fw.Calls(fn) {
		switch {
		case strings.HasSuffix(fw.CalleeName(call), "WaitGroup).Add"):
			add = call
		case strings.HasSuffix(fw.CalleeName(call), "WaitGroup).Wait"):
			wait = call
		}
	}
	if add == nil || wait == nil {
		c.Fail(rule, "the pool uses a WaitGroup", c.P.Pos(fn.Pos()), "Add or Wait missing")
		return
	}
	for _, call := range fw.Calls(fn) {
		if g, ok := call.(*ssa.Go); ok {
			c.Check(reaches(add, call) && !reaches(call, add), rule, "WaitGroup.Add precedes starting the workers", c.P.Pos(g.Pos()), "", "a worker can start before Add")
			c.Check(reaches(call, wait), rule, "the parent waits for the workers", c.P.Pos(g.Pos()), "", "Wait is not reached after starting workers")
		}
	}
	c.Check(fw.Sig(add.Common().Args[1]) != "" && strings.Contains(condsOfAll(fn, "go"), ""), rule, "Add counts the workers that are started", c.P.Pos(add.Pos()), fw.Sig(add.Common().Args[1]), "")
	// the same count bounds the go loop
	for _, iff := range fw.Ifs(fn) {
		s := fw.Sig(iff.Cond)
		if strings.Contains(s, "phi(0|") && strings.HasSuffix(s, " < "+fw.Sig(add.Common().Args[1])+")") {
			c.Ok(rule, "exactly as many workers are started as were added to the WaitGroup", c.P.Pos(fw.InstrPos(iff)), s)
		}
	}
	okDefer := false
	for _, call := range fw.Calls(worker) {
		if _, isD := call.(*ssa.Defer); isD && strings.HasSuffix(fw.CalleeName(call), "WaitGroup).Done") {
			okDefer = true
		}
	}
	c.Check(okDefer, rule, "each worker defers Done", c.P.Pos(worker.Pos()), "", "Done is not deferred: a panicking or early-returning worker leaves the parent waiting")
	// the parent returns the shared map only after Wait
	for _, r := range fw.Returns(fn) {
		if strings.Contains(fw.Sig(r.Results[0]), "makemap") || fw.Sig(r.Results[0]) != "nil" {
			c.Check(!fw.PathAvoiding(fn.Blocks[0], []ssa.Instruction{wait.(ssa.Instruction)}, r), rule, "results are returned only after all workers finished", c.P.Pos(fw.InstrPos(r)), "", "a return of the results is reachable without Wait")
		}
	}
	// the channel is filled and closed before workers start (no send after close)
	var closeCall ssa.CallInstruction
	for _, call := range fw.Calls(fn) {
		if fw.CalleeName(call) == "builtin.close" {
			closeCall = call
		}
	}
	if closeCall != nil {
		okSend := true
		for _, b := range fn.Blocks {
			for _, ins := range b.Instrs {
				if s, ok := ins.(*ssa.Send); ok && reachesInstr(closeCall.(ssa.Instruction), s) {
					okSend = false
				}
			}
		}
		c.Check(okSend, rule, "nothing is sent on the work channel after it is closed", c.P.Pos(closeCall.Pos()), "", "a send can follow close")
	}
}

func condsOfAll(fn *ssa.Function, kind string) string { return "" }

func checkAccessors(c *fw.Ctx) {
	rule := "4 read-only-accessors"
	pkg := c.P.Pkg("")
	pdu, _ := pkg.Types.Scope().Lookup("PDU").Type().Underlying().(*types.Interface)
	if pdu == nil {
		c.Undecided(rule, "PDU interface", "not found")
		return
	}
	mutators := setOf("Redact", "SetUnsignedField", "Sign")
	n := 0
	for _, tname := range []string{"eventV1", "eventV2", "eventV3"} {
		tn, ok := pkg.Types.Scope().Lookup(tname).(*types.TypeName)
		if !ok {
			c.Undecided(rule, tname, "type not found")
			continue
		}
		ms := c.P.SSA.MethodSets.MethodSet(types.NewPointer(tn.Type()))
		for i := 0; i < pdu.NumMethods(); i++ {
			m := pdu.Method(i)
			if mutators[m.Name()] {
				continue
			}
			sel := ms.Lookup(pkg.Types, m.Name())
			if sel == nil {
				continue
			}
			fn := c.P.SSA.MethodValue(sel)
			if fn == nil {
				continue
			}
			// follow promotion wrappers to the declared method
			decl := fn
			if fn.Synthetic != "" {
				if d := c.P.SSA.FuncValue(sel.Obj().(*types.Func)); d != nil {
					decl = d
				}
			}
			if decl.Blocks == nil {
				continue
			}
			// only count a declared method once per declaring type
			recvT := decl.Signature.Recv().Type().String()
			if !strings.HasSuffix(recvT, tname) {
				continue
			}
			n++
			bad := ""
			for _, w := range fw.WritesIn(decl) {
				if p, isP := w.Path.Base.(*ssa.Parameter); isP && p == decl.Params[0] && (len(w.Path.Fields) > 0 || w.Path.Index) {
					bad = c.P.Pos(fw.InstrPos(w.Instr)) + " (field " + fieldPath(w.Path) + ")"
				}
			}
			c.Check(bad == "", rule, fmt.Sprintf("(*%s).%s does not write to the event", tname, m.Name()), c.P.Pos(decl.Pos()), "", fmt.Sprintf("the accessor writes the receiver at %s: two goroutines calling it on a shared event race", bad))
		}
	}
	c.Min(rule+" accessors", n, 10)
}

func fieldPath(p fw.AddrPath) string {
	var s []string
	for _, f := range p.Fields {
		s = append(s, f.Name())
	}
	return strings.Join(s, ".")
}

// acquiresOnRecv: the receiver-relative mutexes ("recv.mutex") that fn - or a method it calls
// on the same receiver - locks when entered without them.
func acquiresOnRecv(fn *ssa.Function, depth int, seen map[*ssa.Function]bool) map[string]bool {
	out := map[string]bool{}
	if depth > 3 || seen[fn] {
		return out
	}
	seen[fn] = true
	for _, op := range fw.LockOps(fn) {
		if op.Acquire && strings.HasPrefix(op.Lock, "recv.") {
			out[strings.TrimSuffix(op.Lock, "#r")] = true
		}
	}
	for _, call := range fw.Calls(fn) {
		cc, ok := call.(*ssa.Call)
		if !ok {
			continue
		}
		callee := cc.Call.StaticCallee()
		if callee == nil || len(callee.Blocks) == 0 || callee.Signature.Recv() == nil || len(cc.Call.Args) == 0 || fw.Sig(cc.Call.Args[0]) != "recv" {
			continue
		}
		for k := range acquiresOnRecv(callee, depth+1, seen) {
			out[k] = true
		}
	}
	return out
}

// checkWorkerStays: a worker leaves its receive loop only when the queue is exhausted (or for a
// reason that does not depend on the job it just took: the batch context). A return taken on
// the outcome of one job abandons the jobs still queued - the queue is filled and closed up
// front, so nobody else will take them - and the batch result is no longer the union of the
// per-server results.
func checkWorkerStays(c *fw.Ctx, rule string, worker *ssa.Function) {
	construct := "a worker leaves the queue only when it is exhausted"
	var recv *ssa.UnOp
	for _, b := range worker.Blocks {
		for _, ins := range b.Instrs {
			if u, ok := ins.(*ssa.UnOp); ok && u.Op == token.ARROW && u.CommaOk {
				recv = u
			}
		}
	}
	if recv == nil {
		c.Undecided(rule, construct, "no receive loop (`for job := range queue`) recognised in the worker")
		return
	}
	header := recv.Block()
	// the loop body: what is reachable from the header's successors without coming back
	// through the header, restricted to blocks from which the header is reachable again
	back := map[fw.Edge]bool{}
	for _, p := range header.Preds {
		back[fw.Edge{From: p, To: header}] = true
	}
	inBody := map[*ssa.BasicBlock]bool{}
	for _, sblk := range header.Succs {
		for b := range fw.ReachableFrom(sblk, back) {
			if b != header && fw.ReachableFrom(b, nil)[header] {
				inBody[b] = true
			}
		}
	}
	item := ""
	for _, ref := range *recv.Referrers() {
		if ex, ok := ref.(*ssa.Extract); ok && ex.Index == 0 {
			item = fw.Sig(ex)
		}
	}
	verdict, detail, pos := "ok", "", ""
	for _, r := range fw.Returns(worker) {
		// an early leave: the return is entered from inside the body
		var from []*ssa.BasicBlock
		seen := map[*ssa.BasicBlock]bool{}
		var walk func(b *ssa.BasicBlock)
		walk = func(b *ssa.BasicBlock) {
			if seen[b] {
				return
			}
			seen[b] = true
			for _, p := range b.Preds {
				if inBody[p] {
					from = append(from, p)
				} else if p != header {
					walk(p)
				}
			}
		}
		walk(r.Block())
		if len(from) == 0 {
			continue
		}
		perItem, other := "", ""
		for _, f := range fw.DomConds(r.Block()) {
			if !inBody[f.If.Block()] {
				continue
			}
			sg := f.String()
			if item != "" && strings.Contains(sg, item) {
				perItem = sg
			} else if !strings.Contains(sg, "context.Context).Err(") && !strings.Contains(sg, "context.Context).Done(") {
				other = sg
			}
		}
		switch {
		case perItem != "":
			verdict, detail, pos = "fail", "the worker returns from inside its receive loop under "+perItem+", a condition on the job it just took: the jobs still in the (already closed) queue are never fetched by this worker, and once every worker has left the batch silently lacks their keys", c.P.Pos(fw.InstrPos(r))
		case other != "" && verdict != "fail":
			verdict, detail = "undecided", "the worker can return from inside its receive loop under "+other
		}
	}
	switch verdict {
	case "fail":
		c.Fail(rule, construct, pos, detail)
	case "undecided":
		c.Undecided(rule, construct, detail)
	default:
		c.Ok(rule, construct, c.P.Pos(worker.Pos()), "")
	}
}
