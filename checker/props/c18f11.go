package props

import (
	"strings"

	"gmslverif/fw"

	"golang.org/x/tools/go/ssa"
)

// checkF11: the untrusted constructors return a nil event together with some errors, including
// validation errors marked persistable (a room id over the byte limit is refused before the
// event object exists). A list of events handed to callers must not receive that nil: every
// path on which the #0 result of NewEventFromUntrustedJSON is appended to a list establishes
// either that the error is nil or that the event is not nil. Positive evidence of a violation:
// a path to the append on which the error was positively identified as a (non-nil) validation
// error and the event was never looked at.
func checkF11(c *fw.Ctx) {
	rule := "F11 nil-event-append"
	n := 0
	for _, fn := range c.P.SrcFuncs() {
		for _, call := range fw.CallsTo(fn, true, fw.NameIs("builtin.append")) {
			args := call.Common().Args
			if len(args) < 2 {
				continue
			}
			elems, ok := fw.VariadicElems(args[1])
			if !ok {
				continue
			}
			for _, e := range elems {
				s := fw.Sig(e)
				if !strings.HasSuffix(s, ")#0") || !strings.Contains(s, ".NewEventFromUntrustedJSON(") || strings.Contains(s[:len(s)-3], "#0") && false {
					continue
				}
				base := strings.TrimSuffix(s, "#0")
				// only the constructor's own result, not something computed from it
				if !strings.HasPrefix(base, "(gmsl.IRoomVersion).NewEventFromUntrustedJSON(") && !strings.HasPrefix(base, "gmsl.NewEventFromUntrustedJSON(") {
					continue
				}
				n++
				construct := fw.FuncName(fn) + ": an event appended to a list is not nil"
				blk := call.(ssa.Instruction).Block()
				d, okD := fw.CondAt(nil, blk)
				if !okD {
					c.Undecided(rule, construct, "path condition too large")
					continue
				}
				bad, unknown := false, false
				for _, term := range d {
					established, identified := false, false
					for _, l := range term {
						switch {
						case l.Atom == "("+base+"#1 == nil)" && l.Pos, l.Atom == "("+base+"#0 == nil)" && !l.Pos:
							established = true
						case strings.HasPrefix(l.Atom, base+"#1.(") && l.Pos:
							identified = true // the error has a concrete type: it is not nil
						case l.Atom == "("+base+"#1 == nil)" && !l.Pos:
							identified = true
						}
					}
					if established {
						continue
					}
					if identified {
						bad = true
					} else {
						unknown = true
					}
				}
				switch {
				case bad:
					c.Fail(rule, construct, c.P.Pos(call.Pos()), "the event returned by NewEventFromUntrustedJSON is appended on a path where the constructor reported an error and the event was not tested: some errors (a room id over the byte limit, reported as persistable) come with a nil event, and the callers of the list dereference it")
				case unknown:
					c.Undecided(rule, construct, "a path to the append establishes neither a nil error nor a non-nil event, and does not identify the error either")
				default:
					c.Ok(rule, construct, c.P.Pos(call.Pos()), "")
				}
			}
		}
	}
	c.Count("untrusted_event_appends", n)
}
