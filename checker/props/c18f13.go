package props

import (
	"go/token"
	"strings"

	"gmslverif/fw"

	"golang.org/x/tools/go/ssa"
)

// selfCalls: the calls by which fn re-enters itself: static recursion, or - for a function
// literal - a call through the variable of the enclosing function that holds the literal.
func selfCalls(fn *ssa.Function) []ssa.CallInstruction {
	var out []ssa.CallInstruction
	for _, call := range fw.Calls(fn) {
		cm := call.Common()
		if cm.StaticCallee() == fn {
			out = append(out, call)
			continue
		}
		if fn.Parent() == nil || cm.Value == nil || cm.IsInvoke() {
			continue
		}
		ld, ok := cm.Value.(*ssa.UnOp)
		if !ok || ld.Op != token.MUL {
			continue
		}
		fv, ok := ld.X.(*ssa.FreeVar)
		if !ok {
			continue
		}
		idx := -1
		for i, v := range fn.FreeVars {
			if v == fv {
				idx = i
			}
		}
		// the cell bound to that free variable receives the literal itself
		for _, b := range fn.Parent().Blocks {
			for _, ins := range b.Instrs {
				mc, isMC := ins.(*ssa.MakeClosure)
				if !isMC || mc.Fn != ssa.Value(fn) || idx < 0 || idx >= len(mc.Bindings) {
					continue
				}
				cell := mc.Bindings[idx]
				for _, ref := range *cell.Referrers() {
					if st, isSt := ref.(*ssa.Store); isSt && st.Addr == cell && st.Val == ssa.Value(mc) {
						out = append(out, call)
					}
				}
			}
		}
	}
	return out
}

// checkF13: in room versions 1 and 2 event IDs are chosen by the sender, so the references of
// events (auth_events, prev_events) can form cycles. A routine that recurses along those
// references must bound the walk: the recursive call is guarded by a membership test on some
// map, and an entry of that map is written before the routine re-enters itself (marking after
// the descent, or not at all, recurses without end on a self-referencing event: a stack
// overflow, which cannot be recovered).
func checkF13(c *fw.Ctx) {
	rule := "F13 bounded-recursion"
	n := 0
	for _, fn := range c.P.SrcFuncs() {
		if !c.P.IsRepoFunc(fn) {
			continue
		}
		follows := false
		for _, call := range fw.Calls(fn) {
			if nme := fw.CalleeName(call); strings.HasSuffix(nme, ".AuthEventIDs") || strings.HasSuffix(nme, ".PrevEventIDs") {
				follows = true
			}
		}
		if !follows {
			continue
		}
		for _, call := range selfCalls(fn) {
			n++
			construct := fw.FuncName(fn) + ": the recursion along event references is bounded by a set written before re-entering"
			blk := call.(ssa.Instruction).Block()
			// (1) maps whose membership test guards the call
			guards := map[string]bool{}
			for _, f := range fw.DomConds(blk) {
				if f.Taken {
					continue
				}
				if ex, ok := f.If.Cond.(*ssa.Extract); ok && ex.Index == 1 {
					if lk, ok := ex.Tuple.(*ssa.Lookup); ok && lk.CommaOk {
						guards[fw.Sig(lk.X)] = true
					}
				}
			}
			if len(guards) == 0 {
				// a visited test can take other forms (a set type's Contains, a helper): only the
				// complete absence of any condition on the way to the call is positive evidence
				loopOnlyConds := true
				for _, s := range fw.CondStrings(blk) {
					t := strings.TrimPrefix(s, "!")
					if strings.Contains(t, "next(range(") || strings.Contains(t, "< builtin.len(") {
						continue
					}
					if strings.Contains(t, "ontains(") || strings.Contains(t, "isited") || strings.Contains(t, "seen") {
						loopOnlyConds = false
					}
				}
				if loopOnlyConds {
					c.Fail(rule, construct, c.P.Pos(call.Pos()), "the routine calls itself for a referenced event without any membership test on a set of events already entered: two events that name each other in auth_events (possible in room versions 1 and 2) are followed without end")
				} else {
					c.Undecided(rule, construct, "the recursive call is guarded in a form the rule does not recognise")
				}
				continue
			}
			// (2) a write to one of those maps precedes the call on every path
			isWrite := func(ins ssa.Instruction) bool {
				mu, ok := ins.(*ssa.MapUpdate)
				return ok && guards[fw.Sig(mu.Map)]
			}
			isCall := func(ins ssa.Instruction) bool { return ins == call.(ssa.Instruction) }
			_, bad := fw.MustPrecede(fn, isWrite, isCall)
			c.Check(len(bad) == 0, rule, construct, c.P.Pos(call.Pos()), "", "the set that guards the recursive call is written only after the call returns (or not on every path to it): an event that names itself, or two that name each other, is entered again before it is marked")
		}
	}
	c.Min(rule+" recursive walks over event references", n, 3)
}
