package props

import (
	"fmt"
	"go/token"
	"go/types"
	"strings"

	"gmslverif/fw"

	"golang.org/x/tools/go/ssa"
)

func init() { register("C01", checkC01) }

func checkC01(c *fw.Ctx) {
	c.Explanation = "C01 (static): the validity gate of CanonicalJSON and the version/enforcement gates of EnforcedCanonicalJSON are decided by dominance on SSA; the enforcement column of the room-version table is compared exhaustively with the specification; untrusted parsers are checked to apply the enforcement to the raw input before rewriting it; object keys are shown to be sorted on the decoded key and emitted from the raw token (no decoded string reaches the output buffer); the enforcement visitor's verdict flag is shown to be monotone (only ever lowered)."
	c.NotDecidedClause("value preservation, uniqueness across presentations and idempotence on the infinite JSON language (byte-level state machines in CompactJSON/compactUnicodeEscape: value properties)")
	c.NotDecidedClause("shortest-escape minimality and the -0 rule of CompactJSON (known, not decided here: -0.5 loses its sign)")

	// the comparator rule reports positive evidence only (the compared field is stored from
	// something that is not the decoded key), so it may also report on the inlined view, where
	// the entries are collected and sorted in one function even if the source splits that up
	if c.InlinedReports == nil {
		c.InlinedReports = map[string]bool{}
	}
	c.InlinedReports["5 key-order|*: object keys are ordered by strings.Compare on the decoded key"] = true

	// 1. validity gate
	if fn := mustFunc(c, "1 gate", "CanonicalJSON"); fn != nil {
		c.CheckGate("1 gate", fn, "CanonicalJSON", fw.GuardCallBool("gjson.Valid(input)", fw.NameIs("github.com/tidwall/gjson.Valid", "github.com/tidwall/gjson.ValidBytes"), true), fw.ErrNilSuccess(fn, fw.ErrIndex(fn), nil))
		// the validated value is the function's input
		for _, call := range fw.CallsTo(fn, false, fw.NameIs("github.com/tidwall/gjson.Valid", "github.com/tidwall/gjson.ValidBytes")) {
			ok := fw.DerivesFrom(call.Common().Args[0], fw.FlowSpec{IsSource: func(v ssa.Value) bool { p, isP := v.(*ssa.Parameter); return isP && p == fn.Params[0] }, All: true})
			c.Check(ok, "1 gate", "CanonicalJSON validates its own input", c.P.Pos(call.Pos()), "", "gjson.Valid is applied to something other than the input parameter")
		}
	}
	if fn := mustFunc(c, "1 gate", "EnforcedCanonicalJSON"); fn != nil {
		succ := fw.ErrNilSuccess(fn, fw.ErrIndex(fn), fw.IsTail(fw.NameIs("gmsl.CanonicalJSON")))
		c.CheckGate("1 gate", fn, "EnforcedCanonicalJSON", fw.GuardCallErrNil("GetRoomVersion", fw.NameIs("gmsl.GetRoomVersion")), succ)
		c.CheckGate("1 gate", fn, "EnforcedCanonicalJSON", fw.GuardCallErrNil("CheckCanonicalJSON", fw.NameIs("(gmsl.IRoomVersion).CheckCanonicalJSON")), succ)
		// the result is CanonicalJSON's (validity gate inherited)
		tails := fw.CallsTo(fn, false, fw.NameIs("gmsl.CanonicalJSON"))
		c.Check(len(tails) >= 1, "1 gate", "EnforcedCanonicalJSON returns through CanonicalJSON", c.P.Pos(fn.Pos()), "", "the enforced variant no longer goes through CanonicalJSON (validity gate lost)")
	}

	// 2. enforcement column
	checkVersionMatrix(c, "2 enforcement-column", setOf("canonicalJSONCheck"))
	// the wrapper method really calls the column
	if fn := mustFunc(c, "2 enforcement-column", "(RoomVersionImpl).CheckCanonicalJSON"); fn != nil {
		ok := false
		for _, call := range fw.Calls(fn) {
			if fa := fieldOfCallee(call); fa == "canonicalJSONCheck" {
				ok = true
			}
		}
		c.Expect(ok, "2 enforcement-column", "CheckCanonicalJSON dispatches to the canonicalJSONCheck column", c.P.Pos(fn.Pos()), "", "no call of the table's canonicalJSONCheck field was recognised in the wrapper")
	}

	// 3. untrusted parsers check the raw input before rewriting
	if t := loadVersionTable(c, "3 raw-input"); t != nil {
		ctors := map[string]bool{}
		for _, ver := range t.versions {
			ctors[t.cell(ver, "newEventFromUntrustedJSONFunc")] = true
		}
		n := 0
		for _, short := range sortedSet(ctors) {
			fn := fnByShortName(c.P, short)
			if fn == nil {
				c.Undecided("3 raw-input", "constructor "+short, "not found")
				continue
			}
			n++
			c.SawFn(short)
			chk := fw.NameIs("(gmsl.IRoomVersion).CheckCanonicalJSON")
			c.CheckGate("3 raw-input", fn, short, fw.GuardCallErrNil("CheckCanonicalJSON", chk), fw.ErrNilSuccess(fn, fw.ErrIndex(fn), nil))
			for _, call := range fw.CallsTo(fn, false, chk) {
				args := call.Common().Args
				// the input is the first parameter of type []byte (a method's receiver comes before it)
				pidx := 0
				for i, p := range fn.Params {
					if sl, isSl := p.Type().Underlying().(*types.Slice); isSl {
						if bt, isB := sl.Elem().Underlying().(*types.Basic); isB && bt.Kind() == types.Byte {
							pidx = i
							break
						}
					}
				}
				ok := len(args) >= 1 && isParam(args[len(args)-1], fn, pidx)
				if !ok && len(args) >= 1 {
					// rewritten bytes are the result of a call (sjson, a stripping helper); anything else
					// (a field of a request object, a captured variable) is not known to be rewritten
					if cl, _ := fw.CallOf(fw.Unwrap(args[len(args)-1])); cl == nil {
						c.Undecided("3 raw-input", short+": enforcement is applied to the raw input", "CheckCanonicalJSON is applied to "+fw.Sig(args[len(args)-1])+", which is neither the input parameter nor the result of a rewriting call")
						continue
					}
				}
				c.Check(ok, "3 raw-input", short+": enforcement is applied to the raw input", c.P.Pos(call.Pos()), "", "CheckCanonicalJSON is applied to bytes that have already been rewritten (not the untouched parameter)")
			}
			_, bad := fw.MustPrecede(fn, fw.IsCallTo(chk), fw.IsCallTo(fw.NameIs("github.com/tidwall/sjson.DeleteBytes", "gmsl.CanonicalJSONAssumeValid")))
			c.Check(len(bad) == 0, "3 raw-input", short+": enforcement precedes rewriting", c.P.Pos(fn.Pos()), "", "a rewrite of the event JSON is reachable before the canonical-JSON enforcement")
		}
		c.Min("3 raw-input constructors", n, 3)
	}

	checkSortJSON(c)
	checkEnforceFlag(c)
	checkMinusSign(c)
	checkMinusHelper(c)
}

func isParam(v ssa.Value, fn *ssa.Function, idx int) bool {
	p, ok := v.(*ssa.Parameter)
	return ok && idx < len(fn.Params) && p == fn.Params[idx]
}

// fieldOfCallee: for a dynamic call of a function-typed struct field (v.f(...)), the field name.
func fieldOfCallee(call ssa.CallInstruction) string {
	v := call.Common().Value
	switch x := v.(type) {
	case *ssa.Field:
		if st, ok := x.X.Type().Underlying().(*types.Struct); ok {
			return st.Field(x.Field).Name()
		}
	case *ssa.UnOp:
		if fa, ok := x.X.(*ssa.FieldAddr); ok {
			if p, ok := fa.X.Type().Underlying().(*types.Pointer); ok {
				if st, ok := p.Elem().Underlying().(*types.Struct); ok {
					return st.Field(fa.Field).Name()
				}
			}
		}
	}
	return ""
}

var gjsonDecoded = func(v ssa.Value) bool {
	if c, _ := fw.CallOf(v); c != nil {
		n := fw.CalleeName(c)
		if n == "(github.com/tidwall/gjson.Result).String" {
			return true
		}
	}
	return isGjsonField(v, "Str")
}

func isGjsonField(v ssa.Value, field string) bool {
	switch x := v.(type) {
	case *ssa.Field:
		if strings.HasSuffix(x.X.Type().String(), "gjson.Result") {
			st := x.X.Type().Underlying().(*types.Struct)
			return st.Field(x.Field).Name() == field
		}
	case *ssa.UnOp:
		if x.Op == token.MUL {
			if fa, ok := x.X.(*ssa.FieldAddr); ok {
				if p, ok := fa.X.Type().Underlying().(*types.Pointer); ok && strings.HasSuffix(p.Elem().String(), "gjson.Result") {
					st := p.Elem().Underlying().(*types.Struct)
					return st.Field(fa.Field).Name() == field
				}
			}
		}
	}
	return false
}

// checkSortJSON: rules 4 (no decoded string reaches the output) and 5 (sort key is the decoded key).
func checkSortJSON(c *fw.Ctx) {
	// every function reachable from SortJSON inside the package that appends to a []byte
	root := mustFunc(c, "4 raw-emission", "SortJSON")
	if root == nil {
		return
	}
	reach := fw.ReachableFuncs(c.Graph(), []*ssa.Function{root}, func(f *ssa.Function) bool { return c.P.IsRepoFunc(f) })
	var fns []*ssa.Function
	for f := range reach {
		if c.P.IsRepoFunc(f) {
			fns = append(fns, f)
		}
	}
	appends := 0
	sorters := 0
	for _, fn := range fns {
		if fn.Parent() != nil {
			continue // closures are handled with their parent family
		}
		fam := fw.FamilyOf(fn)
		for _, f := range fam {
			c.SawFn(fw.FuncName(f))
			for _, call := range fw.Calls(f) {
				name := fw.CalleeName(call)
				if name == "builtin.append" && len(call.Common().Args) == 2 {
					// append(output, x...) with x string or []byte
					arg := call.Common().Args[1]
					if !isByteSeq(arg.Type()) {
						continue
					}
					appends++
					decoded := fw.DerivesFrom(arg, fw.FlowSpec{IsSource: gjsonDecoded, Family: fam})
					c.Check(!decoded, "4 raw-emission", fmt.Sprintf("%s: bytes appended to the output are raw tokens", fw.FuncName(fn)), c.P.Pos(call.Pos()), "", "a decoded string (gjson String()/Str) is appended to the canonical output without re-escaping: keys or values needing escapes are corrupted")
				}
				if strings.HasPrefix(name, "slices.SortFunc") || strings.HasPrefix(name, "slices.SortStableFunc") || name == "sort.Slice" {
					sorters++
					checkKeyComparator(c, fn, fam, call)
					checkSortUnconditional(c, fn, call)
				}
			}
		}
	}
	c.Min("4 raw-emission append sites", appends, 3)
	c.Min("5 key-order sort sites", sorters, 1)
}

// checkSortUnconditional: the sort of the object's entries is not skipped on any path, except
// under a guard that only looks at the number of entries (fewer than two need no sorting).
func checkSortUnconditional(c *fw.Ctx, fn *ssa.Function, call ssa.CallInstruction) {
	rule := "5 key-order"
	construct := fw.FuncName(fn) + ": the entries are sorted on every path"
	// conditions under which the entries themselves come into being (the routine is only
	// applied to objects, say) do not make the sort conditional
	born := map[*ssa.If]bool{}
	if len(call.Common().Args) > 0 {
		root := call.Common().Args[0]
		for i := 0; i < 6; i++ {
			switch x := root.(type) {
			case *ssa.Slice:
				root = x.X
				continue
			case *ssa.UnOp:
				root = x.X
				continue
			case *ssa.ChangeType:
				root = x.X
				continue
			}
			break
		}
		if ins, ok := root.(ssa.Instruction); ok && ins.Block() != nil {
			for _, f := range fw.DomConds(ins.Block()) {
				born[f.If] = true
			}
		}
	}
	for _, f := range fw.DomConds(call.Block()) {
		if fw.IsErrCheck(f) || born[f.If] {
			continue
		}
		okGuard := false
		if b, isB := f.If.Cond.(*ssa.BinOp); isB {
			if cl, _ := fw.CallOf(b.X); cl != nil && fw.CalleeName(cl) == "builtin.len" {
				if n, isC := fw.ConstInt(b.Y); isC && n <= 2 {
					okGuard = true
				}
			}
		}
		if !okGuard {
			c.Fail(rule, construct, c.P.Pos(call.Pos()), "the sort only runs under the condition "+f.String()+": whether the output is ordered then depends on something other than the decoded keys (e.g. an already-sorted test on raw spellings)")
			return
		}
	}
	c.Ok(rule, construct, c.P.Pos(call.Pos()), "no guard other than an entry-count test")
}

// checkRangeOperand: the integer-range comparison of the enforcement function is made on the
// float64 value of the number (gjson Num / Float()), never on Int()/Uint(), whose fallback
// parser wraps modulo 2^64.
func checkRangeOperand(c *fw.Ctx, fn *ssa.Function) {
	rule := "7 range-operand"
	n := 0
	for _, f := range fw.RegionOf(fn, nil) {
		for _, b := range f.Blocks {
			for _, ins := range b.Instrs {
				bo, ok := ins.(*ssa.BinOp)
				if !ok {
					continue
				}
				for _, pair := range [][2]ssa.Value{{bo.X, bo.Y}, {bo.Y, bo.X}} {
					cst, isC := pair[1].(*ssa.Const)
					if !isC || cst.Value == nil {
						continue
					}
					str := cst.Value.ExactString()
					if str != "9007199254740991" && str != "-9007199254740991" && str != "9007199254740992" && str != "-9007199254740992" {
						continue
					}
					n++
					op := pair[0]
					okOp := isGjsonField(op, "Num")
					if cl, _ := fw.CallOf(op); cl != nil && fw.CalleeName(cl) == "(github.com/tidwall/gjson.Result).Float" {
						okOp = true
					}
					c.Check(okOp, rule, fw.FuncName(fn)+": the safe-integer range is tested on the number's float value", c.P.Pos(bo.Pos()), "", "the range bound "+str+" is compared with "+fw.Sig(op)+", not with gjson's Num/Float(): Int()/Uint() wrap for literals beyond 64 bits, so out-of-range integers pass")
				}
			}
		}
	}
	c.Min(rule+" comparisons with the safe-integer bounds", n, 2)
}

func isByteSeq(t types.Type) bool {
	switch u := t.Underlying().(type) {
	case *types.Basic:
		return u.Info()&types.IsString != 0
	case *types.Slice:
		b, ok := u.Elem().Underlying().(*types.Basic)
		return ok && b.Kind() == types.Byte
	}
	return false
}

// checkKeyComparator: the comparator passed to the sort compares, with strings.Compare, the
// same field of both elements, and that field only ever holds the decoded key.
func checkKeyComparator(c *fw.Ctx, fn *ssa.Function, fam []*ssa.Function, call ssa.CallInstruction) {
	rule := "5 key-order"
	args := call.Common().Args
	var cmp *ssa.Function
	switch x := args[len(args)-1].(type) {
	case *ssa.Function:
		cmp = x
	case *ssa.MakeClosure:
		cmp, _ = x.Fn.(*ssa.Function)
	}
	construct := fw.FuncName(fn) + ": object keys are ordered by strings.Compare on the decoded key"
	if cmp == nil {
		c.Undecided(rule, construct, "comparator is not a function literal")
		return
	}
	var cmpCall ssa.CallInstruction
	for _, cc := range fw.Calls(cmp) {
		if n := fw.CalleeName(cc); n == "strings.Compare" || n == "bytes.Compare" || n == "cmp.Compare[string]" {
			cmpCall = cc
		}
	}
	rets := fw.Returns(cmp)
	if cmpCall == nil || len(rets) != 1 || rets[0].Results[0] != cmpCall.Value() {
		c.Undecided(rule, construct, "the comparator is not a single strings.Compare / bytes.Compare / cmp.Compare call on the two keys: its order was not examined")
		return
	}
	a, b := cmpCall.Common().Args[0], cmpCall.Common().Args[1]
	fa, fb := loadedField(a), loadedField(b)
	if fa != nil && fb != nil && fa.Field != fb.Field {
		c.Fail(rule, construct, c.P.Pos(cmpCall.Pos()), "the comparator does not compare the same field of both entries")
		return
	}
	// what each operand is: the decoded key (gjson String()), the raw key text, or unknown.
	// A field of the entries is what is stored into it anywhere in the family.
	isRaw := func(v ssa.Value) bool { return isGjsonField(v, "Raw") }
	kind := func(v ssa.Value) string {
		vals := []ssa.Value{v}
		if f := loadedField(v); f != nil {
			if st := derefStructOf(f.X.Type()); st != nil {
				vals = fw.StoresToField(fam, st, f.Field)
			}
			if len(vals) == 0 {
				return "unknown"
			}
		}
		res := "decoded"
		for _, x := range vals {
			switch {
			case gjsonDecoded(x) || fw.Derives3(x, fw.FlowSpec{IsSource: gjsonDecoded, All: true, Family: fam}) == fw.Yes:
			case fw.Derives3(x, fw.FlowSpec{IsSource: isRaw, Family: fam, Arith: true, Through: func(cc ssa.CallInstruction) []int {
				if cc.Common().StaticCallee() != nil && cc.Common().StaticCallee().Pkg != nil && strings.HasPrefix(cc.Common().StaticCallee().Pkg.Pkg.Path(), "strings") {
					return []int{0}
				}
				return nil
			}}) == fw.Yes && fw.Derives3(x, fw.FlowSpec{IsSource: gjsonDecoded, Family: fam}) != fw.Yes:
				return "raw"
			default:
				res = "unknown"
			}
		}
		return res
	}
	ka, kb := kind(a), kind(b)
	switch {
	case ka == "raw" || kb == "raw":
		name := "the compared value"
		if fa != nil {
			if st := derefStructOf(fa.X.Type()); st != nil {
				name = st.Field(fa.Field).Name()
			}
		}
		c.Fail(rule, construct, c.P.Pos(cmpCall.Pos()), fmt.Sprintf("the field the comparator sorts on (%s) is not the decoded key (gjson String()) but the raw key text: keys whose raw spelling contains escapes sort by the backslash instead of the code point they denote", name))
		return
	case ka != "decoded" || kb != "decoded":
		c.Undecided(rule, construct, "what the comparator compares ("+fw.Sig(a)+" with "+fw.Sig(b)+") could not be traced to the decoded or the raw key")
		return
	}
	// operands are (a, b) in order: first param vs second param => ascending
	if fa != nil && fb != nil {
		pa, pb := rootParam(fa.X), rootParam(fb.X)
		if pa != nil && pb != nil && len(cmp.Params) == 2 && pa == cmp.Params[1] && pb == cmp.Params[0] && pa != pb {
			c.Fail(rule, construct, c.P.Pos(cmpCall.Pos()), "the comparator compares (b, a): descending order")
			return
		}
		if pa == nil || pb == nil || len(cmp.Params) != 2 || pa != cmp.Params[0] || pb != cmp.Params[1] {
			c.Undecided(rule, construct, "the operands of the comparison could not be matched with the comparator's parameters")
			return
		}
	} else {
		c.Undecided(rule, construct, "the operands of the comparison are not fields of the two entries")
		return
	}
	c.Ok(rule, construct, c.P.Pos(cmpCall.Pos()), "strings.Compare(a.f, b.f), field holds gjson String()")
}

func derefStructOf(t types.Type) *types.Struct {
	if p, ok := t.Underlying().(*types.Pointer); ok {
		t = p.Elem()
	}
	st, _ := t.Underlying().(*types.Struct)
	return st
}

func loadedField(v ssa.Value) *ssa.FieldAddr {
	if u, ok := v.(*ssa.UnOp); ok && u.Op == token.MUL {
		if fa, ok := u.X.(*ssa.FieldAddr); ok {
			return fa
		}
	}
	return nil
}

// rootParam: the parameter a spilled local (`t0 = local T (a); *t0 = a`) was initialised from.
func rootParam(v ssa.Value) *ssa.Parameter {
	switch x := v.(type) {
	case *ssa.Parameter:
		return x
	case *ssa.Alloc:
		for _, ref := range *x.Referrers() {
			if st, ok := ref.(*ssa.Store); ok && st.Addr == x {
				if p, ok := st.Val.(*ssa.Parameter); ok {
					return p
				}
			}
		}
	}
	return nil
}

// checkEnforceFlag: in the enforcement function, the verdict flag captured by the visitor is
// initialised true, only ever assigned the constant false afterwards, and nil is returned
// only when it is still true.
func checkEnforceFlag(c *fw.Ctx) {
	rule := "6 enforcement-flag"
	t := loadVersionTable(c, rule)
	if t == nil {
		return
	}
	short := t.cell("6", "canonicalJSONCheck")
	fn := fnByShortName(c.P, short)
	if fn == nil {
		c.Undecided(rule, "enforcement function", short+" not found")
		return
	}
	c.SawFn(short)
	checkRangeOperand(c, fn)
	checkNumericPredicate(c, fn)
	// verdict flags: booleans of the enforcement function (or of an unexported helper it calls,
	// e.g. a recursive visitor) that are captured by a visitor closure
	nflags := 0
	for _, host := range fw.RegionOf(fn, nil) {
		if host.Parent() != nil {
			continue
		}
		fam := fw.FamilyOf(host)
		var flags []*ssa.Alloc
		for _, b := range host.Blocks {
			for _, ins := range b.Instrs {
				if a, ok := ins.(*ssa.Alloc); ok && a.Heap {
					if bt, ok := a.Type().Underlying().(*types.Pointer).Elem().Underlying().(*types.Basic); ok && bt.Kind() == types.Bool {
						flags = append(flags, a)
					}
				}
			}
		}
		for _, flag := range flags {
			nflags++
			name := fw.FuncName(host) + ": verdict flag " + flag.Comment
			// stores in closures (through FreeVars bound to flag)
			bad, computed := 0, 0
			for _, f := range fam {
				if f == host {
					continue // initialisation / use in the outer function
				}
				for _, b := range f.Blocks {
					for _, ins := range b.Instrs {
						st, ok := ins.(*ssa.Store)
						if !ok || !refersTo(st.Addr, flag, f) {
							continue
						}
						if _, isC := st.Val.(*ssa.Const); isC {
							continue // a constant verdict (lowering, or raising `found`)
						}
						computed++
						// a computed verdict overwrites the previous one: harmless only if the visitor
						// stops as soon as the verdict is bad, i.e. what it returns depends on the flag
						stops := true
						for _, r := range fw.Returns(f) {
							if !reachesInstr(st, r) {
								continue
							}
							for _, res := range r.Results {
								if _, isC := fw.LoadOrigin(res).(*ssa.Const); isC {
									stops = false
								}
							}
						}
						if !stops {
							bad++
							c.Fail(rule, name+" is never overwritten by a later, better verdict", c.P.Pos(fw.InstrPos(st)), "the visitor assigns a computed value to the verdict flag and keeps iterating (it returns a constant): a later acceptable sibling overwrites an earlier rejection (e.g. {\"a\":[1.5],\"b\":[1]})")
						}
					}
				}
			}
			// with a computed verdict, a visitor that re-enters the traversal (nested ForEach, recursion)
			// and then carries on regardless lets a later sibling overwrite what the nested traversal found
			if computed > 0 {
				for _, f := range fam {
					if f == host {
						continue
					}
					for _, call := range fw.Calls(f) {
						n := fw.CalleeName(call)
						reenters := strings.HasSuffix(n, ".ForEach")
						if callee := call.Common().StaticCallee(); callee != nil {
							for _, m := range fam {
								if callee == m {
									reenters = true
								}
							}
						}
						if !reenters {
							continue
						}
						for _, r := range fw.Returns(f) {
							if !reachesInstr(call.(ssa.Instruction), r) {
								continue
							}
							for _, res := range r.Results {
								if cst, isC := fw.LoadOrigin(res).(*ssa.Const); isC && cst.Value != nil && cst.Value.String() == "true" {
									bad++
									c.Fail(rule, name+" is never overwritten by a later, better verdict", c.P.Pos(fw.InstrPos(r)), "the verdict is a computed value, and after a nested traversal the visitor continues unconditionally (returns true): a bad number nested in an earlier container is forgotten when a later sibling is acceptable")
								}
							}
						}
					}
				}
			}
			if bad == 0 {
				c.Ok(rule, name+" is never overwritten by a later, better verdict", c.P.Pos(flag.Pos()), "")
			}
		}
		// success <= flag true (the flag idiom of the enforcement function itself)
		if host == fn && len(flags) > 0 {
			g := fw.GuardCond("verdict flag still true", func(v ssa.Value) (bool, bool) {
				u, ok := v.(*ssa.UnOp)
				if !ok || u.Op != token.MUL {
					return false, false
				}
				for _, fl := range flags {
					if u.X == ssa.Value(fl) {
						return true, true
					}
				}
				return false, false
			})
			c.CheckGate(rule, fn, short, g, fw.ErrNilSuccess(fn, fw.ErrIndex(fn), nil))
		}
	}
	if nflags == 0 {
		c.Undecided(rule, short+": verdict flag", "no captured boolean verdict flag found; the visitor idiom changed and the monotonicity rule cannot be evaluated")
	}
}

// refersTo: addr is the alloc itself (in its own function) or the FreeVar bound to it in closure f.
func refersTo(addr ssa.Value, alloc *ssa.Alloc, f *ssa.Function) bool {
	if addr == ssa.Value(alloc) {
		return true
	}
	fv, ok := addr.(*ssa.FreeVar)
	if !ok {
		return false
	}
	// find the MakeClosure that created f and check the binding
	parent := f.Parent()
	if parent == nil {
		return false
	}
	idx := -1
	for i, x := range f.FreeVars {
		if x == fv {
			idx = i
		}
	}
	if idx < 0 {
		return false
	}
	for _, b := range parent.Blocks {
		for _, ins := range b.Instrs {
			if mc, ok := ins.(*ssa.MakeClosure); ok && mc.Fn == ssa.Value(f) && idx < len(mc.Bindings) {
				if refersTo(mc.Bindings[idx], alloc, parent) {
					return true
				}
			}
		}
	}
	return false
}

// checkMinusSign: CompactJSON drops the '-' of the number -0. Whether a '-' followed by '0' is
// that number cannot be decided from those two bytes alone ("-0.5", "1e-05"): on the way from
// the test for '-' to the point where the sign is skipped (no byte appended, back to the
// scanning loop) at least one more input byte must be examined, directly or by a helper that
// is given the input.
func checkMinusSign(c *fw.Ctx) {
	rule := "8 minus-sign"
	fn := mustFunc(c, rule, "CompactJSON")
	if fn == nil {
		return
	}
	isInputByte := func(v ssa.Value) (idx ssa.Value, ok bool) {
		u, isU := fw.Unwrap(v).(*ssa.UnOp)
		if !isU {
			return nil, false
		}
		ia, isIA := u.X.(*ssa.IndexAddr)
		if !isIA {
			return nil, false
		}
		if p, isP := ia.X.(*ssa.Parameter); isP && p == fn.Params[0] {
			return ia.Index, true
		}
		return nil, false
	}
	n := 0
	for _, iff := range fw.Ifs(fn) {
		bo, isB := iff.Cond.(*ssa.BinOp)
		if !isB || bo.Op != token.EQL {
			continue
		}
		if k, isC := fw.ConstInt(bo.Y); !isC || k != '-' {
			continue
		}
		if _, ok := isInputByte(bo.X); !ok {
			continue
		}
		n++
		// blocks reachable from the '-' edge without appending, up to the loop header
		header, _ := fw.LoopOf(iff.Block())
		seen := map[*ssa.BasicBlock]bool{}
		work := []*ssa.BasicBlock{iff.Block().Succs[0]}
		idxs := map[ssa.Value]bool{}
		helper := false
		skips := false
		for len(work) > 0 {
			b := work[len(work)-1]
			work = work[:len(work)-1]
			if seen[b] || b == iff.Block() {
				continue
			}
			if b == header {
				skips = true
				continue
			}
			seen[b] = true
			appends := false
			for _, ins := range b.Instrs {
				if call, ok := ins.(ssa.CallInstruction); ok {
					if fw.CalleeName(call) == "builtin.append" {
						appends = true
					}
					for _, a := range call.Common().Args {
						if a == ssa.Value(fn.Params[0]) && fw.CalleeName(call) != "builtin.len" {
							helper = true
						}
					}
				}
			}
			if appends {
				continue // the sign (or something else) is emitted on this path: not the skip
			}
			if i2, ok := fw.LastIf(b); ok {
				if b2, isB2 := i2.Cond.(*ssa.BinOp); isB2 {
					for _, opnd := range []ssa.Value{b2.X, b2.Y} {
						if ix, ok := isInputByte(opnd); ok {
							idxs[ix] = true
						}
					}
				}
			}
			work = append(work, b.Succs...)
		}
		if !skips {
			c.Ok(rule, "CompactJSON: the sign of a number is never dropped", c.P.Pos(fw.InstrPos(iff)), "no path from the '-' test back to the scanner that emits nothing")
			continue
		}
		c.Check(helper || len(idxs) >= 2, rule, "CompactJSON: a '-' is dropped only after looking beyond the following '0'", c.P.Pos(fw.InstrPos(iff)), "", fmt.Sprintf("the sign is skipped after examining %d input byte(s) after it: \"-0.5\" becomes \"0.5\" and \"1e-05\" becomes \"1e05\" (the value changes)", len(idxs)))
	}
	c.Min(rule+" tests for '-' in CompactJSON", n, 1)
}

// checkMinusHelper: when the decision "this '-' is the sign of the number -0" lives in a helper
// whose conditions are plain byte comparisons at fixed offsets from its index parameter, its
// decision table is compared with the JSON number grammar over every class of the byte that
// follows the zero and of the byte before the sign. Any other shape is left undecided.
func checkMinusHelper(c *fw.Ctx) {
	rule := "8 minus-sign"
	fn := c.P.Func("CompactJSON")
	if fn == nil {
		return
	}
	var helper *ssa.Function
	for _, call := range fw.Calls(fn) {
		cc, ok := call.(*ssa.Call)
		if !ok {
			continue
		}
		h := fw.Followable(cc, nil)
		if h == nil || h.Signature.Results().Len() != 1 || len(h.Params) != 2 {
			continue
		}
		if b, isB := h.Signature.Results().At(0).Type().Underlying().(*types.Basic); !isB || b.Kind() != types.Bool {
			continue
		}
		if len(cc.Call.Args) == 2 && cc.Call.Args[0] == ssa.Value(fn.Params[0]) {
			helper = h
		}
	}
	if helper == nil {
		return
	}
	in, ix := "param:"+helper.Params[0].Name(), "param:"+helper.Params[1].Name()
	next, prev := "*"+in+"[("+ix+" + 1)]", "*"+in+"[("+ix+" - 2)]"
	nextClasses := []string{",", "]", "}", " ", "\t", "\n", "\r", ".", "e", "E", "EOF"}
	prevClasses := []string{"e", "E", ":", "[", ",", " ", "NONE"}
	ip := &interp{match: func(atom string, a asg) (bool, bool) {
		if l, r, ok := parseEq(atom); ok {
			n, isNum := 0, false
			if _, err := fmt.Sscanf(r, "%d", &n); err == nil {
				isNum = true
			}
			if isNum && l == next {
				return a["next"] != "EOF" && a["next"] == string(rune(n)), true
			}
			if isNum && l == prev {
				return a["prev"] != "NONE" && a["prev"] == string(rune(n)), true
			}
		}
		switch atom {
		case "((" + ix + " + 1) < builtin.len(" + in + "))":
			return a["next"] != "EOF", true
		case "(" + ix + " >= 2)":
			return a["prev"] != "NONE", true
		case "(builtin.len(" + in + ") <= (" + ix + " + 1))", "((" + ix + " + 1) >= builtin.len(" + in + "))":
			return a["next"] == "EOF", true
		case "(" + ix + " < 2)":
			return a["prev"] == "NONE", true
		}
		return false, false
	}}
	// pre-flight: every atom must be understood, otherwise leave the helper undecided
	t, err := fw.ExtractTable(helper, 0)
	if err != nil {
		return
	}
	env0 := ip.env(asg{"next": ",", "prev": ":"})
	for _, atom := range t.Atoms() {
		if _, ok := env0(atom); !ok {
			c.Undecided(rule, fw.FuncName(helper)+": decision table over the neighbouring bytes", "condition not understood: "+atom)
			return
		}
	}
	compareTable(c, rule, fw.FuncName(helper)+": the sign is dropped exactly for the literal -0 (not before a fraction or exponent, not as an exponent sign)", helper, 0,
		[]tvar{{"next", nextClasses}, {"prev", prevClasses}}, ip,
		func(a asg) string {
			if a["prev"] == "e" || a["prev"] == "E" {
				return "value:false"
			}
			switch a["next"] {
			case ".", "e", "E":
				return "value:false"
			}
			return "value:true"
		}, nil)
}
