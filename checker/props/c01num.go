package props

import (
	"regexp"
	"strconv"
	"strings"

	"gmslverif/fw"

	"golang.org/x/tools/go/ssa"
)

var (
	reRawSearch = regexp.MustCompile(`^strings\.(ContainsAny|ContainsRune|Contains)\((.*)\.Raw,(.*)\)$`)
	reTypeEq    = regexp.MustCompile(`^\((.*)\.Type == (\d+)\)$`)
	reNumCmp    = regexp.MustCompile(`^\((.*)\.Num (<|>|<=|>=|==) (-?\d+)\)$`)
	reRawEq     = regexp.MustCompile(`^\((.*)\.Raw == "(.*)"\)$`)
)

// numericVisitors: functions of the enforcement routine's region that take a gjson.Result and
// compare its Num field (the per-value visitor, whatever it is called).
func numericVisitors(fn *ssa.Function) []*ssa.Function {
	var out []*ssa.Function
	for _, f := range fw.RegionOf(fn, nil) {
		hasRes := false
		for _, p := range f.Params {
			if strings.HasSuffix(p.Type().String(), "gjson.Result") {
				hasRes = true
			}
		}
		if !hasRes || f.Signature.Results().Len() == 0 {
			continue
		}
		out = append(out, f)
	}
	return out
}

// checkNumericPredicate (rule 9): which number tokens the enforcement visitor refuses, as a
// decision table over the token's lexical features. The specification: a number is acceptable
// iff it is an integer literal (no fraction, no exponent - whatever its value), is not "-0",
// and lies within +/-(2^53-1). The polarity of the visitor's result (which outcome means
// "refused") is read off the out-of-range row, so the rule does not depend on how the visitor
// reports its verdict.
func checkNumericPredicate(c *fw.Ctx, fn *ssa.Function) {
	rule := "9 numeric-predicate"
	what := "a number token is refused iff it has a fraction, an exponent, is -0 or is out of range"
	var vis *ssa.Function
	var tbl *fw.Table
	for _, f := range numericVisitors(fn) {
		t, err := fw.ExtractTable(f, 0)
		if err != nil {
			continue
		}
		for _, a := range t.Atoms() {
			if m := reNumCmp.FindStringSubmatch(a); m != nil && m[3] == "9007199254740991" {
				vis, tbl = f, t
			}
		}
	}
	if vis == nil {
		c.Undecided(rule, what, "no visitor comparing gjson's Num with 9007199254740991 was recognised")
		return
	}
	// a predicate that ends in `return raw != "-0"` returns a computed boolean: split such rows
	// into their two outcomes before the polarity is read off
	tbl.SplitBoolValues(func(atom string) bool {
		return reRawEq.MatchString(atom) || reNumCmp.MatchString(atom) || reRawSearch.MatchString(atom)
	})
	// polarity: the outcome of the rows that require Num > 2^53-1
	bad := ""
	outcomes := map[string]bool{}
	for _, r := range tbl.Rows {
		outcomes[r.Outcome] = true
		for _, term := range r.Cond {
			for _, l := range term {
				if m := reNumCmp.FindStringSubmatch(l.Atom); m != nil && m[2] == ">" && m[3] == "9007199254740991" && l.Pos {
					if bad != "" && bad != r.Outcome {
						c.Undecided(rule, what, "the out-of-range rows have different outcomes")
						return
					}
					bad = r.Outcome
				}
			}
		}
	}
	if bad == "" || len(outcomes) != 2 {
		c.Undecided(rule, what, "the visitor's outcomes could not be classified ("+strings.Join(sortedSet(outcomes), ", ")+")")
		return
	}
	good := ""
	for o := range outcomes {
		if o != bad {
			good = o
		}
	}
	vars := []tvar{
		{"kind", []string{"number", "array", "object", "other"}},
		{"lo", tf}, {"hi", tf}, {"zero", tf}, {"dot", tf}, {"e", tf}, {"E", tf}, {"negzero", tf},
	}
	has := func(a asg, chars string) (bool, bool) {
		// does the token contain one of chars? decided when chars only holds markers the domain knows
		res := false
		for _, ch := range chars {
			switch ch {
			case '.':
				res = res || a["dot"] == "true"
			case 'e':
				res = res || a["e"] == "true"
			case 'E':
				res = res || a["E"] == "true"
			default:
				return false, false
			}
		}
		return res, true
	}
	ip := &interp{match: func(atom string, a asg) (bool, bool) {
		switch {
		case strings.Contains(atom, "gjson.Result).IsArray("):
			return a["kind"] == "array", true
		case strings.Contains(atom, "gjson.Result).IsObject("):
			return a["kind"] == "object", true
		}
		if m := reTypeEq.FindStringSubmatch(atom); m != nil {
			switch m[2] {
			case "2":
				return a["kind"] == "number", true
			case "5":
				return a["kind"] == "array" || a["kind"] == "object", true
			}
			return false, false
		}
		if m := reNumCmp.FindStringSubmatch(atom); m != nil {
			switch {
			case m[3] == "-9007199254740991" && m[2] == "<":
				return a["lo"] == "true", true
			case m[3] == "9007199254740991" && m[2] == ">":
				return a["hi"] == "true", true
			case m[3] == "0" && m[2] == "==":
				return a["zero"] == "true", true
			}
			return false, false
		}
		if m := reRawEq.FindStringSubmatch(atom); m != nil && m[2] == "-0" {
			return a["negzero"] == "true", true
		}
		if m := reRawSearch.FindStringSubmatch(atom); m != nil {
			arg := m[3]
			switch m[1] {
			case "ContainsRune":
				n, err := strconv.Atoi(arg)
				if err != nil {
					return false, false
				}
				return has(a, string(rune(n)))
			case "ContainsAny":
				s, err := strconv.Unquote(arg)
				if err != nil {
					return false, false
				}
				return has(a, s)
			case "Contains":
				s, err := strconv.Unquote(arg)
				if err != nil || len(s) != 1 {
					return false, false
				}
				return has(a, s)
			}
		}
		return false, false
	}}
	compareTable(c, rule, what, vis, 0, vars, ip, func(a asg) string {
		if a["kind"] != "number" {
			return "" // containers are traversed (rule 6), other scalars carry no number
		}
		marker := a["dot"] == "true" || a["e"] == "true" || a["E"] == "true"
		// infeasible combinations of lexical features
		if a["lo"] == "true" && a["hi"] == "true" {
			return ""
		}
		if a["zero"] == "true" && (a["lo"] == "true" || a["hi"] == "true") {
			return ""
		}
		if a["negzero"] == "true" && (a["zero"] != "true" || marker) {
			return ""
		}
		if marker || a["negzero"] == "true" || a["lo"] == "true" || a["hi"] == "true" {
			return bad
		}
		return good
	}, nil)
}
