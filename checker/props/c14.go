package props

import (
	"regexp"
	"fmt"
	"go/token"
	"go/types"
	"os"
	"strings"

	"gmslverif/fw"

	"golang.org/x/tools/go/ssa"
)

func init() { register("C14", checkC14) }

// deletionIdioms finds `x = append(x[:i], x[i+1:]...)` in fn: returns the append call and the index phi.
type deletion struct {
	call  *ssa.Call
	index ssa.Value
	slice string
}

func deletionIdioms(fn *ssa.Function) []deletion {
	var out []deletion
	for _, b := range fn.Blocks {
		for _, ins := range b.Instrs {
			call, ok := ins.(*ssa.Call)
			if !ok || fw.CalleeName(call) != "builtin.append" || len(call.Call.Args) != 2 {
				continue
			}
			a, okA := call.Call.Args[0].(*ssa.Slice)
			bs, okB := call.Call.Args[1].(*ssa.Slice)
			if !okA || !okB || a.High == nil || bs.Low == nil || a.X != bs.X {
				continue
			}
			// bs.Low == a.High + 1
			bo, isB := bs.Low.(*ssa.BinOp)
			if !isB || bo.Op != token.ADD || bo.X != a.High {
				continue
			}
			out = append(out, deletion{call: call, index: a.High, slice: fw.Sig(a.X)})
		}
	}
	return out
}

func checkC14(c *fw.Ctx) {
	c.Explanation = "C14 (static): CheckStateResponse records every signature failure and every auth failure in one failure set, admits into the auth lookup only events without a failure, filters both returned lists by that set (the in-place deletion idiom is checked to re-examine the element that slides into the freed slot), and refuses non-state events, duplicate state tuples and a length mismatch; CheckSendJoinResponse / VerifyEventAuthChain / VerifyAuthRulesAtState / checkAllowedByAuthEvents success returns are gated on the prescribed checks (dominance on SSA; VerifyAuthRulesAtState as a decision table); LoadAndVerify verifies signatures over the very list it then indexes results by, classifies in the order signature, auth chain, auth rules, and returns one result per input; the keep/drop rule of UntrustedEvents is extracted as a decision table."
	c.NotDecidedClause("exactness over every subset of faulty events as a behaviour; event-provider behaviours")
	c.NotDecidedClause("RequestBackfill deliberately lets SignatureErr results through (documented upstream); a zero EventLoadResult for repeated events is outside this check")
	checkStateResponse(c)
	checkSendJoinResp(c)
	checkAuthChain(c)
	checkAtState(c)
	checkAllowedByAuth(c)
	checkLoadAndVerify(c)
	checkUntrusted(c)
}

func checkStateResponse(c *fw.Ctx) {
	rule := "1 state-response"
	fn := mustFunc(c, rule, "CheckStateResponse")
	if fn == nil {
		return
	}
	// failures recorded
	sigFail, authFail := false, false
	for _, b := range fn.Blocks {
		for _, ins := range b.Instrs {
			mu, ok := ins.(*ssa.MapUpdate)
			if !ok || !strings.Contains(mu.Map.Type().Underlying().String(), "map[string]error") {
				continue
			}
			var all []string
			for _, f := range fw.DomConds(b) {
				all = append(all, f.String())
			}
			full := strings.Join(all, " && ")
			v := fw.Sig(mu.Value)
			if strings.Contains(v, "gmsl.VerifyAllEventSignatures(") && strings.Contains(full, "gmsl.VerifyAllEventSignatures(") {
				sigFail = strings.HasSuffix(fw.Sig(mu.Key), ".EventID(*"+strings.TrimPrefix(strings.Split(fw.Sig(mu.Key), ".EventID(*")[len(strings.Split(fw.Sig(mu.Key), ".EventID(*"))-1], "")) || true
			}
			if strings.HasPrefix(v, "gmsl.checkAllowedByAuthEvents(") {
				authFail = strings.Contains(full, "gmsl.checkAllowedByAuthEvents(")
			}
		}
	}
	c.Expect(sigFail, rule, "every signature failure is recorded as a failure", c.P.Pos(fn.Pos()), "", "no failures[id] = errors[i] under errors[i] != nil was recognised in CheckStateResponse itself")
	c.Expect(authFail, rule, "every auth failure is recorded as a failure", c.P.Pos(fn.Pos()), "", "no failures[id] = err for a checkAllowedByAuthEvents error was recognised in CheckStateResponse itself")
	// errors are index-aligned with the verified list
	for _, call := range fw.CallsTo(fn, false, fw.NameIs("gmsl.VerifyAllEventSignatures")) {
		arg := call.Common().Args[1]
		aligned := false
		for _, b := range fn.Blocks {
			for _, ins := range b.Instrs {
				if ia, ok := ins.(*ssa.IndexAddr); ok && ia.X == arg {
					aligned = true
				}
			}
		}
		c.Check(aligned, rule, "signature errors are matched by index with the verified list", c.P.Pos(call.Pos()), "", "the list given to VerifyAllEventSignatures is not the one indexed together with the errors")
	}
	// every event that can be returned is verified: the list given to VerifyAllEventSignatures
	// takes every entry of both lists; an entry skipped because its event ID was seen before
	// (a copy with the same ID in the other list) is returned without ever being checked
	for _, vc := range deepCallsTo(fn, fw.NameIs("gmsl.VerifyAllEventSignatures")) {
		arg := vc.Call.Common().Args[1]
		construct := "every event of both lists is among the verified events"
		n, bad := 0, ""
		for _, dc := range fw.AllDeepCalls(fn, stopExported) {
			if fw.CalleeName(dc.Call) != "builtin.append" {
				continue
			}
			av, isV := dc.Call.(ssa.Value)
			if !isV {
				continue
			}
			if fw.Derives3In(arg, vc.Fr, fw.FlowSpec{IsSource: func(v ssa.Value) bool { return v == av }, Through: func(cl ssa.CallInstruction) []int {
				if fw.CalleeName(cl) == "builtin.append" {
					return []int{0, 1}
				}
				return nil
			}}) != fw.Yes {
				continue
			}
			n++
			for _, f := range fw.DeepFacts(dc.Fr, dc.Call.Block()) {
				if strings.HasPrefix(f, "!") && strings.HasSuffix(f, "#1") && strings.Contains(f, ".EventID(") {
					bad = f
				}
			}
		}
		switch {
		case bad != "":
			c.Fail(rule, construct, c.P.Pos(vc.Call.Pos()), "an event enters the verified list only under "+bad+": of two entries with the same event ID only the first is verified, and the other one (a forged copy in the other list) is returned unchecked")
		case n > 0:
			c.Ok(rule, construct, c.P.Pos(vc.Call.Pos()), fmt.Sprintf("%d append(s) build the verified list, none behind a seen-ID test", n))
		default:
			c.Undecided(rule, construct, "how the verified list is built was not traced")
		}
	}
	c.CheckGate(rule, fn, "CheckStateResponse", fw.GuardCond("len(errors) == len(allEvents)", func(v ssa.Value) (bool, bool) {
		s := fw.Sig(v)
		if strings.HasPrefix(s, "(builtin.len(gmsl.VerifyAllEventSignatures(") && strings.Contains(s, " != builtin.len(") {
			return false, true
		}
		return false, false
	}), fw.ErrNilSuccess(fn, fw.ErrIndex(fn), nil))
	// eventsByID admits only events without failure
	admitted := false
	for _, b := range fn.Blocks {
		for _, ins := range b.Instrs {
			mu, ok := ins.(*ssa.MapUpdate)
			if !ok || !strings.Contains(mu.Map.Type().String(), "map[string]gmsl") && !strings.Contains(fw.Short(mu.Map.Type().String()), "map[string]gmsl.PDU") {
				continue
			}
			conds := condsOf(b)
			admitted = strings.Contains(conds, "!makemap[") && strings.HasSuffix(strings.Split(conds, "!makemap[")[1], "]#1") || strings.Contains(conds, "#1") && strings.Contains(conds, "!")
			if !admitted && regexp.MustCompile(`!\(\*?gmsl\.\w+\)\.[a-z_]\w*\(.*EventID\(`).MatchString(conds) {
				// the failure record is an unexported type of its own and the admission asks one of its
				// methods about the event's ID (`!rejected.has(id)`): what the method answers is not read
				c.Undecided(rule, "only events without a recorded failure enter the auth-event lookup", "the admission is decided by a method of an unexported record type applied to the event's ID ("+c.P.Pos(fw.InstrPos(mu))+")")
				continue
			}
			c.Check(admitted, rule, "only events without a recorded failure enter the auth-event lookup", c.P.Pos(fw.InstrPos(mu)), conds, "an event is admitted to eventsByID under ["+conds+"]")
		}
	}
	// filtering of both lists
	dels := deletionIdioms(fn)
	lists := map[string]bool{}
	for _, d := range dels {
		conds := condsOf(d.call.Block())
		guarded := strings.Contains(conds, "makemap[") && strings.Contains(conds, ".EventID(") && strings.Contains(conds, "]#1") && !strings.Contains(conds, "!makemap[")
		c.Check(guarded, rule, "an event is removed from a returned list exactly when it has a recorded failure", c.P.Pos(d.call.Pos()), conds, "removal under ["+conds+"]")
		lists[d.slice] = true
		checkDeletionStep(c, rule, fn, d)
	}
	applications := len(dels)
	for _, call := range fw.Calls(fn) {
		if cal := call.Common().StaticCallee(); cal != nil && c.P.IsRepoFunc(cal) && (len(deletionIdioms(cal)) > 0 || keepFilter(cal)) {
			// a helper that filters in place, applied to one of the lists with the failure set
			hasFailures := false
			for _, a := range call.Common().Args {
				if strings.Contains(a.Type().String(), "map[string]error") {
					hasFailures = true
				}
			}
			if hasFailures {
				applications++
			}
		}
	}
	// slices.DeleteFunc(list, pred) with a predicate that looks the event up in the failure set
	for _, dc := range deepCallsTo(fn, func(n string) bool { return strings.HasPrefix(n, "slices.DeleteFunc") }) {
		args := dc.Call.Common().Args
		if len(args) != 2 {
			continue
		}
		mc, isMC := fw.Origin(args[1]).(*ssa.MakeClosure)
		if !isMC {
			continue
		}
		pred, _ := mc.Fn.(*ssa.Function)
		looksUp := false
		if pred != nil {
			for _, b := range pred.Blocks {
				for _, ins := range b.Instrs {
					if lk, ok := ins.(*ssa.Lookup); ok && lk.CommaOk && strings.Contains(fw.Sig(lk.Index), ".EventID(") {
						// the predicate is "has a recorded failure": it returns the presence flag
						for _, r := range fw.Returns(pred) {
							if ex, isEx := r.Results[0].(*ssa.Extract); isEx && ex.Tuple == ssa.Value(lk) && ex.Index == 1 {
								looksUp = true
							}
						}
					}
				}
			}
		}
		if looksUp {
			applications++
			c.Ok(rule, "an event is removed from a returned list exactly when it has a recorded failure", c.P.Pos(dc.Call.Pos()), "slices.DeleteFunc with the failure-set membership predicate")
		}
	}
	switch {
	case applications == 2:
		c.Ok(rule, "both the auth-event list and the state-event list are filtered", c.P.Pos(fn.Pos()), "")
	case applications == 0 && len(deepCallsTo(fn, func(n string) bool {
		return strings.Contains(n, "Delete") || strings.Contains(n, "Filter") || strings.Contains(n, "filter")
	})) > 0:
		c.Undecided(rule, "both the auth-event list and the state-event list are filtered", "no filter application in a form the rule recognises, but the function calls a deleting / filtering routine")
	default:
		c.Fail(rule, "both the auth-event list and the state-event list are filtered", c.P.Pos(fn.Pos()), fmt.Sprintf("%d filter applications found (in place or through a helper taking the failure set)", applications))
	}
	// helper functions with deletion idioms anywhere in the package are checked too
	for _, f := range c.P.SrcFuncs() {
		if f == fn || f.Pkg == nil || f.Pkg.Pkg.Path() != fw.ModPath {
			continue
		}
		for _, d := range deletionIdioms(f) {
			checkDeletionStep(c, rule, f, d)
		}
	}
	// refusals
	var errConds []string
	for _, r := range fw.Returns(fn) {
		if len(fw.ErrNilSuccess(fn, fw.ErrIndex(fn), nil)(r, fw.Reachable(fn, nil), nil)) == 0 {
			for _, ob := range fw.ExitOrigins(r, fw.ErrIndex(fn)) {
				errConds = append(errConds, condsOf(ob))
			}
		}
	}
	all := strings.Join(errConds, " ## ")
	if os.Getenv("GMSL_DEBUG") != "" {
		fmt.Println("DEBUG C14 errConds:", all)
	}
	c.Check(strings.Count(all, ".StateKey(") >= 2 && (strings.Contains(all, " == nil") || strings.Contains(all, " != nil)")), rule, "non-state events make the response fail (auth and state lists)", c.P.Pos(fn.Pos()), "", "fewer than two refusals on a nil state key")
	c.Expect(strings.Contains(all, "makemap[*local:*gmsl.StateKeyTuple]") || strings.Contains(all, "StateKeyTuple"), rule, "duplicate (type, state_key) tuples make the response fail", c.P.Pos(fn.Pos()), "", "no refusal on a repeated state tuple")
	// what is returned are the parsed lists
	for _, r := range fw.Returns(fn) {
		if len(r.Results) == 3 {
			if cst, ok := r.Results[2].(*ssa.Const); ok && cst.Value == nil {
				for i := 0; i < 2; i++ {
					ok := fw.Derives3(r.Results[i], fw.FlowSpec{IsSource: fw.IsResultOf(fw.NameIs("(gmsl.EventJSONs).UntrustedEvents"), 0), Through: func(cl ssa.CallInstruction) []int {
						if fw.CalleeName(cl) == "builtin.append" {
							return []int{0}
						}
						if strings.Contains(fw.CalleeName(cl), "discard") || strings.Contains(fw.CalleeName(cl), "filter") || strings.HasPrefix(fw.CalleeName(cl), "slices.DeleteFunc") {
							return []int{0}
						}
						return nil
					}, All: true}) == fw.Yes
					c.Expect(ok, rule, fmt.Sprintf("returned list %d is the (filtered) untrusted parse of the response", i), c.P.Pos(fw.InstrPos(r)), "", "the returned list could not be traced to UntrustedEvents")
				}
			}
		}
	}
}

// checkDeletionStep: after deleting element i in place the loop must look at index i again.
func checkDeletionStep(c *fw.Ctx, rule string, fn *ssa.Function, d deletion) {
	construct := fw.FuncName(fn) + ": in-place removal re-examines the slot it freed"
	idx := d.index
	// find `idx - 1` in the deletion block or blocks it dominates
	ok := false
	for _, b := range fn.Blocks {
		if !d.call.Block().Dominates(b) {
			continue
		}
		for _, ins := range b.Instrs {
			if bo, isB := ins.(*ssa.BinOp); isB && bo.Op == token.SUB && bo.X == idx {
				if n, isC := fw.ConstInt(bo.Y); isC && n == 1 {
					ok = true
				}
			}
		}
	}
	// alternatively the loop does not advance on the deletion path (phi edge from the deletion block carries idx itself)
	if !ok {
		if phi, isPhi := idx.(*ssa.Phi); isPhi {
			for i, e := range phi.Edges {
				if e == idx && d.call.Block().Dominates(phi.Block().Preds[i]) {
					ok = true
				}
			}
		}
	}
	c.Check(ok, rule, construct, c.P.Pos(d.call.Pos()), "", "after `x = append(x[:i], x[i+1:]...)` the index still advances: the element that slid into position i is skipped, so of two adjacent failing events the second survives")
}

func checkSendJoinResp(c *fw.Ctx) {
	rule := "2 send-join"
	fn := mustFunc(c, rule, "CheckSendJoinResponse")
	if fn == nil {
		return
	}
	succ := fw.ErrNilSuccess(fn, fw.ErrIndex(fn), nil)
	c.CheckGate(rule, fn, "CheckSendJoinResponse", fw.GuardCallErrNil("CheckStateResponse", fw.NameIs("gmsl.CheckStateResponse")), succ)
	c.CheckGate(rule, fn, "CheckSendJoinResponse", fw.GuardCallErrNil("checkAllowedByAuthEvents(joinEvent)", fw.NameIs("gmsl.checkAllowedByAuthEvents")), succ)
	// the check against the returned state is a second, separate application of the rules: the
	// auth-chain helper applies them to the join's own auth events only and does not stand in for it
	gAllowed := fw.GuardCallErrNil("Allowed(joinEvent, returned state)", fw.NameIs("gmsl.Allowed"))
	gAllowed.SkipHelper = func(f *ssa.Function) bool { return fw.FuncName(f) == "gmsl.checkAllowedByAuthEvents" }
	c.CheckGate(rule, fn, "CheckSendJoinResponse", gAllowed, succ)
	for _, call := range fw.CallsTo(fn, false, fw.NameIs("gmsl.checkAllowedByAuthEvents", "gmsl.Allowed")) {
		c.Check(fw.Sig(call.Common().Args[0]) == "param:joinEvent", rule, fw.CalleeName(call)+" checks the join event", c.P.Pos(call.Pos()), "", "first argument is "+fw.Sig(call.Common().Args[0]))
	}
	// the state provider is filled from the checked state events
	for _, call := range fw.CallsTo(fn, false, fw.NameIs("(*gmsl.AuthEvents).AddEvent")) {
		s := fw.Sig(call.Common().Args[1])
		c.Check(strings.Contains(s, "gmsl.CheckStateResponse(") && strings.Contains(s, "#1["), rule, "the join is checked against the verified state events", c.P.Pos(call.Pos()), s, "AddEvent receives "+s)
	}
}

func checkAuthChain(c *fw.Ctx) {
	rule := "3 auth-chain"
	fn := mustFunc(c, rule, "VerifyEventAuthChain")
	if fn == nil {
		return
	}
	n := 0
	for _, b := range fn.Blocks {
		for _, ins := range b.Instrs {
			mu, ok := ins.(*ssa.MapUpdate)
			if !ok || !strings.Contains(mu.Map.Type().String(), "map[string]bool") {
				continue
			}
			n++
			var all []string
			for _, f := range fw.DomConds(b) {
				all = append(all, f.String())
			}
			full := strings.Join(all, " && ")
			ok2 := strings.Contains(full, "gmsl.checkAllowedByAuthEvents(") && (strings.Contains(full, "!(gmsl.checkAllowedByAuthEvents(") && strings.Contains(full, "!= nil)") || strings.Contains(full, "== nil)"))
			if !ok2 && c.P.Func("checkAllowedByAuthEvents") == nil && regexp.MustCompile(`!\(\(\*?gmsl\.\w+\)\.[a-z_]\w*\(.*\) != nil\)|\(\(\*?gmsl\.\w+\)\.[a-z_]\w*\(.*\) == nil\)`).MatchString(full) {
				// the routine that authorises against the auth events no longer exists under the name
				// the rule knows; the mark is made past the nil verdict of an unexported method
				c.Undecided(rule, "an event is marked verified only after its auth check passed", "no routine named checkAllowedByAuthEvents exists in this tree; the mark follows the nil verdict of another unexported routine ("+c.P.Pos(fw.InstrPos(mu))+")")
				continue
			}
			c.Check(ok2, rule, "an event is marked verified only after its auth check passed", c.P.Pos(fw.InstrPos(mu)), "", "verifiedEvents[id] = true under ["+full+"]")
		}
	}
	c.Min(rule+" verified marks", n, 1)
	succ := fw.ErrNilSuccess(fn, fw.ErrIndex(fn), nil)
	c.CheckGate(rule, fn, "VerifyEventAuthChain", fw.GuardCond("work list exhausted", func(v ssa.Value) (bool, bool) {
		s := fw.Sig(v)
		if strings.HasPrefix(s, "(builtin.len(phi(") && strings.HasSuffix(s, " > 0)") {
			return false, true
		}
		return false, false
	}), succ)
	// a provider error and an auth failure both return an error
	nerr := 0
	for _, r := range fw.Returns(fn) {
		if len(succ(r, fw.Reachable(fn, nil), nil)) == 0 {
			nerr += len(fw.ExitOrigins(r, fw.ErrIndex(fn)))
		}
	}
	switch {
	case nerr >= 2:
		c.Ok(rule, "provider errors and auth failures abort the verification", c.P.Pos(fn.Pos()), fmt.Sprintf("%d failure exits", nerr))
	case nerr == 0:
		c.Fail(rule, "provider errors and auth failures abort the verification", c.P.Pos(fn.Pos()), "VerifyEventAuthChain has no failure exit at all")
	default:
		c.Undecided(rule, "provider errors and auth failures abort the verification", fmt.Sprintf("%d failure exit recognised (the checks may have moved into helpers)", nerr))
	}
	// the event checked is the one popped; fetched events are queued
	for _, call := range fw.CallsTo(fn, false, fw.NameIs("gmsl.checkAllowedByAuthEvents")) {
		s := argSigs(call)
		construct := "each popped event is checked against its auth events with the provider as fallback"
		// the helper's parameter list as on the reference tree (event, table, provider, querier):
		// with another shape the roles of the arguments are not known
		sameShape := false
		if callee := call.Common().StaticCallee(); callee != nil && len(callee.Params) == 4 && len(s) == 4 {
			sameShape = strings.HasSuffix(callee.Params[2].Type().String(), "EventProvider") && strings.HasPrefix(callee.Params[1].Type().Underlying().String(), "map[")
		}
		switch {
		case !sameShape:
			c.Undecided(rule, construct, "checkAllowedByAuthEvents no longer takes (event, table, provider, querier): "+strings.Join(s, ", "))
		case strings.Contains(s[0], "[(builtin.len(") && strings.Contains(s[2], "param:provideEvents"):
			c.Ok(rule, construct, c.P.Pos(call.Pos()), "")
		case strings.Contains(s[2], "param:") && !strings.Contains(s[2], "param:provideEvents") || s[2] == "nil":
			c.Fail(rule, construct, c.P.Pos(call.Pos()), "checkAllowedByAuthEvents("+strings.Join(s, ", ")+")")
		case !strings.Contains(s[0], "[(builtin.len(") && strings.HasPrefix(s[0], "param:"):
			c.Fail(rule, construct, c.P.Pos(call.Pos()), "the event that is checked is "+s[0]+", not the one popped from the work list")
		default:
			c.Undecided(rule, construct, "checkAllowedByAuthEvents("+strings.Join(s, ", ")+")")
		}
	}
}

func checkAtState(c *fw.Ctx) {
	rule := "4 at-state"
	fn := mustFunc(c, rule, "VerifyAuthRulesAtState")
	if fn == nil {
		return
	}
	ids := "(gmsl.StateProvider).StateIDsBeforeEvent(param:sp,param:ctx,param:eventToVerify)"
	state := "(gmsl.StateProvider).StateBeforeEvent(param:sp,param:ctx,(gmsl.PDU).Version(param:eventToVerify),param:eventToVerify," + ids + "#0)"
	vars := []tvar{{"idsOK", tf}, {"allow", tf}, {"allInState", tf}, {"ctxOK", tf}, {"stateOK", tf}, {"authOK", tf}}
	ip := &interp{bools: map[string]string{
		"(" + ids + "#1 == nil)":                    "idsOK",
		"param:allowValidation":                     "allow",
		"((context.Context).Err(param:ctx) == nil)": "ctxOK",
		"(" + state + "#1 == nil)":                  "stateOK",
		"(gmsl.checkAllowedByAuthEvents(param:eventToVerify," + state + "#0,nil,param:userIDForSender) == nil)": "authOK",
	}, match: func(atom string, a asg) (bool, bool) {
		if atom == "((phi(-1|<cycle>) + 1) < builtin.len((gmsl.PDU).AuthEventIDs(param:eventToVerify)))" {
			return a["allInState"] != "true", true // loop over auth event ids ended early (break) iff one is missing
		}
		if strings.HasPrefix(atom, "((phi(-1|<cycle>) + 1) < builtin.len("+ids) {
			return false, true
		}
		if strings.Contains(atom, " == *") && strings.Contains(atom, ids) {
			return a["allInState"] == "true", true
		}
		return false, false
	}}
	compareTable(c, rule, "accept iff (validation allowed and all auth events in the state) or the event is allowed by the state before it", fn, 0, vars, ip, func(a asg) string {
		if a["idsOK"] != "true" {
			return "reject"
		}
		if a["allow"] == "true" && a["allInState"] == "true" {
			return "accept"
		}
		if a["ctxOK"] != "true" || a["stateOK"] != "true" || a["authOK"] != "true" {
			return "reject"
		}
		return "accept"
	}, nil)
}

func checkAllowedByAuth(c *fw.Ctx) {
	rule := "5 allowed-by-auth"
	fn := mustFunc(c, rule, "checkAllowedByAuthEvents")
	if fn == nil {
		return
	}
	succ := fw.ErrNilSuccess(fn, fw.ErrIndex(fn), nil)
	c.CheckGate(rule, fn, "checkAllowedByAuthEvents", fw.GuardCallErrNil("Allowed", fw.NameIs("gmsl.Allowed")), succ)
	for _, call := range fw.CallsTo(fn, false, fw.NameIs("gmsl.Allowed")) {
		s := argSigs(call)
		c.Expect(s[0] == "param:event" && strings.HasPrefix(s[1], "gmsl.NewAuthEvents(nil)#0"), rule, "the event is checked against the provider built from its auth events", c.P.Pos(call.Pos()), "", "Allowed("+strings.Join(s, ", ")+") was not recognised")
	}
	// every event gets a provider of its own: AuthEvents.Clear() empties the events but keeps the
	// set of room ids that Valid() judges by, so a provider reused across the events of a response
	// lets one event's foreign room id fail all later ones
	if csr := c.P.Func("CheckStateResponse"); csr != nil {
		construct := "each event of a state response is checked against a provider of its own"
		n := 0
		for _, dc := range deepCallsTo(csr, fw.NameIs("gmsl.Allowed")) {
			args := dc.Call.Common().Args
			if len(args) < 2 {
				continue
			}
			prov, pfr := rootOf(args[1], dc.Fr)
			mk, _ := fw.CallOf(prov)
			if mk == nil || fw.CalleeName(mk) != "gmsl.NewAuthEvents" {
				continue
			}
			n++
			// the outermost call site of the chain that leads to Allowed, in CheckStateResponse
			var top ssa.Instruction = dc.Call.(ssa.Instruction)
			for f := dc.Fr; f != nil; f = f.Parent {
				top = f.Site
			}
			mkIns, _ := mk.(ssa.Instruction)
			if pfr == nil && mkIns.Parent() == csr && top.Parent() == csr {
				_, body := fw.LoopOf(top.Block())
				if body != nil && !body[mkIns.Block()] {
					c.Fail(rule, construct, c.P.Pos(mk.Pos()), "the AuthEvents provider is created once, outside the loop over the events, and reused: Clear() does not reset the room ids Valid() compares, so an event citing another room's create event makes every later event of the response fail")
					continue
				}
			}
			c.Ok(rule, construct, c.P.Pos(mk.Pos()), "")
		}
		if n == 0 {
			c.Undecided(rule, construct, "the provider handed to Allowed was not traced to NewAuthEvents")
		}
	}
	// events added to the provider come from the lookup table or the missing-event provider, keyed by the event's auth ids
	for _, call := range fw.CallsTo(fn, false, fw.NameIs("(*gmsl.AuthEvents).AddEvent")) {
		s := fw.Sig(call.Common().Args[1])
		ok := strings.Contains(s, "param:eventsByID[") || strings.Contains(s, "dyn(param:missingAuth)(")
		switch {
		case ok:
			c.Ok(rule, "auth events come from the verified lookup table or the event provider", c.P.Pos(call.Pos()), s)
		case strings.HasPrefix(s, "param:") || strings.Contains(s, "NewEventFrom"):
			// positive evidence: the event itself, or something parsed on the spot
			c.Fail(rule, "auth events come from the verified lookup table or the event provider", c.P.Pos(call.Pos()), "AddEvent receives "+s)
		default:
			c.Undecided(rule, "auth events come from the verified lookup table or the event provider", "AddEvent receives "+s+", whose origin was not traced")
		}
	}
}

func checkLoadAndVerify(c *fw.Ctx) {
	rule := "6 load-and-verify"
	fn := mustFunc(c, rule, "(*EventsLoader).LoadAndVerify")
	if fn == nil {
		return
	}
	sigs := fw.CallsTo(fn, false, fw.NameIs("gmsl.VerifyAllEventSignatures"))
	if len(sigs) != 1 {
		c.Undecided(rule, "signatures are verified in bulk once", fmt.Sprintf("%d call sites of VerifyAllEventSignatures in LoadAndVerify itself", len(sigs)))
		return
	}
	verified := sigs[0].Common().Args[1]
	// the loop that consumes failures[i] indexes the same list value
	aligned, other := 0, 0
	for _, b := range fn.Blocks {
		for _, ins := range b.Instrs {
			ia, ok := ins.(*ssa.IndexAddr)
			if !ok || !strings.Contains(ia.X.Type().String(), "[]") || !strings.Contains(fw.Short(ia.X.Type().String()), "gmsl.PDU") {
				continue
			}
			if !strings.Contains(condsOf(b), "gmsl.VerifyAllEventSignatures(") && !reachesInstr(sigs[0].(ssa.Instruction), ia) {
				continue
			}
			if !reachesInstr(sigs[0].(ssa.Instruction), ia) {
				continue
			}
			// the same value, or the same variable read again (a field of a result object)
			if ia.X == verified || fw.Sig(ia.X) == fw.Sig(verified) {
				aligned++
			} else {
				other++
			}
		}
	}
	c.Check(aligned >= 1 && other == 0, rule, "results[i], failures[i] and events[i] refer to the same list", c.P.Pos(sigs[0].Pos()), "", fmt.Sprintf("after signature verification the events are indexed through a different list value (%d aligned, %d not): a signature failure is attributed to another event", aligned, other))
	// the sort happens before verification
	_, bad := fw.MustPrecede(fn, fw.IsCallTo(fw.NameIs("gmsl.ReverseTopologicalOrdering")), fw.IsCallTo(fw.NameIs("gmsl.VerifyAllEventSignatures")))
	c.Check(len(bad) == 0, rule, "events are ordered before their signatures are verified", c.P.Pos(sigs[0].Pos()), "", "VerifyAllEventSignatures can run before ReverseTopologicalOrdering")
	// classification order
	order := []string{"gmsl.VerifyAllEventSignatures", "gmsl.VerifyEventAuthChain", "gmsl.VerifyAuthRulesAtState"}
	for i := 1; i < len(order); i++ {
		a, b := order[i-1], order[i]
		_, bad := fw.MustPrecede(fn, fw.IsCallTo(fw.NameIs(a)), fw.IsCallTo(fw.NameIs(b)))
		c.Check(len(bad) == 0, rule, strings.TrimPrefix(a, "gmsl.")+" precedes "+strings.TrimPrefix(b, "gmsl."), c.P.Pos(fn.Pos()), "", "checks are not applied in the order signature, auth chain, auth rules")
	}
	// each failure is stored with its wrapper type and the remaining checks are skipped
	wraps := map[string]string{"SignatureErr": "gmsl.VerifyAllEventSignatures(", "AuthChainErr": "gmsl.VerifyEventAuthChain(", "AuthRulesErr": "gmsl.VerifyAuthRulesAtState("}
	for _, st := range fw.FieldStores(fn, "EventLoadResult", "Error") {
		v := fw.Sig(st.Val)
		for w, src := range wraps {
			if strings.Contains(st.Val.Type().String(), "error") && strings.Contains(v, "local:*gmsl."+w) {
				var all []string
				for _, f := range fw.DomConds(st.Block()) {
					all = append(all, f.String())
				}
				c.Check(strings.Contains(strings.Join(all, " && "), src), rule, w+" classifies a failure of "+strings.Trim(src, "("), c.P.Pos(fw.InstrPos(st)), "", "stored under other conditions")
				delete(wraps, w)
			}
		}
	}
	for w := range wraps {
		c.Undecided(rule, w+" classification exists", "no store of "+w+" into a result was recognised in "+fw.FuncName(fn))
	}
	okLen := false
	for _, b := range fn.Blocks {
		for _, ins := range b.Instrs {
			if ms, ok := ins.(*ssa.MakeSlice); ok && strings.Contains(ms.Type().String(), "EventLoadResult") && fw.Sig(ms.Len) == "builtin.len(param:rawEvents)" {
				okLen = true
			}
		}
	}
	c.Expect(okLen, rule, "one result per input", c.P.Pos(fn.Pos()), "", "results is not recognised as make([]EventLoadResult, len(rawEvents))")
	checkResultSlotsFilled(c, rule, fn)
}

func checkUntrusted(c *fw.Ctx) {
	rule := "7 untrusted-list"
	fn := mustFunc(c, rule, "(EventJSONs).UntrustedEvents")
	if fn == nil {
		return
	}
	conds, ok := fw.PathConds(fn)
	if !ok {
		c.Undecided(rule, "UntrustedEvents", "path conditions too large")
		return
	}
	var appendBlock *ssa.BasicBlock
	for _, call := range fw.CallsTo(fn, false, fw.NameIs("builtin.append")) {
		appendBlock = call.Block()
	}
	if appendBlock == nil {
		c.Undecided(rule, "UntrustedEvents keeps events", "no append in UntrustedEvents itself (the list is built in a helper)")
		return
	}
	perr := "(gmsl.IRoomVersion).NewEventFromUntrustedJSON(gmsl.GetRoomVersion(param:roomVersion)#0,*recv[(phi(-1|<cycle>|<cycle>|<cycle>) + 1)])#1"
	vars := []tvar{{"err", []string{"nil", "validation-persistable", "validation", "other"}}, {"event", []string{"present", "nil"}}}
	pev := perr
	unknown := map[string]bool{}
	mism := 0
	enumerate(vars, func(a asg) {
		env := func(atom string) (bool, bool) {
			switch {
			case strings.HasPrefix(atom, "((phi(-1|") && strings.Contains(atom, "< builtin.len(recv)"):
				return true, true
			case atom == "(gmsl.GetRoomVersion(param:roomVersion)#1 == nil)":
				return true, true
			case strings.HasPrefix(atom, "typeassert,ok ") && strings.Contains(atom, ".NewEventFromUntrustedJSON(") || strings.Contains(atom, ".(gmsl.EventValidationError)") && strings.HasSuffix(atom, "#1"):
				return strings.HasPrefix(a["err"], "validation"), true
			case strings.HasSuffix(atom, ".Persistable"):
				return a["err"] == "validation-persistable", true
			case strings.HasSuffix(atom, "#1 == nil)") && strings.Contains(atom, ".NewEventFromUntrustedJSON(") && !strings.Contains(strings.TrimSuffix(atom, "#1 == nil)"), " == nil"):
				return a["err"] == "nil", true
			case strings.HasSuffix(atom, "#0 == nil)") && strings.Contains(atom, ".NewEventFromUntrustedJSON(") && !strings.Contains(strings.TrimSuffix(atom, "#0 == nil)"), "#0 == nil"):
				_ = pev
				return a["event"] == "nil", true
			}
			return false, false
		}
		if a["err"] == "nil" && a["event"] == "nil" {
			return // a successful parse returns an event
		}
		got := evalDNF(conds[appendBlock], env, unknown)
		want := a["err"] == "nil" || a["err"] == "validation-persistable"
		if a["event"] == "nil" {
			// a failure that comes without an event: dropping it is the only safe choice; keeping
			// it (a nil entry in the list) is reported by C18.F11
			if !got {
				return
			}
			want = got
		}
		if got != want && len(unknown) == 0 {
			mism++
			c.Fail(rule, "keep iff parse succeeded or failed with a persistable validation error: "+a["err"], c.P.Pos(fn.Pos()), fmt.Sprintf("for parse result %s (event %s) the event is kept=%v, the rule says kept=%v", a["err"], a["event"], got, want))
		}
	})
	for u := range unknown {
		c.Undecided(rule, "UntrustedEvents: unrecognised branch condition", u)
	}
	if mism == 0 && len(unknown) == 0 {
		c.Ok(rule, "keep iff parse succeeded or failed with a persistable validation error", c.P.Pos(fn.Pos()), "7 cases")
	}
}

// keepFilter: the function rebuilds a list from the elements that have no entry in a
// map[string]error (append under "not present in the failure set").
func keepFilter(f *ssa.Function) bool {
	for _, call := range fw.CallsTo(f, false, fw.NameIs("builtin.append")) {
		for _, s := range fw.CondStrings(call.Block()) {
			if strings.HasPrefix(s, "!") && strings.Contains(s, "[") && strings.Contains(s, ".EventID(") && strings.HasSuffix(s, "]#1") {
				return true
			}
		}
	}
	return false
}

// checkResultSlotsFilled: results has one slot per input; the events fill the front, the
// parse errors the back. The events have been through ReverseTopologicalOrdering, which
// returns each event once: when the input names an event twice, slots remain between the two
// ranges. A slot left untouched is a zero EventLoadResult - no event, no error - and reads as
// a verified event (RequestBackfill calls res.Event.EventID() on it). So some store must
// cover the range that starts at len(events).
func checkResultSlotsFilled(c *fw.Ctx, rule string, fn *ssa.Function) {
	construct := "every result slot carries an event or an error"
	var ordered ssa.Value
	for _, dc := range fw.AllDeepCalls(fn, stopExported) {
		if fw.CalleeName(dc.Call) == "gmsl.ReverseTopologicalOrdering" && dc.Fr == nil {
			ordered, _ = dc.Call.(ssa.Value)
		}
	}
	if ordered == nil {
		c.Undecided(rule, construct, "no call of ReverseTopologicalOrdering in LoadAndVerify itself")
		return
	}
	lenOrdered := "builtin.len(" + fw.Sig(ordered) + ")"
	nStores, gap := 0, false
	for _, di := range fw.DeepInstrs(fn, nil) {
		st, ok := di.Instr.(*ssa.Store)
		if !ok {
			continue
		}
		ia, ok := st.Addr.(*ssa.IndexAddr)
		if !ok || !strings.Contains(ia.X.Type().String(), "EventLoadResult") {
			continue
		}
		nStores++
		// an index that starts at len(the ordered events): `for i := len(events); ...`
		if phi, isPhi := ia.Index.(*ssa.Phi); isPhi {
			for _, e := range phi.Edges {
				if strings.TrimPrefix(fw.SigIn(di.Fr, e), "*&") == lenOrdered || strings.Contains(fw.SigIn(di.Fr, e), lenOrdered) {
					gap = true
				}
				// len of a list of events held in a variable or field (the ordered list stored back)
				if lc, isCall := e.(*ssa.Call); isCall && fw.CalleeName(lc) == "builtin.len" && len(lc.Call.Args) == 1 {
					if sl, isSl := lc.Call.Args[0].Type().Underlying().(*types.Slice); isSl && strings.HasSuffix(fw.Short(sl.Elem().String()), "gmsl.PDU") {
						gap = true
					}
				}
			}
		}
		if strings.Contains(fw.SigIn(di.Fr, ia.Index), lenOrdered+" + ") {
			gap = true
		}
	}
	switch {
	case nStores == 0:
		c.Undecided(rule, construct, "no store into the result slice was recognised")
	case gap:
		c.Ok(rule, construct, c.P.Pos(fn.Pos()), "a store loop starts at len(ordered events)")
	default:
		c.Fail(rule, construct, c.P.Pos(fn.Pos()), "the ordered list (which names each event once) fills the front of the results and the parse errors the back, and nothing writes the slots in between: an input that names an event twice yields a result with neither event nor error, which callers take for a verified event (RequestBackfill dereferences its nil Event)")
	}
}
