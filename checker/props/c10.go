package props

import (
	"fmt"
	"go/types"
	"regexp"
	"strings"

	"gmslverif/fw"

	"golang.org/x/tools/go/ssa"
)

func init() { register("C10", checkC10) }

type stage struct {
	name   string
	callee string
	arg    func(sigs []string) bool // predicate on argument signatures (nil = any)
	conds  string                   // expected non-loop condition atoms, "" = unconditional
}

func argSigs(call ssa.CallInstruction) []string {
	var out []string
	for _, a := range call.Common().Args {
		out = append(out, fw.Sig(a))
	}
	return out
}

func anyContains(sigs []string, sub string) bool {
	for _, s := range sigs {
		if strings.Contains(s, sub) {
			return true
		}
	}
	return false
}

// stageConds: dominating conditions of a call, ignoring loop bookkeeping and the
// "no events at all" early exit.
func stageConds(b *ssa.BasicBlock) string {
	var out []string
	for _, s := range fw.CondStrings(b) {
		t := strings.TrimPrefix(s, "!")
		if strings.HasPrefix(t, "next(range(") || strings.HasPrefix(t, "((phi(-1|") || strings.Contains(t, "builtin.len(") || strings.Contains(t, "== nil:*gmsl/spec.RoomID") || strings.HasPrefix(t, "(phi(") {
			continue
		}
		out = append(out, s)
	}
	return strings.Join(out, " && ")
}

// stageCondsDeep: the non-loop conditions under which a (possibly deep) call runs.
func stageCondsDeep(dc fw.DeepCall) string {
	var out []string
	for _, s := range fw.DeepFacts(dc.Fr, dc.Call.Block()) {
		t := strings.TrimPrefix(s, "!")
		if strings.HasPrefix(t, "next(range(") || strings.HasPrefix(t, "((phi(-1|") || strings.Contains(t, "builtin.len(") || strings.Contains(t, "== nil:*gmsl/spec.RoomID") || strings.HasPrefix(t, "(phi(") {
			continue
		}
		// early exits on missing inputs (nil tests) are not conditions of the algorithm
		if strings.HasSuffix(t, " == nil)") {
			continue
		}
		out = append(out, s)
	}
	return strings.Join(out, " && ")
}

// algoOnly: every condition is a direct comparison of the algorithm parameter with a constant
// (the form the rule can read); a condition computed from the parameter by a helper or read
// from a descriptor is not.
var algoAtom = regexp.MustCompile(`^!?\(param:stateResAlgo (==|!=) \d+\)$`)

func algoOnly(got string) bool {
	if got == "" {
		return true
	}
	for _, a := range strings.Split(got, " && ") {
		if !algoAtom.MatchString(a) {
			return false
		}
	}
	return true
}

// algoVerdict: ok -> Yes; otherwise No when every condition (loop bounds and nil tests aside) is
// a direct comparison of the algorithm parameter with a constant, Unknown when the path is
// selected by something the rule cannot read (a flag of a variant descriptor, a helper).
func algoVerdict(ok bool, conds string) fw.Tri {
	if ok {
		return fw.Yes
	}
	for _, a := range strings.Split(conds, " && ") {
		t := strings.TrimPrefix(a, "!")
		if a == "" || strings.HasPrefix(t, "next(range(") || strings.HasPrefix(t, "((phi(") || strings.HasPrefix(t, "(phi(") || strings.Contains(t, "builtin.len(") || strings.HasSuffix(t, " == nil)") {
			continue
		}
		if !algoAtom.MatchString(a) {
			return fw.Unknown
		}
	}
	return fw.No
}

// callChain: the call sites through which a deep call is reached, outermost first, then the call.
func callChain(dc fw.DeepCall) []ssa.Instruction {
	var rev []ssa.Instruction
	rev = append(rev, dc.Call.(ssa.Instruction))
	for f := dc.Fr; f != nil; f = f.Parent {
		rev = append(rev, f.Site)
	}
	for i, j := 0, len(rev)-1; i < j; i, j = i+1, j-1 {
		rev[i], rev[j] = rev[j], rev[i]
	}
	return rev
}

// canRunBefore: y can execute before x on some path (ordered at the first level at which the
// two call chains differ).
func canRunBefore(y, x fw.DeepCall) bool {
	cy, cx := callChain(y), callChain(x)
	k := 0
	for k < len(cy) && k < len(cx) && cy[k] == cx[k] {
		k++
	}
	if k >= len(cy) || k >= len(cx) {
		return false
	}
	a, b := cy[k], cx[k]
	if a.Block() == b.Block() {
		ia, ib := -1, -1
		for i, ins := range a.Block().Instrs {
			if ins == a {
				ia = i
			}
			if ins == b {
				ib = i
			}
		}
		if ia < ib {
			return true
		}
		// later in the same block: only around a loop
		return fw.ReachableFrom(a.Block(), nil)[a.Block()] && blockInLoop(a.Block())
	}
	return fw.ReachableFrom(a.Block(), nil)[b.Block()]
}

func blockInLoop(b *ssa.BasicBlock) bool {
	for _, s := range b.Succs {
		if fw.ReachableFrom(s, nil)[b] {
			return true
		}
	}
	return false
}

func checkStages(c *fw.Ctx, rule string, fn *ssa.Function, fname string, stages []stage) {
	var prev *fw.DeepCall
	var prevName string
	// helpers of the driver are entered, the stage routines themselves are not
	stageFns := map[string]bool{}
	for _, st := range stages {
		stageFns[st.callee] = true
	}
	stop := func(f *ssa.Function) bool { return stopExported(f) || stageFns[fw.FuncName(f)] }
	for _, st := range stages {
		var found []fw.DeepCall
		all := fw.DeepCalls(fn, fw.NameIs(st.callee), stop)
		for _, dc := range all {
			var sigs []string
			if dc.Call.Common().IsInvoke() {
				sigs = append(sigs, fw.SigIn(dc.Fr, dc.Call.Common().Value))
			}
			for _, a := range dc.Call.Common().Args {
				sigs = append(sigs, fw.SigIn(dc.Fr, a))
			}
			if st.arg == nil || st.arg(sigs) {
				found = append(found, dc)
			}
		}
		construct := fname + ": stage " + st.name
		if len(all) == 0 {
			if od := fw.OpaqueDispatchAny(fn); od != "" {
				c.Undecided(rule, construct, "the driver never calls "+st.callee+" directly, but it works through "+od+": the stage may run behind it")
				continue
			}
			c.Fail(rule, construct, c.P.Pos(fn.Pos()), "the driver (and the unexported helpers it calls) never calls "+st.callee+": the stage is missing")
			prev = nil
			continue
		}
		if len(found) != 1 {
			c.Undecided(rule, construct, fmt.Sprintf("expected exactly one recognisable call site for this stage, found %d of %d calls of %s", len(found), len(all), st.callee))
			prev = nil
			continue
		}
		call := found[0]
		got := stageCondsDeep(call)
		if got != st.conds {
			if algoOnly(got) {
				c.Fail(rule, construct+" runs under the prescribed condition", c.P.Pos(call.Call.Pos()), fmt.Sprintf("the stage runs when [%s]; the algorithm prescribes [%s]", got, st.conds))
			} else {
				c.Undecided(rule, construct+" runs under the prescribed condition", fmt.Sprintf("the stage runs under conditions the rule does not know: [%s]", got))
			}
		} else {
			c.Ok(rule, construct+" runs under the prescribed condition", c.P.Pos(call.Call.Pos()), "["+got+"]")
		}
		if prev != nil {
			c.Check(!canRunBefore(call, *prev), rule, fname+": "+prevName+" precedes "+st.name, c.P.Pos(call.Call.Pos()), "", st.name+" can run before "+prevName)
		}
		cp := call
		prev, prevName = &cp, st.name
	}
}

func stageCondsOfCall(c ssa.CallInstruction) string { return stageConds(c.Block()) }

// reaches: instruction a can be executed before instruction b on some path (a ... b).
func reaches(a, b ssa.CallInstruction) bool {
	ab, bb := a.Block(), b.Block()
	if ab == bb {
		ia, ib := -1, -1
		for i, ins := range ab.Instrs {
			if ins == a.(ssa.Instruction) {
				ia = i
			}
			if ins == b.(ssa.Instruction) {
				ib = i
			}
		}
		return ia < ib
	}
	return fw.ReachableFrom(ab, nil)[bb]
}

func checkC10(c *fw.Ctx) {
	c.Explanation = "C10 (static): the algorithm selection of both entry points and the classifier of power events are extracted as decision tables; the stage sequence of the v2/v2.1 drivers (split, auth difference, [v2 only] initial apply of the ordered unconflicted state, power ordering, iterative auth, mainline, mainline ordering, iterative auth, final re-apply of the unconflicted state) is checked by must-precede and branch-condition rules on SSA; the three comparators are extracted as decision tables and compared with the prescribed lexicographic chains; the auth-event fallback is shown never to insert the event under check into its own auth provider; the auth difference accumulates the intersection over all state sets; v2.1-only steps are guarded by the algorithm value; the v1 resolver resolves auth types in the prescribed order."
	c.NotDecidedClause("conformance of the resolved state on arbitrary DAGs (runtime notion); correctness of the auth-difference / conflicted-subgraph sets as sets; Kahn's algorithm output being a topological order")
	checkAlgoSelection(c)
	checkV2Drivers(c)
	checkComparators(c)
	checkControlEvent(c)
	checkFallback(c)
	checkAuthDifference(c)
	checkV1Order(c)
	checkVersionMatrix(c, "9 version-columns", setOf("stateResAlgorithm"))
	// the iterative auth checks see, for every event, only that event's state (shared with C09.5)
	checkResolutionRefresh(c)
}

func checkAlgoSelection(c *fw.Ctx) {
	rule := "1 selection"
	algo := "(gmsl.IRoomVersion).StateResAlgorithm(gmsl.GetRoomVersion(param:version)#0)"
	for _, spec := range []string{"ResolveConflicts", "ResolveConflictsNew"} {
		fn := mustFunc(c, rule, spec)
		if fn == nil {
			continue
		}
		c.CheckGate(rule, fn, spec, fw.GuardCallErrNil("GetRoomVersion", fw.NameIs("gmsl.GetRoomVersion")), fw.ErrNilSuccess(fn, fw.ErrIndex(fn), nil))
		want := map[string]string{"1": "gmsl.ResolveStateConflicts", "2": "gmsl.ResolveStateConflictsV2", "3": "gmsl.ResolveStateConflictsV2"}
		if spec == "ResolveConflictsNew" {
			want["2"], want["3"] = "gmsl.ResolveStateConflictsV2New", "gmsl.ResolveStateConflictsV2New"
		}
		resolvers := fw.NameIs("gmsl.ResolveStateConflicts", "gmsl.ResolveStateConflictsV2", "gmsl.ResolveStateConflictsV2New")
		pc, okPC := fw.PathConds(fn)
		if !okPC {
			c.Undecided(rule, spec, "path conditions too large")
			continue
		}
		nAlgoAtoms := 0
		for _, call := range fw.CallsTo(fn, false, resolvers) {
			// which algorithm values reach this call
			var vals []string
			for _, v := range []string{"1", "2", "3", "4"} {
				unk := map[string]bool{}
				env := func(atom string) (bool, bool) {
					l, r, isEq := parseEq(atom)
					if isEq && (l == algo || isAlgoAtom(atom)) {
						nAlgoAtoms++
						return r == v, true
					}
					if strings.HasPrefix(atom, "next(range(") || strings.HasPrefix(atom, "((phi(-1|") {
						return false, true // loops before the dispatch have finished
					}
					return true, true // error checks passed
				}
				if evalDNF(pc[call.Block()], env, unk) {
					vals = append(vals, v)
				}
			}
			if nAlgoAtoms == 0 {
				continue // the dispatch is not on a value the rule recognises as the algorithm
			}
			for _, v := range vals {
				c.Check(want[v] == fw.CalleeName(call), rule, fmt.Sprintf("%s: algorithm %s is resolved by %s", spec, v, strings.TrimPrefix(want[v], "gmsl.")), c.P.Pos(call.Pos()), "", fmt.Sprintf("algorithm value %s reaches %s", v, fw.CalleeName(call)))
				delete(want, v)
			}
			// the algorithm value is passed on
			if fw.CalleeName(call) == "gmsl.ResolveStateConflictsV2New" {
				c.Check(fw.Sig(call.Common().Args[0]) == algo || isAlgoValue(call.Common().Args[0]), rule, spec+" passes the room version's algorithm to the resolver", c.P.Pos(call.Pos()), "", "first argument is "+fw.Sig(call.Common().Args[0]))
			}
		}
		if nAlgoAtoms == 0 {
			c.Undecided(rule, spec+": dispatch on the state resolution algorithm", "no comparison of the room version's algorithm with a constant was recognised")
			continue
		}
		for v, w := range want {
			c.Fail(rule, fmt.Sprintf("%s: algorithm %s is resolved by %s", spec, v, strings.TrimPrefix(w, "gmsl.")), c.P.Pos(fn.Pos()), "no call site for this algorithm value")
		}
	}
}

func checkV2Drivers(c *fw.Ctx) {
	rule := "2 stages"
	if c.InlinedReports == nil {
		c.InlinedReports = map[string]bool{}
	}
	// the order of the stages is judged on whichever view shows the calls: moving stages into
	// a helper hides their arguments from the source view but not from the inlined one
	c.InlinedReports[rule] = true
	rto := "(*gmsl.stateResolverV2).reverseTopologicalOrdering"
	apply := "(*gmsl.stateResolverV2).applyEvents"
	auth := "(*gmsl.stateResolverV2).authAndApplyEvents"
	unconfl := "gmsl.splitConflictedUnconflicted(param:stateResAlgo,param:stateSets)#1"
	if fn := mustFunc(c, rule, "ResolveStateConflictsV2New"); fn != nil {
		checkStages(c, rule, fn, "ResolveStateConflictsV2New", []stage{
			{"split conflicted/unconflicted", "gmsl.splitConflictedUnconflicted", nil, ""},
			{"auth difference", "(*gmsl.stateResolverV2).calculateAuthDifferenceNew", nil, ""},
			{"[v2] order unconflicted", rto, func(s []string) bool { return len(s) > 1 && s[1] == unconfl }, "(param:stateResAlgo == 2)"},
			{"[v2] apply unconflicted", apply, func(s []string) bool { return len(s) > 1 && strings.HasPrefix(s[1], rto) }, "(param:stateResAlgo == 2)"},
			{"order power events", rto, func(s []string) bool { return len(s) > 1 && s[1] != unconfl }, ""},
			{"iterative auth of power events", auth, func(s []string) bool { return anyContains(s, rto) }, ""},
			{"power-level mainline", "(*gmsl.stateResolverV2).createPowerLevelMainline", nil, ""},
			{"mainline ordering of other events", "(*gmsl.stateResolverV2).mainlineOrdering", nil, ""},
			{"iterative auth of other events", auth, func(s []string) bool { return anyContains(s, "mainlineOrdering") }, ""},
			{"re-apply unconflicted state", apply, func(s []string) bool { return len(s) > 1 && !strings.HasPrefix(s[1], rto) }, ""},
		})
		// power ordering is by auth events
		for _, call := range fw.CallsTo(fn, false, fw.NameIs(rto)) {
			c.Check(fw.Sig(call.Common().Args[2]) == "2", rule, "ResolveStateConflictsV2New orders by auth events", c.P.Pos(call.Pos()), "", "topological order argument is "+fw.Sig(call.Common().Args[2]))
		}
	}
	if fn := mustFunc(c, rule, "ResolveStateConflictsV2"); fn != nil {
		checkStages(c, rule, fn, "ResolveStateConflictsV2", []stage{
			{"auth difference", "(*gmsl.stateResolverV2).calculateAuthDifference", nil, ""},
			{"order power events", rto, nil, ""},
			{"iterative auth of power events", auth, func(s []string) bool { return anyContains(s, rto) }, ""},
			{"power-level mainline", "(*gmsl.stateResolverV2).createPowerLevelMainline", nil, ""},
			{"mainline ordering of other events", "(*gmsl.stateResolverV2).mainlineOrdering", nil, ""},
			{"iterative auth of other events", auth, func(s []string) bool { return anyContains(s, "mainlineOrdering") }, ""},
		})
		stop := func(f *ssa.Function) bool {
			n := fw.FuncName(f)
			return stopExported(f) || n == apply || n == rto || n == auth
		}
		ap := fw.DeepCalls(fn, fw.NameIs(apply), stop)
		r := fw.DeepCalls(fn, fw.NameIs(rto), stop)
		au := fw.DeepCalls(fn, fw.NameIs(auth), stop)
		construct := "ResolveStateConflictsV2 applies the unconflicted state first and last, unconditionally"
		if len(ap) != 2 || len(r) != 1 || len(au) != 2 {
			c.Undecided(rule, construct, fmt.Sprintf("%d applyEvents, %d ordering and %d auth sites found (expected 2, 1, 2)", len(ap), len(r), len(au)))
		} else {
			okPos := !canRunBefore(r[0], ap[0]) && !canRunBefore(ap[1], au[1]) && stageCondsDeep(ap[0]) == "" && stageCondsDeep(ap[1]) == ""
			if !okPos {
				if od := fw.OpaqueDispatchAny(fn); od != "" {
					c.Undecided(rule, construct, "the driver works through "+od+": the order and conditions of the steps behind it were not followed")
					goto afterUnconflicted
				}
			}
			c.Check(okPos, rule, construct, c.P.Pos(fn.Pos()), "", "the unconflicted state is not applied before the power ordering and after the last auth pass, unconditionally")
		}
	afterUnconflicted:
	}
}

func checkComparators(c *fw.Ctx) {
	rule := "3 comparators"
	type key struct{ field, dir string } // dir: "asc" / "desc"
	check := func(fnSpec string, keys []key, last string) {
		fn := mustFunc(c, rule, fnSpec)
		if fn == nil {
			return
		}
		// second idiom: return cmp.Or(cmp.Compare(a.k1, b.k1), ..., strings.Compare(a.id, b.id))
		if seq, ok := cmpOrChain(fn); ok {
			var want []string
			for _, k := range keys {
				want = append(want, k.field+":"+k.dir)
			}
			want = append(want, last+":asc")
			c.Check(strings.Join(seq, ",") == strings.Join(want, ","), rule, strings.TrimPrefix(fnSpec, "sort")+": lexicographic chain", c.P.Pos(fn.Pos()), strings.Join(seq, ","), "the comparator orders by ["+strings.Join(seq, ", ")+"], the algorithm by ["+strings.Join(want, ", ")+"]")
			return
		}
		var vars []tvar
		ip := &interp{rel: map[string]string{}}
		for _, k := range keys {
			vars = append(vars, tvar{k.field, rel3})
			ip.rel["*param:a."+k.field+"|*param:b."+k.field] = k.field
		}
		compareTablePrep = splitThreeWay
		defer func() { compareTablePrep = nil }()
		compareTable(c, rule, strings.TrimPrefix(fnSpec, "sort")+": lexicographic chain", fn, 0, vars, ip, func(a asg) string {
			for _, k := range keys {
				r := a[k.field]
				if r == "=" {
					continue
				}
				less := r == "<"
				if k.dir == "desc" {
					less = !less
				}
				if less {
					return "value:-1"
				}
				return "value:1"
			}
			return "call:strings.Compare"
		}, nil)
		for _, call := range fw.CallsTo(fn, false, fw.NameIs("strings.Compare")) {
			s := argSigs(call)
			ok := len(s) == 2 && strings.HasPrefix(s[0], "*param:a."+last) && strings.HasPrefix(s[1], "*param:b."+last)
			c.Check(ok, rule, fnSpec+": the final tie-break is the event ID, ascending", c.P.Pos(call.Pos()), "", "strings.Compare("+strings.Join(s, ", ")+")")
		}
	}
	check("sortStateResV2ConflictedPowerLevelHeap", []key{{"powerLevel", "desc"}, {"originServerTS", "asc"}}, "eventID")
	check("sortStateResV2ConflictedOtherHeap", []key{{"mainlinePosition", "asc"}, {"mainlineSteps", "asc"}, {"originServerTS", "asc"}}, "eventID")
	// the wrappers fill the compared fields from the right sources
	for spec, want := range map[string]map[string]string{
		"(*stateResolverV2).wrapPowerLevelEventsForSort": {"powerLevel": "getPowerLevelFromAuthEvents(", "originServerTS": ".OriginServerTS(", "eventID": ".EventID("},
		"(*stateResolverV2).wrapOtherEventsForSort":      {"mainlinePosition": "getFirstPowerLevelMainlineEvent(", "mainlineSteps": "getFirstPowerLevelMainlineEvent(", "originServerTS": ".OriginServerTS(", "eventID": ".EventID("},
	} {
		fn := mustFunc(c, rule, spec)
		if fn == nil {
			continue
		}
		for _, f := range fw.SortedKeys(want) {
			ok := false
			for _, b := range fn.Blocks {
				for _, ins := range b.Instrs {
					if st, isSt := ins.(*ssa.Store); isSt && strings.HasSuffix(fw.Sig(st.Addr), "."+f) && strings.Contains(fw.Sig(st.Val), want[f]) {
						ok = true
					}
				}
			}
			c.Expect(ok, rule, spec+": "+f+" comes from "+strings.Trim(want[f], ".("), c.P.Pos(fn.Pos()), "", "no store of "+want[f]+"...) into sort key "+f+" was recognised")
		}
	}
	// the power sort key ranks every room creator (create sender and additional_creators) as
	// infinite power in privileged-creator rooms, as the authorisation rules do
	if fn := mustFunc(c, rule, "(*stateResolverV2).getPowerLevelFromAuthEvents"); fn != nil {
		if tbl, err := fw.ExtractTable(fn, 0); err != nil {
			c.Undecided(rule, "getPowerLevelFromAuthEvents", err.Error())
		} else {
			tbl.ExpandUnknown(func(atom string) bool {
				return !fw.AtomCallsUnexportedHelper(atom) || strings.Contains(atom, "gmsl.CreatorsFromCreateEvent(")
			})
			n := 0
			for _, r := range tbl.Rows {
				if r.Outcome != "value:*global:gmsl.CreatorPowerLevel" {
					continue
				}
				n++
				okAll := len(r.Cond) > 0
				for _, term := range r.Cond {
					inSet := termHas(term, lit{[]string{"gmsl.CreatorsFromCreateEvent(", ".SenderID(param:event)", " == "}, true}) ||
						termHas(term, lit{[]string{"slices.Contains(gmsl.CreatorsFromCreateEvent(", ".SenderID(param:event)"}, true})
					priv := termHas(term, lit{[]string{".PrivilegedCreators("}, true})
					if !inSet || !priv {
						okAll = false
					}
				}
				construct := "power sort key: a sender gets the creator level iff the version privileges creators and the sender is one of CreatorsFromCreateEvent(create)"
				// the sender tested against what an unexported routine of the repository hands out (a
				// memoised creator set, a set built elsewhere): what that routine returns is not read here
				opaque := false
				if !okAll {
					for _, term := range r.Cond {
						for _, x := range term {
							if x.Pos && strings.Contains(x.Atom, ".SenderID(param:event)") && unexportedCallAtHead(x.Atom) && !strings.Contains(x.Atom, "gmsl.CreatorsFromCreateEvent(") {
								opaque = true
							}
						}
					}
				}
				if opaque {
					c.Undecided(rule, construct, "the sender is tested against the result of an unexported routine under ["+r.Cond.String()+"]")
					continue
				}
				c.Check(okAll, rule, construct, c.P.Pos(fw.InstrPos(r.Ret)), "", "CreatorPowerLevel is returned under ["+r.Cond.String()+"]: the test is not membership of the sender in the create event's creator set (additional creators then sort by their power-levels entry)")
			}
			c.Min(rule+" creator-level returns in the power sort key", n, 1)
		}
	}
	// position/steps are taken from the right results of getFirstPowerLevelMainlineEvent
	if fn := c.P.Func("(*stateResolverV2).wrapOtherEventsForSort"); fn != nil {
		for _, b := range fn.Blocks {
			for _, ins := range b.Instrs {
				if st, isSt := ins.(*ssa.Store); isSt {
					a, v := fw.Sig(st.Addr), fw.Sig(st.Val)
					if strings.HasSuffix(a, ".mainlinePosition") {
						c.Check(strings.HasSuffix(v, "#1"), rule, "mainline position is result #1 of the mainline search", c.P.Pos(fw.InstrPos(st)), "", v)
					}
					if strings.HasSuffix(a, ".mainlineSteps") {
						c.Check(strings.HasSuffix(v, "#2"), rule, "mainline steps is result #2 of the mainline search", c.P.Pos(fw.InstrPos(st)), "", v)
					}
				}
			}
		}
	}
	// v1 sorter
	if fn := mustFunc(c, rule, "(conflictedEventSorter).Less"); fn != nil {
		d := "*recv[param:i].depth|*recv[param:j].depth"
		ip := &interp{rel: map[string]string{d: "depth"}}
		compareTable(c, rule, "v1: depth ascending, then event-ID SHA-1 descending", fn, 0, []tvar{{"depth", rel3}}, ip, func(a asg) string {
			if a["depth"] == "=" {
				return "value:(bytes.Compare(recv[param:i].eventIDSHA1[:],recv[param:j].eventIDSHA1[:]) > 0)"
			}
			if a["depth"] == "<" {
				return "value:true"
			}
			return "value:false"
		}, nil)
	}
}

// cmpOrChain recognises `return cmp.Or(cmp.Compare(a.f, b.f), ..., strings.Compare(a.g, b.g))`
// and returns the keys in order with their direction ("f:asc" when a's field is the first
// operand, "f:desc" when b's is).
func cmpOrChain(fn *ssa.Function) ([]string, bool) {
	rets := fw.Returns(fn)
	if len(rets) != 1 || len(fn.Params) != 2 {
		return nil, false
	}
	call, _ := fw.CallOf(rets[0].Results[0])
	if call == nil || !strings.HasPrefix(fw.CalleeName(call), "cmp.Or") {
		return nil, false
	}
	elems, ok := fw.VariadicElems(call.Common().Args[0])
	if !ok {
		return nil, false
	}
	pa, pb := "*param:"+fn.Params[0].Name()+".", "*param:"+fn.Params[1].Name()+"."
	var out []string
	for _, e := range elems {
		cc, _ := fw.CallOf(e)
		if cc == nil || len(cc.Common().Args) != 2 {
			return nil, false
		}
		n := fw.CalleeName(cc)
		if !strings.HasPrefix(n, "cmp.Compare") && n != "strings.Compare" {
			return nil, false
		}
		x, y := fw.Sig(cc.Common().Args[0]), fw.Sig(cc.Common().Args[1])
		switch {
		case strings.HasPrefix(x, pa) && strings.HasPrefix(y, pb) && strings.TrimPrefix(x, pa) == strings.TrimPrefix(y, pb):
			out = append(out, strings.TrimPrefix(x, pa)+":asc")
		case strings.HasPrefix(x, pb) && strings.HasPrefix(y, pa) && strings.TrimPrefix(x, pb) == strings.TrimPrefix(y, pa):
			out = append(out, strings.TrimPrefix(x, pb)+":desc")
		default:
			return nil, false
		}
	}
	return out, len(out) > 0
}

func checkControlEvent(c *fw.Ctx) {
	rule := "4 power-events"
	fn := mustFunc(c, rule, "isControlEvent")
	if fn == nil {
		return
	}
	vars := []tvar{{"type", []string{"m.room.power_levels", "m.room.join_rules", "m.room.member", "m.other"}}, {"sk", []string{"none", "empty", "sender", "other"}}, {"decodes", tf}, {"membership", []string{"leave", "ban", "join", "other"}}}
	ip := &interp{lhs: map[string]string{"(gmsl.PDU).Type(param:e)": "type", "*local:*gmsl.MemberContent.Membership": "membership"}, match: func(atom string, a asg) (bool, bool) {
		switch atom {
		case `(gmsl.PDU).StateKeyEquals(param:e,"")`:
			return a["sk"] == "empty", true
		case "((gmsl.PDU).StateKey(param:e) == nil)":
			return a["sk"] == "none", true
		case "(gmsl.PDU).StateKeyEquals(param:e,(gmsl.PDU).SenderID(param:e))":
			return a["sk"] == "sender", true
		case "(encoding/json.Unmarshal((gmsl.PDU).Content(param:e),local:*gmsl.MemberContent) == nil)":
			return a["decodes"] == "true", true
		}
		return false, false
	}}
	compareTable(c, rule, "power events: power_levels / join_rules with empty state key; leave or ban of another user", fn, 0, vars, ip, func(a asg) string {
		switch a["type"] {
		case "m.room.power_levels", "m.room.join_rules":
			// the function returns StateKeyEquals("") itself for these types
			return "value:STATEKEY_EMPTY"
		case "m.room.member":
			if a["sk"] == "other" && a["decodes"] == "true" && (a["membership"] == "leave" || a["membership"] == "ban") {
				return "value:true"
			}
		}
		return "value:false"
	}, func(r fw.Row) string {
		if strings.Contains(r.Outcome, "StateKeyEquals") {
			return "value:STATEKEY_EMPTY"
		}
		return r.Outcome
	})
}

func checkFallback(c *fw.Ctx) {
	rule := "5 fallback"
	fn := mustFunc(c, rule, "(*stateResolverV2).authAndApplyEvents")
	if fn == nil {
		return
	}
	n := 0
	addEvent := fw.NameIs("(*gmsl.AuthEvents).AddEvent")
	for _, dc := range deepCallsTo(fn, addEvent) {
		n++
		s := fw.SigIn(dc.Fr, dc.Call.Common().Args[1])
		// positive evidence only: what is inserted is the event that is being checked
		self := s == "param:event" || strings.HasPrefix(s, "*param:events[") && !strings.Contains(s, "AuthEventIDs(") || s == "next(range(param:events))#2"
		c.Check(!self, rule, "the auth provider is filled from resolved state or the event's auth events, never the event itself", c.P.Pos(dc.Call.Pos()), s, "AddEvent receives "+s+": the event under check is inserted into its own auth provider and authorises itself")
	}
	c.Min(rule+" AddEvent sites", n, 3)
	// the fallback respects rejection and the (type, state_key) it is looking for
	nfb := 0
	for _, dc := range deepCallsTo(fn, addEvent) {
		s := fw.SigIn(dc.Fr, dc.Call.Common().Args[1])
		if !strings.Contains(s, "authEventMap[") {
			continue
		}
		nfb++
		conds := strings.Join(fw.DeepFacts(dc.Fr, dc.Call.Block()), " && ")
		c.Expect(strings.Contains(conds, "!phi(") || strings.Contains(conds, "ejected"), rule, "rejected auth events are skipped", c.P.Pos(dc.Call.Pos()), "", "no rejection test was recognised before the fallback insertion: "+conds)
		c.Expect(strings.Contains(conds, ".Type(") && strings.Contains(conds, "StateKeyEquals("), rule, "the fallback inserts only the auth event of the needed (type, state_key)", c.P.Pos(dc.Call.Pos()), "", "conditions: "+conds)
	}
	c.Expect(nfb > 0, rule, "auth-event fallback insertion", c.P.Pos(fn.Pos()), "", "no insertion of an event taken from the auth event map was recognised")
	// the event's own auth events are a fallback only: they are consulted where the partial
	// (resolved) state has no entry for the tuple, never on top of an entry it has
	hasResolvedFields := false
	if recv := fn.Signature.Recv(); recv != nil {
		if st := derefStructOf(recv.Type()); st != nil {
			for i := 0; i < st.NumFields(); i++ {
				if strings.HasPrefix(st.Field(i).Name(), "resolved") {
					hasResolvedFields = true
				}
			}
		}
	}
	for _, dc := range deepCallsTo(fn, addEvent) {
		s := fw.SigIn(dc.Fr, dc.Call.Common().Args[1])
		if !strings.Contains(s, "authEventMap[") {
			continue
		}
		construct := "an event's own auth events are used only where the partial state has no entry"
		opaque := ""
		absentIn := func(facts []string) bool {
			res := false
			for _, f := range facts {
				neg := strings.HasPrefix(f, "!")
				atom := strings.TrimPrefix(f, "!")
				if strings.Contains(atom, ".resolved") {
					if (strings.HasSuffix(atom, "== nil)") && !neg) || (strings.HasSuffix(atom, "!= nil)") && neg) || (strings.HasSuffix(atom, "#1") && neg) {
						res = true
					}
				}
				if fw.AtomCallsUnexportedHelper(atom) || strings.Contains(atom, "dyn(") {
					opaque = atom // a helper, or an accessor taken from a table of slots
				}
			}
			return res
		}
		absent := absentIn(fw.DeepFacts(dc.Fr, dc.Call.Block()))
		// an insertion inside a function literal: the test may sit at the literal's call sites
		if host := dc.Call.Parent(); !absent && host.Parent() != nil && (dc.Fr == nil || dc.Fr.Callee != host) {
			nSites, okSites := 0, 0
			for _, f := range fw.FamilyOf(host.Parent()) {
				for _, cs := range fw.Calls(f) {
					if cs.Common().StaticCallee() == host {
						nSites++
						if absentIn(fw.DeepFacts(dc.Fr, cs.Block())) {
							okSites++
						}
					}
				}
			}
			absent = nSites > 0 && okSites == nSites
			if nSites == 0 {
				opaque = "a function literal whose call sites were not found"
			}
		}
		switch {
		case absent:
			c.Ok(rule, construct, c.P.Pos(dc.Call.Pos()), "")
		case !hasResolvedFields || opaque != "" || fw.OpaqueDispatchAny(dc.Call.(ssa.Instruction).Parent()) != "":
			c.Undecided(rule, construct, "no test of the partial state was recognised before the insertion at "+c.P.Pos(dc.Call.Pos())+" (opaque condition: "+opaque+")")
		default:
			c.Fail(rule, construct, c.P.Pos(dc.Call.Pos()), "an auth event cited by the event itself is inserted without a test that the resolved partial state lacks that (type, state_key): AddEvent overwrites the partial-state entry, so the event is authorised against the state it cites instead of the state resolved so far")
		}
	}
}

func checkAuthDifference(c *fw.Ctx) {
	rule := "6 auth-difference"
	fn := mustFunc(c, rule, "(*stateResolverV2).calculateAuthDifferenceNew")
	if fn == nil {
		return
	}
	n := 0
	for _, call := range fw.Calls(fn) {
		name := fw.CalleeName(call)
		if !strings.HasSuffix(name, ".Intersect") {
			continue
		}
		n++
		recv := call.Common().Value
		if !call.Common().IsInvoke() && len(call.Common().Args) > 0 {
			recv = call.Common().Args[0]
		}
		// the receiver must be the loop-carried accumulator: a phi one of whose edges is this call's own result
		ok := false
		if phi, isPhi := fw.Unwrap(recv).(*ssa.Phi); isPhi {
			for _, e := range phi.Edges {
				if cc, _ := fw.CallOf(fw.Unwrap(e)); cc == call {
					ok = true
				}
			}
		}
		c.Check(ok, rule, "the intersection of the auth chains is accumulated over all state sets", c.P.Pos(call.Pos()), "", "Intersect is applied to "+fw.Sig(recv)+" instead of the running intersection: with three or more state sets only two chains are intersected")
	}
	c.Min(rule+" Intersect sites", n, 1)
	// union over all chains, difference = union \ intersection
	okDiff := false
	for _, call := range fw.Calls(fn) {
		if strings.HasSuffix(fw.CalleeName(call), ".Difference") {
			okDiff = true
		}
	}
	c.Expect(okDiff, rule, "auth difference = union minus intersection", c.P.Pos(fn.Pos()), "", "no Difference call was recognised")
	// v2 returns the plain difference; v2.1 adds the conflicted subgraph
	for _, r := range fw.Returns(fn) {
		s := fw.Sig(r.Results[0])
		conds := condsOf(r.Block())
		if strings.Contains(s, ".Union(") {
			c.Check3(algoVerdict(strings.Contains(conds, "!(param:stateResAlgo == 2)"), conds), rule, "the conflicted subgraph is added only outside v2", c.P.Pos(fw.InstrPos(r)), conds, "union with the conflicted subgraph under ["+conds+"]")
		} else {
			c.Check3(algoVerdict(strings.Contains(conds, "(param:stateResAlgo == 2)") && !strings.Contains(conds, "!(param:stateResAlgo == 2)"), conds), rule, "v2 returns the plain auth difference", c.P.Pos(fw.InstrPos(r)), conds, "plain difference under ["+conds+"]")
		}
	}
	for _, call := range fw.Calls(fn) {
		if strings.HasSuffix(fw.CalleeName(call), ".InsertSet") && strings.Contains(fw.Sig(call.Common().Args[len(call.Common().Args)-1]), "calculateFullAuthChainAndConflictedSubgraph") && strings.HasSuffix(fw.Sig(call.Common().Args[len(call.Common().Args)-1]), "#1") {
			conds := condsOf(call.Block())
			c.Check3(algoVerdict(strings.Contains(conds, "(param:stateResAlgo == 3)"), conds), rule, "the conflicted subgraph is collected only for v2.1", c.P.Pos(call.Pos()), conds, "collected under ["+conds+"]")
		}
	}
}

func checkV1Order(c *fw.Ctx) {
	rule := "7 v1"
	fn := mustFunc(c, rule, "ResolveStateConflicts")
	if fn == nil {
		return
	}
	calls := fw.CallsTo(fn, false, fw.NameIs("(*gmsl.stateResolver).resolveAndAddAuthBlocks"))
	var order, together []string
	last := ""
	for _, b := range fn.Blocks {
		for _, ins := range b.Instrs {
			if fa, ok := ins.(*ssa.FieldAddr); ok {
				if st := derefStructOf(fa.X.Type()); st != nil {
					switch n := st.Field(fa.Field).Name(); n {
					case "creates", "powerLevels", "joinRules", "thirdPartyInvites", "members":
						last = n
					}
				}
			}
			if call, ok := ins.(ssa.CallInstruction); ok && fw.CalleeName(call) == "(*gmsl.stateResolver).resolveAndAddAuthBlocks" {
				order = append(order, last)
				last = ""
				// which of the five per-type fields the blocks handed to this call are read from
				args := call.Common().Args
				set, dynamic := map[string]bool{}, false
				for _, a := range args {
					if sl, isSl := a.Type().Underlying().(*types.Slice); isSl {
						if _, inner := sl.Elem().Underlying().(*types.Slice); inner {
							v1BlockFields(a, 0, map[ssa.Value]bool{}, set, &dynamic)
						}
					}
				}
				if len(set) > 1 && !dynamic {
					together = append(together, strings.Join(sortedSet(set), "+"))
				}
			}
		}
	}
	want := "creates,powerLevels,joinRules,thirdPartyInvites,members"
	{
		construct := "v1 resolves auth types in the order create, power_levels, join_rules, third-party invites, members"
		got := strings.Join(order, ",")
		complete := len(order) == 5 && !strings.Contains(","+got+",", ",,")
		switch {
		case len(together) > 0:
			// resolveAndAddAuthBlocks registers its winners only after all blocks it was given are
			// resolved: two auth types handed over in one call do not see each other's outcome
			c.Fail(rule, construct, c.P.Pos(fn.Pos()), "several auth types are resolved in one step ("+strings.Join(together, ", ")+"): the later type is authorised without the earlier type's resolved event")
		case got == want:
			c.Ok(rule, construct, c.P.Pos(fn.Pos()), got)
		case complete:
			// the five per-type calls are all there, in another order
			c.Fail(rule, construct, c.P.Pos(fn.Pos()), "order is "+got)
		default:
			c.Undecided(rule, construct, "the five per-type resolution steps were not recognised as separate calls (a table or loop drives them): saw "+got)
		}
	}
	for i := 1; i < len(calls); i++ {
		a, b := calls[i-1], calls[i]
		_, bad := fw.MustPrecede(fn, func(x ssa.Instruction) bool { return x == a.(ssa.Instruction) }, func(x ssa.Instruction) bool { return x == b.(ssa.Instruction) })
		c.Check(len(bad) == 0, rule, fmt.Sprintf("v1 stage %d precedes stage %d", i, i+1), c.P.Pos(b.Pos()), "", "stages out of order")
	}
	n := len(fw.CallsTo(fn, false, fw.NameIs("(*gmsl.stateResolver).resolveNormalBlock")))
	c.Expect(n == 1, rule, "v1 resolves the remaining state after the auth types", c.P.Pos(fn.Pos()), "", fmt.Sprintf("%d resolveNormalBlock sites in ResolveStateConflicts itself", n))
	// blocks are sorted by the v1 comparator before being walked
	for _, spec := range []string{"(*stateResolver).resolveAuthBlock", "(*stateResolver).resolveNormalBlock"} {
		if f := mustFunc(c, rule, spec); f != nil {
			c.Expect(len(deepCallsTo(f, fw.NameIs("gmsl.sortConflictedEventsByDepthAndSHA1"))) >= 1, rule, spec+" sorts the conflicted block by depth and SHA-1", c.P.Pos(f.Pos()), "", "no call of the v1 comparator sort was found in the routine or its helpers")
		}
	}
}

// isAlgoValue: the value is the room version's state resolution algorithm (possibly handed
// back by a helper or merged from a helper's exits).
func isAlgoValue(v ssa.Value) bool {
	return fw.DerivesFrom(v, fw.FlowSpec{IsSource: fw.IsResultOf(func(n string) bool { return strings.HasSuffix(n, ".StateResAlgorithm") }, -1)})
}

// isAlgoAtom: the atom compares the algorithm value with a constant.
func isAlgoAtom(atom string) bool {
	bo, ok := fw.AtomValue(atom).(*ssa.BinOp)
	if !ok {
		return false
	}
	return isAlgoValue(bo.X) || isAlgoValue(bo.Y)
}

// v1BlockFields collects the per-type fields of the v1 resolver (creates, powerLevels, ...)
// that the value v - a list of blocks - is built from. dynamic: an element was selected with a
// non-constant index (a table walked by a loop), so which fields reach this use is not known.
func v1BlockFields(v ssa.Value, depth int, seen map[ssa.Value]bool, set map[string]bool, dynamic *bool) {
	if depth > 10 || seen[v] {
		return
	}
	seen[v] = true
	rec := func(x ssa.Value) { v1BlockFields(x, depth+1, seen, set, dynamic) }
	switch x := v.(type) {
	case *ssa.UnOp:
		rec(x.X)
	case *ssa.FieldAddr:
		if st := derefStructOf(x.X.Type()); st != nil {
			switch n := st.Field(x.Field).Name(); n {
			case "creates", "powerLevels", "joinRules", "thirdPartyInvites", "members":
				set[n] = true
				return
			}
		}
		rec(x.X)
	case *ssa.Slice:
		rec(x.X)
	case *ssa.IndexAddr:
		if _, isC := x.Index.(*ssa.Const); !isC {
			*dynamic = true
		}
		rec(x.X)
	case *ssa.Index:
		if _, isC := x.Index.(*ssa.Const); !isC {
			*dynamic = true
		}
		rec(x.X)
	case *ssa.Phi:
		for _, e := range x.Edges {
			rec(e)
		}
	case *ssa.Alloc:
		for _, ref := range *x.Referrers() {
			switch r := ref.(type) {
			case *ssa.Store:
				if r.Addr == ssa.Value(x) {
					rec(r.Val)
				}
			case *ssa.IndexAddr:
				for _, r2 := range *r.Referrers() {
					if st, ok := r2.(*ssa.Store); ok && st.Addr == ssa.Value(r) {
						rec(st.Val)
					}
				}
			case *ssa.FieldAddr:
				for _, r2 := range *r.Referrers() {
					if st, ok := r2.(*ssa.Store); ok && st.Addr == ssa.Value(r) {
						rec(st.Val)
					}
				}
			}
		}
	case *ssa.Call:
		if fw.CalleeName(x) == "builtin.append" {
			for _, a := range x.Call.Args {
				rec(a)
			}
		}
	case *ssa.Parameter, *ssa.Extract, *ssa.Lookup, *ssa.Next:
		*dynamic = true
	}
}

// unexportedCallIn: a rendered call of an unexported function or method of the repository.
var unexportedCallIn = regexp.MustCompile(`(\(\*?gmsl\.\w+\)\.|gmsl\.)[a-z_]\w*\(`)

// unexportedCallAtHead: the atom is itself a call of an unexported routine of the repository, or a
// library membership test (slices.Contains, a map lookup) of what such a routine returns.
func unexportedCallAtHead(atom string) bool {
	a := strings.TrimLeft(atom, "(!")
	for _, pre := range []string{"slices.Contains(", "slices.Index(", "slices.ContainsFunc("} {
		a = strings.TrimPrefix(a, pre)
	}
	loc := unexportedCallIn.FindStringIndex(a)
	return loc != nil && loc[0] == 0
}
