package props

import (
	"fmt"
	"os"
	"go/types"
	"strings"

	"gmslverif/fw"

	"golang.org/x/tools/go/ssa"
)

// checkF12: methods of the repository's string-kinded identifier types (spec.SenderID, ...)
// are called on values taken from parsed events, and not every room version validates every
// identifier (org.matrix.msc4014 parses an event without checking its sender, so SenderID("")
// exists). A method that indexes its receiver at a constant position must test the receiver's
// length first.
func checkF12(c *fw.Ctx) {
	rule := "F12 receiver-index"
	n := 0
	for _, fn := range c.P.SrcFuncs() {
		if fn.Signature.Recv() == nil || len(fn.Params) == 0 {
			continue
		}
		recv := fn.Params[0]
		if os.Getenv("GMSL_DEBUG") != "" && strings.Contains(fn.String(), "SenderID") {
			fmt.Printf("DEBUG F12 %s recv=%s type=%T %s\n", fn.String(), recv.Name(), recv.Type(), recv.Type().Underlying())
		}
		if bt, ok := recv.Type().Underlying().(*types.Basic); !ok || bt.Info()&types.IsString == 0 {
			continue
		}
		if _, named := recv.Type().(*types.Named); !named {
			continue
		}
		for _, b := range fn.Blocks {
			for _, ins := range b.Instrs {
				var x, index ssa.Value
				switch lk := ins.(type) {
				case *ssa.Lookup:
					x, index = lk.X, lk.Index
				case *ssa.Index:
					x, index = lk.X, lk.Index
				default:
					continue
				}
				if bt, isB := x.Type().Underlying().(*types.Basic); !isB || bt.Info()&types.IsString == 0 {
					continue
				}
				if fw.Unwrap(x) != ssa.Value(recv) && fw.Origin(x) != ssa.Value(recv) {
					// a conversion of the receiver to string
					cv, isConv := x.(*ssa.ChangeType)
					cv2, isConv2 := x.(*ssa.Convert)
					if !(isConv && cv.X == ssa.Value(recv)) && !(isConv2 && cv2.X == ssa.Value(recv)) {
						continue
					}
				}
				if _, isConst := fw.ConstInt(index); !isConst {
					continue
				}
				n++
				guarded := false
				for _, s := range fw.CondStrings(b) {
					if strings.Contains(s, "builtin.len(") && strings.Contains(s, "param:"+recv.Name()) || strings.Contains(s, "builtin.len(recv") || strings.Contains(s, `recv == "")`) {
						guarded = true
					}
				}
				c.Check(guarded, rule, fw.FuncName(fn)+" tests the length of its receiver before indexing it", c.P.Pos(fw.InstrPos(ins)), "", "the receiver is indexed at a constant position without a test of its length: the empty identifier (accepted as a sender by room versions that do not validate it) makes the accessor panic")
			}
		}
	}
	c.Count("receiver_index_sites", n)
}
