package props

import (
	"fmt"
	"sort"
	"strings"

	"gmslverif/fw"

	"golang.org/x/tools/go/ssa"
)

func init() { register("C09", checkC09) }

func checkC09(c *fw.Ctx) {
	c.Explanation = "C09 (static): (1) effect analysis over the call graph: no function reachable from the per-event check allowerContext.allowed writes a field of the shared allowerContext (directly or through the structs embedding it), so a reused checker gives the verdict a fresh one gives; update() is the only writer and pairs every cached content with its event pointer; the auth-event providers' accessors are write-free; (2) the needed-state computation accumulateStateNeeded is extracted as an effect table (which (type,state_key) classes are requested under which event type / membership / content facts) and compared with the rules' table; the membership values under which the membership rules read the join rule are shown to be a subset of those for which the join rules are requested; per event type the provider accessors reachable from the handler are a subset of what is requested; (3) state resolution refreshes the provider and the checker before every check; AddAuthEvents selects through the same needed-state computation."
	c.NotDecidedClause("determinism under repeated evaluation beyond the absence of writes (no other source of non-determinism is looked for)")
	c.NotDecidedClause("sufficiency of AddAuthEvents for other servers as a behaviour")
	c.NotDecidedClause("aliasing through values whose provenance is neither a local construction nor the checker's own fields (call results, globals)")
	root := mustFunc(c, "1 no-write", "(*allowerContext).allowed")
	if root == nil {
		return
	}
	ctxFields := fw.StructFields(c.P, "", "allowerContext")
	owned := map[string]bool{}
	for n := range ctxFields {
		owned[n] = true
	}
	reach := fw.ReachableFuncs(c.Graph(), []*ssa.Function{root}, func(f *ssa.Function) bool { return c.P.IsRepoFunc(f) })
	nfn, nw := 0, 0
	var names []string
	for f := range reach {
		if c.P.IsRepoFunc(f) {
			names = append(names, fw.FuncName(f)+"\x00"+f.String())
		}
	}
	sort.Strings(names)
	byName := map[string]*ssa.Function{}
	for f := range reach {
		byName[fw.FuncName(f)+"\x00"+f.String()] = f
	}
	for _, k := range names {
		f := byName[k]
		nfn++
		c.SawFn(fw.FuncName(f))
		for _, w := range fw.WritesIn(f) {
			nw++
			for _, fld := range w.Path.Fields {
				if ctxFields[fld.Name()] == fld {
					c.Fail("1 no-write", fmt.Sprintf("%s does not write allowerContext.%s", fw.FuncName(f), fld.Name()), c.P.Pos(fw.InstrPos(w.Instr)), fmt.Sprintf("the shared checker state allowerContext.%s is written during a check (call chain %s): the verdict of later events through the same checker depends on which events were checked before", fld.Name(), fw.ChainString(reach[f])))
				}
			}
		}
	}
	// writes through references that alias the shared context: a map (or slice) reached by copying a
	// struct out of the context still is the context's map
	isCtxField := func(v ssa.Value) bool {
		fa, ok := v.(*ssa.FieldAddr)
		if !ok {
			return false
		}
		st := derefStructOf(fa.X.Type())
		return st != nil && ctxFields[st.Field(fa.Field).Name()] == st.Field(fa.Field)
	}
	nalias := 0
	for _, k := range names {
		f := byName[k]
		for _, w := range fw.WritesIn(f) {
			if w.Kind == "store" && !w.Path.Index {
				continue
			}
			var ref ssa.Value
			switch x := w.Instr.(type) {
			case *ssa.MapUpdate:
				ref = x.Map
			case ssa.CallInstruction:
				if len(x.Common().Args) > 0 {
					ref = x.Common().Args[0]
				}
			case *ssa.Store:
				if ia, ok := x.Addr.(*ssa.IndexAddr); ok {
					ref = ia.X
				}
			}
			if ref == nil {
				continue
			}
			nalias++
			if sharedRef(c, ref, f, isCtxField, reach, 0) {
				c.Fail("1 no-write", fmt.Sprintf("%s does not write through a map or slice of the shared context", fw.FuncName(f)), c.P.Pos(fw.InstrPos(w.Instr)), fmt.Sprintf("%s is written during a check, and it is (a copy of a struct holding) a map or slice of the shared allowerContext: the cached state changes, so the verdict of later events through the same checker depends on which events were checked before (call chain %s)", fw.Sig(ref), fw.ChainString(reach[f])))
			}
		}
	}
	c.Count("reference_writes_inspected", nalias)
	c.Count("functions_reachable_from_allowed", nfn)
	c.Count("writes_inspected", nw)
	c.Min("1 no-write reachable functions", nfn, 10)
	c.Ok("1 no-write", "functions reachable from allowerContext.allowed were scanned for writes to the shared context", "", fmt.Sprintf("%d functions, %d writes inspected", nfn, nw))
	// update must not be reachable from allowed
	if up := mustFunc(c, "1 no-write", "(*allowerContext).update"); up != nil {
		_, reachable := reach[up]
		c.Check(!reachable, "1 no-write", "update() is not reachable from a check", c.P.Pos(up.Pos()), "", "the cache refresh is reachable from allowed(): "+fw.ChainString(reach[up]))
		checkUpdate(c, up)
	}
	// who writes the context at all: update / newAllowerContext / composite construction only
	// update() may delegate to unexported helpers of its own; they are writers by the same right
	writers := map[*ssa.Function]bool{}
	if up := c.P.Func("(*allowerContext).update"); up != nil {
		for _, f := range fw.RegionOf(up, nil) {
			if _, fromCheck := reach[f]; !fromCheck {
				writers[f] = true
			}
		}
	}
	for _, f := range c.P.SrcFuncs() {
		name := fw.FuncName(f)
		if name == "(*gmsl.allowerContext).update" || name == "gmsl.newAllowerContext" || writers[f] {
			continue
		}
		for _, w := range fw.WritesIn(f) {
			for _, fld := range w.Path.Fields {
				if ctxFields[fld.Name()] == fld {
					if _, isReach := reach[f]; isReach {
						continue // already reported above
					}
					c.Fail("1 no-write", fmt.Sprintf("only update() writes allowerContext.%s (found %s)", fld.Name(), name), c.P.Pos(fw.InstrPos(w.Instr)), "an additional writer of the shared checker state")
				}
			}
		}
	}
	// 2. provider accessors are write-free
	for _, recv := range []string{"AuthEvents", "stateResolver"} {
		for _, m := range []string{"Create", "JoinRules", "PowerLevels", "Member", "ThirdPartyInvite", "Valid"} {
			fn := c.P.Func("(*" + recv + ")." + m)
			if fn == nil {
				c.Undecided("2 accessors", recv+"."+m, "not found")
				continue
			}
			bad := ""
			for _, w := range fw.WritesIn(fn) {
				if len(w.Path.Fields) > 0 || w.Path.Index {
					if _, isParam := w.Path.Base.(*ssa.Parameter); isParam {
						bad = c.P.Pos(fw.InstrPos(w.Instr))
					}
				}
			}
			c.Check(bad == "", "2 accessors", recv+"."+m+" is read-only", c.P.Pos(fn.Pos()), "", "the accessor writes provider state at "+bad)
		}
	}
	checkNeeded(c)
	checkResolutionRefresh(c)
}

// checkRefreshFailure: when the rebuild of a cached content fails (the current event does not
// parse, the create event is gone) the cache must not keep what an earlier check left there: a
// new context holds nothing in that case, so the reused one would give a different verdict.
// For every content constructor called by update(): the fields of the context written on the
// success edge of its error test are also written on the failure edge.
func checkRefreshFailure(c *fw.Ctx, up *ssa.Function) {
	rule := "4 update"
	ctxStores := func(root *ssa.BasicBlock) map[string]bool {
		out := map[string]bool{}
		if root == nil || len(root.Preds) != 1 {
			return out // not an exclusive branch: nothing is written on this edge only
		}
		for _, b := range up.Blocks {
			if !root.Dominates(b) {
				continue
			}
			for _, ins := range b.Instrs {
				if st, ok := ins.(*ssa.Store); ok {
					if fa, ok := st.Addr.(*ssa.FieldAddr); ok {
						if sty := derefStructOf(fa.X.Type()); sty != nil && strings.HasSuffix(fa.X.Type().String(), "allowerContext") {
							out[sty.Field(fa.Field).Name()] = true
						}
					}
				}
			}
		}
		return out
	}
	n := 0
	for _, iff := range fw.Ifs(up) {
		v, trueMeansNil, ok := fw.NilCheck(iff.Cond)
		if !ok {
			continue
		}
		call, idx := fw.CallOf(v)
		if call == nil || idx < 1 || !strings.Contains(fw.CalleeName(call), "ContentFromAuthEvents") {
			continue
		}
		okB, failB := iff.Block().Succs[0], iff.Block().Succs[1]
		if !trueMeansNil {
			okB, failB = failB, okB
		}
		onOK, onFail := ctxStores(okB), ctxStores(failB)
		if len(onOK) == 0 {
			continue
		}
		n++
		var missing []string
		for f := range onOK {
			if !onFail[f] {
				missing = append(missing, f)
			}
		}
		sort.Strings(missing)
		construct := "when " + strings.TrimPrefix(fw.CalleeName(call), "gmsl.") + " fails, the cached fields it would have refreshed are reset"
		c.Check(len(missing) == 0, rule, construct, c.P.Pos(iff.Pos()), "", "on the failure edge update() leaves "+strings.Join(missing, ", ")+" as an earlier check set them: the reused checker keeps judging by a stale content (e.g. an earlier 'public' join rule) where a new checker has none, so the verdict depends on what was checked before")
	}
	if n == 0 {
		c.Undecided(rule, "a failed refresh resets the cache", "no error test of a content constructor was recognised in update()")
	}
}

// checkNoInPlaceRefresh: the cached contents are replaced by freshly built values. A refresh that
// decodes into the cached object itself (its address handed to a loader) keeps what the new
// event does not mention - entries of the users / events maps of the previous power levels -
// so the verdict depends on which event the checker saw before.
func checkNoInPlaceRefresh(c *fw.Ctx, up *ssa.Function) {
	rule := "4 update"
	construct := "a cached content is replaced by a freshly built value, not filled in place"
	bad := ""
	for _, dc := range fw.AllDeepCalls(up, nil) {
		cm := dc.Call.Common()
		args := cm.Args
		for _, a := range args {
			fa, ok := a.(*ssa.FieldAddr)
			if !ok {
				continue
			}
			sty := derefStructOf(fa.X.Type())
			if sty == nil || !strings.HasSuffix(fa.X.Type().String(), "allowerContext") {
				continue
			}
			switch sty.Field(fa.Field).Name() {
			case "create", "powerLevels", "joinRule":
				// the address of the cached content is handed to a routine: it is written through
				if n := fw.CalleeName(dc.Call); !strings.HasSuffix(n, ".UserLevel") && !strings.HasSuffix(n, ".EventLevel") && !strings.HasSuffix(n, ".NotificationLevel") {
					bad = fmt.Sprintf("&%s is handed to %s at %s", sty.Field(fa.Field).Name(), n, c.P.Pos(dc.Call.Pos()))
				}
			}
		}
	}
	if bad != "" {
		c.Fail(rule, construct, c.P.Pos(up.Pos()), bad+": the cached object is filled in place, so members the new event does not mention keep the values of the previous one")
	} else {
		c.Ok(rule, construct, c.P.Pos(up.Pos()), "")
	}
}

// checkUpdate: each cached content is stored only together with its event pointer.
func checkUpdate(c *fw.Ctx, up *ssa.Function) {
	rule := "4 update"
	checkRefreshFailure(c, up)
	checkNoInPlaceRefresh(c, up)
	pairs := map[string]string{"create": "createEvent", "powerLevels": "powerLevelsEvent", "joinRule": "joinRuleEvent"}
	stores := map[string][]*ssa.Store{}
	region := fw.RegionOf(up, nil)
	for _, rf := range region {
		for _, b := range rf.Blocks {
			for _, ins := range b.Instrs {
				if st, ok := ins.(*ssa.Store); ok {
					if fa, ok := st.Addr.(*ssa.FieldAddr); ok {
						if s := derefStructOf(fa.X.Type()); s != nil {
							stores[s.Field(fa.Field).Name()] = append(stores[s.Field(fa.Field).Name()], st)
						}
					}
				}
			}
		}
	}
	for content, ev := range pairs {
		if len(stores[content]) == 0 {
			c.Undecided(rule, "cached "+content+" is refreshed together with "+ev, "no store of the cached "+content+" found in update() or its helpers")
			continue
		}
		ok := true
		for _, st := range stores[content] {
			// the event pointer is stored in the same function, and no return separates the two
			// (both happen or neither does)
			same := false
			for _, se := range stores[ev] {
				if se.Parent() == st.Parent() && (se.Block() == st.Block() || se.Block().Dominates(st.Block()) || st.Block().Dominates(se.Block())) {
					same = true
				}
			}
			if !same {
				ok = false
			}
		}
		c.Check(ok, rule, "cached "+content+" is refreshed together with "+ev, c.P.Pos(up.Pos()), "", "the cached content and the event pointer that keys it are not updated together")
	}
	// a cached content is rebuilt whenever the provider's event differs from the cached one or
	// there is none: without an event the content is built from defaults that depend on other
	// cached state (the creator), so a "built once" flag keeps stale levels
	for content, ev := range pairs {
		for _, st := range stores[content] {
			if st.Parent() != up {
				continue
			}
			d, okD := fw.CondAt(nil, st.Block())
			if !okD {
				continue
			}
			verdict, detail := "ok", ""
			for _, term := range d {
				keyed := false
				other := ""
				for _, l := range term {
					a := l.Atom
					switch {
					case strings.Contains(a, "recv."+ev+" == nil)") && l.Pos:
						keyed = true
					case strings.Contains(a, "recv."+ev) && strings.Contains(a, " == ") && !strings.HasSuffix(a, "== nil)") && !l.Pos:
						keyed = true
					case strings.HasSuffix(a, "#0 == nil)") && strings.Contains(a, "(gmsl.AuthEventProvider).") && l.Pos:
						keyed = true
					case (strings.HasPrefix(a, "*recv.") || strings.HasPrefix(a, "(*recv.")) && !strings.Contains(a, "recv."+ev) && !strings.Contains(a, "recv.provider") && !fw.AtomCallsUnexportedHelper(a):
						// a direct test of some other field of the context (a "built once" flag);
						// a call that merely receives a field as an argument is not one
						other = l.String()
					}
				}
				if keyed {
					continue
				}
				if other != "" {
					verdict, detail = "fail", "the cached "+content+" is rebuilt under "+other+" rather than whenever the provider's event is absent or differs from the cached one: content built from defaults (which depend on the cached create event) is kept when that state changes"
				} else if verdict == "ok" {
					verdict, detail = "undecided", "a refresh path is not keyed on the event in a form the rule recognises: "+fw.DNF{term}.String()
				}
			}
			construct := "cached " + content + " is rebuilt whenever its event is absent or differs"
			switch verdict {
			case "ok":
				c.Ok(rule, construct, c.P.Pos(fw.InstrPos(st)), "")
			case "fail":
				c.Fail(rule, construct, c.P.Pos(fw.InstrPos(st)), detail)
			default:
				c.Undecided(rule, construct, detail)
			}
		}
	}
	// refresh condition mentions event identity
	n := 0
	for _, rf := range region {
		for _, iff := range fw.Ifs(rf) {
			s := fw.Sig(iff.Cond)
			for _, ev := range pairs {
				if strings.Contains(s, "."+ev+" != ") || strings.Contains(s, "."+ev+" == ") || strings.Contains(s, " == *recv."+ev) || strings.Contains(s, " != *recv."+ev) {
					n++
				}
			}
		}
	}
	c.Expect(n >= 3, rule, "each refresh is keyed on the event's identity", c.P.Pos(up.Pos()), "", fmt.Sprintf("only %d identity tests recognised", n))
}

// checkNeeded: effect table of accumulateStateNeeded vs the rules' table.
func checkNeeded(c *fw.Ctx) {
	rule := "3 needed-state"
	fn := mustFunc(c, rule, "accumulateStateNeeded")
	if fn == nil {
		return
	}
	conds, ok := fw.PathConds(fn)
	if !ok {
		c.Undecided(rule, "accumulateStateNeeded", "path conditions too large")
		return
	}
	type effect struct {
		name string
		b    *ssa.BasicBlock
		pos  string
	}
	var effects []effect
	for _, b := range fn.Blocks {
		for _, ins := range b.Instrs {
			st, ok := ins.(*ssa.Store)
			if !ok {
				continue
			}
			a := fw.Sig(st.Addr)
			if !strings.HasPrefix(a, "param:result.") {
				continue
			}
			field := strings.TrimPrefix(a, "param:result.")
			name := field
			v := fw.Sig(st.Val)
			if strings.HasPrefix(v, "builtin.append(") {
				// which element is appended
				elem := "?"
				fw.DerivesFrom(st.Val, fw.FlowSpec{IsSource: func(x ssa.Value) bool {
					s := fw.Sig(x)
					switch {
					case s == "param:sender":
						elem = "sender"
					case s == "*param:stateKey":
						elem = "state_key"
					case s == "*param:content.AuthorizedVia":
						elem = "authorised_via"
					case strings.HasPrefix(s, "gmsl.thirdPartyInviteToken(") && strings.HasSuffix(s, "#0"):
						elem = "token"
					default:
						return false
					}
					return true
				}, Through: func(cl ssa.CallInstruction) []int {
					if fw.CalleeName(cl) == "builtin.append" {
						return []int{1}
					}
					return nil
				}})
				name = field + "+=" + elem
			} else if v != "true" {
				name = field + "=" + v
			}
			effects = append(effects, effect{name, b, c.P.Pos(fw.InstrPos(st))})
		}
	}
	c.Min(rule+" effects", len(effects), 5)
	vars := []tvar{{"type", []string{"m.room.create", "m.room.aliases", "m.room.member", "m.other"}}, {"membership", []string{"join", "knock", "invite", "leave", "ban", "other"}},
		{"content", tf}, {"sk", tf}, {"tpi", tf}, {"token", tf}, {"via", tf}}
	ip := &interp{
		lhs:   map[string]string{"param:eventType": "type", "*param:content.Membership": "membership"},
		bools: map[string]string{},
		match: func(atom string, a asg) (bool, bool) {
			switch atom {
			case "(param:content == nil)":
				return a["content"] != "true", true
			case "(param:stateKey == nil)":
				return a["sk"] != "true", true
			case "(*param:content.ThirdPartyInvite == nil)":
				return a["tpi"] != "true", true
			case "(gmsl.thirdPartyInviteToken(*param:content.ThirdPartyInvite)#1 == nil)":
				return a["token"] == "true", true
			case `(*param:content.AuthorizedVia == "")`:
				return a["via"] != "true", true
			}
			return false, false
		},
	}
	unknown := map[string]bool{}
	mism := map[string]string{}
	n := enumerate(vars, func(a asg) {
		want := map[string]bool{}
		switch a["type"] {
		case "m.room.create":
		case "m.room.aliases":
			want["Create"] = true
		case "m.room.member":
			if a["content"] != "true" {
				break
			}
			want["Create"], want["PowerLevels"], want["Member+=sender"] = true, true, true
			if a["sk"] == "true" {
				want["Member+=state_key"] = true
			}
			if in(a["membership"], "join", "knock", "invite") {
				want["JoinRules"] = true
			}
			if a["tpi"] == "true" {
				if a["token"] != "true" {
					// error: nothing more is requested (the event is rejected for the same reason)
					break
				}
				want["ThirdPartyInvite+=token"] = true
			}
			if a["via"] == "true" {
				want["Member+=authorised_via"] = true
			}
		default:
			want["Create"], want["PowerLevels"], want["Member+=sender"] = true, true, true
		}
		got := map[string]bool{}
		env := ip.env(a)
		for _, e := range effects {
			if evalDNF(conds[e.b], env, unknown) {
				got[e.name] = true
			}
		}
		if !sameSet(got, want) {
			key := "needed state for type=" + a["type"]
			if a["type"] == "m.room.member" {
				key += " membership=" + a["membership"]
			}
			if _, seen := mism[key]; !seen {
				mism[key] = fmt.Sprintf("for [%s] the code requests {%s}, the rules need {%s}: %s", a.String(), strings.Join(sortedSet(got), ","), strings.Join(sortedSet(want), ","), diffSets(got, want))
			}
		}
	})
	c.Count("needed_state_rows", n)
	for u := range unknown {
		c.Undecided(rule, "accumulateStateNeeded: unrecognised branch condition", u)
	}
	if len(unknown) == 0 {
		if len(mism) == 0 {
			c.Ok(rule, "needed-state table", c.P.Pos(fn.Pos()), fmt.Sprintf("%d assignments agree", n))
		}
		for _, k := range fw.SortedKeys(mism) {
			c.Fail(rule, k, c.P.Pos(fn.Pos()), mism[k])
		}
	}
	// the two public entry points go through it
	for _, spec := range []string{"StateNeededForAuth", "StateNeededForProtoEvent"} {
		if f := mustFunc(c, rule, spec); f != nil {
			c.Expect(len(fw.CallsTo(f, false, fw.NameIs("gmsl.accumulateStateNeeded"))) == 1, rule, spec+" uses accumulateStateNeeded", c.P.Pos(f.Pos()), "", "the entry point computes needed state differently")
		}
	}
	// reads of the join rule in the self-membership rules happen only for memberships that request it
	if self := mustFunc(c, rule, "(*membershipAllower).membershipAllowedSelf"); self != nil {
		sc, ok := fw.PathConds(self)
		if ok {
			readers := map[string]bool{}
			unk := map[string]bool{}
			ipSelf := &interp{lhs: map[string]string{sigNewM: "newM", sigOldM: "oldM", sigJR: "jr"}, match: func(atom string, a asg) (bool, bool) { return true, true }}
			for _, b := range self.Blocks {
				reads := false
				for _, ins := range b.Instrs {
					if u, isU := ins.(*ssa.UnOp); isU && strings.HasSuffix(fw.Sig(u.X), "allowerContext.joinRule.JoinRule") {
						reads = true
					}
				}
				if !reads {
					continue
				}
				for _, m := range memberships {
					for _, o := range []string{"leave", "join", "other"} {
						if evalDNF(sc[b], ipSelf.env(asg{"newM": m, "oldM": o, "jr": "public"}), unk) {
							readers[m] = true
						}
					}
				}
			}
			requested := setOf("join", "knock", "invite")
			for _, m := range sortedSet(readers) {
				c.Check(requested[m], rule, "self membership '"+m+"' reads the join rule only if the join rules are requested for it", c.P.Pos(self.Pos()), "", "the rules read the join rule for membership "+m+" but accumulateStateNeeded does not request m.room.join_rules for it")
			}
			// and the request side really covers every reader (from the table above)
			for _, m := range sortedSet(readers) {
				a := asg{"type": "m.room.member", "membership": m, "content": "true", "sk": "true", "tpi": "false", "token": "true", "via": "false"}
				got := false
				unkHere := map[string]bool{}
				for _, e := range effects {
					if e.name == "JoinRules" && evalDNF(conds[e.b], ip.env(a), unkHere) {
						got = true
					}
				}
				if !got && len(unkHere) > 0 {
					// the request sits behind a condition the rule does not know (a list lookup, a helper)
					c.Undecided(rule, "join rules are requested for membership '"+m+"' (read by the self-membership rules)", "the request of m.room.join_rules depends on "+strings.Join(sortedSet(unkHere), "; "))
					continue
				}
				c.Check(got, rule, "join rules are requested for membership '"+m+"' (read by the self-membership rules)", c.P.Pos(fn.Pos()), "", "membership "+m+" is authorised against the join rule but m.room.join_rules is not part of its needed state: the verdict depends on state outside StateNeededForAuth")
			}
			c.Min(rule+" join-rule readers", len(readers), 2)
		}
	}
	// per type: provider accessors reachable from the handler are a subset of what is requested
	needs := map[string]map[string]bool{
		"createEventAllowed":      {},
		"aliasEventAllowed":       setOf("Create"),
		"memberEventAllowed":      setOf("Create", "PowerLevels", "JoinRules", "Member", "ThirdPartyInvite"),
		"powerLevelsEventAllowed": setOf("Create", "PowerLevels", "Member"),
		"redactEventAllowed":      setOf("Create", "PowerLevels", "Member"),
		"defaultEventAllowed":     setOf("Create", "PowerLevels", "Member"),
	}
	for _, h := range fw.SortedKeys(needs) {
		fn := c.P.Func("(*allowerContext)." + h)
		if fn == nil {
			c.Undecided(rule, "handler "+h, "not found")
			continue
		}
		r := fw.ReachableFuncs(c.Graph(), []*ssa.Function{fn}, func(f *ssa.Function) bool { return c.P.IsRepoFunc(f) })
		used := map[string]bool{}
		for f := range r {
			for _, call := range fw.Calls(f) {
				n := fw.CalleeName(call)
				if strings.HasPrefix(n, "(gmsl.AuthEventProvider).") {
					used[strings.TrimPrefix(n, "(gmsl.AuthEventProvider).")] = true
				}
			}
		}
		delete(used, "Valid")
		extra := []string{}
		for u := range used {
			if !needs[h][u] {
				extra = append(extra, u)
			}
		}
		sort.Strings(extra)
		c.Check(len(extra) == 0, rule, h+" reads only requested state", c.P.Pos(fn.Pos()), strings.Join(sortedSet(used), ","), "the handler can read "+strings.Join(extra, ",")+" which is not part of the needed state for that event type")
	}
	// AddAuthEvents selects via the same computation (also C03.8)
	if f := mustFunc(c, rule, "(*EventBuilder).AddAuthEvents"); f != nil {
		c.Expect(len(fw.CallsTo(f, false, fw.NameIs("gmsl.StateNeededForProtoEvent"))) == 1 && len(fw.CallsTo(f, false, fw.NameIs("(gmsl.StateNeeded).AuthEventReferences"))) == 1, rule, "AddAuthEvents selects exactly the needed state", c.P.Pos(f.Pos()), "", "auth events of new events are not chosen through StateNeededForProtoEvent + AuthEventReferences")
	}
}

func checkResolutionRefresh(c *fw.Ctx) {
	rule := "5 resolution-refresh"
	fn := mustFunc(c, rule, "(*stateResolverV2).authAndApplyEvents")
	if fn == nil {
		return
	}
	// the steps may sit in unexported helpers of the loop body: sites are located with their call
	// chains and ordered at the first level at which the chains part
	al := deepCallsTo(fn, fw.NameIs("(*gmsl.allowerContext).allowed"))
	for _, pre := range []struct {
		name string
		m    func(string) bool
	}{{"authProvider.Clear()", fw.NameIs("(*gmsl.AuthEvents).Clear")}, {"allower.update(authProvider)", fw.NameIs("(*gmsl.allowerContext).update")}, {"StateNeededForAuth", fw.NameIs("gmsl.StateNeededForAuth")}} {
		construct := pre.name + " happens in every iteration before the check"
		fail := "the per-event refresh " + pre.name + " does not precede allowed(event) inside the loop"
		calls := deepCallsTo(fn, pre.m)
		switch {
		case len(calls) == 0 || len(al) == 0:
			if od := fw.OpaqueDispatchAny(fn); od != "" {
				c.Undecided(rule, construct, "authAndApplyEvents works through "+od+": the step may run behind it")
			} else {
				c.Fail(rule, construct, c.P.Pos(fn.Pos()), fail+" (no such call in the loop's region)")
			}
			continue
		case len(calls) != 1 || len(al) != 1:
			if len(fw.CallsTo(fn, false, pre.m)) > 1 {
				c.Fail(rule, construct, c.P.Pos(fn.Pos()), fail+" (several refresh sites in the loop routine)")
			} else {
				c.Undecided(rule, construct, fmt.Sprintf("expected one site of the step and one of the check in the loop's region, found %d and %d", len(calls), len(al)))
			}
			continue
		}
		cp, ca := callChain(calls[0]), callChain(al[0])
		k := 0
		for k < len(cp) && k < len(ca) && cp[k] == ca[k] {
			k++
		}
		ok := false
		if k < len(cp) && k < len(ca) {
			x, y := cp[k], ca[k]
			if x.Block() == y.Block() {
				ix, iy := -1, -1
				for i, ins := range x.Block().Instrs {
					if ins == x {
						ix = i
					}
					if ins == y {
						iy = i
					}
				}
				ok = ix < iy
			} else {
				ok = x.Block().Dominates(y.Block())
			}
		}
		// same iteration: the outermost site of the step is inside the loop over the events
		inLoop := strings.Contains(condsOf(cp[0].Block()), "< builtin.len(param:events)")
		c.Check(ok && inLoop, rule, construct, c.P.Pos(fn.Pos()), "", fail)
	}
	// update is given the provider that was just filled
	for _, dc := range deepCallsTo(fn, fw.NameIs("(*gmsl.allowerContext).update")) {
		got := fw.SigIn(dc.Fr, dc.Call.Common().Args[1])
		c.Check(strings.HasSuffix(got, "recv.authProvider"), rule, "the checker is refreshed from the resolver's provider", c.P.Pos(dc.Call.Pos()), "", "update() receives "+got)
	}
}

// sharedRef: the map / slice value ref (in function f) is, or is copied out of, a field of the
// shared context. Only reference-preserving steps are followed (loading the reference from a
// field, copying the struct that holds it, passing it as an argument); locally made maps,
// slices and arrays are local whatever they contain. Parameters are followed to the arguments
// of f's static callers among the functions reachable from the check.
func sharedRef(c *fw.Ctx, ref ssa.Value, f *ssa.Function, isCtxField func(ssa.Value) bool, reach map[*ssa.Function][]*ssa.Function, depth int) bool {
	if depth > 3 {
		return false
	}
	seen := map[ssa.Value]bool{}
	var params []*ssa.Parameter
	var walk func(v ssa.Value, d int) bool
	// structOrigin: the struct value/address sv holds the reference in one of its fields
	walk = func(v ssa.Value, d int) bool {
		if v == nil || d > 24 || seen[v] {
			return false
		}
		seen[v] = true
		switch x := v.(type) {
		case *ssa.MakeMap, *ssa.MakeSlice, *ssa.Const, *ssa.Global, *ssa.Call, *ssa.MakeInterface:
			return false
		case *ssa.Parameter:
			params = append(params, x)
			return false
		case *ssa.Phi:
			for _, e := range x.Edges {
				if walk(e, d+1) {
					return true
				}
			}
			return false
		case *ssa.Slice:
			return walk(x.X, d+1)
		case *ssa.ChangeType:
			return walk(x.X, d+1)
		case *ssa.Extract:
			return false
		case *ssa.Field:
			return walk(x.X, d+1)
		case *ssa.FieldAddr:
			if isCtxField(x) {
				return true
			}
			return walk(x.X, d+1)
		case *ssa.IndexAddr:
			return walk(x.X, d+1)
		case *ssa.UnOp:
			// a load: of a field (the reference, or a pointer to the struct holding it), or of a
			// whole struct out of a local copy
			return walk(x.X, d+1)
		case *ssa.Alloc:
			// a local variable: what was stored into it as a whole (a copied struct, a pointer)
			// or into the same field; arrays and freshly built structs are local
			for _, r := range *x.Referrers() {
				if st, ok := r.(*ssa.Store); ok && st.Addr == ssa.Value(x) {
					if walk(st.Val, d+1) {
						return true
					}
				}
			}
			return false
		}
		return false
	}
	if walk(ref, 0) {
		return true
	}
	for _, p := range params {
		idx := -1
		for i, q := range f.Params {
			if q == p {
				idx = i
			}
		}
		if idx < 0 {
			continue
		}
		for caller := range reach {
			for _, call := range fw.Calls(caller) {
				if call.Common().StaticCallee() != f || idx >= len(call.Common().Args) {
					continue
				}
				if sharedRef(c, call.Common().Args[idx], caller, isCtxField, reach, depth+1) {
					return true
				}
			}
		}
	}
	return false
}
