package props

import (
	"fmt"
	"go/token"
	"go/types"
	"sort"
	"strings"

	"gmslverif/fw"

	"golang.org/x/tools/go/ssa"
)

func init() { register("C18", checkC18) }

// panicClass classifies an explicit panic by its path condition.
func panicClass(c *fw.Ctx, fn *ssa.Function, pn *ssa.Panic) (class, detail string) {
	name := fw.FuncName(fn)
	pc, ok := fw.PathConds(fn)
	if !ok {
		return "", "path conditions too large"
	}
	cond := pc[pn.Block()]
	// caller contract: every term has a positive literal that is a nil / enum / arity test on a parameter or input field
	contract := len(cond) > 0
	for _, term := range cond {
		hit := false
		for _, l := range term {
			a := l.Atom
			isParam := strings.Contains(a, "param:")
			// a method of a request-input struct (…Input): its fields are the local caller's
			if !isParam && strings.Contains(a, "recv.") && fn.Signature.Recv() != nil && strings.HasSuffix(strings.TrimSuffix(fw.Short(fn.Signature.Recv().Type().String()), ")"), "Input") {
				isParam = true
			}
			switch {
			case l.Pos && isParam && strings.HasSuffix(a, " == nil)") && !strings.Contains(a, "("+"gmsl") && !strings.Contains(a, "#"):
				hit = true
			case l.Pos && a == "(builtin.len(param:stateSets) < 2)":
				hit = true
			case !l.Pos && strings.HasPrefix(a, "(param:order == "):
				hit = true
			}
		}
		if !hit {
			contract = false
		}
	}
	if contract {
		return "caller-contract", "the guard tests a parameter / input field of the local caller (nil dependency, enum value, arity)"
	}
	// a method of a request-input object that takes nothing else: whatever it tests is the local caller's
	if rc := fn.Signature.Recv(); rc != nil && len(fn.Params) == 1 && strings.HasSuffix(strings.TrimSuffix(fw.Short(rc.Type().String()), ")"), "Input") {
		return "caller-contract", "a precondition method of a request-input object (its only input is what the local caller filled in)"
	}
	if cl, d := namedPanicClass(name); cl != "" {
		return cl, d
	}
	// an unexported helper that is only called from functions of one class (a panic moved out
	// of an accessor together with the code it guards) inherits that class
	if fn.Object() != nil && !fn.Object().Exported() {
		if owners := redactionAccessorRegion(c); owners[fn] {
			return "accessor:redaction", "helper only reachable from the redaction-based accessors (F3: same-parse + content-object check)"
		}
		// likewise for a helper that every caller of which is a room-id accessor: the panic
		// guards spec.NewRoomID of the id the accessor computes (F3 discharges it there)
		callers, allRoomID := 0, true
		for _, f := range c.P.SrcFuncs() {
			for _, cs := range fw.Calls(f) {
				if cs.Common().StaticCallee() != fn {
					continue
				}
				callers++
				if cl, _ := namedPanicClass(fw.FuncName(f)); cl != "accessor:room-id" {
					allRoomID = false
				}
			}
		}
		if callers > 0 && allRoomID && strings.Contains(cond.String(), "gmsl/spec.NewRoomID(") {
			return "accessor:room-id", "helper only called from the room-id accessors; guards spec.NewRoomID of the accessor's id (F3)"
		}
	}
	return "", cond.String()
}

func namedPanicClass(name string) (string, string) {
	switch name {
	case "gmsl.MustGetRoomVersion", "gmsl/spec.NewUserIDOrPanic":
		return "must-helper", "discharged per call site"
	case "(gmsl/spec.RoomID).Domain":
		return "domainless-domain", "discharged per call site"
	case "(*gmsl.eventV1).RoomID", "(*gmsl.eventV3).RoomID":
		return "accessor:room-id", "validator agreement with the constructors (F3)"
	case "(*gmsl.eventV2).EventID", "(*gmsl.eventV1).Redact", "(*gmsl.eventV2).Redact", "(*gmsl.eventV1).Sign", "(*gmsl.eventV2).Sign":
		return "accessor:redaction", "redaction / canonicalisation of the stored JSON (F3: same-parse + content-object check)"
	}
	return "", ""
}

var redactionRegionMemo map[*ssa.Function]bool

// redactionAccessorRegion: the redaction-based accessors and the unexported functions all of
// whose static callers lie in the region (fixpoint).
func redactionAccessorRegion(c *fw.Ctx) map[*ssa.Function]bool {
	if redactionRegionMemo != nil {
		return redactionRegionMemo
	}
	region := map[*ssa.Function]bool{}
	all := c.P.SrcFuncs()
	for _, f := range all {
		if cl, _ := namedPanicClass(fw.FuncName(f)); cl == "accessor:redaction" {
			region[f] = true
		}
	}
	callers := map[*ssa.Function][]*ssa.Function{}
	for _, f := range all {
		for _, call := range fw.Calls(f) {
			if callee := call.Common().StaticCallee(); callee != nil {
				callers[callee] = append(callers[callee], f)
			}
		}
	}
	for changed := true; changed; {
		changed = false
		for _, f := range all {
			if region[f] || f.Object() == nil || f.Object().Exported() || len(callers[f]) == 0 {
				continue
			}
			okAll := true
			for _, cl := range callers[f] {
				if !region[cl] {
					okAll = false
				}
			}
			if okAll {
				region[f] = true
				changed = true
			}
		}
	}
	redactionRegionMemo = region
	return region
}

func checkC18(c *fw.Ctx) {
	c.Explanation = "C18 (static): panic obligations. F1: every explicit panic statement of the repository is enumerated and classified from its path condition: caller contract (nil dependency / enum / arity of a local caller's argument), Must/OrPanic helpers (discharged per call site), RoomID.Domain on domainless ids (per call site against the version table), accessor panics (discharged by validator agreement); an unclassified panic fails. F2: every function-valued field of every registered room version is set. F3: the constructors validate exactly what the accessors rely on (spec.NewRoomID for room ids, the same is-create-event predicate in checkRoomID / RoomID / AuthEventIDs, JSON-object content for redaction-based accessors). F4: CanonicalJSONAssumeValid / CompactJSON / SortJSON are only applied to bytes established valid (decoded successfully, produced by encoding/json, sjson or redaction, or the event's stored JSON). F5: interface values read from maps without the ok form are nil-checked before being inserted into hash sets or used as receivers in the resolution code. F6: index and slice operations on remote bytes in the byte-level routines are bounds-guarded or listed with the JSON-validity fact they rely on; a new unguarded one fails."
	c.NotDecidedClause("absence of all panics: value-range safety of the index expressions the compiler cannot prove (77 sites repo-wide) is only covered for the routines named in F6; nil dereferences in general; stack depth of recursive closures; third-party libraries")
	checkDomainfulValidator(c)
	checkF2(c)
	checkF1(c)
	checkF3(c)
	checkF4(c)
	checkF5(c)
	checkF6(c)
	checkF7(c)
	checkF8(c)
	checkF9(c)
	checkF10(c)
	checkF11(c)
	checkF12(c)
	checkF13(c)
	// a v12 event must stay a v12 event: an eventV2 copy of it panics in RoomID() (shared with C03.9)
	checkDerivedTypePreserved(c)
}

func checkF2(c *fw.Ctx) {
	t := loadVersionTable(c, "F2 table-functions")
	if t == nil {
		return
	}
	n := 0
	for _, ver := range t.versions {
		for _, f := range t.fields {
			if !t.isFuncField(f) {
				continue
			}
			n++
			cell := t.cell(ver, f)
			if strings.HasPrefix(cell, "<unrecognised") {
				// an initialiser the evaluator cannot reduce to a function (e.g. a variable built by a call): not nil as far as can be seen
				c.Undecided("F2 table-functions", fmt.Sprintf("version %s sets %s", ver, f), "the cell is "+cell+": whether it is a non-nil function is not decided")
				continue
			}
			c.Check(cell != "nil", "F2 table-functions", fmt.Sprintf("version %s sets %s", ver, f), t.rowPos[ver], cell, fmt.Sprintf("room version %s leaves %s unset: the wrapper method calls a nil function (panic) for any event of that version", ver, f))
		}
	}
	c.Min("F2 table-functions cells", n, 16*12)
}

func checkF1(c *fw.Ctx) {
	rule := "F1 explicit-panics"
	n := 0
	var must, domain []string
	for _, fn := range c.P.SrcFuncs() {
		for _, b := range fn.Blocks {
			for _, ins := range b.Instrs {
				pn, ok := ins.(*ssa.Panic)
				if !ok || fw.IsSyntheticPanic(pn) {
					continue
				}
				n++
				class, detail := panicClass(c, fn, pn)
				construct := fmt.Sprintf("panic in %s is discharged", fw.FuncName(fn))
				if class == "" && strings.Contains(detail, "dyn(") && strings.Contains(detail, "global:") {
					// the condition is computed by a function taken from a package-level table (a list of
					// requirements on the caller's input): what it tests is not visible here
					c.Undecided(rule, construct, "the panic is reached under a condition computed by a function from a table: "+detail)
					continue
				}
				if class == "" && fn.Parent() != nil && strings.Contains(detail, "param:") && !strings.Contains(detail, "free:") {
					// a local `must(err)` closure: whether it can fire is a matter of what its parent hands it
					// at each call (the parent's own panics of the same kind are judged where they are inline)
					c.Undecided(rule, construct, "the panic sits in a function literal and depends only on the literal's parameter ("+detail+"): the values handed to it by "+fw.FuncName(fn.Parent())+" were not followed")
					continue
				}
				if class == "" {
					c.Fail(rule, construct, c.P.Pos(fw.InstrPos(pn)), "a panic is reachable under a condition that is not a local caller's contract and has no validator that excludes it: "+detail)
					continue
				}
				c.Ok(rule, construct+" ["+class+"]", c.P.Pos(fw.InstrPos(pn)), detail)
				switch class {
				case "must-helper":
					must = append(must, fw.FuncName(fn))
				case "domainless-domain":
					domain = append(domain, fw.FuncName(fn))
				}
			}
		}
	}
	c.Count("explicit_panics", n)
	c.Min(rule+" panics", n, 10)
	// call sites of the Must helpers
	for _, fn := range c.P.SrcFuncs() {
		for _, call := range fw.Calls(fn) {
			name := fw.CalleeName(call)
			switch name {
			case "gmsl.MustGetRoomVersion":
				arg := fw.Sig(call.Common().Args[0])
				ok := strings.HasPrefix(arg, "(gmsl.PDU).Version(") || strings.HasSuffix(arg, "input.RoomVersion") || strings.HasPrefix(arg, `"`)
				why := "the version of a parsed event is a registered version (constructors store roomVersion.Version() of the table entry they were reached through)"
				if strings.HasSuffix(arg, "input.RoomVersion") {
					why = "caller contract: the room version of a locally known room"
				}
				if !ok && strings.HasPrefix(arg, "param:") && !strings.Contains(arg, ".") {
					// a thin wrapper (a method of a registry object, a helper): judged at its call sites;
					// a wrapper that is only reached through an interface has no static call sites
					unexp := fn.Object() != nil && !fn.Object().Exported()
					if rv := fn.Signature.Recv(); rv != nil {
						rt := rv.Type()
						if pt, isP := rt.(*types.Pointer); isP {
							rt = pt.Elem()
						}
						if nt, isN := rt.(*types.Named); isN && !nt.Obj().Exported() {
							unexp = true
						}
					}
					if unexp {
						idx := -1
						for i, prm := range fn.Params {
							if "param:"+prm.Name() == arg {
								idx = i
							}
						}
						sites, good := 0, 0
						for _, caller := range c.P.SrcFuncs() {
							for _, cs := range fw.Calls(caller) {
								if cs.Common().StaticCallee() != fn || idx < 0 || idx >= len(cs.Common().Args) {
									continue
								}
								sites++
								a2 := fw.Sig(cs.Common().Args[idx])
								if strings.HasPrefix(a2, "(gmsl.PDU).Version(") || strings.HasSuffix(a2, "input.RoomVersion") || strings.HasPrefix(a2, `"`) {
									good++
								}
							}
						}
						if sites == 0 || good == sites {
							if sites == 0 {
								c.Undecided(rule, fmt.Sprintf("MustGetRoomVersion call in %s cannot fail", fw.FuncName(fn)), "the wrapper is reached only through an interface: what version it is given was not followed")
							} else {
								c.Ok(rule, fmt.Sprintf("MustGetRoomVersion call in %s cannot fail", fw.FuncName(fn)), c.P.Pos(call.Pos()), fmt.Sprintf("a wrapper; all %d call sites pass the version of a parsed event", sites))
							}
							continue
						}
					}
				}
				c.Check(ok, rule, fmt.Sprintf("MustGetRoomVersion call in %s cannot fail", fw.FuncName(fn)), c.P.Pos(call.Pos()), why, "MustGetRoomVersion is called with "+arg+", which is not the version of a parsed event: an unknown version panics")
			case "gmsl/spec.NewUserIDOrPanic":
				c.Fail(rule, fmt.Sprintf("NewUserIDOrPanic is not used in library code (%s)", fw.FuncName(fn)), c.P.Pos(call.Pos()), "NewUserIDOrPanic on a value that may come from the network")
			case "(gmsl/spec.RoomID).Domain":
				ok, why := domainCallOK(c, fn, call)
				if !ok && strings.Contains(why, "version table unavailable") {
					c.Undecided(rule, fmt.Sprintf("RoomID.Domain() call in %s is never reached with a domainless room id", fw.FuncName(fn)), "the room-version table could not be evaluated from the source (it is not a literal)")
					continue
				}
				c.Check(ok, rule, fmt.Sprintf("RoomID.Domain() call in %s is never reached with a domainless room id", fw.FuncName(fn)), c.P.Pos(call.Pos()), why, "RoomID.Domain() may be called on a domainless (v12) room id and panics: "+why)
			}
		}
	}
}

// checkDomainfulValidator: the per-call-site discharge of RoomID.Domain() rests on the version
// table saying "ids of this version have a domain"; that is only true of parsed events because
// the room-id validator of those versions (checkRoomIDV1) refuses an id without a ':' part.
// spec.NewRoomID alone does not: it accepts the domainless form.
func checkDomainfulValidator(c *fw.Ctx) {
	rule := "F1 explicit-panics"
	fn := mustFunc(c, rule, "checkRoomIDV1")
	if fn == nil {
		return
	}
	construct := "checkRoomIDV1 refuses room ids without a domain (RoomID.Domain() of a parsed pre-v12 event cannot panic)"
	isSplit := fw.NameIs("gmsl.checkID", "gmsl.domainFromID", "gmsl.SplitID")
	calls := fw.AllDeepCalls(fn, stopExported)
	hasSplit, hasColon := false, false
	for _, dc := range calls {
		if isSplit(fw.CalleeName(dc.Call)) {
			hasSplit = true
		}
		for _, a := range dc.Call.Common().Args {
			if k, ok := a.(*ssa.Const); ok && k.Value != nil && (k.Value.ExactString() == `":"` || k.Value.ExactString() == "58") {
				hasColon = true
			}
		}
	}
	switch {
	case hasSplit:
		succ := fw.ErrNilSuccess(fn, fw.ErrIndex(fn), nil)
		g := fw.GuardCallErrNil("the id has a domain part (checkID / SplitID)", isSplit)
		r := fw.Gate(fn, g, succ)
		if len(r.Sites)+r.TailSites == 0 {
			c.Undecided(rule, construct, "the split is performed in a helper of checkRoomIDV1; whether its failure is propagated was not traced")
			return
		}
		if len(r.Escapes) > 0 {
			c.Fail(rule, construct, c.P.Pos(fw.InstrPos(r.Escapes[0].Ret)), "checkRoomIDV1 can accept an id although splitting it at ':' failed: a domainless id reaches RoomID().Domain(), which panics")
			return
		}
		c.Ok(rule, construct, c.P.Pos(fn.Pos()), "success is gated on the ':' split")
	case hasColon:
		c.Undecided(rule, construct, "checkRoomIDV1 looks for ':' in a way the rule does not know")
	default:
		c.Fail(rule, construct, c.P.Pos(fn.Pos()), "nothing in checkRoomIDV1 requires a ':' in the id (spec.NewRoomID accepts the domainless form): an event of a pre-v12 room with a domainless room_id parses, and RoomID().Domain() panics in the create-event rule")
	}
}

// domainCallOK: a call of RoomID.Domain() is safe if the enclosing function is only used as the
// checkCreateEvent column of versions without domainless room ids.
func domainCallOK(c *fw.Ctx, fn *ssa.Function, call ssa.CallInstruction) (bool, string) {
	t := loadVersionTable(c, "F1 explicit-panics")
	if t == nil {
		return false, "version table unavailable"
	}
	name := fw.FuncName(fn)
	used := false
	for _, ver := range t.versions {
		if t.cell(ver, "checkCreateEvent") == name {
			used = true
			if t.cell(ver, "domainlessRoomID") == "true" {
				return false, fmt.Sprintf("%s is the create-event rule of version %s, whose room ids have no domain", name, ver)
			}
		}
	}
	if used {
		return true, "only registered as the create-event rule of versions with domain-ful room ids"
	}
	// a helper that only such column functions call
	if fn.Object() != nil && !fn.Object().Exported() {
		callers := 0
		okAll := true
		for _, f := range c.P.SrcFuncs() {
			if f == fn {
				continue
			}
			for _, cs := range fw.Calls(f) {
				if cs.Common().StaticCallee() != fn {
					continue
				}
				callers++
				if ok, w := domainCallOK(c, f, cs); !ok {
					if strings.Contains(w, "version table unavailable") {
						return false, w
					}
					okAll = false
				}
			}
		}
		if callers > 0 && okAll {
			return true, fmt.Sprintf("only called (%d sites) from create-event rules of versions with domain-ful room ids", callers)
		}
	}
	return false, "not a version-table column: the room id may be domainless"
}

func checkF3(c *fw.Ctx) {
	rule := "F3 validator-agreement"
	// room id validators are found by role: what the constructors call on eventFields.RoomID (or on the event) and gate on
	isCreate := func(term fw.Term, recv string) (typeAtom, skAtom bool) {
		for _, l := range term {
			if (strings.Contains(l.Atom, ".Type("+recv) || strings.Contains(l.Atom, recv+".eventV2.eventV1.eventFields.Type ==") || strings.Contains(l.Atom, recv+".eventFields.Type ==")) && strings.HasSuffix(l.Atom, `== "m.room.create")`) && l.Pos {
				typeAtom = true
			}
			if strings.Contains(l.Atom, ".StateKeyEquals("+recv) && strings.HasSuffix(l.Atom, `,"")`) && l.Pos {
				skAtom = true
			}
		}
		return
	}
	if fn := mustFunc(c, rule, "checkRoomID"); fn != nil {
		t, err := fw.ExtractTable(fn, fw.ErrIndex(fn))
		if err != nil {
			c.Undecided(rule, "checkRoomID", err.Error())
		} else {
			t.ExpandUnknown(createOrParseAtom)
			for _, r := range t.Rows {
				if r.Outcome != "accept" {
					continue
				}
				for _, term := range r.Cond {
					ty, sk := isCreate(term, "param:res")
					// (the receiver may be the v3 event or one of the structs embedded in it)
					parsed := termHas(term, lit{[]string{"gmsl/spec.NewRoomID(*param:res.", "eventFields.RoomID)#1 == nil)"}, true})
					c.Check((ty && sk) || parsed, rule, "checkRoomID accepts only create events (type m.room.create AND empty state key) or ids the accessor's parser accepts", c.P.Pos(fw.InstrPos(r.Ret)), "", "accepted under "+fw.DNF{term}.String()+": RoomID() / AuthEventIDs() use the full create-event predicate and panic (invalid id, or \"\"[1:]) on events this path lets through")
				}
			}
		}
	}
	// accessors use the same predicate
	for _, spec := range []string{"(*eventV3).RoomID", "(*eventV3).AuthEventIDs"} {
		fn := mustFunc(c, rule, spec)
		if fn == nil {
			continue
		}
		// the branch conditions of the accessor (helpers such as isCreateEvent() expanded)
		okPred, tyOK := false, false
		for atom := range branchAtomsExpanded(fn, createOrParseAtom) {
			if strings.Contains(atom, ".StateKeyEquals(") && strings.HasSuffix(atom, `,"")`) {
				okPred = true
			}
			if (strings.Contains(atom, ".Type(") || strings.Contains(atom, "eventFields.Type ==")) && strings.HasSuffix(atom, `== "m.room.create")`) {
				tyOK = true
			}
		}
		construct := spec + " decides 'is the create event' by type AND empty state key (the predicate checkRoomID validates with)"
		switch {
		case okPred && tyOK:
			c.Ok(rule, construct, c.P.Pos(fn.Pos()), "")
		case tyOK && !okPred:
			// positive evidence: the type is tested, the state key is not
			c.Fail(rule, construct, c.P.Pos(fn.Pos()), "the accessor decides by the event type alone: a non-state m.room.create event (no state key) is treated as the create event, which the parse-time check does not validate for")
		default:
			c.Undecided(rule, construct, "the create-event test of the accessor was not recognised")
		}
	}
	// every constructor reaches a room id validator (C03.3 has the gate; here: the validator is one of the two analysed above)
	n := 0
	for _, col := range []string{"newEventFromUntrustedJSONFunc", "newEventFromTrustedJSONFunc", "newEventFromTrustedJSONWithEventIDFunc"} {
		for short, fn := range tableFuncs(c, rule, col) {
			n++
			// candidate validators: calls whose argument is the decoded room id or the event itself, returning an error
			okV := false
			why := "no call validating eventFields.RoomID gates the success return"
			for _, call := range fw.Calls(fn) {
				cal := call.Common().StaticCallee()
				if cal == nil || !c.P.IsRepoFunc(cal) || fw.ErrIndex(cal) < 0 {
					continue
				}
				isRoomArg := false
				for _, a := range call.Common().Args {
					sa := fw.Sig(a)
					if strings.HasSuffix(sa, "eventFields.RoomID") || (strings.HasPrefix(fw.CalleeName(call), "gmsl.checkRoomID") && strings.Contains(a.Type().String(), "eventV3")) {
						isRoomArg = true
					}
				}
				if !isRoomArg {
					continue
				}
				name := fw.CalleeName(call)
				g := fw.GuardCallErrNil("room id validated", fw.NameIs(name))
				r := fw.Gate(fn, g, fw.ErrNilSuccess(fn, fw.ErrIndex(fn), fw.IsTail(fw.NameIs("gmsl.CheckFields"))))
				if len(r.Sites) == 0 || len(r.Escapes) > 0 {
					why = name + " is called on the room id but does not gate the success return"
					continue
				}
				// the validator must imply the accessor's parser
				if validatorImpliesNewRoomID(c, cal) {
					okV = true
				} else {
					why = fmt.Sprintf("the room id is validated with %s, which accepts ids that spec.NewRoomID (used by RoomID()) rejects", name)
				}
			}
			construct := short + " validates the room id with the accessor's parser before returning an event"
			if !okV {
				// the validation may sit behind a method or helper that takes no room id argument
				// (res.validateRoomID()): gate on the known validators, helper-transparently
				known := fw.NameIs("gmsl.checkRoomIDV1", "gmsl.checkRoomID", "gmsl/spec.NewRoomID")
				g := fw.GuardCallErrNil("room id validated", known)
				succ := fw.ErrNilSuccess(fn, fw.ErrIndex(fn), fw.IsTail(fw.NameIs("gmsl.CheckFields")))
				r := fw.Gate(fn, g, succ)
				inRegion := false
				for _, dc := range fw.AllDeepCalls(fn, nil) {
					if known(fw.CalleeName(dc.Call)) {
						inRegion = true
					}
					// a call through an interface (res.validateRoomID()) whose implementations in the
					// repository reach a validator
					if dc.Call.Common().IsInvoke() {
						m := dc.Call.Common().Method.Name()
						for _, impl := range c.P.SrcFuncs() {
							if impl.Name() != m || impl.Signature.Recv() == nil {
								continue
							}
							for _, dc2 := range fw.AllDeepCalls(impl, nil) {
								if known(fw.CalleeName(dc2.Call)) {
									inRegion = true
								}
							}
						}
					}
				}
				switch {
				case len(r.Sites)+r.TailSites > 0 && len(r.Escapes) == 0:
					okV = true
				case inRegion && len(r.Sites)+r.TailSites == 0:
					c.Undecided(rule, construct, "a room id validator is called in the constructor's region, but how its verdict reaches the constructor's result was not traced")
					continue
				}
			}
			if !okV {
				if od := fw.OpaqueDispatch(fn); od != "" {
					c.Undecided(rule, construct, "the constructor works through "+od+": where the room id is validated is not visible to the rule")
					continue
				}
				if fw.DeferRewritesResults(fn) {
					c.Undecided(rule, construct, "the constructor's named results are rewritten by a deferred function: which returns are successes is not visible to the gate")
					continue
				}
			}
			c.Check(okV, rule, construct, c.P.Pos(fn.Pos()), "", why+": RoomID() panics on such an event")
		}
	}
	c.Min(rule+" constructors", n, 9)
	// content must be a JSON object (or null) for events that passed CheckFields
	if fn := mustFunc(c, rule, "CheckFields"); fn != nil {
		ok := false
		for _, r := range fw.Returns(fn) {
			if cst, isC := r.Results[0].(*ssa.Const); isC && cst.Value == nil {
				continue // a success return
			}
			for _, ob := range fw.ExitOrigins(r, 0) {
				if strings.Contains(condsOf(ob), "!(github.com/tidwall/gjson.Result).IsObject(") {
					ok = true
				}
			}
		}
		// the test may sit in a helper: absent from the whole region is the evidence of a violation
		inRegion := false
		for _, dc := range fw.AllDeepCalls(fn, stopExported) {
			if strings.HasSuffix(fw.CalleeName(dc.Call), "gjson.Result).IsObject") {
				inRegion = true
			}
		}
		switch {
		case ok:
			c.Ok(rule, "CheckFields rejects events whose content is not a JSON object", c.P.Pos(fn.Pos()), "")
		case inRegion:
			c.Undecided(rule, "CheckFields rejects events whose content is not a JSON object", "IsObject is consulted in a helper of CheckFields; how its answer leads to a refusal was not traced")
		case fw.OpaqueDispatch(fn) != "":
			c.Undecided(rule, "CheckFields rejects events whose content is not a JSON object", "CheckFields works through "+fw.OpaqueDispatch(fn)+": its steps are not visible to the rule")
		default:
			c.Fail(rule, "CheckFields rejects events whose content is not a JSON object", c.P.Pos(fn.Pos()), "no rejection of non-object content: redaction decodes content into a map, so EventID(), Redact() and Sign() panic on such an event")
		}
	}
	// the accessors (and the helpers only they reach) panic only on errors of operations over
	// the event's own state (same-parse): the guard of each panic tests the failure of a call
	// whose inputs derive from the receiver
	var region []*ssa.Function
	for f := range redactionAccessorRegion(c) {
		region = append(region, f)
	}
	sort.Slice(region, func(i, j int) bool { return fw.FuncName(region[i]) < fw.FuncName(region[j]) })
	for _, fn := range region {
		spec := strings.TrimPrefix(fw.FuncName(fn), "gmsl.")
		spec = strings.Replace(spec, "(*gmsl.", "(*", 1)
		for _, b := range fn.Blocks {
			for _, ins := range b.Instrs {
				pn, ok := ins.(*ssa.Panic)
				if !ok || fw.IsSyntheticPanic(pn) {
					continue
				}
				construct := spec + " panics only on failures over the event's own stored JSON / version"
				facts := fw.DomConds(b)
				if len(facts) == 0 || len(fn.Params) == 0 {
					c.Undecided(rule, construct, "unconditional panic or no receiver")
					continue
				}
				last := facts[len(facts)-1]
				v, _, isNil := fw.NilCheck(last.If.Cond)
				if !isNil {
					c.Undecided(rule, construct, "the panic is not guarded by an error test: "+last.String())
					continue
				}
				// an accessor's own state is its receiver; a helper that only the accessors reach
				// is handed that state through its parameters (shown at its call sites below)
				own := map[ssa.Value]bool{ssa.Value(fn.Params[0]): true}
				if cl, _ := namedPanicClass(fw.FuncName(fn)); cl == "" {
					for _, p := range fn.Params {
						own[p] = true
					}
				}
				spec3 := fw.FlowSpec{IsSource: func(x ssa.Value) bool { return own[x] }, Arith: true, Through: func(cl ssa.CallInstruction) []int {
					var idx []int
					for i := range cl.Common().Args {
						idx = append(idx, i)
					}
					if cl.Common().IsInvoke() {
						idx = append(idx, -1)
					}
					return idx
				}}
				c.CheckDerives(v, nil, spec3, rule, construct, c.P.Pos(fw.InstrPos(pn)), "", "the failure that leads to this panic ("+last.String()+") is not computed from the event's own state: data that did not pass the constructors' validation can trigger it")
			}
		}
	}
	checkRegionCallSites(c, rule, region)
}

// checkRegionCallSites: the helpers of the redaction-based accessors are only handed state of
// the event itself (what their panics may depend on).
func checkRegionCallSites(c *fw.Ctx, rule string, region []*ssa.Function) {
	inRegion := map[*ssa.Function]bool{}
	for _, f := range region {
		inRegion[f] = true
	}
	all := func(cl ssa.CallInstruction) []int {
		var idx []int
		for i := range cl.Common().Args {
			idx = append(idx, i)
		}
		if cl.Common().IsInvoke() {
			idx = append(idx, -1)
		}
		return idx
	}
	for _, caller := range region {
		if len(caller.Params) == 0 {
			continue
		}
		// (the receiver is the event; the other parameters of an accessor are the local caller's)
		own := map[ssa.Value]bool{}
		for _, p := range caller.Params {
			own[p] = true
		}
		for _, call := range fw.Calls(caller) {
			callee := call.Common().StaticCallee()
			if callee == nil || !inRegion[callee] {
				continue
			}
			if cl, _ := namedPanicClass(fw.FuncName(callee)); cl != "" {
				continue
			}
			hasPanic := false
			for _, b := range callee.Blocks {
				for _, ins := range b.Instrs {
					if pn, ok := ins.(*ssa.Panic); ok && !fw.IsSyntheticPanic(pn) {
						hasPanic = true
					}
				}
			}
			if !hasPanic {
				continue
			}
			for i, a := range call.Common().Args {
				if _, isC := a.(*ssa.Const); isC {
					continue
				}
				c.CheckDerives(a, nil, fw.FlowSpec{IsSource: func(x ssa.Value) bool { return own[x] }, Arith: true, Through: all}, rule,
					fmt.Sprintf("%s hands %s only state of the event (argument %d)", fw.FuncName(caller), fw.FuncName(callee), i), c.P.Pos(call.Pos()), "", "the argument "+fw.Sig(a)+" is not computed from the event's own state, and the helper panics on failures over it")
			}
		}
	}
}

func checkF4(c *fw.Ctx) {
	rule := "F4 assume-valid"
	n := 0
	var established func(fn *ssa.Function, call ssa.CallInstruction, arg ssa.Value, depth int) (bool, string)
	established = func(fn *ssa.Function, call ssa.CallInstruction, arg ssa.Value, depth int) (bool, string) {
		// a parameter of an unexported helper: established iff it is at every call site
		if p, isP := fw.Unwrap(arg).(*ssa.Parameter); isP && depth < 3 && fn.Object() != nil && !fn.Object().Exported() {
			idx := -1
			for i, q := range fn.Params {
				if q == p {
					idx = i
				}
			}
			sites := 0
			for _, caller := range c.P.SrcFuncs() {
				for _, cs := range fw.Calls(caller) {
					if cs.Common().StaticCallee() != fn || idx < 0 || idx >= len(cs.Common().Args) {
						continue
					}
					sites++
					if ok, why := established(caller, cs, cs.Common().Args[idx], depth+1); !ok {
						return false, "at the call in " + fw.FuncName(caller) + ": " + why
					}
				}
			}
			if sites > 0 {
				return true, fmt.Sprintf("established at all %d call sites of %s", sites, fw.FuncName(fn))
			}
		}
		// (a) provenance: produced by a JSON producer or stored event JSON
		prod := fw.FlowSpec{IsSource: func(v ssa.Value) bool {
			if cc, idx := fw.CallOf(v); cc != nil && idx == 0 {
				n := fw.CalleeName(cc)
				if n == "encoding/json.Marshal" || strings.HasSuffix(n, ".RedactEventJSON") || n == "gmsl.CompactJSON" || n == "gmsl.SortJSON" || n == "gmsl.CanonicalJSONAssumeValid" || n == "gmsl.CanonicalJSON" {
					return true
				}
			}
			s := fw.Sig(v)
			return strings.HasSuffix(s, ".eventJSON") && strings.Contains(s, "recv")
		}, Through: func(cl ssa.CallInstruction) []int {
			n := fw.CalleeName(cl)
			if strings.HasPrefix(n, "github.com/tidwall/sjson.") {
				return []int{0}
			}
			if n == "builtin.make" {
				return nil
			}
			return nil
		}, All: true}
		if fw.DerivesFrom(arg, prod) {
			return true, "produced by encoding/json / redaction / canonicalisation, or the event's stored JSON (possibly edited with sjson)"
		}
		// (b) dominated by a successful decode / validation of the same SSA value (or of the value
		// it was derived from by sjson edits)
		cands := map[ssa.Value]bool{arg: true}
		if cc, idx := fw.CallOf(arg); cc != nil && idx == 0 && strings.HasPrefix(fw.CalleeName(cc), "github.com/tidwall/sjson.") {
			cands[cc.Common().Args[0]] = true
		}
		for _, f := range fw.DomConds(call.Block()) {
			if v, trueMeansNil, ok := fw.NilCheck(f.If.Cond); ok {
				if cc, _ := fw.CallOf(fw.Origin(v)); cc != nil && fw.CalleeName(cc) == "encoding/json.Unmarshal" && cands[cc.Common().Args[0]] {
					// on the nil edge?
					onNil := (call.Block() == f.If.Block().Succs[0] || f.If.Block().Succs[0].Dominates(call.Block())) == trueMeansNil
					if onNil {
						return true, "dominated by a successful json.Unmarshal of the same bytes"
					}
				}
			}
			bv, neg := fw.BoolCond(f.If.Cond)
			if cc, _ := fw.CallOf(bv); cc != nil && strings.HasPrefix(fw.CalleeName(cc), "github.com/tidwall/gjson.Valid") && !neg {
				if f.If.Block().Succs[0].Dominates(call.Block()) {
					return true, "dominated by gjson.Valid"
				}
			}
		}
		return false, "the bytes are neither produced by a JSON encoder nor validated on the way here: " + fw.Sig(arg)
	}
	for _, fn := range c.P.SrcFuncs() {
		name := fw.FuncName(fn)
		if name == "gmsl.CanonicalJSONAssumeValid" {
			continue // its own pipeline: CompactJSON then SortJSON over the same input
		}
		for _, call := range fw.Calls(fn) {
			cn := fw.CalleeName(call)
			if cn != "gmsl.CanonicalJSONAssumeValid" && cn != "gmsl.CompactJSON" && cn != "gmsl.SortJSON" {
				continue
			}
			n++
			arg := call.Common().Args[0]
			var ok bool
			var why string
			if name == "gmsl.CanonicalJSON" {
				// the validity gate (C01.1)
				ok = (strings.Contains(condsOf(call.Block()), "gjson.Valid(") || strings.Contains(condsOf(call.Block()), "gjson.ValidBytes("))
				why = "behind gjson.Valid"
			} else {
				ok, why = established(fn, call, arg, 0)
			}
			if !ok {
				if od := fw.OpaqueDispatch(fn); od != "" {
					c.Undecided(rule, fmt.Sprintf("%s is applied to established-valid JSON in %s", strings.TrimPrefix(cn, "gmsl."), name), "the routine works through "+od+": a decode of the bytes behind it would establish their validity")
					continue
				}
			}
			c.Check(ok, rule, fmt.Sprintf("%s is applied to established-valid JSON in %s", strings.TrimPrefix(cn, "gmsl."), name), c.P.Pos(call.Pos()), why, fmt.Sprintf("%s assumes valid JSON (it indexes past tokens without bounds checks) but %s", cn, why))
		}
	}
	c.Min(rule+" call sites", n, 3)
}

// checkNilCached: a nil stored under a key of a pointer-valued map (a negative cache entry)
// comes back as a *hit* of the comma-ok lookup; handing that hit on without a nil test gives
// the caller a nil to dereference.
func checkNilCached(c *fw.Ctx) {
	rule := "F5 nil-from-map"
	construct := "a nil placed in a pointer-valued cache is not handed out as a hit"
	mapField := func(m ssa.Value) string {
		s := strings.TrimLeft(fw.Sig(m), "*&")
		if i := strings.LastIndex(s, "."); i >= 0 && !strings.ContainsAny(s[i:], "([") {
			return s[i+1:]
		}
		return ""
	}
	nilStores := map[string]string{}
	var funcs []*ssa.Function
	for _, fn := range c.P.SrcFuncs() {
		if fn.Pkg == nil || fn.Pkg.Pkg.Path() != fw.ModPath {
			continue
		}
		funcs = append(funcs, fn)
		for _, b := range fn.Blocks {
			for _, ins := range b.Instrs {
				mu, ok := ins.(*ssa.MapUpdate)
				if !ok {
					continue
				}
				if _, isPtr := mu.Value.Type().Underlying().(*types.Pointer); !isPtr {
					continue
				}
				if k, isC := mu.Value.(*ssa.Const); isC && k.Value == nil {
					if f := mapField(mu.Map); f != "" {
						nilStores[f] = c.P.Pos(fw.InstrPos(mu))
					}
				}
			}
		}
	}
	nBad := 0
	for _, fn := range funcs {
		for _, b := range fn.Blocks {
			for _, ins := range b.Instrs {
				lk, ok := ins.(*ssa.Lookup)
				if !ok || !lk.CommaOk {
					continue
				}
				at, has := nilStores[mapField(lk.X)]
				if !has || lk.Referrers() == nil {
					continue
				}
				for _, r := range *lk.Referrers() {
					ex, isEx := r.(*ssa.Extract)
					if !isEx || ex.Index != 0 || ex.Referrers() == nil {
						continue
					}
					// the hit, followed through merges (the result variables of an expanded helper)
					seen := map[ssa.Value]bool{}
					var visit func(v ssa.Value)
					visit = func(v ssa.Value) {
						if seen[v] || v.Referrers() == nil {
							return
						}
						seen[v] = true
						for _, u := range *v.Referrers() {
							if fw.KnownNonNil(v, u.Block()) {
								continue
							}
							switch x := u.(type) {
							case *ssa.Phi:
								visit(x)
							case *ssa.Return:
								nBad++
								c.Fail(rule, construct, c.P.Pos(fw.InstrPos(x)), fmt.Sprintf("%s returns the value found in the map as a hit without a nil test, and nil is stored into that map at %s: the second caller for that key receives nil where the first got an error", fw.FuncName(fn), at))
							case *ssa.FieldAddr:
								nBad++
								c.Fail(rule, construct, c.P.Pos(fw.InstrPos(x)), fmt.Sprintf("%s dereferences the value found in the map without a nil test, and nil is stored into that map at %s", fw.FuncName(fn), at))
							case *ssa.Call:
								if cal := x.Call.StaticCallee(); cal != nil && cal.Signature.Recv() != nil && len(x.Call.Args) > 0 && x.Call.Args[0] == v && c.P.IsRepoFunc(cal) {
									nBad++
									c.Fail(rule, construct, c.P.Pos(x.Pos()), fmt.Sprintf("%s calls %s on the value found in the map without a nil test, and nil is stored into that map at %s", fw.FuncName(fn), fw.FuncName(cal), at))
								}
							}
						}
					}
					visit(ex)
				}
			}
		}
	}
	if nBad == 0 {
		c.Ok(rule, construct, "", fmt.Sprintf("%d pointer-valued map(s) receive a nil constant; no comma-ok hit of them is handed on untested", len(nilStores)))
	}
}

func checkF5(c *fw.Ctx) {
	rule := "F5 nil-from-map"
	checkNilCached(c)
	n := 0
	for _, fn := range c.P.SrcFuncs() {
		if fn.Pkg == nil || fn.Pkg.Pkg.Path() != fw.ModPath {
			continue
		}
		file := c.P.Pos(fn.Pos())
		if !strings.HasPrefix(file, "stateresolution") && !strings.HasPrefix(file, "authstate") && !strings.HasPrefix(file, "authchain") {
			continue
		}
		for _, b := range fn.Blocks {
			for _, ins := range b.Instrs {
				lk, ok := ins.(*ssa.Lookup)
				if !ok || lk.CommaOk || !strings.Contains(fw.Short(lk.Type().String()), "gmsl.PDU") {
					continue
				}
				// uses of the possibly-nil interface
				for _, ref := range *lk.Referrers() {
					call, isCall := ref.(ssa.CallInstruction)
					if !isCall {
						continue
					}
					cn := fw.CalleeName(call)
					dangerous := false
					if call.Common().IsInvoke() && call.Common().Value == ssa.Value(lk) {
						dangerous = true // method call on a possibly nil interface
					}
					if strings.Contains(cn, "HashSet") && strings.Contains(cn, "Insert") || cn == "gmsl.newPDUSet" {
						dangerous = true // the set's hash function calls EventID()
					}
					if !dangerous {
						continue
					}
					n++
					ok := fw.KnownNonNil(lk, call.Block())
					c.Check(ok, rule, fmt.Sprintf("%s: a PDU read from a map without the ok form is nil-checked before use", fw.FuncName(fn)), c.P.Pos(call.Pos()), "", fmt.Sprintf("%s may be nil (plain map lookup) and is used by %s, which dereferences it", fw.Sig(lk), cn))
				}
			}
		}
	}
	c.Count("nil_from_map_uses", n)
}

// F6: index / slice operations in the byte-level routines named by the property.
func checkF6(c *fw.Ctx) {
	rule := "F6 raw-bytes"
	type just struct {
		n   int
		why string
	}
	// function -> number of index/slice sites on strings/byte slices, with the fact each relies on
	want := map[string]just{
		"gmsl.CompactJSON":                 {4, "input[i] under the loop guards i < len(input) (2 sites); input[i] after '-' and after '\\\\': in valid JSON neither is the last byte (F4 establishes validity)"},
		"gmsl.compactUnicodeEscape":        {6, "guarded by len(input)-index < 4 tests (2 slices); ESCAPES[c] with c < 0x20 < 32; HEX[c&0xF]; input[index], input[index+1] after a high surrogate: valid JSON strings end with '\"' so at least one byte follows... relies on validity"},
		"gmsl.readHexDigits":               {0, "binary.BigEndian.Uint32 only"},
		"gmsl.isValidUserID":               {1, "userID[0]: callers pass sender.String() of a parsed UserID (length >= 4)"},
		"(*gmsl.eventV3).RoomID":           {1, "EventID()[1:]: event IDs start with '$' (reference hash format)"},
		"(*gmsl.eventV3).AuthEventIDs":     {1, "RoomID[1:]: checkRoomID guarantees the '!' prefix for non-create events (F3)"},
		"gmsl.SplitID":                     {2, "id[0] after len(id) == 0 test; parts[0][1:] after the sigil test"},
		"gmsl.checkID":                     {2, "id[0] after domainFromID succeeded (id contains ':' hence is non-empty)"},
		"gmsl/spec.parseAndValidateUserID": {2, "id[0], id[1:] after the length >= 4 test"},
		"gmsl/spec.parseAndValidateRoomID": {4, "id[0], id[1:] (three uses) after the length >= 4 test"},
	}
	for _, name := range fw.SortedKeys(want) {
		var fn *ssa.Function
		for _, f := range c.P.SrcFuncs() {
			if fw.FuncName(f) == name && f.Parent() == nil {
				fn = f
			}
		}
		if fn == nil {
			c.Undecided(rule, name, "function not found")
			continue
		}
		c.SawFn(name)
		var sites []string
		seenSite := map[string]bool{}
		nSlices := 0
		for _, f := range fw.FamilyOf(fn) {
			for _, s := range fw.IndexSites(f) {
				if s.Guarded {
					continue
				}
				// the same access written twice (x[0] in two branches) is one access
				key := s.Kind + "|" + s.Base + "|" + s.Index
				if seenSite[key] {
					continue
				}
				seenSite[key] = true
				sites = append(sites, c.P.Pos(fw.InstrPos(s.Instr)))
				if _, isSlice := s.Instr.(*ssa.Slice); isSlice {
					nSlices++
				}
			}
		}
		sort.Strings(sites)
		w := want[name]
		if len(sites) > w.n && len(sites)-nSlices <= w.n {
			// the surplus are slice expressions x[a:b] (a run of bytes copied at once): whether
			// a <= b <= len(x) holds is a relation between two values of the scan position, which
			// this count does not judge
			c.Undecided(rule, fmt.Sprintf("%s has no index/slice on remote bytes beyond the %d justified ones", strings.TrimPrefix(name, "gmsl."), w.n), fmt.Sprintf("%d sites (%s), %d of them slice expressions whose bounds were not examined", len(sites), strings.Join(sites, ", "), nSlices))
			c.Count("raw_byte_index_sites", len(sites))
			continue
		}
		c.Check(len(sites) <= w.n, rule, fmt.Sprintf("%s has no index/slice on remote bytes beyond the %d justified ones", strings.TrimPrefix(name, "gmsl."), w.n), c.P.Pos(fn.Pos()), w.why, fmt.Sprintf("%d index/slice operations on remote bytes (%s) but only %d are justified (%s): a new access without a bounds guard can run past the end of the input", len(sites), strings.Join(sites, ", "), w.n, w.why))
		c.Count("raw_byte_index_sites", len(sites))
	}
}

// validatorImpliesNewRoomID: every success return of the validator lies behind spec.NewRoomID(id) == nil,
// or (v12 form) behind the create-event predicate, for which RoomID() does not parse the field.
// createOrParseAtom: the atoms the room-id rules reason about; every other atom that is a
// call to a repository helper is expanded into the helper's own conditions.
func createOrParseAtom(atom string) bool {
	return strings.Contains(atom, "gmsl/spec.NewRoomID(") || strings.HasSuffix(atom, `== "m.room.create")`) || strings.Contains(atom, ".StateKeyEquals(")
}

// branchAtomsExpanded: every atom the function branches on, with helper predicates expanded.
func branchAtomsExpanded(fn *ssa.Function, known func(string) bool) map[string]bool {
	out := map[string]bool{}
	conds, _ := fw.PathConds(fn)
	for _, d := range conds {
		for _, term := range fw.ExpandDNF(d, known) {
			for _, l := range term {
				out[l.Atom] = true
			}
		}
	}
	return out
}

func validatorImpliesNewRoomID(c *fw.Ctx, v *ssa.Function) bool {
	t, err := fw.ExtractTable(v, fw.ErrIndex(v))
	if err != nil {
		return false
	}
	c.SawFn(fw.FuncName(v))
	t.ExpandUnknown(createOrParseAtom)
	found := false
	for _, r := range t.Rows {
		if r.Outcome != "accept" {
			continue
		}
		found = true
		for _, term := range r.Cond {
			parsed := termHas(term, lit{[]string{"gmsl/spec.NewRoomID(", "#1 == nil)"}, true})
			create := termHas(term, lit{[]string{`== "m.room.create")`}, true}) && termHas(term, lit{[]string{".StateKeyEquals(", `,"")`}, true})
			if !parsed && !create {
				return false
			}
		}
	}
	return found
}

// checkF7: ed25519.Verify panics ("bad public key length") on a public key that is not 32
// bytes long. The keys of a remote server's key response are verified in checkVerifyKeys:
// VerifyJSON (which hands the key to ed25519.Verify unchanged) must be reached there only
// after the key's length was tested.
func checkF7(c *fw.Ctx) {
	rule := "F7 key-length"
	// VerifyJSON passes its publicKey parameter to ed25519.Verify without a length test of its own
	vj := mustFunc(c, rule, "VerifyJSON")
	fn := mustFunc(c, rule, "checkVerifyKeys")
	if vj == nil || fn == nil {
		return
	}
	selfGuard := false
	verifySites := deepCallsTo(vj, fw.NameIs("golang.org/x/crypto/ed25519.Verify", "crypto/ed25519.Verify"))
	for _, dc := range verifySites {
		blk := dc.Call.(ssa.Instruction).Block()
		facts := fw.CondStrings(blk)
		if dc.Fr != nil {
			facts = append(facts, fw.DeepFacts(dc.Fr, blk)...)
		}
		for _, f := range facts {
			if strings.Contains(f, "builtin.len(") && strings.Contains(f, "32") && !strings.Contains(f, "64") {
				selfGuard = true
			}
		}
	}
	if selfGuard {
		c.Ok(rule, "VerifyJSON tests the key length itself", c.P.Pos(vj.Pos()), "")
		return
	}
	if len(verifySites) == 0 {
		// the signature check sits behind a dispatch the rule cannot follow (a stage list):
		// whether the length is tested on the way is not visible
		c.Undecided(rule, "VerifyJSON tests the key length itself", "no call of ed25519.Verify was found in VerifyJSON and its helpers")
		return
	}
	n := 0
	type site struct {
		call ssa.CallInstruction
		in   *ssa.Function
	}
	var sites []site
	for _, call := range fw.CallsTo(fn, true, fw.NameIs("gmsl.VerifyJSON", "golang.org/x/crypto/ed25519.Verify", "crypto/ed25519.Verify")) {
		sites = append(sites, site{call, fn})
	}
	// VerifyJSON does not test the length itself: every other caller hands it a key that comes
	// from somewhere (a pseudo-ID sender, a third-party invite, a key database) and must test it
	for _, f := range c.P.SrcFuncs() {
		if f == fn || f == vj || f.Parent() == fn {
			continue
		}
		for _, call := range fw.CallsTo(f, false, fw.NameIs("gmsl.VerifyJSON")) {
			sites = append(sites, site{call, f})
		}
	}
	for _, st := range sites {
		call := st.call
		n++
		keyArg := call.Common().Args[2]
		if strings.HasSuffix(fw.CalleeName(call), "ed25519.Verify") {
			keyArg = call.Common().Args[0]
		}
		key := fw.Sig(keyArg)
		isLenTest := func(v ssa.Value) bool {
			bo, isB := v.(*ssa.BinOp)
			if !isB || bo.Op != token.EQL {
				return false
			}
			if n, isC := fw.ConstInt(bo.Y); !isC || n != 32 {
				return false
			}
			cl, _ := fw.CallOf(bo.X)
			return cl != nil && fw.CalleeName(cl) == "builtin.len" && fw.Sig(cl.Common().Args[0]) == key
		}
		ok := false
		for _, f := range fw.DomConds(call.Block()) {
			if !f.Taken {
				continue
			}
			cv, neg := fw.BoolCond(f.If.Cond)
			if neg {
				continue
			}
			if isLenTest(cv) {
				ok = true
			}
			// through a recorded flag: `entry.ValidX = len(key) == 32; if entry.ValidX { ... }`
			if u, isU := cv.(*ssa.UnOp); isU {
				if fa, isFA := u.X.(*ssa.FieldAddr); isFA {
					if sty := derefStructOf(fa.X.Type()); sty != nil {
						stores := fw.FieldStores(st.in, "", sty.Field(fa.Field).Name())
						all := len(stores) > 0
						for _, s2 := range stores {
							if !isLenTest(s2.Val) {
								all = false
							}
						}
						if all {
							ok = true
						}
					}
				}
			}
		}
		if st.in != fn {
			c.Check(ok, rule, fw.FuncName(st.in)+" verifies with a key only after testing that it is 32 bytes long", c.P.Pos(call.Pos()), "", "VerifyJSON hands its key to ed25519.Verify unchanged and is called here with "+key+" without the guard len(key) == 32: ed25519.Verify panics on a key of any other length (a pseudo-ID sender, a third-party invite key or a stored key of the wrong length crashes the check)")
			continue
		}
		c.Check(ok, rule, "checkVerifyKeys verifies a published key only after testing that it is 32 bytes long", c.P.Pos(call.Pos()), "", "the signature check of a remote server's published key is reached without the guard len(key) == 32: ed25519.Verify panics on a key of any other length, so a crafted key response crashes CheckKeys")
	}
	c.Min(rule+" key verification sites in checkVerifyKeys", n, 1)
}

// checkF8: PDU.StateKey() returns nil for events that are not state events. Every dereference of
// its result must be dominated by a test that it is not nil for the same event (or follow a
// call that established it). Events reached through remote-controlled references (auth_events,
// state sets) can be of any kind.
func checkF8(c *fw.Ctx) {
	rule := "F8 state-key-deref"
	n := 0
	for _, fn := range c.P.SrcFuncs() {
		for _, b := range fn.Blocks {
			for _, ins := range b.Instrs {
				u, ok := ins.(*ssa.UnOp)
				if !ok || u.Op != token.MUL {
					continue
				}
				call, _ := fw.CallOf(u.X)
				if call == nil || !strings.HasSuffix(fw.CalleeName(call), ".StateKey") {
					continue
				}
				if _, isPtr := u.X.Type().Underlying().(*types.Pointer); !isPtr {
					continue
				}
				n++
				ev := ""
				if call.Common().IsInvoke() {
					ev = fw.Sig(call.Common().Value)
				} else if len(call.Common().Args) > 0 {
					ev = fw.Sig(call.Common().Args[0])
				}
				guarded := stateKeyGuard(b, ev)
				// the event is a parameter of an unexported helper: the guard may sit at every call site
				if guarded == "" && strings.HasPrefix(ev, "param:") && fn.Object() != nil && !fn.Object().Exported() {
					idx := -1
					for i, p := range fn.Params {
						if fw.Sig(p) == ev {
							idx = i
						}
					}
					sites, okAll := 0, idx >= 0
					for _, caller := range c.P.SrcFuncs() {
						for _, cs := range fw.Calls(caller) {
							if cs.Common().StaticCallee() != fn || idx >= len(cs.Common().Args) {
								continue
							}
							sites++
							if stateKeyGuard(cs.Block(), fw.Sig(cs.Common().Args[idx])) == "" {
								okAll = false
							}
						}
					}
					if okAll && sites > 0 {
						guarded = fmt.Sprintf("guarded at all %d call sites of the helper", sites)
					}
				}
				// an earlier nil test in the same function that returns / continues on nil
				if guarded == "" {
					for _, iff := range fw.Ifs(fn) {
						v, trueMeansNil, isNil := fw.NilCheck(iff.Cond)
						if !isNil {
							continue
						}
						cc, _ := fw.CallOf(v)
						if cc == nil || !strings.HasSuffix(fw.CalleeName(cc), ".StateKey") {
							continue
						}
						e2 := ""
						if cc.Common().IsInvoke() {
							e2 = fw.Sig(cc.Common().Value)
						} else if len(cc.Common().Args) > 0 {
							e2 = fw.Sig(cc.Common().Args[0])
						}
						if e2 != ev {
							continue
						}
						nonNil := fw.IfEdge(iff.Block(), !trueMeansNil).To
						if nonNil.Dominates(b) {
							guarded = "nil test"
						}
					}
				}
				// frozen exemption (one symbol, read and confirmed): resolveAuthBlock only receives the
				// blocks r.creates/powerLevels/joinRules/thirdPartyInvites/members, which are filled
				// only by addConflicted after its own nil test (itself an obligation of this rule)
				if guarded == "" {
					switch fw.FuncName(fn) {
					case "(*gmsl.stateResolver).resolveAuthBlock":
						guarded = "element of a block built by addConflicted, which drops events without a state key"
					}
				}
				construct := fw.FuncName(fn) + ": *StateKey() is dereferenced only after a nil test"
				// the dereference sits in a function literal and the event is a variable of the
				// enclosing unexported function (its parameter): the guard may sit at every call
				// site of that function; where this cannot be followed nothing is concluded
				if guarded == "" && fn.Parent() != nil && strings.HasPrefix(ev, "*free:") || guarded == "" && fn.Parent() != nil && strings.HasPrefix(ev, "free:") {
					outer := fn.Parent()
					for outer.Parent() != nil {
						outer = outer.Parent()
					}
					name := strings.TrimPrefix(strings.TrimPrefix(ev, "*"), "free:")
					idx := -1
					for i, p := range outer.Params {
						if p.Name() == name {
							idx = i
						}
					}
					sites, okAll := 0, idx >= 0 && outer.Object() != nil && !outer.Object().Exported()
					if okAll {
						for _, caller := range c.P.SrcFuncs() {
							for _, cs := range fw.Calls(caller) {
								if cs.Common().StaticCallee() != outer || idx >= len(cs.Common().Args) {
									continue
								}
								sites++
								if stateKeyGuard(cs.Block(), fw.Sig(cs.Common().Args[idx])) == "" {
									okAll = false
								}
							}
						}
					}
					if okAll && sites > 0 {
						guarded = fmt.Sprintf("guarded at all %d call sites of the enclosing %s", sites, fw.FuncName(outer))
					} else {
						c.Undecided(rule, construct, "the dereference sits in a function literal of "+fw.FuncName(outer)+"; the guards under which that literal runs were not followed")
						continue
					}
				}
				if guarded == "" {
					if h := unknownGuardOn(b, ev); h != "" {
						c.Undecided(rule, construct, "the dereference is dominated by a test through the repository helper "+h+" applied to the event: the rule does not know whether it implies a state key")
						continue
					}
				}
				if guarded == "" && fn.Object() != nil && !fn.Object().Exported() && fn.Signature.Recv() != nil && strings.Contains(ev, "recv") {
					// the event is kept in the unexported object whose method this is (a phase of a
					// pipeline): the phase that established its kind ran earlier, in another method
					c.Undecided(rule, construct, "the event is a field of the receiver of an unexported method; the guards of the earlier phases were not followed")
					continue
				}
				if guarded != "" {
					c.Ok(rule, construct, c.P.Pos(fw.InstrPos(u)), guarded)
				} else {
					c.Fail(rule, construct, c.P.Pos(fw.InstrPos(u)), "StateKey() is dereferenced without a dominating nil test: an event of this kind without a state_key (a message-like event, reachable through remote-controlled references) makes the library panic")
				}
			}
		}
	}
	c.Min(rule+" dereferences", n, 5)
}

// unknownGuardOn: a dominating branch condition calls an unexported repository helper with the
// event as an argument: a guard the rule cannot interpret (no positive evidence either way).
func unknownGuardOn(b *ssa.BasicBlock, ev string) string {
	for _, f := range fw.DomConds(b) {
		found := ""
		var walk func(v ssa.Value, d int)
		walk = func(v ssa.Value, d int) {
			if v == nil || d > 5 || found != "" {
				return
			}
			if call, ok := v.(*ssa.Call); ok {
				if h := fw.Followable(call, nil); h != nil && !h.Object().Exported() {
					for _, a := range call.Common().Args {
						if fw.Sig(a) == ev {
							found = fw.FuncName(h)
							return
						}
					}
				}
			}
			if ins, ok := v.(ssa.Instruction); ok {
				for _, op := range ins.Operands(nil) {
					if *op != nil {
						walk(*op, d+1)
					}
				}
			}
		}
		walk(f.If.Cond, 0)
		if found != "" {
			return found
		}
	}
	return ""
}

// stateKeyGuard: block b is only reached when the event rendered as ev has a state key.
func stateKeyGuard(b *ssa.BasicBlock, ev string) string {
	guarded := ""
	for _, f := range fw.DomConds(b) {
		t := f.Sig
		switch {
		case !f.Taken && strings.HasSuffix(t, ".StateKey("+ev+") == nil)"):
			guarded = "nil test"
		case f.Taken && strings.HasSuffix(t, ".StateKey("+ev+") != nil)"):
			guarded = "nil test"
		case f.Taken && strings.Contains(t, ".StateKeyEquals("+ev+","):
			guarded = "StateKeyEquals"
		case f.Taken && strings.Contains(t, ".Membership("+ev+")#1 == nil)"), !f.Taken && strings.Contains(t, ".Membership("+ev+")#1 != nil)"):
			guarded = "Membership() succeeded (it refuses events without a state key)"
		}
	}
	return guarded
}
