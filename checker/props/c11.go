package props

import (
	"fmt"
	"go/token"
	"go/types"
	"sort"
	"strings"

	"gmslverif/fw"

	"golang.org/x/tools/go/ssa"
)

func init() { register("C11", checkC11) }

func checkC11(c *fw.Ctx) {
	c.Explanation = "C11 (static): order taint - every sequence whose element order is unspecified (built while ranging over a Go map, returned by a hash set's Slice(), or supplied as an input list of a resolution / ordering entry point) is followed through the resolution code; every place where such a sequence is consumed must be a canonicaliser (a sort with a total comparator, or an ordering routine that sorts before each pick), an identity-keyed set/map insertion, or a returned state set; the three comparators are total on distinct event IDs (their last key is the event ID); Kahn work-lists are sorted after every push before the next pop; the v1 resolver registers resolved auth events only after a whole type is resolved and pairs tentative registrations with removals; the agreed (unconflicted) state is re-applied last, unconditionally; results are assembled from per-key maps."
	c.NotDecidedClause("that the SET of pulled-in control events is independent of iteration order (shared `visited` map in fullControlSet)")
	c.NotDecidedClause("ancestor-before-descendant of the returned orderings, fixed point on agreement, cross-process equality (runtime notions)")
	c.Assume("P1: the event ID determines the event, so first-wins / last-wins map writes keyed by EventID() are commutative")
	c.Assume("P2: all input events belong to one room, so x[0].RoomID() on an input list reads a uniform attribute")
	c.Assume("P3: the inputs contain at most one (m.room.create, \"\") event, so first-match scans for it are order-insensitive")
	c.Assume("P4: the unconflicted list has one event per (type, state_key) (established by splitConflictedUnconflicted / documented for the deprecated entry points and v1 authEvents), so applyEvents / addAuthEvent last-wins writes are commutative")
	checkOrderTaint(c)
	checkKahnSorts(c)
	checkV1Deferral(c)
	checkAgreedState(c)
	checkResultAssembly(c)
	checkMainlineIndex(c)
	checkLineariseDedup(c)
	checkMemoKeys(c)
	checkSingleSlots(c)
}

// checkSingleSlots ("9 single-slots"): the resolvers keep the create, power-levels and join-rules
// events in one slot each; every other (type, state_key) pair has its own entry in a map. A slot
// may therefore be filled only by the event of that type whose state key is empty: an
// m.room.join_rules event with state key "legacy" that lands in the slot replaces - or is
// replaced by - the real one depending on the order of application, and the agreed entry
// (m.room.join_rules, "") disappears from the result. Judged where a routine classifies an event
// by its type (the path condition of the store mentions Type()): every path to the store must
// carry a positive test that the state key is empty.
func checkSingleSlots(c *fw.Ctx) {
	rule := "9 single-slots"
	n := 0
	for _, fn := range c.P.SrcFuncs() {
		var conds map[*ssa.BasicBlock]fw.DNF
		for _, b := range fn.Blocks {
			for _, ins := range b.Instrs {
				st, ok := ins.(*ssa.Store)
				if !ok {
					continue
				}
				fa, isFa := st.Addr.(*ssa.FieldAddr)
				if !isFa {
					continue
				}
				sty := derefStructOf(fa.X.Type())
				if sty == nil {
					continue
				}
				field := sty.Field(fa.Field).Name()
				if field != "resolvedCreate" && field != "resolvedPowerLevels" && field != "resolvedJoinRules" {
					continue
				}
				if k, isC := st.Val.(*ssa.Const); isC && k.Value == nil {
					continue // a removal
				}
				if conds == nil {
					var okc bool
					conds, okc = fw.PathConds(fn)
					if !okc {
						conds = map[*ssa.BasicBlock]fw.DNF{}
					}
				}
				d, have := conds[b]
				if !have || len(d) == 0 {
					continue
				}
				typed := false
				for _, term := range d {
					for _, l := range term {
						if strings.Contains(l.Atom, ".Type(") {
							typed = true
						}
					}
				}
				if !typed {
					continue // not a classification of an event by its type (an initialiser, a copy)
				}
				n++
				construct := fw.FuncName(fn) + ": the slot " + field + " is filled only by an event with an empty state key"
				bad := ""
				for _, term := range d {
					okTerm := false
					for _, l := range term {
						a := l.Atom
						emptyTest := strings.Contains(a, `""`) && (strings.Contains(a, "StateKey") || strings.Contains(a, "stateKey") || strings.Contains(a, "state_key"))
						if emptyTest && l.Pos && (strings.Contains(a, "==") || strings.Contains(a, "StateKeyEquals(")) {
							okTerm = true
						}
					}
					if !okTerm {
						bad = fw.DNF{term}.String()
					}
				}
				if bad == "" {
					c.Ok(rule, construct, c.P.Pos(fw.InstrPos(st)), "")
				} else {
					c.Fail(rule, construct, c.P.Pos(fw.InstrPos(st)), "the slot is written under ["+bad+"], which does not require the state key to be empty: an event of that type with another state key takes the place of (or is replaced by) the room's real "+strings.TrimPrefix(field, "resolved")+" event, so the resolved state loses an agreed entry and depends on the order of application")
				}
			}
		}
	}
	c.Min(rule+" classified slot stores", n, 6)
}

// checkMainlineIndex: powerLevelMainlinePos is both the position table and the "is on the
// mainline" membership test of the mainline ordering. It may be written only with
// (mainline[i].EventID() -> i) while ranging over createPowerLevelMainline(), or with the
// value just read for the same key (an idempotent cache write). Any other write makes the
// (position, steps) sort key of later events depend on which events were looked up before.
func checkMainlineIndex(c *fw.Ctx) {
	rule := "6 mainline-index"
	n := 0
	for _, fn := range c.P.SrcFuncs() {
		for _, b := range fn.Blocks {
			for _, ins := range b.Instrs {
				mu, ok := ins.(*ssa.MapUpdate)
				if !ok || !strings.HasSuffix(fw.Sig(mu.Map), ".powerLevelMainlinePos") {
					continue
				}
				n++
				key, val := fw.Sig(mu.Key), fw.Sig(mu.Value)
				construct := fw.FuncName(fn) + ": the mainline index is written only from the mainline itself"
				// (a) built from the mainline: key EventID(mainline[i]), value i
				if i := strings.Index(key, ".createPowerLevelMainline("); i >= 0 && strings.HasPrefix(key, "(gmsl.PDU).EventID(") {
					idx := key[strings.LastIndex(key, "[")+1 : strings.LastIndex(key, "]")]
					c.Check(val == idx, rule, construct, c.P.Pos(fw.InstrPos(mu)), "position of the event in the mainline", "the value stored for a mainline event ("+val+") is not its index in the mainline ("+idx+")")
					continue
				}
				// (b) idempotent: value and guard are the lookup of the same key
				okIdem := false
				if strings.HasPrefix(key, "(gmsl.PDU).EventID(") && strings.HasSuffix(val, "#0") {
					x := strings.TrimSuffix(strings.TrimPrefix(key, "(gmsl.PDU).EventID("), ")")
					look := strings.TrimSuffix(val, "#0")
					direct := look == fw.Sig(mu.Map)+"["+key+"]"
					viaClosure := strings.HasPrefix(look, "dyn(") && strings.HasSuffix(look, ")("+x+")") && closureLooksUp(fn, mu)
					if direct || viaClosure {
						for _, f := range fw.DomConds(b) {
							if f.Taken && f.Sig == look+"#1" {
								okIdem = true
							}
						}
					}
				}
				c.Check(okIdem, rule, construct, c.P.Pos(fw.InstrPos(mu)), "idempotent (value just read for the same key)", "powerLevelMainlinePos["+key+"] = "+val+" adds or changes an entry outside the mainline construction: events looked up later stop at a different mainline position / step count, so the mainline ordering depends on lookup order")
			}
		}
	}
	c.Count("mainline_index_writes", n)
}

// closureLooksUp: the closure called to produce the stored value returns a comma-ok lookup of
// the same map under EventID(its parameter).
func closureLooksUp(fn *ssa.Function, mu *ssa.MapUpdate) bool {
	root := fn
	for root.Parent() != nil {
		root = root.Parent()
	}
	for _, f := range fw.FamilyOf(root) {
		if f.Parent() == nil || len(f.Params) != 1 {
			continue
		}
		for _, r := range fw.Returns(f) {
			if len(r.Results) == 2 {
				s0, s1 := fw.Sig(r.Results[0]), fw.Sig(r.Results[1])
				if strings.HasSuffix(s0, ".powerLevelMainlinePos[(gmsl.PDU).EventID(param:"+f.Params[0].Name()+")]#0") && strings.HasSuffix(s1, "#1") && strings.TrimSuffix(s0, "#0") == strings.TrimSuffix(s1, "#1") {
					return true
				}
			}
		}
	}
	return false
}

// sanitisers: consumers that may receive an order-tainted sequence, with the reason.
var orderSanitisers = map[string]string{
	"(*gmsl.stateResolverV2).reverseTopologicalOrdering":                  "canonical output: Kahn work-lists are sorted with a total comparator before every pick (rule 2)",
	"(*gmsl.stateResolverV2).mainlineOrdering":                            "canonical output: SortStableFunc with a total comparator",
	"(*gmsl.stateResolverV2).wrapPowerLevelEventsForSort":                 "element-wise wrapper feeding the sorter",
	"(*gmsl.stateResolverV2).wrapOtherEventsForSort":                      "element-wise wrapper feeding the sorter",
	"gmsl.kahnsAlgorithmUsingAuthEvents":                                  "sorts before every pick (rule 2)",
	"gmsl.kahnsAlgorithmUsingPrevEvents":                                  "sorts before every pick (rule 2)",
	"(*gmsl.stateResolverV2).applyEvents":                                 "P4: keyed by (type, state_key), one event per key",
	"(*gmsl.stateResolverV2).authAndApplyEvents":                          "only reached with canonically ordered lists (checked: its arguments are outputs of the ordering routines)",
	"gmsl.eventMapFromEvents":                                             "P1: map keyed by event ID",
	"gmsl.newPDUSet":                                                      "P1: set keyed by event ID",
	"gmsl.ResolveStateConflicts":                                          "v1: blocks are sorted by (depth, sha1) and registration is deferred per type (rule 3)",
	"gmsl.ResolveStateConflictsV2":                                        "re-analysed as an entry point with tainted parameters",
	"gmsl.ResolveStateConflictsV2New":                                     "re-analysed as an entry point with tainted parameters",
	"gmsl.splitConflictedUnconflicted":                                    "re-analysed: builds identity-keyed maps; its outputs are treated as tainted",
	"(*gmsl.stateResolver).addConflicted":                                 "v1: groups by (type, state_key); block order only affects result order (rule 3)",
	"(*gmsl.stateResolver).resolveAndAddAuthBlocks":                       "v1: per-block sort + deferred registration (rule 3)",
	"(*gmsl.stateResolver).resolveAuthBlock":                              "sorts the block (depth, sha1)",
	"(*gmsl.stateResolver).resolveNormalBlock":                            "sorts the block (depth, sha1)",
	"gmsl.sortConflictedEventsByDepthAndSHA1":                             "canonicaliser: sort.Sort with (depth, sha1)",
	"gmsl.ReverseTopologicalOrdering":                                     "canonical output (rule 2)",
	"gmsl.getCreateEvent":                                                 "P3: at most one create event",
	"gmsl.StateNeededForAuth":                                             "called with a single-element list",
	"slices.SortFunc":                                                     "canonicaliser (comparator checked total)",
	"slices.SortStableFunc":                                               "canonicaliser (comparator checked total)",
	"sort.Sort":                                                           "canonicaliser",
	"(*github.com/hashicorp/go-set/v3.HashSet).InsertSlice":               "P1: set keyed by event ID",
	"(*gmsl.stateResolverV2).calculateAuthDifferenceNew":                  "per-state-set DFS into identity-keyed sets",
	"(*gmsl.stateResolverV2).calculateFullAuthChainAndConflictedSubgraph": "DFS into identity-keyed sets",
	"github.com/oleiade/lane/v2.NewStack":                                 "DFS work stack feeding identity-keyed sets only",
	"gmsl.VerifyAllEventSignatures":                                       "element-wise",
}

// exempt returns / fields: state sets by contract
var orderExemptReturns = map[string]string{
	"gmsl.ResolveStateConflictsV2":                       "returns a state SET (order not part of the contract)",
	"gmsl.ResolveStateConflictsV2New":                    "returns a state SET",
	"gmsl.ResolveStateConflicts":                         "returns a state SET",
	"gmsl.ResolveConflicts":                              "returns a state SET",
	"gmsl.ResolveConflictsNew":                           "returns a state SET",
	"gmsl.splitConflictedUnconflicted":                   "outputs treated as tainted by the callers",
	"(*gmsl.stateResolverV2).calculateAuthDifference":    "output treated as tainted by the caller (Slice-like)",
	"(*gmsl.stateResolverV2).calculateAuthDifferenceNew": "output treated as tainted by the caller",
}

func checkOrderTaint(c *fw.Ctx) {
	rule := "1 order-taint"
	unordered := func(n string) bool {
		return strings.HasSuffix(n, "HashSet).Slice") || strings.HasSuffix(n, ".Slice") && strings.Contains(n, "go-set") ||
			n == "(*gmsl.stateResolverV2).calculateAuthDifference" || n == "(*gmsl.stateResolverV2).calculateAuthDifferenceNew" || n == "gmsl.splitConflictedUnconflicted"
	}
	entries := map[string]map[string]bool{
		"ResolveConflicts":                              setOf("events", "authEvents"),
		"ResolveConflictsNew":                           setOf("stateSets", "authEvents"),
		"ResolveStateConflicts":                         setOf("conflicted", "authEvents"),
		"ResolveStateConflictsV2":                       setOf("conflicted", "unconflicted", "authEvents"),
		"ResolveStateConflictsV2New":                    setOf("stateSets", "authEvents"),
		"splitConflictedUnconflicted":                   setOf("stateSets"),
		"ReverseTopologicalOrdering":                    setOf("input"),
		"HeaderedReverseTopologicalOrdering":            setOf("events"),
		"LineariseStateResponse":                        {},
		"kahnsAlgorithmUsingAuthEvents":                 setOf("events"),
		"kahnsAlgorithmUsingPrevEvents":                 setOf("events"),
		"(*stateResolverV2).calculateAuthDifference":    {},
		"(*stateResolverV2).calculateAuthDifferenceNew": setOf("stateSets"),
		"(*stateResolverV2).mainlineOrdering":           setOf("events"),
		"(*stateResolverV2).reverseTopologicalOrdering": setOf("events"),
	}
	nsinks := 0
	nsrc := 0
	// unexported helpers that hand back an unordered sequence when given one (found while analysing)
	extraUnordered := map[string]bool{}
	unordered2 := func(n string) bool { return unordered(n) || extraUnordered[n] }
	visited := map[string]bool{}
	var analyse func(fn *ssa.Function, params map[string]bool, depth int) (returnsTainted bool)
	analyse = func(fn *ssa.Function, params map[string]bool, depth int) bool {
		name := fw.FuncName(fn)
		key := name + "|" + strings.Join(sortedSet(params), ",")
		if visited[key] {
			return false
		}
		visited[key] = true
		returnsTainted := false
		var sinks []fw.OrderSink
		for pass := 0; pass < 3; pass++ {
			sinks = fw.OrderTaint(fn, unordered2, params)
			grew := false
			for _, s := range sinks {
				if s.Kind != "call" {
					continue
				}
				if _, known := orderSanitisers[s.Target]; known || strings.HasPrefix(s.Target, "slices.Sort") || strings.Contains(s.Target, "go-set/v3.") {
					continue
				}
				// an unexported helper: follow the sequence into it
				ci, _ := s.Instr.(ssa.CallInstruction)
				cc, isCall := s.Instr.(*ssa.Call)
				if ci == nil || !isCall || depth >= 3 {
					continue
				}
				callee := fw.Followable(cc, nil)
				if callee == nil || (callee.Object() != nil && callee.Object().Exported()) || s.ArgIdx < 0 || s.ArgIdx >= len(callee.Params) {
					continue
				}
				if analyse(callee, setOf(callee.Params[s.ArgIdx].Name()), depth+1) && !extraUnordered[s.Target] {
					extraUnordered[s.Target] = true
					grew = true
				}
			}
			if !grew {
				break
			}
		}
		for _, s := range sinks {
			nsinks++
			pos := c.P.Pos(fw.InstrPos(s.Instr))
			switch s.Kind {
			case "call":
				reason, ok := orderSanitisers[s.Target]
				if strings.HasPrefix(s.Target, "slices.Sort") {
					reason, ok = orderSanitisers[strings.Split(s.Target, "[")[0]]
				}
				if strings.HasPrefix(s.Target, "(*github.com/hashicorp/go-set/v3.HashSet") || strings.Contains(s.Target, "go-set/v3.") {
					reason, ok = "P1: set keyed by event ID", true
				}
				construct := fmt.Sprintf("%s: unordered sequence -> %s", strings.TrimPrefix(name, "gmsl."), strings.TrimPrefix(s.Target, "gmsl."))
				followed := false
				if cc, isCall := s.Instr.(*ssa.Call); isCall && !ok {
					if callee := fw.Followable(cc, nil); callee != nil && (callee.Object() == nil || !callee.Object().Exported()) && depth < 3 {
						followed = true
					}
				}
				switch {
				case ok:
					c.Ok(rule, construct, pos, reason+" ["+s.Why+"]")
				case followed:
					c.Ok(rule, construct, pos, "unexported helper: the sequence is followed into it ["+s.Why+"]")
				case strings.HasPrefix(s.Target, "gmsl.") || strings.HasPrefix(s.Target, "(*gmsl.") || strings.HasPrefix(s.Target, "(gmsl."):
					// a repository function the rule has no summary for
					c.Undecided(rule, construct, fmt.Sprintf("a sequence with unspecified order (%s) is passed to %s, for which the rule has no summary", s.Why, s.Target))
				case s.Target == "builtin.copy":
					// copying keeps the order it is given: the copy is as ordered as its source,
					// which is judged where it is consumed
					c.Undecided(rule, construct, "the sequence is copied element by element; the copy was not followed")
				default:
					c.Fail(rule, construct, pos, fmt.Sprintf("a sequence with unspecified order (%s) is passed to %s, which is not a canonicaliser (total-order sort), an identity-keyed insertion or an ordering routine: the result may depend on map iteration / input order", s.Why, s.Target))
				}
			case "return":
				if depth > 0 {
					returnsTainted = true
					continue
				}
				reason, ok := orderExemptReturns[s.Target]
				// ordering entry points return their canonical output through sanitised values only
				construct := fmt.Sprintf("%s returns an unordered sequence", strings.TrimPrefix(name, "gmsl."))
				// the sequence is produced by a helper that does sort, with a comparator handed to it
				// as a value (a generic ordering routine): whether that order is total is not examined here
				sortsInHelper := false
				if strings.HasPrefix(s.Why, "result of ") {
					hn := strings.TrimPrefix(s.Why, "result of ")
					for _, f := range c.P.SrcFuncs() {
						if fw.FuncName(f) != hn {
							continue
						}
						for _, dc := range fw.AllDeepCalls(f, nil) {
							if n := fw.CalleeName(dc.Call); strings.HasPrefix(n, "slices.Sort") || strings.HasPrefix(n, "sort.") {
								sortsInHelper = true
							}
						}
					}
				}
				switch {
				case ok:
					c.Ok(rule, construct, pos, reason)
				case sortsInHelper:
					c.Undecided(rule, construct, fmt.Sprintf("%s returns the %s, which orders its output with a comparator the rule did not examine", name, s.Why))
				default:
					c.Fail(rule, construct, pos, fmt.Sprintf("%s returns a sequence whose order is unspecified (%s) although its result is an ordering / used as one", name, s.Why))
				}
			case "store-field":
				construct := fmt.Sprintf("%s stores an unordered sequence in field %s", strings.TrimPrefix(name, "gmsl."), s.Target)
				// (a field of the long-lived resolver is where the reference tree keeps its one state
				// set; a field of some other record - the working state of one run - is a local
				// variable by another name, and what is done with it later was not followed)
				switch {
				case s.Target == "result":
					c.Ok(rule, construct, pos, "result is a state set")
				case func() bool {
					st, isSt := s.Instr.(*ssa.Store)
					if !isSt {
						return false
					}
					fa, isFA := st.Addr.(*ssa.FieldAddr)
					return isFA && strings.HasSuffix(fa.X.Type().String(), "stateResolverV2")
				}():
					c.Fail(rule, construct, pos, "an unordered sequence is stored in "+s.Target)
				default:
					c.Undecided(rule, construct, "an unordered sequence is stored in "+s.Target+", a field of a record other than the resolver; its later use was not followed")
				}
			case "index":
				// P2: x[0].RoomID()
				ia := s.Instr.(*ssa.IndexAddr)
				ok := true
				for _, ref := range *ia.Referrers() {
					if u, isU := ref.(*ssa.UnOp); isU {
						for _, r2 := range *u.Referrers() {
							if call, isCall := r2.(ssa.CallInstruction); isCall && strings.HasSuffix(fw.CalleeName(call), ".RoomID") {
								continue
							}
							ok = false
						}
					}
				}
				c.Check(ok, rule, fmt.Sprintf("%s picks an element of an unordered sequence only to read the room ID (P2)", strings.TrimPrefix(name, "gmsl.")), pos, "", "an element of an unordered sequence is picked by position: "+s.Target)
			case "mapupdate":
				c.Ok(rule, fmt.Sprintf("%s keeps per-key lists in a map (%s)", strings.TrimPrefix(name, "gmsl."), s.Target), pos, "lists are flattened into tainted sequences and handled as such")
			}
		}
		if len(sinks) > 0 {
			nsrc++
		}
		return returnsTainted
	}
	for _, spec := range fw.SortedKeys(entries) {
		fn := mustFunc(c, rule, spec)
		if fn == nil {
			continue
		}
		analyse(fn, entries[spec], 0)
	}
	c.Count("order_sinks", nsinks)
	c.Min(rule+" sinks", nsinks, 10)
	// authAndApplyEvents only receives canonical orders
	for _, spec := range []string{"ResolveStateConflictsV2", "ResolveStateConflictsV2New"} {
		if fn := c.P.Func(spec); fn != nil {
			for _, call := range fw.CallsTo(fn, false, fw.NameIs("(*gmsl.stateResolverV2).authAndApplyEvents")) {
				s := fw.Sig(call.Common().Args[1])
				ok := strings.HasPrefix(s, "(*gmsl.stateResolverV2).reverseTopologicalOrdering(") || strings.HasPrefix(s, "(*gmsl.stateResolverV2).mainlineOrdering(")
				c.Expect(ok, rule, spec+": iterative auth checks run over a canonical order", c.P.Pos(call.Pos()), "", "authAndApplyEvents receives "+s)
			}
		}
	}
}

// checkKahnSorts: in each Kahn routine, no Pop can follow a Push without a sort of the work-list in between,
// and stray events are sorted before being prepended.
func checkKahnSorts(c *fw.Ctx) {
	rule := "2 sort-before-pick"
	for _, spec := range []string{"kahnsAlgorithmUsingAuthEvents", "kahnsAlgorithmUsingPrevEvents"} {
		fn := mustFunc(c, rule, spec)
		if fn == nil {
			continue
		}
		var pushes, pops, sorts []ssa.Instruction
		for _, call := range fw.Calls(fn) {
			n := fw.CalleeName(call)
			switch {
			case strings.HasSuffix(n, "Heap).Push"):
				pushes = append(pushes, call.(ssa.Instruction))
			case strings.HasSuffix(n, "Heap).Pop"):
				pops = append(pops, call.(ssa.Instruction))
			case strings.HasPrefix(n, "slices.SortStableFunc") || strings.HasPrefix(n, "slices.SortFunc"):
				sorts = append(sorts, call.(ssa.Instruction))
				// comparator is one of the total comparators
				cmp := fw.Sig(call.Common().Args[len(call.Common().Args)-1])
				c.Expect(strings.Contains(cmp, "sortStateResV2Conflicted"), rule, spec+": work-lists are sorted with the total comparator", c.P.Pos(call.Pos()), cmp, "comparator is "+cmp)
			}
		}
		// appends into a heap inside a map range count as pushes too
		for _, b := range fn.Blocks {
			for _, ins := range b.Instrs {
				if call, ok := ins.(*ssa.Call); ok && fw.CalleeName(call) == "builtin.append" && strings.Contains(call.Type().String(), "Heap") {
					if _, body := fw.LoopOf(b); body != nil {
						pushes = append(pushes, call)
					}
				}
			}
		}
		bad := 0
		for _, p := range pushes {
			for _, q := range pops {
				if fw.PathAvoiding(p.Block(), sorts, q) && reachesInstr(p, q) {
					// a path from the push's block to the pop avoiding every sort; make sure the path starts after
					// the push and is consistent with the boolean flags (`if pushed { sort }` is a sort on
					// every path that pushed)
					if pathAfter(p, sorts, q) && fw.FlagPathAfter(p, sorts, q) {
						bad++
						c.Fail(rule, spec+": every pick from the work-list follows a sort of it", c.P.Pos(fw.InstrPos(q)), fmt.Sprintf("the work-list can be popped at %s after a push at %s without being sorted in between: the pick depends on map iteration order", c.P.Pos(fw.InstrPos(q)), c.P.Pos(fw.InstrPos(p))))
					}
				}
			}
		}
		if bad == 0 {
			c.Ok(rule, spec+": every pick from the work-list follows a sort of it", c.P.Pos(fn.Pos()), fmt.Sprintf("%d pushes x %d pops x %d sorts", len(pushes), len(pops), len(sorts)))
		}
		c.Min(rule+" "+spec+" sorts", len(sorts), 1)
		c.Min(rule+" "+spec+" pushes", len(pushes), 1)
	}
	// in-degree counters: an entry may be created with 0, but a count that has already been
	// incremented (an ancestor seen as somebody's dependency before its own turn) is never reset
	for _, spec := range []string{"kahnsAlgorithmUsingAuthEvents", "kahnsAlgorithmUsingPrevEvents"} {
		fn := c.P.Func(spec)
		if fn == nil {
			continue
		}
		for _, rf := range fw.RegionOf(fn, nil) {
			counters := map[string]bool{}
			for _, b := range rf.Blocks {
				for _, ins := range b.Instrs {
					if mu, ok := ins.(*ssa.MapUpdate); ok {
						if bo, isB := mu.Value.(*ssa.BinOp); isB && bo.Op == token.ADD && strings.HasPrefix(fw.Sig(bo.X), fw.Sig(mu.Map)+"[") {
							counters[fw.Sig(mu.Map)] = true
						}
					}
				}
			}
			for _, b := range rf.Blocks {
				for _, ins := range b.Instrs {
					mu, ok := ins.(*ssa.MapUpdate)
					if !ok || !counters[fw.Sig(mu.Map)] {
						continue
					}
					if n, isC := fw.ConstInt(mu.Value); !isC || n != 0 {
						continue
					}
					guarded := false
					for _, f := range fw.DomConds(b) {
						if !f.Taken && strings.HasPrefix(f.Sig, fw.Sig(mu.Map)+"[") && strings.HasSuffix(f.Sig, "#1") {
							guarded = true
						}
					}
					c.Check(guarded, rule, spec+": an in-degree entry is initialised only when it does not exist yet", c.P.Pos(fw.InstrPos(mu)), "", "the in-degree of "+fw.Sig(mu.Key)+" is set to 0 unconditionally: a count already accumulated from events listed earlier is wiped, so an ancestor can be emitted together with (or after) its descendants")
				}
			}
		}
	}
	if fn := mustFunc(c, rule, "(*stateResolverV2).mainlineOrdering"); fn != nil {
		n := 0
		for _, call := range fw.Calls(fn) {
			if strings.HasPrefix(fw.CalleeName(call), "slices.SortStableFunc") || strings.HasPrefix(fw.CalleeName(call), "slices.SortFunc") {
				n++
				cmp := fw.Sig(call.Common().Args[len(call.Common().Args)-1])
				c.Expect(strings.Contains(cmp, "sortStateResV2ConflictedOtherHeap"), rule, "mainline ordering sorts with the total mainline comparator", c.P.Pos(call.Pos()), cmp, "comparator is "+cmp)
			}
		}
		c.Min(rule+" mainlineOrdering sort", n, 1)
	}
	// totality: the comparators' last key is the event ID (decided in C10.3; re-stated here as a dependency)
	for _, spec := range []string{"sortStateResV2ConflictedPowerLevelHeap", "sortStateResV2ConflictedOtherHeap"} {
		if fn := mustFunc(c, rule, spec); fn != nil {
			n := 0
			for _, r := range fw.Returns(fn) {
				if s := fw.Sig(r.Results[0]); strings.HasPrefix(s, "strings.Compare(*param:a.eventID") {
					n++
				}
			}
			// the cmp.Or spelling: the last key of the chain is the event ID
			if seq, ok := cmpOrChain(fn); ok && len(seq) > 0 && strings.HasPrefix(seq[len(seq)-1], "eventID:") {
				n = 1
			}
			if n == 0 {
				// neither spelling recognised: is there any comparison of the event IDs at all?
				anyID := false
				for _, call := range fw.Calls(fn) {
					for _, a := range call.Common().Args {
						if strings.Contains(fw.Sig(a), ".eventID") {
							anyID = true
						}
					}
				}
				if anyID {
					c.Undecided(rule, spec+" is total on distinct event IDs (falls back to comparing the IDs)", "the comparator compares event IDs but its shape is not recognised")
					continue
				}
			}
			c.Check(n == 1, rule, spec+" is total on distinct event IDs (falls back to comparing the IDs)", c.P.Pos(fn.Pos()), "", "the comparator can return 0 for two distinct events")
		}
	}
}

func reachesInstr(a, b ssa.Instruction) bool {
	if a.Block() == b.Block() {
		return true
	}
	return fw.ReachableFrom(a.Block(), nil)[b.Block()]
}

// pathAfter: a path starting right after instruction p reaches q without executing a sort.
func pathAfter(p ssa.Instruction, sorts []ssa.Instruction, q ssa.Instruction) bool {
	b := p.Block()
	idx := -1
	for i, ins := range b.Instrs {
		if ins == p {
			idx = i
		}
	}
	// within the block after p
	for i := idx + 1; i < len(b.Instrs); i++ {
		for _, s := range sorts {
			if b.Instrs[i] == s {
				return false
			}
		}
		if b.Instrs[i] == q {
			return true
		}
	}
	for _, s := range b.Succs {
		if fw.PathAvoiding(s, sorts, q) {
			return true
		}
	}
	return false
}

func checkV1Deferral(c *fw.Ctx) {
	rule := "3 v1-deferral"
	fn := mustFunc(c, rule, "(*stateResolver).resolveAndAddAuthBlocks")
	if fn != nil {
		res := fw.CallsTo(fn, false, fw.NameIs("(*gmsl.stateResolver).resolveAuthBlock"))
		adds := fw.CallsTo(fn, false, fw.NameIs("(*gmsl.stateResolver).addAuthEvent"))
		c.Expect(len(res) == 1 && len(adds) >= 1, rule, "resolveAndAddAuthBlocks resolves blocks and registers results", c.P.Pos(fn.Pos()), "", fmt.Sprintf("%d resolveAuthBlock, %d addAuthEvent sites", len(res), len(adds)))
		if len(res) == 1 {
			_, body := fw.LoopOf(res[0].Block())
			for _, a := range adds {
				c.Check(body != nil && !body[a.Block()], rule, "resolved auth events are registered only after every block of the type is resolved", c.P.Pos(a.Pos()), "", "addAuthEvent is called inside the loop that resolves the blocks: a later block is authorised against an earlier block's result, so the outcome depends on block (map / input) order")
				// and it happens after the loop
				c.Check(reaches(res[0], a) && !reaches(a, res[0]), rule, "registration follows the resolution loop", c.P.Pos(a.Pos()), "", "registration can precede resolution")
			}
		}
	}
	if fn := mustFunc(c, rule, "(*stateResolver).resolveAuthBlock"); fn != nil {
		rem := fw.CallsTo(fn, false, fw.NameIs("(*gmsl.stateResolver).removeAuthEvent"))
		var remI []ssa.Instruction
		for _, r := range rem {
			remI = append(remI, r.(ssa.Instruction))
		}
		ok := len(rem) >= 1
		for _, r := range fw.Returns(fn) {
			for _, a := range fw.CallsTo(fn, false, fw.NameIs("(*gmsl.stateResolver).addAuthEvent")) {
				if pathAfter(a.(ssa.Instruction), remI, r) {
					ok = false
				}
			}
		}
		c.Check(ok, rule, "tentative registrations in resolveAuthBlock are removed before returning", c.P.Pos(fn.Pos()), "", "a path from addAuthEvent(candidate) to the return avoids removeAuthEvent: the candidate stays registered while sibling blocks are resolved")
	}
}

func checkAgreedState(c *fw.Ctx) {
	rule := "4 agreed-state"
	for _, spec := range []string{"ResolveStateConflictsV2New", "ResolveStateConflictsV2"} {
		fn := mustFunc(c, rule, spec)
		if fn == nil {
			continue
		}
		applyN, authN := "(*gmsl.stateResolverV2).applyEvents", "(*gmsl.stateResolverV2).authAndApplyEvents"
		stop := func(f *ssa.Function) bool {
			n := fw.FuncName(f)
			return stopExported(f) || n == applyN || n == authN || strings.HasSuffix(n, "TopologicalOrdering") || strings.HasSuffix(n, "mainlineOrdering")
		}
		calls := fw.DeepCalls(fn, fw.NameIs(applyN), stop)
		auths := fw.DeepCalls(fn, fw.NameIs(authN), stop)
		var last *fw.DeepCall
		for i := range calls {
			after := len(auths) > 0
			for _, a := range auths {
				if canRunBefore(calls[i], a) {
					after = false
				}
			}
			if after {
				last = &calls[i]
			}
		}
		if last == nil {
			if len(calls) == 0 || len(auths) == 0 {
				c.Undecided(rule, spec+": the unconflicted state is re-applied after all auth checks", fmt.Sprintf("%d applyEvents and %d authAndApplyEvents calls recognised", len(calls), len(auths)))
			} else {
				c.Fail(rule, spec+": the unconflicted state is re-applied after all auth checks", c.P.Pos(fn.Pos()), "no applyEvents call follows the last iterative auth stage")
			}
			continue
		}
		conds := stageCondsDeep(*last)
		// a condition under which every iterative auth stage runs as well (an early exit of the
		// whole resolution) does not make the re-application conditional relative to them
		if conds != "" {
			var keep []string
			for _, atom := range strings.Split(conds, " && ") {
				everywhere := len(auths) > 0
				for _, a := range auths {
					has := false
					for _, x := range strings.Split(stageCondsDeep(a), " && ") {
						if x == atom {
							has = true
						}
					}
					if !has {
						everywhere = false
					}
				}
				if !everywhere {
					keep = append(keep, atom)
				}
			}
			conds = strings.Join(keep, " && ")
		}
		if conds != "" && (strings.Contains(conds, "free:") || fw.OpaqueDispatchAny(fn) != "") {
			// the condition is over a variable of an enclosing routine (the driver is a function
			// literal or runs its steps through function values): which calls it covers is not known
			c.Undecided(rule, spec+": the unconflicted state is re-applied after all auth checks, unconditionally", "the re-application is reached under ["+conds+"] inside a step handed over as a function value")
			continue
		}
		c.Check(conds == "", rule, spec+": the unconflicted state is re-applied after all auth checks, unconditionally", c.P.Pos(last.Call.Pos()), "", "the final re-application only happens when ["+conds+"]: a conflicted or auth-difference event with the same key can replace the event all state sets agree on")
		arg := fw.SigIn(last.Fr, last.Call.Common().Args[1])
		c.Expect(strings.Contains(arg, "unconflicted") || strings.Contains(arg, "splitConflictedUnconflicted(param:stateResAlgo,param:stateSets)#1"), rule, spec+": what is re-applied is the unconflicted state", c.P.Pos(last.Call.Pos()), arg, "re-applied list is "+arg)
	}
	// split: an event is unconflicted only if its key has one candidate and (v2+) every state set has it
	if fn := mustFunc(c, rule, "splitConflictedUnconflicted"); fn != nil {
		ok := false
		for _, iff := range fw.Ifs(fn) {
			s := fw.Sig(iff.Cond)
			if strings.Contains(s, "== builtin.len(param:stateSets))") {
				ok = true
			}
		}
		c.Expect(ok, rule, "unconflicted means present in every state set", c.P.Pos(fn.Pos()), "", "no comparison of the occurrence count with len(stateSets) was recognised")
	}
}

func checkResultAssembly(c *fw.Ctx) {
	rule := "5 assembly"
	// applyEvents writes only per-key slots
	if fn := mustFunc(c, rule, "(*stateResolverV2).applyEvents"); fn != nil {
		n := 0
		for _, w := range fw.WritesIn(fn) {
			if len(w.Path.Fields) == 0 {
				continue
			}
			f := w.Path.Fields[0].Name()
			if !strings.HasPrefix(f, "resolved") {
				if _, isRecv := w.Path.Base.(*ssa.Parameter); isRecv {
					c.Fail(rule, "applyEvents writes only the resolved* slots", c.P.Pos(fw.InstrPos(w.Instr)), "writes field "+f)
				}
				continue
			}
			n++
			if mu, ok := w.Instr.(*ssa.MapUpdate); ok {
				k := fw.Sig(mu.Key)
				c.Check(strings.Contains(k, "StateKey(") || strings.Contains(k, "StateKeyTuple"), rule, "applyEvents keys "+f+" by the state key", c.P.Pos(fw.InstrPos(mu)), k, "map key is "+k)
			}
		}
		c.Min(rule+" applyEvents slots", n, 6)
	}
	// the result is assembled from the resolved* slots only
	for _, spec := range []string{"ResolveStateConflictsV2New", "ResolveStateConflictsV2"} {
		fn := c.P.Func(spec)
		if fn == nil {
			continue
		}
		for _, st := range fw.FieldStores(fn, "stateResolverV2", "result") {
			s := fw.Sig(st.Val)
			if strings.HasPrefix(s, "makeslice") {
				continue
			}
			ok := fw.DerivesFrom(st.Val, fw.FlowSpec{IsSource: func(v ssa.Value) bool {
				x := fw.Sig(v)
				return strings.Contains(x, ".resolved") || strings.HasPrefix(x, "next(range(*local:*gmsl.stateResolverV2.resolved")
			}, Through: func(cl ssa.CallInstruction) []int {
				if fw.CalleeName(cl) == "builtin.append" {
					return []int{1}
				}
				return nil
			}})
			c.Check(ok, rule, spec+": the result is assembled from the per-key resolved slots", c.P.Pos(fw.InstrPos(st)), "", "a value that does not come from the resolved* slots is appended to the result: "+s)
		}
	}
}

// checkLineariseDedup ("7 linearise"): the ordering routines count an event's auth events per
// list entry but resolve them through a map keyed by event ID, so an event listed twice
// keeps its ancestors' in-degree above zero and they leave the DAG order (precondition P2 of
// the order-taint argument: the input of the sort has no duplicates). LineariseStateResponse
// is the caller that joins two remote lists: every entry it hands on comes out of a map
// keyed by event ID, or is appended behind a not-seen-yet test.
func checkLineariseDedup(c *fw.Ctx) {
	rule := "7 linearise"
	fn := mustFunc(c, rule, "LineariseStateResponse")
	if fn == nil {
		return
	}
	construct := "LineariseStateResponse hands each event to the ordering once"
	var sortCall ssa.CallInstruction
	calls := fw.AllDeepCalls(fn, stopExported)
	compacts := false
	for _, dc := range calls {
		n := fw.CalleeName(dc.Call)
		if n == "gmsl.ReverseTopologicalOrdering" {
			sortCall = dc.Call
		}
		if strings.HasPrefix(n, "slices.Compact") || strings.HasPrefix(n, "slices.Sort") || strings.HasPrefix(n, "sort.") {
			compacts = true
		}
	}
	if sortCall == nil {
		c.Undecided(rule, construct, "no call of ReverseTopologicalOrdering in the region of LineariseStateResponse")
		return
	}
	isPDUSlice := func(t types.Type) bool {
		sl, ok := t.Underlying().(*types.Slice)
		return ok && strings.HasSuffix(fw.Short(sl.Elem().String()), "gmsl.PDU")
	}
	n, bad := 0, 0
	for _, dc := range calls {
		if fw.CalleeName(dc.Call) != "builtin.append" || !isPDUSlice(dc.Call.Common().Args[0].Type()) {
			continue
		}
		n++
		blk := dc.Call.Block()
		// inside a loop over a map: the entries are distinct keys
		overMap := false
		if h, _ := fw.LoopOf(blk); h != nil {
			for _, ins := range h.Instrs {
				if nx, ok := ins.(*ssa.Next); ok {
					if rg, ok := nx.Iter.(*ssa.Range); ok {
						if _, isMap := rg.X.Type().Underlying().(*types.Map); isMap {
							overMap = true
						}
					}
				}
			}
		}
		guarded := false
		for _, f := range fw.DeepFacts(dc.Fr, blk) {
			if strings.HasPrefix(f, "!") && strings.HasSuffix(f, "#1") {
				guarded = true // `if _, seen := m[id]; !seen`
			}
		}
		pos := c.P.Pos(dc.Call.Pos())
		switch {
		case overMap || guarded:
			c.Ok(rule, construct, pos, map[bool]string{true: "entries of a map keyed by event ID", false: "appended behind a not-seen test"}[overMap])
		case compacts:
			c.Undecided(rule, construct, "the list built at "+pos+" may be de-duplicated by a later sort/compact step the rule does not follow")
		default:
			bad++
			c.Fail(rule, construct, pos, "events of a remote list are appended to the list that is ordered without a test that the event ID was not seen before: an event listed twice is counted twice in its ancestors' in-degree and they are emitted out of DAG order")
		}
	}
	if n == 0 {
		c.Undecided(rule, construct, "no append building the ordered list was recognised")
	}
}

// checkMemoKeys ("8 memo"): a result remembered in a map of the resolver and handed out again for
// the same key must be a function of that key. The tie-break level of an event depends on the
// event's own auth events; remembered under the sender alone it becomes whatever the first
// event of that sender produced, and the resolved state depends on the order of the input.
// Sources are compared at the granularity of accessor calls on the function's parameters
// (event.SenderID() vs event.AuthEventIDs()); room-constant accessors are ignored.
func checkMemoKeys(c *fw.Ctx) {
	rule := "8 memo"
	roomConstant := map[string]bool{"Version": true, "RoomID": true}
	var sources func(v ssa.Value, fr *fw.Frame, depth int, seen map[ssa.Value]bool, out map[string]bool)
	sources = func(v ssa.Value, fr *fw.Frame, depth int, seen map[ssa.Value]bool, out map[string]bool) {
		if v == nil || depth > 14 || seen[v] {
			return
		}
		seen[v] = true
		rec := func(x ssa.Value) { sources(x, fr, depth+1, seen, out) }
		switch x := v.(type) {
		case *ssa.Parameter:
			if a, ok := fr.ArgOf(x); ok {
				sources(a, fr.Parent, depth+1, seen, out)
				return
			}
			if x.Parent().Signature.Recv() != nil && len(x.Parent().Params) > 0 && x.Parent().Params[0] == x {
				out["recv"] = true
				return
			}
			out[x.Name()] = true
		case *ssa.Call:
			if x.Call.IsInvoke() {
				// an accessor of an interface value: attribute it to the parameter the value is
				root, rfr := rootOf(x.Call.Value, fr)
				if p, ok := root.(*ssa.Parameter); ok && rfr == nil && !(p.Parent().Signature.Recv() != nil && p.Parent().Params[0] == p) {
					if !roomConstant[x.Call.Method.Name()] {
						out[p.Name()+"."+x.Call.Method.Name()] = true
					}
					return
				}
				rec(x.Call.Value)
				for _, a := range x.Call.Args {
					rec(a)
				}
				return
			}
			if callee := fw.Followable(x, fr); callee != nil {
				nf := &fw.Frame{Site: x, Callee: callee, Parent: fr}
				for _, r := range fw.Returns(callee) {
					for _, res := range r.Results {
						sources(res, nf, depth+1, seen, out)
					}
				}
				return
			}
			for _, a := range x.Call.Args {
				rec(a)
			}
		case *ssa.Phi:
			for _, e := range x.Edges {
				rec(e)
			}
		case *ssa.Alloc:
			for _, ref := range *x.Referrers() {
				if st, ok := ref.(*ssa.Store); ok && st.Addr == ssa.Value(x) {
					rec(st.Val)
				}
			}
		default:
			var ops []*ssa.Value
			if ins, ok := v.(ssa.Instruction); ok {
				ops = ins.Operands(ops)
				for _, o := range ops {
					if o != nil && *o != nil {
						rec(*o)
					}
				}
			}
		}
	}
	n := 0
	for _, fn := range c.P.SrcFuncs() {
		if fn.Pkg == nil || fn.Pkg.Pkg.Path() != fw.ModPath || fn.Signature.Recv() == nil {
			continue
		}
		if file := c.P.Pos(fn.Pos()); !strings.HasPrefix(file, "stateresolution") {
			continue
		}
		for _, b := range fn.Blocks {
			for _, ins := range b.Instrs {
				mu, ok := ins.(*ssa.MapUpdate)
				if !ok {
					continue
				}
				ms := strings.TrimLeft(fw.Sig(mu.Map), "*&")
				if !strings.HasPrefix(ms, "recv.") {
					continue
				}
				// the memo pattern: the same function looks the key up first and returns the hit
				looked := false
				for _, b2 := range fn.Blocks {
					for _, i2 := range b2.Instrs {
						if lk, isLk := i2.(*ssa.Lookup); isLk && lk.CommaOk && strings.TrimLeft(fw.Sig(lk.X), "*&") == ms {
							looked = true
						}
					}
				}
				if !looked {
					continue
				}
				n++
				keySrc, valSrc := map[string]bool{}, map[string]bool{}
				sources(mu.Key, nil, 0, map[ssa.Value]bool{}, keySrc)
				sources(mu.Value, nil, 0, map[ssa.Value]bool{}, valSrc)
				var missing []string
				for s := range valSrc {
					if i := strings.Index(s, "."); i > 0 && !keySrc[s] && !keySrc[s[:i]] {
						missing = append(missing, s)
					}
				}
				construct := fmt.Sprintf("%s: what is remembered in %s is a function of its key", fw.FuncName(fn), ms)
				if len(missing) > 0 && len(keySrc) > 0 {
					sort.Strings(missing)
					c.Fail(rule, construct, c.P.Pos(fw.InstrPos(mu)), fmt.Sprintf("the value stored under a key built from {%s} also depends on %s: the first event seen for a key decides what every later event with that key gets, so the outcome depends on the order in which events are visited", strings.Join(sortedSet(keySrc), ", "), strings.Join(missing, ", ")))
				} else {
					c.Ok(rule, construct, c.P.Pos(fw.InstrPos(mu)), "key sources {"+strings.Join(sortedSet(keySrc), ", ")+"}")
				}
			}
		}
	}
	c.Count("memo maps examined", n)
}
