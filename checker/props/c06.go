package props

import (
	"fmt"
	"go/types"
	"sort"
	"strings"

	"gmslverif/fw"

	"golang.org/x/tools/go/ssa"
)

func init() { register("C06", checkC06) }

// atomiser maps a condition string (fw.CondFact.String()) to a named atom; "" = ignore.
type atomRule struct {
	name  string
	match func(s string) (neg bool, ok bool)
}

func containsAll(s string, subs ...string) bool {
	for _, x := range subs {
		if !strings.Contains(s, x) {
			return false
		}
	}
	return true
}

// atomise turns the dominating conditions of a block into a sorted atom set using rules;
// conditions matching no rule are reported as OTHER:<sig>.
func atomise(b *ssa.BasicBlock, rules []atomRule, ignore func(string) bool) []string {
	var out []string
	seen := map[string]bool{}
	for _, f := range fw.DomConds(b) {
		if fw.IsErrCheck(f) {
			continue
		}
		s := f.Sig
		if ignore != nil && ignore(s) {
			continue
		}
		name := ""
		for _, r := range rules {
			if neg, ok := r.match(s); ok {
				taken := f.Taken
				if neg {
					taken = !taken
				}
				name = r.name
				if !taken {
					name = "!" + name
				}
				break
			}
		}
		if name == "" {
			name = "OTHER:" + f.String()
		}
		if !seen[name] {
			seen[name] = true
			out = append(out, name)
		}
	}
	sort.Strings(out)
	return out
}

// atomiseFacts is atomise over rendered facts ("sig" / "!sig"), as produced by fw.DeepFacts.
func atomiseFacts(facts []string, rules []atomRule, ignore func(string) bool) []string {
	var out []string
	seen := map[string]bool{}
	for _, f := range facts {
		taken := !strings.HasPrefix(f, "!")
		s := strings.TrimPrefix(f, "!")
		if ignore != nil && ignore(s) {
			continue
		}
		name := ""
		for _, r := range rules {
			if neg, ok := r.match(s); ok {
				t := taken
				if neg {
					t = !t
				}
				name = r.name
				if !t {
					name = "!" + name
				}
				break
			}
		}
		if name == "" {
			name = "OTHER:" + f
		}
		if !seen[name] {
			seen[name] = true
			out = append(out, name)
		}
	}
	sort.Strings(out)
	return out
}

func eqAtom(name string, subs ...string) atomRule {
	return atomRule{name: name, match: func(s string) (bool, bool) {
		if containsAll(s, subs...) && strings.Contains(s, " == ") {
			return false, true
		}
		if containsAll(s, subs...) && strings.Contains(s, " != ") {
			return true, true
		}
		return false, false
	}}
}

func checkC06(c *fw.Ctx) {
	c.Explanation = "C06 (static): the required-signer table of VerifyEventSignatures is extracted from SSA: every insertion into the `needed` set is classified by the provenance of its key and by the set of branch atoms that dominate it, and the resulting table is compared with the specification's table (sender's server; event-ID server for ID format 1; invitee's server for invites; authorising server for joins when the room version extracts one; the pseudo-ID variants). The request loop is shown to be unfiltered and to carry the redacted event, the event's timestamp and the room version's validity rule; success is shown to require a nil error from VerifyJSONs and from every result; the per-version columns are compared exhaustively with the specification."
	c.Exhaustive = true
	c.NotDecidedClause("validity of the signatures themselves and key-validity arithmetic (C02/C12)")
	c.NotDecidedClause("that decoding (Membership(), SplitID) yields what the content says")
	fn := mustFunc(c, "1 needed-table", "VerifyEventSignatures")
	if fn == nil {
		return
	}
	rules := []atomRule{
		eqAtom("PSEUDO", `"org.matrix.msc4014"`),
		eqAtom("MEMBER", `.Type(param:e)`, `"m.room.member"`),
		eqAtom("INVITE", `.Membership(param:e)#0`, `"invite"`),
		eqAtom("JOIN", `.Membership(param:e)#0`, `"join"`),
		eqAtom("IDFMT1", `.EventIDFormat(`, ` 1)`),
		{name: "SENDER_KNOWN", match: func(s string) (bool, bool) {
			if containsAll(s, "param:userIDForSender)(", "#0 != nil") {
				return false, true
			}
			if containsAll(s, "param:userIDForSender)(", "#0 == nil") {
				return true, true
			}
			return false, false
		}},
		{name: "AUTH_SERVER_NAMED", match: func(s string) (bool, bool) {
			if containsAll(s, ".RestrictedJoinServername(", `#0 != ""`) {
				return false, true
			}
			if containsAll(s, ".RestrictedJoinServername(", `#0 == ""`) {
				return true, true
			}
			return false, false
		}},
	}
	ignore := func(s string) bool { return containsAll(s, "param:userIDForSender == nil") }
	type row struct {
		key   string
		atoms string
	}
	// classify: which row of the table a key belongs to (by the call that produces it), and
	// whether its operands are the ones the row prescribes
	classify2 := func(k string) (string, bool) {
		// a parameter captured by a closure lives in a cell: `*&param:e` is `param:e`
		k = strings.ReplaceAll(k, "*&param:", "param:")
		switch {
		case strings.Contains(k, "UserID).Domain(") && strings.Contains(k, "param:userIDForSender)("):
			return "sender's server", strings.Contains(k, ".SenderID(param:e)")
		case strings.Contains(k, "gmsl.SplitID(36,") && strings.HasSuffix(k, "#1"):
			return "event-ID server", strings.Contains(k, ".EventID(param:e)")
		case strings.Contains(k, "gmsl.SplitID(64,") && strings.HasSuffix(k, "#1"):
			return "invitee's server", strings.Contains(k, ".StateKey(param:e)")
		case strings.Contains(k, ".RestrictedJoinServername(") && strings.HasSuffix(k, "#0"):
			return "authorising server", strings.Contains(k, ".Content(param:e)")
		case strings.HasSuffix(k, ".SenderID(param:e)") && !strings.Contains(k, "Domain"):
			return "sender key (pseudo-ID)", true
		case strings.HasSuffix(k, ".StateKey(param:e)") && !strings.Contains(k, "SplitID"):
			return "invitee key (pseudo-ID)", true
		}
		return "UNRECOGNISED:" + k, false
	}
	// atoms that follow from others (membership values exclude each other)
	implied := map[string][]string{"INVITE": {"!JOIN"}, "JOIN": {"!INVITE"}}
	sameAtoms := func(got []string, exp string) bool {
		want := map[string]bool{}
		for _, a := range strings.Split(exp, ",") {
			want[a] = true
		}
		free := map[string]bool{}
		for a := range want {
			for _, i := range implied[a] {
				free[i] = true
			}
		}
		seen := map[string]bool{}
		for _, a := range got {
			if want[a] {
				seen[a] = true
				continue
			}
			if !free[a] {
				return false
			}
		}
		return len(seen) == len(want)
	}
	want := map[string]string{
		"sender's server":         "!PSEUDO,SENDER_KNOWN",
		"event-ID server":         "!PSEUDO,IDFMT1",
		"invitee's server":        "!PSEUDO,INVITE,MEMBER",
		"authorising server":      "AUTH_SERVER_NAMED,JOIN,MEMBER",
		"sender key (pseudo-ID)":  "PSEUDO",
		"invitee key (pseudo-ID)": "INVITE,MEMBER,PSEUDO",
	}
	got := map[string][]string{}
	nUpd, nOther := 0, 0
	stopMapping0 := func(f *ssa.Function) bool { return fw.FuncName(f) == "gmsl.validateMXIDMappingSignatures" }
	// an insertion into the required-signer collection: an update of a set of server names, an
	// append to a list of server names, or a call of a local function literal that does one of
	// these with its parameter (`need(x)`); the key is resolved per alternative when it merges
	// several values (`origin` assigned on two branches), each under its own condition
	type insertion struct {
		at   ssa.Instruction
		fr   *fw.Frame
		key  ssa.Value
		more []string // conditions of the alternative, beyond those of the insertion's block
	}
	isServerName := func(t types.Type) bool { return strings.HasSuffix(fw.Short(t.String()), "spec.ServerName") }
	insertsParam := func(lit *ssa.Function) bool {
		if lit == nil || len(lit.Params) != 1 || !isServerName(lit.Params[0].Type()) {
			return false
		}
		for _, b := range lit.Blocks {
			for _, ins := range b.Instrs {
				switch x := ins.(type) {
				case *ssa.MapUpdate:
					if x.Key == ssa.Value(lit.Params[0]) {
						return true
					}
				case *ssa.Call:
					if fw.CalleeName(x) == "builtin.append" && len(x.Call.Args) == 2 {
						if elems, ok := fw.VariadicElems(x.Call.Args[1]); ok {
							for _, e := range elems {
								if e == ssa.Value(lit.Params[0]) {
									return true
								}
							}
						}
					}
				}
			}
		}
		return false
	}
	var raw []insertion
	for _, di := range fw.DeepInstrs(fn, stopMapping0) {
		switch x := di.Instr.(type) {
		case *ssa.MapUpdate:
			if strings.Contains(fw.Short(x.Map.Type().Underlying().String()), "map[gmsl/spec.ServerName]struct{}") {
				// (inside a `need` literal the key is its parameter: that site is represented by the calls)
				if p, isP := x.Key.(*ssa.Parameter); isP && p.Parent().Parent() != nil && insertsParam(p.Parent()) {
					continue
				}
				raw = append(raw, insertion{at: x, fr: di.Fr, key: x.Key})
			}
		case *ssa.Call:
			if sc := x.Call.StaticCallee(); sc != nil && sc.Parent() != nil && !x.Call.IsInvoke() && insertsParam(sc) {
				// a call of a function literal (free variables are not among Args)
				if len(x.Call.Args) >= 1 {
					raw = append(raw, insertion{at: x, fr: di.Fr, key: x.Call.Args[len(x.Call.Args)-1]})
				}
				continue
			}
			if x.Call.IsInvoke() || x.Call.StaticCallee() != nil || len(x.Call.Args) != 1 {
				if fw.CalleeName(x) == "builtin.append" && len(x.Call.Args) == 2 {
					if sl, isSl := x.Call.Args[0].Type().Underlying().(*types.Slice); isSl && isServerName(sl.Elem()) {
						if p := x.Parent(); p.Parent() != nil && insertsParam(p) {
							continue // the body of a `need` literal
						}
						if elems, ok := fw.VariadicElems(x.Call.Args[1]); ok {
							for _, e := range elems {
								raw = append(raw, insertion{at: x, fr: di.Fr, key: e})
							}
						}
					}
				}
				continue
			}
			if lit := fw.ClosureTarget(x.Call.Value); insertsParam(lit) {
				raw = append(raw, insertion{at: x, fr: di.Fr, key: x.Call.Args[0]})
			}
		}
	}
	// split merged keys into their alternatives
	var ins []insertion
	for _, r := range raw {
		if _, isPhi := r.key.(*ssa.Phi); !isPhi {
			ins = append(ins, r)
			continue
		}
		rows, err := fw.ValueRows(r.at.Parent(), r.key, r.at.Block())
		if err != nil || len(rows) == 0 {
			ins = append(ins, r)
			continue
		}
		base := atomiseFacts(fw.DeepFacts(r.fr, r.at.Block()), rules, ignore)
		for _, vr := range rows {
			if _, isC := vr.Val.(*ssa.Const); isC {
				continue // a zero value: not a server (the insertion is guarded against it or it is harmless)
			}
			// one term per path to the merge: the alternative's own condition is what all its
			// (feasible) paths have in common among the atoms the table knows - the rest are the
			// tests met on the way, which the other paths decide the other way
			var common map[string]bool
			for _, term := range vr.Cond {
				lits := map[string]bool{}
				var atoms []string
				for _, l := range term {
					if a := atomiseFacts([]string{l.String()}, rules, ignore); len(a) == 1 && !strings.HasPrefix(a[0], "OTHER:") {
						lits[l.String()] = true
						atoms = append(atoms, a[0])
					}
				}
				if contradictoryAtoms(append(append([]string{}, base...), atoms...)) {
					continue // asks for X and not X, or for two memberships at once: not a path
				}
				if common == nil {
					common = lits
					continue
				}
				for l := range common {
					if !lits[l] {
						delete(common, l)
					}
				}
			}
			if common == nil {
				continue // no feasible path carries this alternative
			}
			more := []string{}
			for _, l := range fw.SortedKeys(common) {
				more = append(more, l)
			}
			ins = append(ins, insertion{at: r.at, fr: r.fr, key: vr.Val, more: more})
		}
	}
	for _, in := range ins {
		nUpd++
		cls, okOperands := classify2(fw.SigIn(in.fr, in.key))
		facts := append([]string{}, fw.DeepFacts(in.fr, in.at.Block())...)
		// of the alternative's own path condition only the atoms the table knows matter (the
		// rest are the error tests and loop tests met on the way)
		for _, m := range in.more {
			if a := atomiseFacts([]string{m}, rules, ignore); len(a) == 1 && !strings.HasPrefix(a[0], "OTHER:") {
				facts = append(facts, m)
			}
		}
		// a test that the key itself is not empty guards against the zero value, nothing else
		var kept []string
		for _, f := range facts {
			t := strings.TrimPrefix(f, "!")
			// (only for a key that merges several values: the test of the merged variable
			// against "" guards against the branch that assigned nothing)
			if (strings.HasSuffix(t, ` == "")`) && strings.HasPrefix(f, "!") || strings.HasSuffix(t, ` != "")`) && !strings.HasPrefix(f, "!")) && strings.Contains(t, "phi(") && in.more != nil {
				continue
			}
			if strings.Contains(t, "next(range(") || strings.Contains(t, "< builtin.len(") {
				continue // the de-duplication loop of a list-based collection
			}
			kept = append(kept, f)
		}
		atomList := atomiseFacts(kept, rules, ignore)
		// an alternative of a merged key comes with one term per path to the merge: a term that
		// asks for X and not X, or for two different memberships at once, is not a path
		if in.more != nil && contradictoryAtoms(atomList) {
			continue
		}
		atoms := strings.Join(atomList, ",")
		exp, known := want[cls]
		construct := "required signer: " + cls
		pos := c.P.Pos(fw.InstrPos(in.at))
		if !known {
			// a key whose provenance is not recognised: the rule cannot tell what it is
			nOther++
			c.Undecided("1 needed-table", construct, "a server is added to the required-signer set whose provenance matches no row of the specification's table")
			continue
		}
		got[cls] = append(got[cls], atoms)
		if strings.Contains(atoms, "OTHER:") {
			c.Undecided("1 needed-table", construct, "added under a condition the rule does not know: {"+atoms+"}")
			continue
		}
		if !okOperands {
			c.Fail("1 needed-table", construct, pos, "the "+cls+" is computed from "+fw.SigIn(in.fr, in.key)+", not from the event field the specification names")
			continue
		}
		c.Check(sameAtoms(atomList, exp), "1 needed-table", construct, pos, "when {"+atoms+"}", fmt.Sprintf("the %s is required when {%s}; the specification requires it exactly when {%s}", cls, atoms, exp))
	}
	c.Min("1 needed-table insertions", nUpd, 6)
	for cls := range want {
		if len(got[cls]) == 0 {
			if nOther > 0 || nUpd == 0 {
				c.Undecided("1 needed-table", "required signer: "+cls, "not found among the recognised insertions (some insertions were not recognised)")
			} else {
				c.Fail("1 needed-table", "required signer: "+cls, c.P.Pos(fn.Pos()), "the "+cls+" is never added to the required-signer set")
			}
		}
	}

	// 2. request loop (the loop may live in an unexported helper of VerifyEventSignatures;
	// the pseudo-ID mapping check builds its own requests and is analysed separately)
	rule := "2 requests"
	stopMapping := func(f *ssa.Function) bool { return fw.FuncName(f) == "gmsl.validateMXIDMappingSignatures" }
	deep := fw.DeepInstrs(fn, stopMapping)
	for _, f := range []struct{ field, what string }{{"Message", "redacted"}, {"AtTS", "ts"}, {"ServerName", "key"}, {"ValidityCheckingFunc", "validity"}} {
		nst := 0
		for _, di := range deep {
			st, isSt := di.Instr.(*ssa.Store)
			if !isSt {
				continue
			}
			fa, isFA := st.Addr.(*ssa.FieldAddr)
			if !isFA {
				continue
			}
			sty := derefStructOf(fa.X.Type())
			if sty == nil || sty.Field(fa.Field).Name() != f.field || !strings.HasSuffix(fw.Short(strings.TrimPrefix(fa.X.Type().String(), "*")), "VerifyJSONRequest") {
				continue
			}
			nst++
			s := fw.SigIn(di.Fr, st.Val)
			var ok bool
			switch f.what {
			case "redacted":
				ok = fw.DerivesFromIn(st.Val, di.Fr, fw.FlowSpec{IsSource: fw.IsResultOf(redactName, 0), All: true})
			case "ts":
				ok = strings.HasSuffix(s, ".OriginServerTS(param:e)")
			case "key":
				ok = containsAll(s, "next(range(") && strings.HasSuffix(s, "#1")
			case "validity":
				ok = strings.Contains(s, "SignatureValidityCheck") && strings.Contains(s, "closure:")
				if !ok {
					// bound method value
					if mc, isMC := st.Val.(*ssa.MakeClosure); isMC {
						ok = strings.Contains(mc.Fn.Name(), "SignatureValidityCheck")
					}
				}
			}
			// positive evidence of a wrong value; any other unrecognised rendering is not decided
			wrong := false
			switch f.what {
			case "redacted":
				wrong = !ok && (strings.HasSuffix(s, ".JSON(param:e)") || strings.Contains(s, ".JSON(param:e)") && !strings.Contains(s, "RedactEventJSON("))
			case "ts":
				wrong = !ok && !strings.Contains(s, ".OriginServerTS(") && (strings.Contains(s, "time.Now(") || strings.HasPrefix(s, "param:") || !strings.ContainsAny(s, "(*"))
			case "validity":
				wrong = !ok && (strings.Contains(s, "NoStrictValidityCheck") || strings.Contains(s, "StrictValiditySignatureCheck") && !strings.Contains(s, "SignatureValidityCheck("))
			}
			construct := "VerifyJSONRequest." + f.field + " carries the " + map[string]string{"redacted": "redacted event", "ts": "event's origin_server_ts", "key": "required server", "validity": "room version's validity rule"}[f.what]
			switch {
			case ok:
				c.Ok(rule, construct, c.P.Pos(fw.InstrPos(st)), s)
			case wrong:
				c.Fail(rule, construct, c.P.Pos(fw.InstrPos(st)), "unexpected value "+s)
			default:
				c.Undecided(rule, construct, "the value "+s+" was not recognised")
			}
			// unfiltered: inside the range loop over needed, no extra condition
			var extra []string
			facts := fw.DeepFacts(di.Fr, st.Block())
			// `if len(needed) > 0 { for s := range needed {...} }`: a non-emptiness test of the very
			// collection that is ranged over filters nothing
			vacuous := map[string]bool{}
			for _, fact := range facts {
				t := strings.TrimPrefix(fact, "!")
				if !strings.HasPrefix(t, "next(range(") {
					continue
				}
				depth, end := 0, -1
				for i := len("next(range"); i < len(t); i++ {
					if t[i] == '(' {
						depth++
					} else if t[i] == ')' {
						depth--
						if depth == 0 {
							end = i
							break
						}
					}
				}
				if end > 0 {
					y := t[len("next(range("):end]
					for _, v := range []string{"(builtin.len(" + y + ") > 0)", "!(builtin.len(" + y + ") == 0)", "(builtin.len(" + y + ") != 0)", "(builtin.len(" + y + ") >= 1)", "!(builtin.len(" + y + ") < 1)", "!(builtin.len(" + y + ") <= 0)"} {
						vacuous[v] = true
					}
				}
			}
			// (also when the requests are stamped from a template built before that loop)
			for _, b := range st.Parent().Blocks {
				for _, ins := range b.Instrs {
					if rg, isR := ins.(*ssa.Range); isR {
						y := fw.Sig(rg.X)
						for _, v := range []string{"(builtin.len(" + y + ") > 0)", "!(builtin.len(" + y + ") == 0)", "(builtin.len(" + y + ") != 0)", "(builtin.len(" + y + ") >= 1)", "!(builtin.len(" + y + ") < 1)", "!(builtin.len(" + y + ") <= 0)"} {
							vacuous[v] = true
						}
					}
				}
			}
			for _, fact := range facts {
				t := strings.TrimPrefix(fact, "!")
				if containsAll(t, "param:userIDForSender == nil") || strings.HasPrefix(t, "next(range(") || vacuous[fact] {
					continue
				}
				// the machinery of other loop forms: an index loop over a list, a range over an
				// iterator function
				if strings.Contains(t, "phi(-1|") && strings.Contains(t, "< builtin.len(") || strings.Contains(t, "free:jump$") || strings.Contains(t, "*&-") {
					continue
				}
				extra = append(extra, fact)
			}
			c.Check(len(extra) == 0, rule, "every required server gets a verification request", c.P.Pos(fw.InstrPos(st)), "", "the request for a required server is built only under an extra condition: "+strings.Join(extra, ","))
		}
		// no store found: the requests are built where frames do not reach (a generic helper, another package): not decided
		c.Expect(nst == 1, rule, "VerifyJSONRequest."+f.field+" is set once", c.P.Pos(fn.Pos()), "", fmt.Sprintf("%d stores to the field were found in the region of VerifyEventSignatures", nst))
	}
	// 3. success gates
	succ := fw.ErrNilSuccess(fn, fw.ErrIndex(fn), nil)
	c.CheckGate("3 success", fn, "VerifyEventSignatures", fw.GuardCallErrNil("VerifyJSONs err == nil", func(n string) bool { return strings.HasSuffix(n, ".VerifyJSONs") }), succ)
	c.CheckGate("3 success", fn, "VerifyEventSignatures", fw.GuardCallErrNil("GetRoomVersion", fw.NameIs("gmsl.GetRoomVersion")), succ)
	c.CheckGate("3 success", fn, "VerifyEventSignatures", fw.GuardCallErrNil("RedactEventJSON", redactName), succ)
	// the results loop lives where VerifyJSONs is called (VerifyEventSignatures or its helper)
	host := fn
	for _, f := range fw.RegionOf(fn, stopMapping) {
		if len(fw.CallsTo(f, false, func(n string) bool { return strings.HasSuffix(n, ".VerifyJSONs") })) > 0 {
			host = f
		}
	}
	checkAllResults(c, "3 success", host, "VerifyEventSignatures")
	if v := mustFunc(c, "3 success", "validateMXIDMappingSignatures"); v != nil {
		checkAllResults(c, "3 success", v, "validateMXIDMappingSignatures")
		c.CheckGate("3 success", v, "validateMXIDMappingSignatures", fw.GuardCallErrNil("VerifyJSONs err == nil", func(n string) bool { return strings.HasSuffix(n, ".VerifyJSONs") }), fw.ErrNilSuccess(v, fw.ErrIndex(v), fw.IsTail(func(n string) bool { return strings.HasSuffix(n, ".VerifyJSONs") })))
	}

	// 3b. the batch entry point verifies every event of the batch on its own
	if all := mustFunc(c, "3 success", "VerifyAllEventSignatures"); all != nil {
		n := 0
		for _, di := range fw.DeepInstrs(all, func(f *ssa.Function) bool { return f == fn }) {
			call, isCall := di.Instr.(ssa.CallInstruction)
			if !isCall || fw.CalleeName(call) != "gmsl.VerifyEventSignatures" {
				continue
			}
			n++
			var extra []string
			for _, fact := range fw.DeepFacts(di.Fr, call.Block()) {
				t := strings.TrimPrefix(fact, "!")
				if strings.HasPrefix(t, "next(range(") || (strings.Contains(t, "phi(-1|") && strings.Contains(t, " < builtin.len(")) {
					continue // the loop over the batch
				}
				extra = append(extra, fact)
			}
			c.Check(len(extra) == 0, "3 success", "VerifyAllEventSignatures verifies every event of the batch", c.P.Pos(call.Pos()), "", "VerifyEventSignatures runs for an event of the batch only under "+strings.Join(extra, ",")+": another event's verdict can be reused (event IDs of room versions 1-2 are sender-chosen)")
		}
		c.Min("3 success VerifyAllEventSignatures per-event sites", n, 1)
	}

	// 3c. what a nil result of the key ring means (shared with C12.1): a request is marked
	// verified only behind key present, key valid at the time, VerifyJSON nil
	checkUsingKeysRule(c)
	checkSelfVerifier(c)
	checkFetchedOverwrite(c)

	// 4. version columns + wrappers
	checkVersionMatrix(c, "4 version-columns", setOf("signatureValidityCheckFunc", "restrictedJoinServernameFunc", "eventIDFormat"))
	for spec, field := range map[string]string{"(RoomVersionImpl).SignatureValidityCheck": "signatureValidityCheckFunc", "(RoomVersionImpl).RestrictedJoinServername": "restrictedJoinServernameFunc"} {
		if w := mustFunc(c, "4 version-columns", spec); w != nil {
			ok := false
			for _, call := range fw.Calls(w) {
				if fieldOfCallee(call) == field {
					ok = true
				}
			}
			c.Expect(ok, "4 version-columns", spec+" dispatches to "+field, c.P.Pos(w.Pos()), "", "no call of the table field was recognised in the wrapper")
		}
	}
	// the extractor reads the right key and returns the domain of the named user
	if t := loadVersionTable(c, "4 version-columns"); t != nil {
		short := t.cell("8", "restrictedJoinServernameFunc")
		if ex := fnByShortName(c.P, short); ex != nil {
			c.SawFn(short)
			keys, _ := constStringArgs(ex, func(n string) bool { return strings.HasPrefix(n, "github.com/tidwall/gjson.Get") }, 1)
			c.Check(sameSet(keys, setOf("join_authorised_via_users_server")), "4 version-columns", short+" reads content.join_authorised_via_users_server", c.P.Pos(ex.Pos()), "", "reads "+strings.Join(sortedSet(keys), ","))
			okRet := false
			for _, r := range fw.Returns(ex) {
				if s := fw.Sig(r.Results[0]); containsAll(s, "gmsl.SplitID(64,") && strings.HasSuffix(s, "#1") {
					okRet = true
				}
			}
			c.Expect(okRet, "4 version-columns", short+" returns the server part of the user id", c.P.Pos(ex.Pos()), "", "no return of SplitID('@', value)#1 was recognised")
		} else {
			c.Undecided("4 version-columns", "extractor "+short, "not found")
		}
	}
}

// checkAllResults: fn ranges over the results of VerifyJSONs; inside the loop a non-nil
// result.Error leads to a non-nil error return; the success return is reachable only by
// exhausting the loop.
func checkAllResults(c *fw.Ctx, rule string, fn *ssa.Function, name string) {
	construct := name + ": every verification result is inspected"
	var site *ssa.If
	for _, iff := range fw.Ifs(fn) {
		v, _, ok := fw.NilCheck(iff.Cond)
		if !ok {
			continue
		}
		s := fw.Sig(v)
		if containsAll(s, ".VerifyJSONs(", "#0[") && strings.HasSuffix(s, ".Error") {
			site = iff
		}
	}
	if site == nil {
		c.Undecided(rule, construct, "no test of result.Error for the elements of the VerifyJSONs result was recognised in "+fw.FuncName(fn))
		return
	}
	v, trueMeansNil, _ := fw.NilCheck(site.Cond)
	_ = v
	failEdge := fw.IfEdge(site.Block(), !trueMeansNil)
	// the fail edge leads to a return of a non-nil error
	okFail := false
	if len(failEdge.To.Instrs) > 0 {
		if r, isR := failEdge.To.Instrs[len(failEdge.To.Instrs)-1].(*ssa.Return); isR {
			paths := multiErrSuccess(fn, nil)(r, map[*ssa.BasicBlock]bool{failEdge.To: true}, nil)
			okFail = len(paths) == 0
		}
	}
	c.Check(okFail, rule, name+": a failed result fails the whole verification", c.P.Pos(fw.InstrPos(site)), "", "the branch taken for a non-nil result.Error does not return a non-nil error")
	// the index must range over all results: success return reachable only through the loop header's exit edge.
	// Find the loop header: the block with the `i < len(results)` test dominating site.
	var header *ssa.BasicBlock
	for d := site.Block(); d != nil; d = d.Idom() {
		if len(d.Instrs) > 0 {
			if iff, ok := d.Instrs[len(d.Instrs)-1].(*ssa.If); ok && iff != site {
				if s := fw.Sig(iff.Cond); containsAll(s, " < builtin.len(", ".VerifyJSONs(") {
					header = d
					break
				}
			}
		}
	}
	if header == nil {
		c.Undecided(rule, construct, "the result check was not recognised as being inside a loop over all results")
		return
	}
	// remove the header's exit edge: no success return may remain reachable
	removed := map[fw.Edge]bool{{From: header, To: header.Succs[1]}: true}
	reach := fw.Reachable(fn, removed)
	var esc []string
	succ := multiErrSuccess(fn, fw.IsTail(func(n string) bool { return false }))
	for _, r := range fw.Returns(fn) {
		// returns before the loop (error returns) are classified by the success function
		for _, sp := range succ(r, reach, removed) {
			if header.Dominates(sp.Ret.Block()) || reach[sp.Ret.Block()] && header.Dominates(r.Block()) {
				esc = append(esc, c.P.Pos(fw.InstrPos(sp.Ret)))
			}
		}
	}
	// also the loop must start at index 0 and step by one: rangeindex phi(-1|+1)
	hs := fw.Sig(header.Instrs[len(header.Instrs)-1].(*ssa.If).Cond)
	stepOK := strings.Contains(hs, "phi(-1|") && strings.Contains(hs, "+ 1)")
	c.Check(len(esc) == 0 && stepOK, rule, construct, c.P.Pos(fw.InstrPos(site)), "", fmt.Sprintf("a success return is reachable from inside the results loop without exhausting it (%s), or the loop does not visit every index (%v)", strings.Join(esc, ","), stepOK))
}

// multiErrSuccess: success returns of a function that may hand back more than one error-typed
// result (e.g. `(failure, err error)`): a return is a failure exit when any of them is known
// to be non-nil there, not only the last one.
func multiErrSuccess(fn *ssa.Function, tail func(ssa.CallInstruction) bool) fw.SuccessFn {
	base := fw.ErrNilSuccess(fn, fw.ErrIndex(fn), tail)
	ei := fw.ErrIndex(fn)
	errT := types.Universe.Lookup("error").Type()
	return func(r *ssa.Return, reach map[*ssa.BasicBlock]bool, removed map[fw.Edge]bool) []fw.SuccessPath {
		for j, res := range r.Results {
			if j != ei && types.Identical(res.Type(), errT) && fw.KnownNonNil(res, r.Block()) {
				return nil
			}
		}
		return base(r, reach, removed)
	}
}

// contradictoryAtoms: the set holds an atom and its negation, or two values of the membership.
func contradictoryAtoms(atoms []string) bool {
	set := map[string]bool{}
	for _, a := range atoms {
		set[a] = true
	}
	for a := range set {
		if set["!"+a] {
			return true
		}
	}
	return set["JOIN"] && set["INVITE"]
}
