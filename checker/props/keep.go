package props

import (
	"embed"
	"encoding/json"
	"go/scanner"
	"go/token"
	"regexp"
	"strings"
	"sync"

	"gmslverif/fw"
)

// The rule sources are embedded so that the loader can tell which repository functions the
// rules know by name: those are the semantic anchors of the properties and are never expanded
// in the inlined view (fw/inline.go); every other unexported function is implementation detail.

//go:embed *.go
var ruleSources embed.FS

var (
	keepOnce  sync.Once
	keepWords map[string]bool
)

var identRE = regexp.MustCompile(`[A-Za-z_][A-Za-z0-9_]*`)
var qualifiedRE = regexp.MustCompile(`[A-Za-z0-9_)]\.([A-Za-z_][A-Za-z0-9_]*)`)

// KeepName reports whether an identifier occurs anywhere in the rule sources.
func KeepName(name string) bool {
	keepOnce.Do(func() {
		keepWords = map[string]bool{}
		entries, _ := ruleSources.ReadDir(".")
		for _, e := range entries {
			b, err := ruleSources.ReadFile(e.Name())
			if err != nil {
				continue
			}
			// identifiers and the words inside string literals; comments do not name anchors
			fset := token.NewFileSet()
			var sc scanner.Scanner
			sc.Init(fset.AddFile(e.Name(), -1, len(b)), b, nil, 0)
			for {
				_, tok, lit := sc.Scan()
				if tok == token.EOF {
					break
				}
				switch {
				case tok == token.IDENT:
					// identifiers of the checker's own code name nothing in the repository
				case tok == token.STRING && !strings.ContainsAny(lit, " \t"):
					// a name, a dotted path or a signature fragment
					for _, w := range identRE.FindAllString(lit, -1) {
						keepWords[w] = true
					}
				case tok == token.STRING:
					// prose: only qualified names ("gmsl.checkRoomID", "(*eventV3).RoomID(") name functions
					for _, m := range qualifiedRE.FindAllStringSubmatch(lit, -1) {
						keepWords[m[1]] = true
					}
				}
			}
		}
	})
	return keepWords[name]
}

//go:embed refparams.json
var refParamsJSON []byte

func init() {
	m := map[string][][2]string{}
	if err := json.Unmarshal(refParamsJSON, &m); err == nil {
		fw.RefParams = m
	}
}
