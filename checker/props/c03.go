package props

import (
	"fmt"
	"go/types"
	"regexp"
	"strconv"
	"strings"

	"gmslverif/fw"

	"golang.org/x/tools/go/ssa"
)

func init() { register("C03", checkC03) }

func condsOf(b *ssa.BasicBlock) string { return strings.Join(fw.CondStrings(b), " && ") }

func checkC03(c *fw.Ctx) {
	c.Explanation = "C03 (static): the event reference is shown to hash CanonicalJSON of the redacted event minus {signatures, unsigned}, and to encode it with the base64 alphabet selected by the event-ID format (std for format 2, URL-safe for format 3, event_id field for event format 1); the nine event constructors in the version table are compared as siblings (fields initialised, provenance of each field); unsigned editing writes only under the constant prefix `unsigned`; every ProtoEvent field is copied into the builder; Build's stages are ordered hash -> sign -> enforce canonical -> trusted parse -> field checks and event_id is dropped exactly for event format 2; the headered form writes and strips the same two keys; v12 create-event auth handling is computed from the room ID at call time in both AddAuthEvents and AuthEventIDs."
	c.NotDecidedClause("field-for-field equality after re-parse and injectivity of the event ID (value properties)")
	c.NotDecidedClause("that the built JSON passes its own content-hash check (follows from C04.3 sibling agreement)")
	checkReference(c)
	checkCtorSiblings(c)
	checkUnsignedSetters(c)
	checkProtoCopy(c)
	checkBuildOrder(c)
	checkHeadered(c)
	checkV12Auth(c)
	checkDerivedTypePreserved(c)
	// a built event passes its own content-hash check (shared with C04.3)
	checkHashProjection(c)
}

func checkReference(c *fw.Ctx) {
	rule := "1 reference"
	fn := mustFunc(c, rule, "referenceOfEvent")
	if fn == nil {
		return
	}
	got, nonConst := removedKeys(fn)
	if nonConst > 0 || len(got) == 0 {
		c.Undecided(rule, "the reference hash excludes exactly {signatures, unsigned}", fmt.Sprintf("%d removal(s) not resolved to constant names, %d resolved", nonConst, len(got)))
	} else {
		c.Check(sameSet(got, setOf("signatures", "unsigned")), rule, "the reference hash excludes exactly {signatures, unsigned}", c.P.Pos(fn.Pos()), "", "excluded members: "+strings.Join(sortedSet(got), ","))
	}
	// the exclusion is a top-level one: the names do not travel into a recursive descent (a nested
	// member called "unsigned" is part of the event's identity)
	checkTopLevelOnly(c, rule, "referenceOfEvent", fn, setOf("signatures", "unsigned"))
	canonJSON := fw.NameIs("gmsl.CanonicalJSON")
	for _, dc := range deepCallsTo(fn, fw.NameIs("crypto/sha256.Sum256")) {
		use := dc.Call.(ssa.Instruction)
		c.CheckDerives(dc.Call.Common().Args[0], dc.Fr, fw.FlowSpec{IsSource: fw.IsResultOf(canonJSON, 0), All: true, Use: use}, rule, "the reference hash input is CanonicalJSON(...)", c.P.Pos(dc.Call.Pos()), "", "the hashed bytes are not the result of CanonicalJSON")
		for _, cj := range deepCallsTo(fn, canonJSON) {
			c.CheckDerives(cj.Call.Common().Args[0], cj.Fr, fw.FlowSpec{IsSource: fw.IsResultOf(fw.NameIs("encoding/json.Marshal"), 0), All: true, Use: cj.Call.(ssa.Instruction)}, rule, "the canonicalised bytes are json.Marshal(event)", c.P.Pos(cj.Call.Pos()), "", "CanonicalJSON is not applied to the re-marshalled event")
		}
	}
	var fromRed []fw.Tri
	um := deepCallsTo(fn, fw.NameIs("encoding/json.Unmarshal"))
	for _, u := range um {
		fromRed = append(fromRed, fw.Derives3In(u.Call.Common().Args[0], u.Fr, fw.FlowSpec{IsSource: fw.IsResultOf(redactName, 0), All: true, Use: u.Call.(ssa.Instruction)}))
	}
	checkTri(c, triBest(fromRed), rule, "the hashed event is decoded from the redaction of the input", c.P.Pos(fn.Pos()), "", "no json.Unmarshal of RedactEventJSON(eventJSON): the event that is hashed is decoded from something else")
	// the redaction is the one of the room version passed in
	for _, dc := range deepCallsTo(fn, redactName) {
		recv := dc.Call.Common().Value
		if !dc.Call.Common().IsInvoke() && len(dc.Call.Common().Args) > 0 {
			recv = dc.Call.Common().Args[0]
		}
		t := fw.Derives3In(recv, dc.Fr, fw.FlowSpec{All: true, IsSourceIn: func(v ssa.Value, fr *fw.Frame) bool {
			cl, idx := fw.CallOf(v)
			return cl != nil && idx <= 0 && fw.CalleeName(cl) == "gmsl.GetRoomVersion" && isParamDeep(cl.Common().Args[0], fr, fn, 1)
		}})
		checkTri(c, t, rule, "the redaction algorithm is the given room version's", c.P.Pos(dc.Call.Pos()), "", "the redaction is not that of GetRoomVersion(roomVersion): receiver is "+fw.SigIn(dc.Fr, recv))
	}
	// 2. alphabet table
	rule2 := "2 alphabet"
	type row struct{ global, want string }
	rows := []row{{"encoding/base64.RawStdEncoding", "EventIDFormat(…) == 2"}, {"encoding/base64.RawURLEncoding", "EventIDFormat(…) == 3"}}
	deep := fw.DeepInstrs(fn, nil)
	for _, r := range rows {
		found := 0
		for _, di := range deep {
			u, ok := di.Instr.(*ssa.UnOp)
			if !ok {
				continue
			}
			g, ok := u.X.(*ssa.Global)
			if !ok || fw.Short(g.String()) != r.global {
				continue
			}
			found++
			cond, okC := fw.CondAt(di.Fr, u.Block())
			if !okC {
				c.Undecided(rule2, r.global+" selection", "path condition too large")
				continue
			}
			want := map[string]string{"encoding/base64.RawStdEncoding": "2", "encoding/base64.RawURLEncoding": "3"}[r.global]
			// every way of reaching the use must have established eventIDFormat == want and eventFormat == 2
			okAll := len(cond) > 0
			detail := ""
			for _, term := range cond {
				var fmtAtom, evAtom string
				for _, l := range term {
					if !l.Pos {
						continue
					}
					if containsAll(l.Atom, ".EventIDFormat(", " == ") {
						fmtAtom = strings.TrimSuffix(l.Atom[strings.LastIndex(l.Atom, "== ")+3:], ")")
					}
					if containsAll(l.Atom, ".EventFormat(", " == 2)") {
						evAtom = "2"
					}
				}
				if fmtAtom != want || evAtom != "2" {
					okAll = false
					detail = fmt.Sprintf("alphabet %s is used when eventIDFormat == %q (event format %q); the specification prescribes %s", r.global, fmtAtom, evAtom, r.want)
				}
			}
			c.Check(okAll, rule2, r.global+" is selected by "+r.want, c.P.Pos(fw.InstrPos(u)), "", detail)
		}
		c.Expect(found >= 1, rule2, r.global+" is used for event IDs", c.P.Pos(fn.Pos()), "", fmt.Sprintf("%d uses found in the reference routine and its helpers", found))
	}
	// event format 1 reads the event_id member
	okV1 := false
	for _, u := range um {
		s := fw.SigIn(u.Fr, u.Call.Common().Args[0])
		facts := strings.Join(fw.DeepFacts(u.Fr, u.Call.Block()), " && ")
		if strings.Contains(s, `["event_id"]`) && strings.Contains(facts, ".EventFormat(") && strings.Contains(facts, " == 1)") {
			okV1 = true
		}
	}
	c.Expect(okV1, rule2, "event format 1 takes the ID from the event_id member", c.P.Pos(fn.Pos()), "", "no decode of event[\"event_id\"] under eventFormat == 1 was recognised")
	// eventV2.EventID returns the reference's id and caches nothing else
	if e := mustFunc(c, rule2, "(*eventV2).EventID"); e != nil {
		ok := false
		for _, r := range fw.Returns(e) {
			if s := fw.Sig(r.Results[0]); containsAll(s, "gmsl.referenceOfEvent(", "recv.eventV1.eventJSON", "recv.eventV1.roomVersion") {
				ok = true
			}
		}
		c.Expect(ok, rule2, "eventV2.EventID derives the ID from referenceOfEvent(eventJSON, roomVersion)", c.P.Pos(e.Pos()), "", "no return of referenceOfEvent(e.eventJSON, e.roomVersion).EventID was recognised")
	}
}

// checkCtorSiblings: the nine constructors.
func checkCtorSiblings(c *fw.Ctx) {
	rule := "3 constructors"
	n := 0
	for _, col := range []string{"newEventFromUntrustedJSONFunc", "newEventFromTrustedJSONFunc", "newEventFromTrustedJSONWithEventIDFunc"} {
		fns := tableFuncs(c, rule, col)
		for _, short := range fw.SortedKeys(fns) {
			fn := fns[short]
			n++
			untrusted := col == "newEventFromUntrustedJSONFunc"
			withID := col == "newEventFromTrustedJSONWithEventIDFunc"
			// where each cached field must come from (provenance through helpers, three-valued)
			type src struct {
				what string
				spec fw.FlowSpec
			}
			paramIdx := func(name string) int {
				for i, p := range fn.Params {
					if p.Name() == name {
						return i
					}
				}
				return -1
			}
			fromParam := func(name string) src {
				return src{"the " + name + " parameter", fw.FlowSpec{All: true, IsSourceIn: isRootParam(fn, paramIdx(name))}}
			}
			versionOf := src{"Version() of the roomVersion parameter", fw.FlowSpec{All: true, IsSourceIn: func(v ssa.Value, fr *fw.Frame) bool {
				cl, _ := fw.CallOf(v)
				if cl == nil || !strings.HasSuffix(fw.CalleeName(cl), ".Version") {
					return false
				}
				recv := cl.Common().Value
				if !cl.Common().IsInvoke() && len(cl.Common().Args) > 0 {
					recv = cl.Common().Args[0]
				}
				return isParamDeep(recv, fr, fn, paramIdx("roomVersion"))
			}}}
			want := map[string]src{"roomVersion": versionOf}
			if untrusted {
				want["eventJSON"] = src{"CanonicalJSONAssumeValid(...)", fw.FlowSpec{All: true, IsSource: fw.IsResultOf(fw.NameIs("gmsl.CanonicalJSONAssumeValid"), 0)}}
			} else {
				want["eventJSON"] = fromParam("eventJSON")
				want["redacted"] = fromParam("redacted")
			}
			if withID {
				want["EventIDRaw"] = fromParam("eventID")
			}
			for _, field := range fw.SortedKeys(want) {
				var ts []fw.Tri
				var sigs []string
				for _, ds := range deepFieldStores(fn, "eventV1", field) {
					sp := want[field].spec
					sp.Use = ds.St
					ts = append(ts, fw.Derives3In(ds.St.Val, ds.Fr, sp))
					sigs = append(sigs, fw.SigIn(ds.Fr, ds.St.Val))
				}
				checkTri(c, triBest(ts), rule, fmt.Sprintf("%s initialises %s from %s", short, field, want[field].what), c.P.Pos(fn.Pos()), strings.Join(sigs, " | "), fmt.Sprintf("field %s is set from [%s]", field, strings.Join(sigs, " | ")))
			}
			if !withID {
				// no constructor other than WithEventID may preset the cached ID
				stores := deepFieldStores(fn, "eventV1", "EventIDRaw")
				// (a store that sits in a helper shared with the WithEventID constructors, behind an
				// option, is not evidence: only a store in the constructor itself is)
				own := 0
				for _, ds := range stores {
					if ds.Fr == nil {
						own++
					}
				}
				switch {
				case own > 0:
					c.Fail(rule, short+" does not preset the event ID", c.P.Pos(fn.Pos()), "EventIDRaw is written by a constructor that is not given an ID")
				case len(stores) > 0:
					c.Undecided(rule, short+" does not preset the event ID", "EventIDRaw is written in a helper the constructor shares; under which option was not traced")
				default:
					c.Ok(rule, short+" does not preset the event ID", c.P.Pos(fn.Pos()), "")
				}
			}
			// room ID validated
			gate := fw.GuardCond("room ID validated", func(v ssa.Value) (bool, bool) {
				x, trueMeansNil, ok := fw.NilCheck(v)
				if !ok {
					return false, false
				}
				cc, _ := fw.CallOf(fw.Origin(x))
				if cc == nil {
					return false, false
				}
				n := fw.CalleeName(cc)
				if n == "gmsl.checkRoomIDV1" || n == "gmsl.checkRoomID" || n == "gmsl.checkID" {
					return trueMeansNil, true
				}
				return false, false
			})
			c.CheckGate(rule, fn, short, gate, fw.ErrNilSuccess(fn, fw.ErrIndex(fn), fw.IsTail(fw.NameIs("gmsl.CheckFields"))))
			c.CheckGate(rule, fn, short, fw.GuardCallErrNil("json.Unmarshal", fw.NameIs("encoding/json.Unmarshal")), fw.ErrNilSuccess(fn, fw.ErrIndex(fn), fw.IsTail(fw.NameIs("gmsl.CheckFields"))))
		}
	}
	c.Min(rule+" constructors", n, 9)
}

func checkUnsignedSetters(c *fw.Ctx) {
	rule := "4 unsigned-only"
	for _, spec := range []string{"(*eventV1).SetUnsigned", "(*eventV2).SetUnsigned", "(*eventV1).SetUnsignedField"} {
		fn := mustFunc(c, rule, spec)
		if fn == nil {
			continue
		}
		// JSON writes: map updates with constant key "unsigned", sjson.SetBytes with path "unsigned."+x
		for _, b := range fn.Blocks {
			for _, ins := range b.Instrs {
				if mu, ok := ins.(*ssa.MapUpdate); ok {
					k, isC := fw.ConstString(mu.Key)
					c.Check(isC && k == "unsigned", rule, spec+" writes only the unsigned member", c.P.Pos(fw.InstrPos(mu)), "", "a member other than unsigned is written: "+fw.Sig(mu.Key))
				}
			}
		}
		for _, call := range fw.CallsTo(fn, false, func(n string) bool { return strings.HasPrefix(n, "github.com/tidwall/sjson.Set") }) {
			s := fw.Sig(call.Common().Args[1])
			c.Check(strings.HasPrefix(s, `("unsigned." + `) || s == `"unsigned"`, rule, spec+" writes only under the unsigned prefix", c.P.Pos(call.Pos()), s, "sjson path is "+s)
		}
		// struct fields written: only eventJSON and eventFields.Unsigned
		for _, w := range fw.WritesIn(fn) {
			if len(w.Path.Fields) == 0 {
				continue
			}
			last := w.Path.Fields[len(w.Path.Fields)-1].Name()
			owner := fw.FieldOwner(c.P, w.Path.Fields[len(w.Path.Fields)-1])
			if !strings.HasSuffix(owner, "eventV1") && !strings.HasSuffix(owner, "eventFields") && !strings.HasSuffix(owner, "eventV2") {
				continue
			}
			c.Check(last == "eventJSON" || last == "Unsigned", rule, spec+" updates only eventJSON and the cached unsigned", c.P.Pos(fw.InstrPos(w.Instr)), last, "field "+last+" of the event is modified by an unsigned setter")
		}
	}
}

func checkProtoCopy(c *fw.Ctx) {
	rule := "5 proto-copy"
	fn := mustFunc(c, rule, "(RoomVersionImpl).NewEventBuilderFromProtoEvent")
	if fn == nil {
		return
	}
	proto := fw.StructFields(c.P, "", "ProtoEvent")
	copied := map[string]string{}
	for _, b := range fn.Blocks {
		for _, ins := range b.Instrs {
			st, ok := ins.(*ssa.Store)
			if !ok {
				continue
			}
			fa, ok := st.Addr.(*ssa.FieldAddr)
			if !ok {
				continue
			}
			sty := derefStructOf(fa.X.Type())
			if sty == nil || !strings.HasSuffix(fw.Short(fa.X.Type().String()), "EventBuilder") {
				continue
			}
			copied[sty.Field(fa.Field).Name()] = fw.Sig(st.Val)
		}
	}
	n := 0
	for _, name := range fw.SortedKeys(proto) {
		if name == "Version" {
			continue // carried by the builder's version field through NewEventBuilder
		}
		n++
		src, ok := copied[name]
		c.Check(ok && strings.HasSuffix(src, "param:pe."+name), rule, "ProtoEvent."+name+" is copied to the builder", c.P.Pos(fn.Pos()), src, "builder field "+name+" is set from ["+src+"]")
	}
	c.Min(rule+" fields", n, 11)
}

func checkBuildOrder(c *fw.Ctx) {
	rule := "6 build-order"
	fn := mustFunc(c, rule, "(*EventBuilder).Build")
	if fn == nil {
		return
	}
	stages := []struct {
		name  string
		match func(string) bool
	}{
		{"json.Marshal(event)", fw.NameIs("encoding/json.Marshal")},
		{"addContentHashesToEvent", fw.NameIs("gmsl.addContentHashesToEvent")},
		{"signEvent", fw.NameIs("gmsl.signEvent")},
		{"EnforcedCanonicalJSON", fw.NameIs("gmsl.EnforcedCanonicalJSON")},
		{"NewEventFromTrustedJSON", func(n string) bool { return strings.HasSuffix(n, ".NewEventFromTrustedJSON") }},
		{"CheckFields", fw.NameIs("gmsl.CheckFields")},
	}
	succ := fw.ErrNilSuccess(fn, fw.ErrIndex(fn), fw.IsTail(fw.NameIs("gmsl.CheckFields")))
	// stages run from inside one loop (a `for stage := 0; err == nil; stage++ { switch stage {…} }`
	// state machine) are ordered by the values of the loop variable, which the CFG does not show
	looped := 0
	for _, st := range stages[1:5] {
		for _, call := range fw.CallsTo(fn, false, st.match) {
			if blockInLoop(call.Block()) {
				looped++
			}
		}
	}
	if looped >= 2 {
		c.Undecided(rule, "Build: stage order and data flow", fmt.Sprintf("%d stage calls sit inside a loop: their order is decided by the loop variable", looped))
		checkBuildFormats2(c, fn)
		return
	}
	for i, st := range stages {
		c.CheckGate(rule, fn, "(*EventBuilder).Build", fw.GuardCallErrNil(st.name, st.match), succ)
		if i > 0 {
			nl, bad := fw.MustPrecede(fn, fw.IsCallTo(stages[i-1].match), fw.IsCallTo(st.match))
			// a stage that is not called statically in Build (a table of steps, a method value) cannot be ordered here
			if nl == 0 || len(fw.CallsTo(fn, false, stages[i-1].match)) == 0 {
				c.Undecided(rule, "Build: "+stages[i-1].name+" precedes "+st.name, fmt.Sprintf("no static call of %s / %s in Build itself", stages[i-1].name, st.name))
				continue
			}
			c.Check(len(bad) == 0, rule, "Build: "+stages[i-1].name+" precedes "+st.name, c.P.Pos(fn.Pos()), "", fmt.Sprintf("%s can run before %s (sites %d, unordered %d)", st.name, stages[i-1].name, nl, len(bad)))
		}
	}
	// data flows stage to stage
	for i := 1; i < len(stages)-1; i++ {
		for _, call := range fw.CallsTo(fn, false, stages[i].match) {
			args := call.Common().Args
			var src ssa.Value
			for _, a := range args {
				if strings.Contains(a.Type().String(), "[]byte") {
					src = a
					break
				}
			}
			if src == nil {
				continue
			}
			if len(fw.CallsTo(fn, false, stages[i-1].match)) == 0 {
				c.Undecided(rule, "Build: "+stages[i].name+" consumes the output of "+stages[i-1].name, "no static call of "+stages[i-1].name+" in Build itself (the stage runs under another name)")
				continue
			}
			c.CheckDerives(src, nil, fw.FlowSpec{IsSource: fw.IsResultOf(stages[i-1].match, 0), Through: fw.ThroughNames(map[string][]int{"github.com/tidwall/sjson.DeleteBytes": {0}}), All: true}, rule, "Build: "+stages[i].name+" consumes the output of "+stages[i-1].name, c.P.Pos(call.Pos()), "", "its input is "+fw.Sig(src))
		}
	}
	// trusted parse with redacted=false
	for _, call := range fw.CallsTo(fn, false, stages[4].match) {
		args := call.Common().Args
		flag, ok := args[len(args)-1].(*ssa.Const)
		c.Check(ok && flag.Value != nil && flag.Value.String() == "false", rule, "Build parses the built event as not redacted", c.P.Pos(call.Pos()), "", "the built event is parsed with redacted != false")
	}
	checkBuildFormats2(c, fn)
}

// checkBuildFormats2: event_id is deleted exactly under eventFormat == 2; generated only under eventIDFormat == 1.
func checkBuildFormats2(c *fw.Ctx, fn *ssa.Function) {
	rule := "6 build-order"
	n := 0
	for _, call := range fw.CallsTo(fn, false, fw.NameIs("github.com/tidwall/sjson.DeleteBytes")) {
		if s, ok := fw.ConstString(call.Common().Args[1]); !ok || s != "event_id" {
			continue
		}
		n++
		conds := condsOf(call.Block())
		ok := strings.Contains(conds, ".EventFormat(") && eventFormat2Guard(conds) && !strings.Contains(conds, "EventIDFormat(")
		if !ok && blockInLoop(call.Block()) {
			c.Undecided(rule, "Build drops the placeholder event_id exactly for event format 2", "the deletion sits in a loop over build stages; its guard was not read")
			continue
		}
		c.Check(ok, rule, "Build drops the placeholder event_id exactly for event format 2", c.P.Pos(call.Pos()), conds, "event_id is deleted when ["+conds+"]; it must be deleted iff eventFormat == EventFormatV2 (every format-2 version hashes the event without event_id)")
	}
	c.Min(rule+" event_id deletion", n, 1)
	for _, st := range fw.FieldStores(fn, "", "EventID") {
		conds := condsOf(st.Block())
		ok := containsAll(conds, ".EventIDFormat(", " == 1)") || containsAll(conds, "(1 == ", ".EventIDFormat(")
		c.Check(ok, rule, "Build generates an event_id only for ID format 1", c.P.Pos(fw.InstrPos(st)), conds, "event_id is generated when ["+conds+"]")
	}
}

func checkHeadered(c *fw.Ctx) {
	rule := "7 headered"
	keys := setOf("_event_id", "_room_version")
	if fn := mustFunc(c, rule, "NewEventFromHeaderedJSON"); fn != nil {
		del, nonConst := constStringArgs(fn, fw.NameIs("github.com/tidwall/sjson.DeleteBytes"), 1)
		switch {
		case nonConst == 0 && sameSet(del, keys):
			c.Ok(rule, "NewEventFromHeaderedJSON strips exactly {_event_id, _room_version}", c.P.Pos(fn.Pos()), "")
		case nonConst > 0 || len(del) == 0:
			c.Undecided(rule, "NewEventFromHeaderedJSON strips exactly {_event_id, _room_version}", fmt.Sprintf("the stripped names were not all resolved to constants (%d constant, %d not)", len(del), nonConst))
		default:
			c.Fail(rule, "NewEventFromHeaderedJSON strips exactly {_event_id, _room_version}", c.P.Pos(fn.Pos()), "strips "+strings.Join(sortedSet(del), ","))
		}
		construct := "NewEventFromHeaderedJSON passes the embedded id, the stripped body and the redacted flag on"
		calls := fw.CallsTo(fn, false, func(n string) bool { return strings.HasSuffix(n, ".NewEventFromTrustedJSONWithEventID") })
		if len(calls) == 0 {
			c.Undecided(rule, construct, "no call of NewEventFromTrustedJSONWithEventID in NewEventFromHeaderedJSON itself")
		}
		for _, call := range calls {
			args := call.Common().Args
			id, body, red := args[len(args)-3], args[len(args)-2], args[len(args)-1]
			// which header key the id is read from: gjson.GetBytes(_, key) or gjson.GetManyBytes(_, keys...)[i]
			idKey, idKnown := "", false
			ids := fw.Sig(id)
			switch {
			case containsAll(ids, "gjson.GetBytes(param:headeredEventJSON,"):
				for _, k := range []string{"_event_id", "_room_version"} {
					if strings.Contains(ids, `gjson.GetBytes(param:headeredEventJSON,"`+k+`")`) {
						idKey, idKnown = k, true
					}
				}
			case strings.Contains(ids, "gjson.GetManyBytes(param:headeredEventJSON"):
				for _, gm := range fw.CallsTo(fn, false, fw.NameIs("github.com/tidwall/gjson.GetManyBytes")) {
					ks, okK := fw.ConstStringsIn(gm.Common().Args[1], nil)
					if m := regexp.MustCompile(`\)\[(\d+)\]`).FindStringSubmatch(ids); okK && m != nil {
						if n, err := strconv.Atoi(m[1]); err == nil && n < len(ks) {
							idKey, idKnown = ks[n], true
						}
					}
				}
			}
			// (a loop over the keys to strip makes the body a phi of the input and the stripped bytes:
			// one derivation suffices, the set of stripped keys is checked above)
			okBody := fw.DerivesFrom(body, fw.FlowSpec{IsSource: fw.IsResultOf(fw.NameIs("github.com/tidwall/sjson.DeleteBytes"), 0)})
			_, redConst := red.(*ssa.Const)
			switch {
			case idKnown && idKey != "_event_id":
				c.Fail(rule, construct, c.P.Pos(call.Pos()), "the event id handed to the trusted constructor is read from "+idKey)
			case redConst:
				c.Fail(rule, construct, c.P.Pos(call.Pos()), "the redacted flag handed on is a constant, not the caller's")
			case fw.Sig(body) == "param:headeredEventJSON":
				c.Fail(rule, construct, c.P.Pos(call.Pos()), "the body handed on still carries the header keys")
			case idKnown && okBody && fw.Sig(red) == "param:redacted":
				c.Ok(rule, construct, c.P.Pos(call.Pos()), "")
			default:
				c.Undecided(rule, construct, "the arguments ("+ids+", "+fw.Sig(body)+", "+fw.Sig(red)+") were not all recognised")
			}
		}
	}
	if fn := mustFunc(c, rule, "(*eventV1).ToHeaderedJSON"); fn != nil {
		set, nonConst := constStringArgs(fn, func(n string) bool { return strings.HasPrefix(n, "github.com/tidwall/sjson.Set") }, 1)
		if nonConst > 0 || len(set) == 0 {
			c.Undecided(rule, "ToHeaderedJSON writes exactly {_event_id, _room_version}", "the written member names could not be resolved to constants in ToHeaderedJSON (resolved: "+strings.Join(sortedSet(set), ",")+")")
		} else {
			c.Check(sameSet(set, keys), rule, "ToHeaderedJSON writes exactly {_event_id, _room_version}", c.P.Pos(fn.Pos()), "", "writes "+strings.Join(sortedSet(set), ","))
		}
		for _, call := range fw.CallsTo(fn, false, func(n string) bool { return strings.HasPrefix(n, "github.com/tidwall/sjson.Set") }) {
			k, _ := fw.ConstString(call.Common().Args[1])
			v := fw.Sig(call.Common().Args[2])
			switch k {
			case "_event_id":
				c.Check(strings.Contains(v, ".EventID("), rule, "_event_id carries EventID()", c.P.Pos(call.Pos()), v, "value is "+v)
			case "_room_version":
				c.Check(strings.Contains(v, ".Version("), rule, "_room_version carries Version()", c.P.Pos(call.Pos()), v, "value is "+v)
			}
		}
	}
}

// firstElemSig describes the first element of the string slice v: "empty" for a slice that
// is provably empty, the signature of the first element when it is determined structurally
// (array literal, append onto an empty or determined base), "?" otherwise.
func firstElemSig(v ssa.Value, depth int) string {
	if depth > 8 || v == nil {
		return "?"
	}
	switch x := v.(type) {
	case *ssa.Const:
		if x.Value == nil {
			return "empty"
		}
	case *ssa.MakeSlice:
		if n, ok := fw.ConstInt(x.Len); ok && n == 0 {
			return "empty"
		}
	case *ssa.Slice:
		if al, ok := x.X.(*ssa.Alloc); ok && x.Low == nil {
			arr, isArr := al.Type().Underlying().(*types.Pointer).Elem().Underlying().(*types.Array)
			if isArr && arr.Len() == 0 {
				return "empty"
			}
			if elems, ok := fw.VariadicElems(x); ok && len(elems) > 0 {
				return fw.Sig(elems[0])
			}
		}
	case *ssa.Call:
		if fw.CalleeName(x) == "builtin.append" && len(x.Call.Args) == 2 {
			base := firstElemSig(x.Call.Args[0], depth+1)
			if base != "empty" {
				return base
			}
			return firstElemSig(x.Call.Args[1], depth+1)
		}
	case *ssa.Phi:
		out := ""
		for _, e := range x.Edges {
			s := firstElemSig(e, depth+1)
			if out != "" && s != out {
				return "?"
			}
			out = s
		}
		if out != "" {
			return out
		}
	}
	return "?"
}

// createAtoms interprets the two atoms of the "is the create event" test, in whichever
// function or helper they are spelled.
func createAtoms(atom string, a asg) (bool, bool) {
	switch {
	case strings.Contains(atom, ".Type(") && strings.HasSuffix(atom, `== "m.room.create")`):
		return a["createType"] == "true", true
	case strings.Contains(atom, "StateKeyEquals(") && strings.HasSuffix(atom, `,"")`):
		return a["emptyStateKey"] == "true", true
	}
	return false, false
}

func checkV12Auth(c *fw.Ctx) {
	rule := "8 v12-auth"
	boolv := []string{"true", "false"}
	if fn := mustFunc(c, rule, "(*eventV3).AuthEventIDs"); fn != nil {
		want := `("$" + *recv.eventV2.eventV1.eventFields.RoomID[1:])`
		ip := &interp{match: func(atom string, a asg) (bool, bool) {
			if v, ok := createAtoms(atom, a); ok {
				return v, ok
			}
			if x, op, y, ok := parseCmp(atom); ok && strings.HasPrefix(x, "builtin.len(") && strings.Contains(x, "AuthEvents") && y == "0" {
				switch op {
				case ">":
					return a["hasAuth"] == "true", true
				case "==":
					return a["hasAuth"] != "true", true
				}
			}
			// a scan of the event's own auth list (e.g. "is the create event already listed?"):
			// one iteration is described; an element exists iff the list is non-empty
			if x, op, y, ok := parseCmp(atom); ok && op == "<" && strings.Contains(x, "phi(-1|") && strings.HasPrefix(y, "builtin.len(") && strings.Contains(y, "AuthEvents") {
				return a["hasAuth"] == "true", true
			}
			if strings.HasPrefix(atom, "next(range(") && strings.Contains(atom, "AuthEvents") {
				return a["hasAuth"] == "true", true
			}
			if l, r, ok := parseEq(atom); ok && strings.Contains(l+r, "AuthEvents[") && strings.Contains(l+r, `("$" + `) {
				return a["listsCreate"] == "true", true
			}
			if strings.HasPrefix(atom, "slices.Contains(") && strings.Contains(atom, "AuthEvents") && strings.Contains(atom, `("$" + `) {
				return a["listsCreate"] == "true", true
			}
			return false, false
		}}
		compareTable(c, rule, "eventV3.AuthEventIDs: empty for the create event, otherwise the create event id (\"$\"+room_id[1:]) first", fn, 0,
			[]tvar{{"createType", boolv}, {"emptyStateKey", boolv}, {"hasAuth", boolv}, {"listsCreate", boolv}}, ip,
			func(a asg) string {
				if a["listsCreate"] == "true" && a["hasAuth"] != "true" {
					return "" // infeasible
				}
				if a["createType"] == "true" && a["emptyStateKey"] == "true" {
					return "empty"
				}
				return "create-first"
			},
			func(r fw.Row) string {
				switch s := firstElemSig(r.Val, 0); s {
				case "empty":
					return "empty"
				case want:
					return "create-first"
				case "?":
					// the event's own list handed back unchanged is definite; anything else is not understood
					if strings.HasSuffix(fw.Sig(r.Val), ".AuthEvents") {
						return "own-list-unchanged"
					}
					return "unknown"
				default:
					return "first=" + s
				}
			})
	}
	if fn := mustFunc(c, rule, "(*eventV3).RoomID"); fn != nil {
		calls := fw.CallsTo(fn, false, fw.NameIs("gmsl/spec.NewRoomID"))
		c.Expect(len(calls) == 1, rule, "eventV3.RoomID parses one id string", c.P.Pos(fn.Pos()), "", fmt.Sprintf("%d calls of spec.NewRoomID in eventV3.RoomID itself", len(calls)))
		for _, call := range calls {
			rows, err := fw.ValueRows(fn, call.Common().Args[0], call.Block())
			if err != nil {
				c.Undecided(rule, "eventV3.RoomID id string", err.Error())
				continue
			}
			known := func(atom string) bool { _, ok := createAtoms(atom, asg{}); return ok }
			bad := 0
			// conditions the rule does not know are free: the id string must be the prescribed one
			// whichever way they fall
			vars := []tvar{{"createType", boolv}, {"emptyStateKey", boolv}}
			freeName := map[string]string{}
			for _, r := range rows {
				for _, term := range fw.ExpandDNF(r.Cond, known) {
					for _, l := range term {
						if _, ok := createAtoms(l.Atom, asg{}); !ok {
							if _, seen := freeName[l.Atom]; !seen && len(freeName) < 4 {
								freeName[l.Atom] = fmt.Sprintf("free%d", len(freeName)+1)
								vars = append(vars, tvar{freeName[l.Atom], boolv})
							}
						}
					}
				}
			}
			enumerate(vars, func(a asg) {
				want := "*recv.eventV2.eventV1.eventFields.RoomID"
				if a["createType"] == "true" && a["emptyStateKey"] == "true" {
					want = `("!" + (*gmsl.eventV2).EventID(recv.eventV2)[1:])`
				}
				env := func(atom string) (bool, bool) {
					if n, ok := freeName[atom]; ok {
						return a[n] == "true", true
					}
					return createAtoms(atom, a)
				}
				for _, r := range rows {
					unk := map[string]bool{}
					if !evalDNF(fw.ExpandDNF(r.Cond, known), env, unk) {
						if len(unk) > 0 {
							bad++
							c.Undecided(rule, "eventV3.RoomID: unrecognised branch condition", strings.Join(sortedSet(unk), "; "))
						}
						continue
					}
					if got := fw.Sig(r.Val); got != want {
						bad++
						construct := "a v12 create event's room id is \"!\" + event_id[1:], any other event's is its room_id field"
						isField := strings.HasSuffix(got, ".eventFields.RoomID")
						fromID := strings.Contains(got, ".EventID(")
						create := a["createType"] == "true" && a["emptyStateKey"] == "true"
						// positive evidence: the wrong one of the two sources is used
						if (create && isField) || (!create && fromID && !isField) {
							c.Fail(rule, construct, c.P.Pos(call.Pos()), fmt.Sprintf("for [%s] the id string is %s, expected %s", a.String(), got, want))
						} else {
							c.Undecided(rule, construct, fmt.Sprintf("for [%s] the id string is %s, an expression the rule does not know (expected %s)", a.String(), got, want))
						}
					}
				}
			})
			if bad == 0 {
				c.Ok(rule, "a v12 create event's room id is \"!\" + event_id[1:], any other event's is its room_id field", c.P.Pos(call.Pos()), fmt.Sprintf("%d alternatives", len(rows)))
			}
		}
	}
	if fn := mustFunc(c, rule, "(*EventBuilder).AddAuthEvents"); fn != nil {
		c.CheckGate(rule, fn, "(*EventBuilder).AddAuthEvents", fw.GuardCallErrNil("StateNeededForProtoEvent", fw.NameIs("gmsl.StateNeededForProtoEvent")), fw.ErrNilSuccess(fn, fw.ErrIndex(fn), nil))
		c.CheckGate(rule, fn, "(*EventBuilder).AddAuthEvents", fw.GuardCallErrNil("AuthEventReferences", fw.NameIs("(gmsl.StateNeeded).AuthEventReferences")), fw.ErrNilSuccess(fn, fw.ErrIndex(fn), nil))
		// the skipped id is "$"+RoomID[1:], only under DomainlessRoomIDs
		okSkip := false
		for _, iff := range fw.Ifs(fn) {
			s := fw.Sig(iff.Cond)
			if containsAll(s, `("$" + *recv.RoomID[1:])`, " == ") && strings.Contains(condsOf(iff.Block()), ".DomainlessRoomIDs(") {
				okSkip = true
			}
		}
		c.Expect(okSkip, rule, "AddAuthEvents omits exactly \"$\"+room_id[1:] for domainless room ids", c.P.Pos(fn.Pos()), "", "no comparison of a reference with \"$\"+RoomID[1:] under DomainlessRoomIDs() was recognised")
	}
}

// checkDerivedTypePreserved: an event type that embeds another event type and overrides some of
// its accessors (eventV3 over eventV2: RoomID, AuthEventIDs) must also override every method
// of the embedded type that returns a PDU: the embedded type's method builds its result from
// its own type, so the promoted method hands back an event that has lost the overrides (a v12
// event becomes an eventV2: RoomID() of a create event panics, AuthEventIDs() drops the create
// event).
func checkDerivedTypePreserved(c *fw.Ctx) {
	rule := "9 derived-type"
	pkg := c.P.Pkg("")
	pduObj := pkg.Types.Scope().Lookup("PDU")
	if pduObj == nil {
		c.Undecided(rule, "PDU interface", "not found")
		return
	}
	pdu, _ := pduObj.Type().Underlying().(*types.Interface)
	n := 0
	sc := pkg.Types.Scope()
	for _, name := range sc.Names() {
		tn, ok := sc.Lookup(name).(*types.TypeName)
		if !ok {
			continue
		}
		st, ok := tn.Type().Underlying().(*types.Struct)
		if !ok {
			continue
		}
		ptr := types.NewPointer(tn.Type())
		if pdu == nil || !types.Implements(ptr, pdu) {
			continue
		}
		// embedded event types
		for i := 0; i < st.NumFields(); i++ {
			f := st.Field(i)
			if !f.Embedded() {
				continue
			}
			ept := types.NewPointer(f.Type())
			if !types.Implements(ept, pdu) {
				continue
			}
			// does the outer type override anything?
			ms := types.NewMethodSet(ptr)
			overrides := 0
			for k := 0; k < ms.Len(); k++ {
				if len(ms.At(k).Index()) == 1 {
					overrides++
				}
			}
			if overrides == 0 {
				continue
			}
			for k := 0; k < ms.Len(); k++ {
				sel := ms.At(k)
				sig, _ := sel.Type().(*types.Signature)
				if sig == nil {
					continue
				}
				returnsPDU := false
				for r := 0; r < sig.Results().Len(); r++ {
					if types.Identical(sig.Results().At(r).Type(), pduObj.Type()) {
						returnsPDU = true
					}
				}
				if !returnsPDU || pdu == nil {
					continue
				}
				if m, _, _ := types.LookupFieldOrMethod(pduObj.Type(), false, pkg.Types, sel.Obj().Name()); m == nil {
					continue
				}
				n++
				promoted := len(sel.Index()) > 1
				c.Check(!promoted, rule, fmt.Sprintf("%s overrides %s.%s (which returns a PDU)", name, f.Name(), sel.Obj().Name()), c.P.Pos(tn.Pos()), "", fmt.Sprintf("%s.%s is promoted from the embedded %s: the PDU it returns is a %s, so the %s overrides (RoomID, AuthEventIDs, ...) are lost on the result", name, sel.Obj().Name(), f.Name(), f.Name(), name))
			}
		}
	}
	c.Min(rule+" PDU-returning methods of derived event types", n, 2)
}
