package props

import (
	"os"
	"fmt"
	"go/types"
	"strings"

	"gmslverif/fw"

	"golang.org/x/tools/go/ssa"
)

func init() { register("C08", checkC08) }

func isPLC(t types.Type) bool { return fw.Short(t.String()) == "gmsl.PowerLevelContent" }

func plcParams(fn *ssa.Function) int {
	n := 0
	for _, p := range fn.Params {
		if isPLC(p.Type()) {
			n++
		}
	}
	return n
}

// loopOnly: the block's dominating conditions are only loop-iteration atoms.
func loopOnly(b *ssa.BasicBlock) (bool, string) {
	for _, s := range fw.CondStrings(b) {
		t := strings.TrimPrefix(s, "!")
		if strings.HasPrefix(t, "next(range(") || (strings.HasPrefix(t, "((phi(-1|") && strings.Contains(t, "< builtin.len(")) {
			continue
		}
		return false, s
	}
	return true, ""
}

// checkPairValue: inside a pass over the keys of one side's map, the value taken for side
// `side` of the pair is that side's *defaulting* accessor applied to the pass's key, or - when
// the pass is over the same side's own map, where the key is present - the entry itself. A
// direct map access for a key coming from the other side's map yields 0 instead of the default
// for an absent key (removals and additions are then compared against 0).
func checkPairValue(c *fw.Ctx, fn *ssa.Function, st *ssa.Store, side, v string) {
	i := strings.Index(v, "next(range(*&param:")
	if i < 0 {
		return // not a map pass
	}
	rest := v[i+len("next(range(*&param:"):]
	j := strings.Index(rest, "PowerLevels.")
	if j < 0 {
		return
	}
	iterSide := rest[:j]
	k := strings.Index(rest, "))#")
	if k < 0 {
		return
	}
	mapField := rest[j+len("PowerLevels.") : k]
	rng := "next(range(*&param:" + iterSide + "PowerLevels." + mapField + "))"
	construct := fmt.Sprintf("%s: the %s value of a %s pair (pass over the %s entries) honours the default", fw.FuncName(fn), side, mapField, iterSide)
	okAcc := false
	for _, acc := range []string{"UserLevel", "EventLevel", "NotificationLevel"} {
		if strings.HasPrefix(v, "(*gmsl.PowerLevelContent)."+acc+"(&param:"+side+"PowerLevels,"+rng+"#1") {
			okAcc = true
		}
	}
	own := side == iterSide && (v == rng+"#2" || v == "*&param:"+side+"PowerLevels."+mapField+"["+rng+"#1]" || v == "*&param:"+side+"PowerLevels."+mapField+"["+rng+"#1]#0")
	c.Check(okAcc || own, "1 coverage", construct, c.P.Pos(fw.InstrPos(st)), v, "the "+side+" level is taken as "+v+": for a key that is absent on that side this is 0, not the side's default (users_default / events_default / state_default), so removing or adding an entry is compared with the wrong level")
}

// coverage computes which PowerLevelContent fields fn compares old-vs-new.
// scalar field F: a pair whose old side is oldPowerLevels.F and whose new side is newPowerLevels.F;
// map field F: both old.F and new.F are ranged unconditionally, and a pair is formed per key.
func plCoverage(c *fw.Ctx, fn *ssa.Function) (scalars map[string]string, maps map[string]string) {
	scalars, maps = map[string]string{}, map[string]string{}
	oldS, newS := map[string]string{}, map[string]string{} // container sig -> field
	sideOf := func(v string) (side, field string) {
		for _, sd := range []string{"old", "new"} {
			pfx := "*&param:" + sd + "PowerLevels."
			if strings.HasPrefix(v, pfx) && !strings.ContainsAny(strings.TrimPrefix(v, pfx), "[(") {
				return sd, strings.TrimPrefix(v, pfx)
			}
		}
		return "", ""
	}
	for _, f := range fw.FamilyOf(fn) {
		for _, b := range f.Blocks {
			for _, ins := range b.Instrs {
				switch x := ins.(type) {
				case *ssa.Store:
					// a level stored into a small aggregate (levelPair{old,new}, [2]int64{...}): the
					// aggregate pairs the old and the new value of one field
					var cont ssa.Value
					switch ad := x.Addr.(type) {
					case *ssa.FieldAddr:
						cont = ad.X
						if st := derefStructOf(ad.X.Type()); st != nil && st.NumFields() >= 2 {
							if side := st.Field(ad.Field).Name(); side == "old" || side == "new" {
								checkPairValue(c, fn, x, side, fw.Sig(x.Val))
								checkPairSides(c, f, x, side)
							}
						}
					case *ssa.IndexAddr:
						cont = ad.X
					default:
						continue
					}
					v := fw.Sig(x.Val)
					side, fld := sideOf(v)
					if side == "" {
						continue
					}
					if _, isInt := x.Val.Type().Underlying().(*types.Basic); !isInt {
						continue // a map or struct put into a list, not a level
					}
					if ok, why := loopOnly(b); !ok {
						c.Fail("1 coverage", fw.FuncName(fn)+": comparison of "+fld+" is unconditional", c.P.Pos(fw.InstrPos(x)), "the old/new pair for "+fld+" is only formed when "+why)
						continue
					}
					cs := fw.Sig(cont)
					if side == "old" {
						oldS[cs] = fld
					} else {
						newS[cs] = fld
					}
				case ssa.CallInstruction:
					// old.F and new.F handed to one call (a comparison helper or closure)
					args := x.Common().Args
					for i := 0; i+1 < len(args); i++ {
						s1, f1 := sideOf(fw.Sig(args[i]))
						s2, f2 := sideOf(fw.Sig(args[i+1]))
						if s1 == "old" && s2 == "new" {
							if ok, _ := loopOnly(b); ok {
								key := fmt.Sprintf("call@%p#%d", x, i)
								oldS[key], newS[key] = f1, f2
							}
						}
					}
				case *ssa.Range:
					// a pass over one side's map, or over a literal list holding both sides' maps
					cands := []string{fw.Sig(x.X)}
					if os.Getenv("GMSL_DEBUG") != "" {
						fmt.Printf("DEBUG range in %s: %T %s\n", fw.FuncName(fn), x.X, fw.Sig(x.X))
					}
					// a literal list (array or slice, by value or through its address) holding both
					// sides' maps: every origin of the ranged value that names a side counts
					direct := len(cands)
					var collect func(v ssa.Value, depth int)
					collect = func(root ssa.Value, depth int) {
						fw.DerivesFrom(root, fw.FlowSpec{IsSource: func(v ssa.Value) bool {
							if v != x.X {
								if sd, _ := sideOf(fw.Sig(v)); sd != "" {
									cands = append(cands, fw.Sig(v))
								}
							}
							// the map is handed to a closure or an unexported helper as an argument
							if p, isP := v.(*ssa.Parameter); isP && depth < 3 {
								for _, a := range argsOfParam(c, p) {
									if sd, _ := sideOf(fw.Sig(a)); sd != "" {
										cands = append(cands, fw.Sig(a))
									} else {
										collect(a, depth+1)
									}
								}
							}
							return false
						}})
					}
					collect(x.X, 0)
					if len(cands) > direct {
						cands = append(cands, "") // more than one candidate: a list, not a guarded single pass
					}
					for _, s := range cands {
						side, fld := sideOf(s)
						if side == "" {
							continue
						}
						if ok, why := loopOnly(b); !ok && len(cands) == 1 {
							c.Fail("1 coverage", fmt.Sprintf("%s: the %s %s entries are always visited", fw.FuncName(fn), side, fld), c.P.Pos(fw.InstrPos(x)), fmt.Sprintf("the pass over the %s %s map only runs when %s: entries that were removed (or added) escape the comparison", side, fld, why))
							continue
						}
						maps[fld] += side + ";"
					}
				}
			}
		}
	}
	for cont, f := range oldS {
		if newS[cont] == f {
			scalars[f] = "paired"
		} else if newS[cont] != "" {
			c.Fail("1 coverage", fw.FuncName(fn)+": "+f+" is compared with its own new value", c.P.Pos(fn.Pos()), fmt.Sprintf("old %s is paired with new %s", f, newS[cont]))
		}
	}
	return
}

func checkC08(c *fw.Ctx) {
	c.Explanation = "C08 (static): (1) field coverage - every level field of PowerLevelContent (enumerated from the struct type itself) is compared old-vs-new by the functions the power-levels handler reaches for each room version: scalars as an (old.F, new.F) pair, maps by unconditional passes over both the old and the new map; (2) the per-pair rules of the three comparison loops are extracted as decision tables (engine T) and compared with the specification's rules over all orderings; (3) the handler's success is gated on the common checks and the three comparison functions, with the sender's level taken from the current (old) state; (4) the v12 creator exclusion and the integer-only parser are checked structurally; the per-version columns are compared exhaustively."
	c.Exhaustive = true
	c.NotDecidedClause("the 'all sequences of accepted events' reading (an inductive consequence of the single-step rules)")
	c.NotDecidedClause("JSON decoding of levels (levelJSONValue) beyond which parser each version uses")

	handler := mustFunc(c, "3 handler", "(*allowerContext).powerLevelsEventAllowed")
	t := loadVersionTable(c, "1 coverage")
	if handler == nil || t == nil {
		return
	}
	// family: functions with two PowerLevelContent parameters reachable from the handler + column functions
	fam := map[string]*ssa.Function{}
	reach := fw.ReachableFuncs(c.Graph(), []*ssa.Function{handler}, func(f *ssa.Function) bool { return c.P.IsRepoFunc(f) })
	for f := range reach {
		if plcParams(f) >= 2 {
			fam[fw.FuncName(f)] = f
		}
	}
	colFns := map[string]*ssa.Function{}
	for _, ver := range t.versions {
		short := t.cell(ver, "checkPowerLevelEvent")
		if f := fnByShortName(c.P, short); f != nil {
			colFns[short] = f
			fam[short] = f
		}
	}
	cov := map[string][2]map[string]string{}
	for _, name := range fw.SortedKeys(fam) {
		s, m := plCoverage(c, fam[name])
		cov[name] = [2]map[string]string{s, m}
		c.SawFn(name)
	}
	if os.Getenv("GMSL_DEBUG") != "" {
		for _, name := range fw.SortedKeys(fam) {
			fmt.Println("DEBUG cov", name, cov[name][0], cov[name][1])
		}
	}
	c.Min("1 coverage comparison functions", len(fam), 4)
	// callees of a column function inside the family count for it (V3 calls V2)
	closure := func(short string) []string {
		out := []string{short}
		if f := colFns[short]; f != nil {
			for _, call := range fw.Calls(f) {
				if n := fw.CalleeName(call); fam[n] != nil && n != short {
					out = append(out, n)
				}
			}
		}
		return out
	}
	_, st := fw.StructFieldNames(c.P.Pkg(""), "PowerLevelContent")
	always := []string{}
	for name := range fam {
		if colFns[name] == nil {
			isCallee := false
			for col := range colFns {
				for _, x := range closure(col)[1:] {
					if x == name {
						isCallee = true
					}
				}
			}
			if !isCallee || reachDirect(handler, name) {
				always = append(always, name)
			}
		}
	}
	classes := map[string]bool{}
	for _, ver := range t.versions {
		col := t.cell(ver, "checkPowerLevelEvent")
		if classes[col] {
			continue
		}
		classes[col] = true
		fns := append(append([]string{}, always...), closure(col)...)
		for i := 0; i < st.NumFields(); i++ {
			f := st.Field(i)
			name := f.Name()
			construct := fmt.Sprintf("versions using %s: %s is compared old vs new", strings.TrimPrefix(col, "gmsl."), name)
			if _, isMap := f.Type().Underlying().(*types.Map); isMap {
				sides := ""
				for _, fn := range fns {
					sides += cov[fn][1][name]
				}
				need := name != "Notifications" || specNotifications(ver)
				if !need {
					c.Ok("1 coverage", construct, "", "not required before room version 6")
					continue
				}
				if sides == "" {
					c.Undecided("1 coverage", construct, "no pass over the "+name+" maps was recognised")
				} else {
					both := strings.Contains(sides, "old;") && strings.Contains(sides, "new;")
					if !both {
						// a pass over a map the rule could not attribute to one side (the contents are
						// held in fields of a comparison object, the maps are put in a list first, ...)
						// may be the missing one
						unattributed := ""
						for _, fnName := range fns {
							for _, rf := range fw.RegionOf(fam[fnName], nil) {
								for _, b := range rf.Blocks {
									for _, ins := range b.Instrs {
										rg, isR := ins.(*ssa.Range)
										if !isR {
											continue
										}
										if _, isMap := rg.X.Type().Underlying().(*types.Map); !isMap {
											continue
										}
										if s := fw.Sig(rg.X); !strings.HasPrefix(s, "*&param:old") && !strings.HasPrefix(s, "*&param:new") && !strings.HasPrefix(s, "makemap") {
											unattributed = s
										}
									}
								}
							}
						}
						if unattributed != "" {
							c.Undecided("1 coverage", construct, fmt.Sprintf("passes recognised over [%s]; a further pass ranges over %s, which could not be attributed to the old or the new content", sides, unattributed))
							continue
						}
					}
					c.Check(both, "1 coverage", construct, c.P.Pos(f.Pos()), sides, fmt.Sprintf("map %s: passes found over [%s]; both the old and the new entries must be visited (additions, changes and removals)", name, sides))
				}
			} else {
				found := false
				anyPaired := 0
				for _, fn := range fns {
					if cov[fn][0][name] == "paired" {
						found = true
					}
					anyPaired += len(cov[fn][0])
				}
				if !found && anyPaired == 0 {
					// no old/new pairing was recognised at all: the comparison idiom changed
					c.Undecided("1 coverage", construct, "no old/new pairs were recognised in "+strings.Join(fns, ", "))
				} else {
					c.Check(found, "1 coverage", construct, c.P.Pos(f.Pos()), "", fmt.Sprintf("level %s is never compared between the current and the proposed power levels: a sender can raise it above their own level", name))
				}
			}
		}
	}
	checkPairRules(c, fam)
	checkPLHandler(c, handler)
	checkV3AndParsers(c, t)
	checkVersionMatrix(c, "5 version-columns", setOf("checkPowerLevelEvent", "parsePowerLevelsFunc"))
	// the sender's effective level the comparisons start from (shared with C07.8)
	checkLevels(c)
}

func specNotifications(ver string) bool { return !in(ver, "1", "2", "3", "4", "5") }

func reachDirect(handler *ssa.Function, name string) bool {
	for _, call := range fw.Calls(handler) {
		if fw.CalleeName(call) == name {
			return true
		}
	}
	return false
}

// isOldNewEq: the atom compares the old and the new level of a pair (either operand order).
func isOldNewEq(a string) bool {
	return (strings.Contains(a, ".old == ") && strings.HasSuffix(a, ".new)")) || (strings.Contains(a, ".new == ") && strings.HasSuffix(a, ".old)"))
}

// loopHeaderAtoms: the conditions of the loop headers of fn, split into the loops whose body
// compares an old with a new level and the other loops.
func loopHeaderAtoms(fn *ssa.Function) (check, other map[string]bool) {
	check, other = map[string]bool{}, map[string]bool{}
	for _, h := range fn.Blocks {
		if len(h.Instrs) == 0 {
			continue
		}
		iff, ok := h.Instrs[len(h.Instrs)-1].(*ssa.If)
		if !ok {
			continue
		}
		// a loop header: some predecessor is dominated by it
		isHeader := false
		for _, p := range h.Preds {
			if h.Dominates(p) {
				isHeader = true
			}
		}
		if !isHeader {
			continue
		}
		body := map[*ssa.BasicBlock]bool{}
		for _, b := range fn.Blocks {
			if h.Dominates(b) && b != h && fw.Reachable(fn, nil)[b] {
				for _, r := range reachSet(b) {
					if r == h {
						body[b] = true
					}
				}
			}
		}
		compares := false
		for b := range body {
			if len(b.Instrs) == 0 {
				continue
			}
			if i2, ok := b.Instrs[len(b.Instrs)-1].(*ssa.If); ok {
				cv, _ := fw.BoolCond(i2.Cond)
				if isOldNewEq(fw.Sig(cv)) {
					compares = true
				}
			}
		}
		cv, _ := fw.BoolCond(iff.Cond)
		if compares {
			check[fw.Sig(cv)] = true
		} else {
			other[fw.Sig(cv)] = true
		}
	}
	return
}

// reachSet: the blocks reachable from b (b's successors onwards).
func reachSet(b *ssa.BasicBlock) []*ssa.BasicBlock {
	seen := map[*ssa.BasicBlock]bool{}
	var out []*ssa.BasicBlock
	work := append([]*ssa.BasicBlock{}, b.Succs...)
	for len(work) > 0 {
		x := work[len(work)-1]
		work = work[:len(work)-1]
		if seen[x] {
			continue
		}
		seen[x] = true
		out = append(out, x)
		work = append(work, x.Succs...)
	}
	return out
}

// checkPairRules: decision tables of the comparison loops.
func checkPairRules(c *fw.Ctx, fam map[string]*ssa.Function) {
	rule := "2 pair-rules"
	n := 0
	for _, name := range fw.SortedKeys(fam) {
		fn := fam[name]
		tbl, err := fw.ExtractTable(fn, fw.ErrIndex(fn))
		if err != nil {
			c.Undecided(rule, name, err.Error())
			continue
		}
		hasPair := false
		for _, a := range tbl.Atoms() {
			if isOldNewEq(a) {
				hasPair = true
			}
		}
		if !hasPair {
			continue
		}
		n++
		users := strings.Contains(strings.Join(tbl.Atoms(), " "), "PowerLevels.Users")
		senderSig := "param:senderLevel"
		if !strings.Contains(strings.Join(tbl.Atoms(), " "), senderSig) {
			senderSig = "(*gmsl.PowerLevelContent).UserLevel(&param:oldPowerLevels,param:sender)"
		}
		vars := []tvar{{"on", rel3}, {"sn", rel3}, {"so", rel3}}
		if users {
			vars = append(vars, tvar{"self", tf})
		}
		// loop conditions: the table describes one visit of the comparison loop - the loop that
		// contains the old/new comparison has an element, every other loop (the passes that
		// build the list) is over
		inCheck, inOther := loopHeaderAtoms(fn)
		ip := &interp{match: func(atom string, a asg) (bool, bool) {
			switch {
			case inCheck[atom] && !inOther[atom]:
				return true, true
			case inOther[atom] && !inCheck[atom]:
				return false, true
			case isOldNewEq(atom):
				return a["on"] == "=", true
			case strings.HasPrefix(atom, "("+senderSig+" < ") && strings.HasSuffix(atom, ".new)"):
				return a["sn"] == "<", true
			case strings.HasPrefix(atom, "("+senderSig+" < ") && strings.HasSuffix(atom, ".old)"):
				return a["so"] == "<", true
			case strings.HasPrefix(atom, "("+senderSig+" <= ") && strings.HasSuffix(atom, ".old)"):
				return a["so"] != ">", true
			case strings.HasSuffix(atom, "#1 == param:senderID)"):
				return a["self"] == "true", true
			}
			return false, false
		}}
		what := strings.TrimPrefix(name, "gmsl.") + ": per-entry rule"
		compareTable(c, rule, what, fn, fw.ErrIndex(fn), vars, ip, func(a asg) string {
			if a["on"] == "=" {
				return "<no path>" // unchanged levels are always allowed
			}
			if a["sn"] == "<" {
				return "reject" // new level above the sender's
			}
			if users {
				if a["self"] != "true" && a["so"] != ">" {
					return "reject" // another user's level at or above the sender's
				}
				return "<no path>"
			}
			if a["so"] == "<" {
				return "reject" // current level above the sender's
			}
			return "<no path>"
		}, nil)
	}
	c.Min(rule+" comparison loops", n, 3)
}

func checkPLHandler(c *fw.Ctx, fn *ssa.Function) {
	rule := "3 handler"
	succ := fw.ErrNilSuccess(fn, fw.ErrIndex(fn), fw.IsTail(fw.NameIs("gmsl.checkUserLevels")))
	// GetRoomVersion failure returns nil by design? it must not: an unknown version cannot have been parsed
	for _, g := range []fw.Guard{
		fw.GuardCallErrNil("commonChecks", fw.NameIs("(*gmsl.eventAllower).commonChecks")),
		fw.GuardCallErrNil("NewPowerLevelContentFromEvent", fw.NameIs("gmsl.NewPowerLevelContentFromEvent")),
		fw.GuardCallErrNil("checkEventLevels", fw.NameIs("gmsl.checkEventLevels")),
	} {
		c.CheckGate(rule, fn, "powerLevelsEventAllowed", g, succ)
	}
	// the version-specific check and the user-level check gate success, except on the
	// unknown-version edge (unreachable for parsed events: NewPowerLevelContentFromEvent already
	// needs the version)
	// the lookups that produced the room version on which CheckPowerLevelEvent is invoked (whatever
	// routine performs the lookup: GetRoomVersion, a registry object)
	versionLookups := map[ssa.Value]bool{}
	for _, call := range fw.CallsTo(fn, false, fw.NameIs("(gmsl.IRoomVersion).CheckPowerLevelEvent")) {
		if !call.Common().IsInvoke() {
			continue
		}
		if ex, isEx := fw.LoadOrigin(fw.Unwrap(call.Common().Value)).(*ssa.Extract); isEx && ex.Index == 0 {
			versionLookups[ex.Tuple] = true
		}
	}
	succ2 := func(r *ssa.Return, reach map[*ssa.BasicBlock]bool, removed map[fw.Edge]bool) []fw.SuccessPath {
		var out []fw.SuccessPath
		for _, sp := range succ(r, reach, removed) {
			skip := false
			for _, f := range fw.DomConds(sp.Ret.Block()) {
				v, trueMeansNil, ok := fw.NilCheck(f.If.Cond)
				sameLookup := false
				if ok {
					if ex, isEx := fw.LoadOrigin(fw.Unwrap(v)).(*ssa.Extract); isEx && ex.Index == 1 && versionLookups[ex.Tuple] {
						sameLookup = true
					}
				}
				if ok && (sameLookup || strings.HasPrefix(fw.Sig(v), "gmsl.GetRoomVersion((gmsl.PDU).Version(param:event))#1")) {
					// on the edge where the version lookup failed
					onNil := f.If.Block().Succs[0] == sp.Ret.Block() == trueMeansNil
					_ = onNil
					isNilEdge := (sp.Ret.Block() == f.If.Block().Succs[0]) == trueMeansNil
					if !isNilEdge {
						skip = true
					}
				}
			}
			if skip {
				continue
			}
			out = append(out, sp)
		}
		return out
	}
	c.CheckGate(rule, fn, "powerLevelsEventAllowed", fw.GuardCallErrNil("CheckPowerLevelEvent", fw.NameIs("(gmsl.IRoomVersion).CheckPowerLevelEvent")), succ2)
	tails := fw.CallsTo(fn, false, fw.NameIs("gmsl.checkUserLevels"))
	c.Expect(len(tails) == 1, rule, "powerLevelsEventAllowed ends in checkUserLevels", c.P.Pos(fn.Pos()), "", "no single call of checkUserLevels in powerLevelsEventAllowed itself")
	// arguments, by role: each is checked for what it must come from; taking it from the other
	// content (current <-> proposed) is the evidence of a violation, anything else is not decided
	roleOf := map[string][]string{
		"gmsl.checkEventLevels":                     {"level", "current", "proposed"},
		"gmsl.checkUserLevels":                      {"level", "sender", "current", "proposed"},
		"(gmsl.IRoomVersion).CheckPowerLevelEvent": {"sender", "create", "current", "proposed"},
	}
	for _, call := range fw.Calls(fn) {
		roles, ok := roleOf[fw.CalleeName(call)]
		if !ok {
			continue
		}
		args := call.Common().Args
		if call.Common().IsInvoke() {
			// the receiver of an interface call is not among Args
		} else if len(args) == len(roles)+1 {
			args = args[1:]
		}
		if len(args) != len(roles) {
			c.Undecided(rule, strings.TrimPrefix(fw.CalleeName(call), "gmsl.")+" receives its arguments in their roles", "unexpected arity")
			continue
		}
		bad, unk := "", ""
		for i, role := range roles {
			sg := strings.TrimPrefix(fw.Sig(args[i]), "*&")
			proposedSrc := strings.Contains(sg, "NewPowerLevelContentFromEvent(")
			currentSrc := strings.Contains(sg, "recv.powerLevels")
			switch role {
			case "level":
				switch {
				case strings.Contains(sg, "userPowerLevel(") && strings.Contains(sg, ".SenderID(param:event)"):
				case proposedSrc:
					bad = "the sender's level is read from the proposed content (" + sg + ")"
				case strings.Contains(sg, ").UserLevel(") && !strings.Contains(sg, "userPowerLevel("):
					// the raw table entry: no creator privilege (v12), no defaults without a power-levels event
					bad = "the sender's level is read with UserLevel() from the stored content (" + sg + ") instead of through userPowerLevel: privileged creators and rooms without a power-levels event get the wrong level"
				default:
					unk = sg
				}
			case "current":
				switch {
				case currentSrc && !proposedSrc:
				case proposedSrc && !currentSrc:
					bad = "the current levels argument is the proposed content (" + sg + ")"
				default:
					unk = sg // neither, or an aggregate built from both (a change object)
				}
			case "proposed":
				switch {
				case proposedSrc && !currentSrc:
				case currentSrc && !proposedSrc:
					bad = "the proposed levels argument is the current content (" + sg + ")"
				default:
					unk = sg
				}
			case "sender":
				if !strings.Contains(sg, ".SenderID(param:event)") {
					unk = sg
				}
			}
		}
		construct := strings.TrimPrefix(fw.CalleeName(call), "gmsl.") + " receives its arguments in their roles"
		switch {
		case bad != "":
			c.Fail(rule, construct, c.P.Pos(call.Pos()), bad)
		case unk != "":
			c.Undecided(rule, construct, "an argument could not be attributed: "+unk)
		default:
			c.Ok(rule, construct, c.P.Pos(call.Pos()), "")
		}
	}
	if w := mustFunc(c, rule, "(RoomVersionImpl).CheckPowerLevelEvent"); w != nil {
		ok := false
		for _, call := range fw.Calls(w) {
			if fieldOfCallee(call) == "checkPowerLevelEvent" {
				ok = true
			}
		}
		c.Expect(ok, rule, "CheckPowerLevelEvent dispatches to the checkPowerLevelEvent column", c.P.Pos(w.Pos()), "", "no call of the table field was recognised in the wrapper")
	}
}

func checkV3AndParsers(c *fw.Ctx, t *versionTable) {
	rule := "4 creators-integers"
	v3 := fnByShortName(c.P, t.cell("12", "checkPowerLevelEvent"))
	v2 := t.cell("6", "checkPowerLevelEvent")
	if v3 == nil {
		c.Undecided(rule, "v12 power-level check", "not found")
	} else {
		creators := "slices.Contains(builtin.append(local:*[1]string[:],*local:*gmsl.CreateContent.AdditionalCreators),next(range(*&param:newPowerLevels.Users))#1)"
		vars := []tvar{{"base", tf}, {"decodes", tf}, {"more", tf}, {"isCreator", tf}}
		ip := &interp{bools: map[string]string{
			"(" + v2 + "(param:sender,param:createEvent,param:oldPowerLevels,param:newPowerLevels) == nil)":     "base",
			"(encoding/json.Unmarshal((gmsl.PDU).Content(param:createEvent),local:*gmsl.CreateContent) == nil)": "decodes",
			"next(range(*&param:newPowerLevels.Users))#0":                                                       "more",
			creators: "isCreator",
		}, free: func(atom string) bool {
			// the rule does not depend on the current levels: any test of them is an independent input
			return strings.Contains(atom, "param:oldPowerLevels.")
		}}
		compareTable(c, rule, "v12: no entry of the proposed users map may name a creator", v3, fw.ErrIndex(v3), vars, ip, func(a asg) string {
			switch {
			case a["base"] != "true", a["decodes"] != "true":
				return "reject"
			case a["more"] != "true":
				return "accept"
			case a["isCreator"] == "true":
				return "reject"
			}
			return "<no path>" // next entry
		}, nil)
		// the creator list is the create event's sender plus additional_creators
		ok := false
		for _, b := range v3.Blocks {
			for _, ins := range b.Instrs {
				if st, isSt := ins.(*ssa.Store); isSt && fw.Sig(st.Val) == "(gmsl.PDU).SenderID(param:createEvent)" {
					ok = true
				}
			}
		}
		c.Expect(ok, rule, "v12: the creator list starts with the create event's sender", c.P.Pos(v3.Pos()), "", "no store of the create event's sender into the creator list was recognised")
		checkCreatorDomain(c, rule, v3)
	}
	// integer-only parser: a plain json.Unmarshal into the int64 fields
	if p := fnByShortName(c.P, t.cell("10", "parsePowerLevelsFunc")); p != nil {
		c.SawFn(fw.FuncName(p))
		rets := fw.Returns(p)
		ok := len(rets) == 1 && fw.Sig(rets[0].Results[0]) == "encoding/json.Unmarshal(param:contentBytes,param:c)"
		dynamic := false
		if !ok && len(rets) == 1 {
			if cl, _ := fw.CallOf(fw.Unwrap(rets[0].Results[0])); cl != nil && (cl.Common().IsInvoke() || cl.Common().StaticCallee() == nil) {
				dynamic = true // a codec behind an interface or a function variable (a seam): not read here
			}
		}
		if dynamic {
			c.Undecided(rule, "v10+: power levels are decoded strictly into integer fields", "the integer parser decodes through "+fw.Sig(rets[0].Results[0]))
		} else {
			c.Check(ok, rule, "v10+: power levels are decoded strictly into integer fields", c.P.Pos(p.Pos()), "", "the integer parser is not a plain json.Unmarshal into PowerLevelContent")
		}
		_, st := fw.StructFieldNames(c.P.Pkg(""), "PowerLevelContent")
		for i := 0; i < st.NumFields(); i++ {
			ts := st.Field(i).Type().String()
			c.Check(ts == "int64" || ts == "map[string]int64", rule, "PowerLevelContent."+st.Field(i).Name()+" is an integer type", c.P.Pos(st.Field(i).Pos()), ts, "a non-integer level type lets fractional or string levels through the strict parser")
		}
	} else {
		c.Undecided(rule, "integer parser", "not found")
	}
}

// argsOfParam: the arguments bound to parameter p of a closure or unexported function at its
// call sites (static calls, and calls of the closure value inside its parent).
func argsOfParam(c *fw.Ctx, p *ssa.Parameter) []ssa.Value {
	g := p.Parent()
	idx := -1
	for i, q := range g.Params {
		if q == p {
			idx = i
		}
	}
	if idx < 0 || (g.Parent() == nil && g.Object() != nil && g.Object().Exported()) {
		return nil
	}
	var out []ssa.Value
	scan := func(f *ssa.Function) {
		for _, call := range fw.Calls(f) {
			cm := call.Common()
			hit := cm.StaticCallee() == g
			if !hit && cm.Value != nil {
				if mc, ok := fw.Origin(cm.Value).(*ssa.MakeClosure); ok && mc.Fn == g {
					hit = true
				}
			}
			if !hit {
				continue
			}
			// closures have no receiver slot; free variables are not parameters
			if idx < len(cm.Args) {
				out = append(out, cm.Args[idx])
			}
		}
	}
	if par := g.Parent(); par != nil {
		for _, f := range fw.FamilyOf(par) {
			scan(f)
		}
		return out
	}
	for _, f := range c.P.SrcFuncs() {
		scan(f)
	}
	return out
}

// checkCreatorDomain: the entries tested against the creator list are all entries of the
// proposed users map: the tested name is the key of a pass over newPowerLevels.Users itself,
// not an element of a list into which only some of the keys were copied.
func checkCreatorDomain(c *fw.Ctx, rule string, v3 *ssa.Function) {
	construct := "v12: every entry of the proposed users map is tested against the creators"
	verdict, detail, pos := "undecided", "no membership test against the creator list was recognised", ""
	for _, f := range fw.FamilyOf(v3) {
		for _, call := range fw.CallsTo(f, false, func(n string) bool { return strings.HasPrefix(n, "slices.Contains") }) {
			args := call.Common().Args
			if len(args) != 2 || !strings.Contains(fw.Sig(args[0]), "AdditionalCreators") {
				continue
			}
			names := []ssa.Value{args[1]}
			if p, isP := fw.Unwrap(args[1]).(*ssa.Parameter); isP {
				names = argsOfParam(c, p)
			}
			for _, x := range names {
				s := fw.Sig(x)
				switch {
				case strings.HasPrefix(s, "next(range(*&param:newPowerLevels.Users))#"):
					if verdict == "undecided" {
						verdict, detail = "ok", ""
					}
				case strings.Contains(s, "["): // an element of a list
					// how was the list filled?
					filtered := ""
					fw.DerivesFrom(x, fw.FlowSpec{IsSource: func(v ssa.Value) bool {
						if ap, _ := fw.CallOf(v); ap != nil && fw.CalleeName(ap) == "builtin.append" {
							if ok, why := loopOnly(ap.Block()); !ok {
								filtered = why
							} else if d, okD := fw.CondAt(nil, ap.Block()); okD {
								// a join of several guarded paths has no single dominating condition:
								// use the path condition (every term carries a non-loop literal)
								every := len(d) > 0
								why := ""
								for _, term := range d {
									has := false
									for _, l := range term {
										a := l.Atom
										if strings.HasPrefix(a, "next(range(") || (strings.Contains(a, "phi(-1|") && strings.Contains(a, "< builtin.len(")) {
											continue
										}
										has = true
										why = l.String()
									}
									if !has {
										every = false
									}
								}
								if every {
									filtered = why
								}
							}
						}
						return false
					}, Through: fw.ThroughNames(map[string][]int{"builtin.append": {0, 1}})})
					if filtered != "" {
						verdict, detail, pos = "fail", "the names tested against the creators are taken from a list that only receives an entry when "+filtered+": a creator listed in an entry that is skipped is accepted", c.P.Pos(call.Pos())
					}
				}
			}
		}
	}
	switch verdict {
	case "ok":
		c.Ok(rule, construct, c.P.Pos(v3.Pos()), "")
	case "fail":
		c.Fail(rule, construct, pos, detail)
	default:
		c.Undecided(rule, construct, detail)
	}
}

// sideRoots: which of the two power-level contents (old / new) the *value* v is read from.
// Map keys and indices are not followed (a key found on one side is legitimately looked up on
// the other); the defaulting accessors contribute their receiver; repository helpers and
// closures are entered through their returned values. unknown: some part was not traced.
func sideRoots(v ssa.Value, fr *fw.Frame, depth int, seen map[ssa.Value]bool, roots map[string]bool) (unknown bool) {
	if depth > 12 || seen[v] {
		return depth > 12
	}
	seen[v] = true
	rec := func(x ssa.Value) bool { return sideRoots(x, fr, depth+1, seen, roots) }
	switch x := v.(type) {
	case *ssa.Const:
		return false
	case *ssa.Parameter:
		if a, ok := fr.ArgOf(x); ok {
			return sideRoots(a, fr.Parent, depth+1, seen, roots)
		}
		s := fw.Sig(x)
		switch {
		case isPLC(derefType(x.Type())) && strings.HasPrefix(s, "param:old"):
			roots["old"] = true
		case isPLC(derefType(x.Type())) && strings.HasPrefix(s, "param:new"):
			roots["new"] = true
		default:
			return true
		}
		return false
	case *ssa.FreeVar:
		fn := x.Parent()
		idx := -1
		for i, fv := range fn.FreeVars {
			if fv == x {
				idx = i
			}
		}
		if fn.Parent() == nil || idx < 0 {
			return true
		}
		for _, b := range fn.Parent().Blocks {
			for _, ins := range b.Instrs {
				if mc, ok := ins.(*ssa.MakeClosure); ok && mc.Fn == ssa.Value(fn) && idx < len(mc.Bindings) {
					// the closure is entered in the frame of its call; its bindings live in the parent
					var pf *fw.Frame
					if fr != nil {
						pf = fr.Parent
					}
					return sideRoots(mc.Bindings[idx], pf, depth+1, seen, roots)
				}
			}
		}
		return true
	case *ssa.Alloc:
		un := false
		n := 0
		for _, ref := range *x.Referrers() {
			if st, ok := ref.(*ssa.Store); ok && st.Addr == ssa.Value(x) {
				n++
				un = rec(st.Val) || un
			}
		}
		return un || n == 0
	case *ssa.UnOp:
		return rec(x.X)
	case *ssa.FieldAddr:
		return rec(x.X)
	case *ssa.Field:
		return rec(x.X)
	case *ssa.IndexAddr:
		return rec(x.X)
	case *ssa.Index:
		return rec(x.X)
	case *ssa.Lookup:
		return rec(x.X)
	case *ssa.Extract:
		return rec(x.Tuple)
	case *ssa.Next:
		return rec(x.Iter)
	case *ssa.Range:
		return rec(x.X)
	case *ssa.Convert:
		return rec(x.X)
	case *ssa.ChangeType:
		return rec(x.X)
	case *ssa.Phi:
		un := false
		for _, e := range x.Edges {
			un = rec(e) || un
		}
		return un
	case *ssa.BinOp:
		return rec(x.X) || rec(x.Y)
	case *ssa.Call:
		name := fw.CalleeName(x)
		if strings.HasPrefix(name, "(*gmsl.PowerLevelContent).") || strings.HasPrefix(name, "(gmsl.PowerLevelContent).") {
			if len(x.Call.Args) > 0 {
				return rec(x.Call.Args[0])
			}
			return true
		}
		callee := fw.Followable(x, fr)
		if callee == nil {
			return true
		}
		nf := &fw.Frame{Site: x, Callee: callee, Parent: fr}
		un := false
		for _, r := range fw.Returns(callee) {
			if len(r.Results) == 0 {
				return true
			}
			un = sideRoots(r.Results[0], nf, depth+1, seen, roots) || un
		}
		return un
	}
	return true
}

func derefType(t types.Type) types.Type {
	if p, ok := t.Underlying().(*types.Pointer); ok {
		return p.Elem()
	}
	return t
}

// checkPairSides: the old member of an old/new pair is read from the old content only, the new
// member from the new content only (a default taken from the wrong event compares a removed or
// added entry with the wrong level).
func checkPairSides(c *fw.Ctx, fn *ssa.Function, st *ssa.Store, side string) {
	roots := map[string]bool{}
	unknown := sideRoots(st.Val, nil, 0, map[ssa.Value]bool{}, roots)
	other := map[string]string{"old": "new", "new": "old"}[side]
	construct := fmt.Sprintf("%s: the %s level of a pair is read from the %s content only", fw.FuncName(fn), side, side)
	switch {
	case roots[other]:
		c.Fail("1 coverage", construct, c.P.Pos(fw.InstrPos(st)), fmt.Sprintf("the %s level is (also) computed from the %s power levels (%s): an entry that is absent on the %s side is compared with the other event's default", side, other, fw.Sig(st.Val), side))
	case unknown || !roots[side]:
		c.Undecided("1 coverage", construct, "the origin of "+fw.Sig(st.Val)+" was not traced completely")
	default:
		c.Ok("1 coverage", construct, c.P.Pos(fw.InstrPos(st)), "")
	}
}
