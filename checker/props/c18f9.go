package props

import (
	"go/token"
	"go/types"
	"regexp"
	"strings"

	"golang.org/x/tools/go/ssa"

	"gmslverif/fw"
)

// checkF9: a write m[k] = v panics when m is nil. Rule: every MapUpdate whose map operand
// is read from a *place that can hold nil by construction* - a field of a struct the function
// itself fills with json.Unmarshal ("field": null leaves nil), or the element of another map
// fetched with a plain / comma-ok lookup (an absent key, or a key mapped to null, yields
// nil) - is preceded on every path by evidence that the place is non-nil:
//
//	(a) a nil test of the same place taken on its non-nil edge,
//	(b) a store of a freshly made map into the same place,
//	(c) comma-ok presence of the key when the outer map is local and only ever receives
//	    freshly made maps,
//	(d) an exact equality on the path tying the key to the value the place was created with
//	    (readHTTPRequest: all X-Matrix headers carry the same origin).
//
// Maps handed in by the caller (parameters, receiver fields, results of calls) are not places
// of this kind: nothing in the function says they can be nil, and they are not judged.
func checkF9(c *fw.Ctx) {
	rule := "F9 nil-map-write"
	n, judged := 0, 0
	for _, fn := range c.P.SrcFuncs() {
		for _, b := range fn.Blocks {
			for i, ins := range b.Instrs {
				mu, ok := ins.(*ssa.MapUpdate)
				if !ok {
					continue
				}
				if _, isMap := mu.Map.Type().Underlying().(*types.Map); !isMap {
					continue
				}
				n++
				pl := placeOf(fn, mu.Map)
				if pl.kind == "" {
					continue // fresh map, caller-provided map, ...: not a nil-capable place
				}
				judged++
				construct := fw.FuncName(fn) + ": map written through " + pl.short() + " is non-nil"
				pos := c.P.Pos(fw.InstrPos(mu))
				why, okp := nonNilOnAllPaths(fn, b, i, pl)
				switch {
				case okp:
					c.Ok(rule, construct, pos, why)
				case pl.kind == "lookup" && keyTiedByEquality(fn, mu, pl):
					c.Ok(rule, construct, pos, "every path to the write passes an exact equality between the key and the value stored when the entry was created (or that value is still empty and the entry is being created)")
				default:
					c.Fail(rule, construct, pos, "the map written here is read from "+pl.why+" and at least one path reaches the write without a nil test of it or a fresh map stored into it: remote data that leaves it nil makes the write panic (assignment to entry in nil map)")
				}
			}
		}
	}
	c.Count("map writes inspected", n)
	c.Min(rule+" nil-capable places", judged, 3)
}

type mapPlace struct {
	kind  string // "field" (load of an address) | "lookup"
	sig   string
	why   string
	addr  ssa.Value   // field: the address loaded
	look  *ssa.Lookup // lookup
	outer ssa.Value
}

// placeOf classifies the origin of a map operand.
func placeOf(fn *ssa.Function, m ssa.Value) mapPlace {
	v := m
	for {
		switch x := v.(type) {
		case *ssa.ChangeType:
			v = x.X
			continue
		case *ssa.Extract:
			if lk, ok := x.Tuple.(*ssa.Lookup); ok && x.Index == 0 {
				return mapPlace{kind: "lookup", sig: lookupSig(lk), why: "the element of another map (" + lookupSig(lk) + "): nil when the key is absent or mapped to null", look: lk, outer: lk.X}
			}
		case *ssa.Lookup:
			if _, isMap := x.X.Type().Underlying().(*types.Map); isMap {
				return mapPlace{kind: "lookup", sig: lookupSig(x), why: "the element of another map (" + lookupSig(x) + "): nil when the key is absent or mapped to null", look: x, outer: x.X}
			}
		case *ssa.UnOp:
			if x.Op == token.MUL {
				if root := unmarshalledRoot(fn, x.X); root != "" {
					return mapPlace{kind: "field", sig: fw.Sig(x), why: "a field of " + root + ", which this function fills with an Unmarshal call (\"field\": null leaves the map nil)", addr: x.X}
				}
			}
		}
		return mapPlace{}
	}
}

var lastIdent = regexp.MustCompile(`[A-Za-z_][A-Za-z0-9_]*$`)

// short is the position-free, stable name of the place used in obligation keys.
func (pl mapPlace) short() string {
	if pl.kind == "lookup" {
		return lastIdent.FindString(fw.Sig(pl.look.X)) + "[key]"
	}
	return lastIdent.FindString(pl.sig)
}

func lookupSig(lk *ssa.Lookup) string { return fw.Sig(lk.X) + "[" + fw.Sig(lk.Index) + "]" }

// unmarshalledRoot: addr is (a field path of) a local variable whose address is passed to a
// json Unmarshal / Decode call in fn. Returns the variable's name.
func unmarshalledRoot(fn *ssa.Function, addr ssa.Value) string {
	root := addr
	for {
		switch x := root.(type) {
		case *ssa.FieldAddr:
			root = x.X
			continue
		case *ssa.IndexAddr:
			root = x.X
			continue
		}
		break
	}
	al, ok := root.(*ssa.Alloc)
	if !ok || root == addr {
		return ""
	}
	for _, ref := range *al.Referrers() {
		var call ssa.CallInstruction
		switch r := ref.(type) {
		case *ssa.MakeInterface:
			for _, rr := range *r.Referrers() {
				if cc, isCall := rr.(ssa.CallInstruction); isCall {
					call = cc
				}
			}
		case ssa.CallInstruction:
			call = r
		}
		if call == nil {
			continue
		}
		name := fw.CalleeName(call)
		if strings.HasSuffix(name, ".Unmarshal") || strings.HasSuffix(name, ".Decode") || strings.HasSuffix(name, ".UnmarshalJSON") {
			if al.Comment != "" {
				return al.Comment
			}
			return "a local value"
		}
	}
	return ""
}

func isFreshMap(v ssa.Value) bool {
	switch x := v.(type) {
	case *ssa.MakeMap:
		return true
	case *ssa.ChangeType:
		return isFreshMap(x.X)
	case *ssa.Phi:
		for _, e := range x.Edges {
			if !isFreshMap(e) {
				return false
			}
		}
		return len(x.Edges) > 0
	}
	return false
}

// establishes: does instruction ins make the place non-nil?  kills: may it make it nil again?
func (pl mapPlace) establishes(ins ssa.Instruction) bool {
	switch x := ins.(type) {
	case *ssa.Store:
		return pl.kind == "field" && fw.Sig(x.Addr) == fw.Sig(pl.addr) && isFreshMap(x.Val)
	case *ssa.MapUpdate:
		return pl.kind == "lookup" && fw.Sig(x.Map) == fw.Sig(pl.look.X) && fw.Sig(x.Key) == fw.Sig(pl.look.Index) && isFreshMap(x.Value)
	}
	return false
}

// edgeEstablishes: taking edge from->to decides a test that shows the place non-nil.
func (pl mapPlace) edgeEstablishes(fn *ssa.Function, from, to *ssa.BasicBlock) (string, bool) {
	iff, ok := fw.LastIf(from)
	if !ok || len(from.Succs) != 2 || from.Succs[0] == from.Succs[1] {
		return "", false
	}
	taken := from.Succs[0] == to
	if cv, trueMeansNil, isNil := fw.NilCheck(iff.Cond); isNil {
		if placeSigOf(cv) == pl.sig && taken != trueMeansNil {
			return "nil test of the place", true
		}
		return "", false
	}
	// comma-ok presence
	bv, neg := fw.BoolCond(iff.Cond)
	if ex, isEx := bv.(*ssa.Extract); isEx && ex.Index == 1 && pl.kind == "lookup" {
		if lk, isLk := ex.Tuple.(*ssa.Lookup); isLk && lookupSig(lk) == pl.sig && taken != neg {
			if onlyFreshValues(fn, lk.X) {
				return "comma-ok presence in a local map that only ever receives freshly made maps", true
			}
		}
	}
	return "", false
}

func placeSigOf(v ssa.Value) string {
	for {
		switch x := v.(type) {
		case *ssa.ChangeType:
			v = x.X
			continue
		case *ssa.Extract:
			if lk, ok := x.Tuple.(*ssa.Lookup); ok && x.Index == 0 {
				return lookupSig(lk)
			}
		case *ssa.Lookup:
			return lookupSig(x)
		}
		return fw.Sig(v)
	}
}

// onlyFreshValues: outer is a map made in fn (or in the function enclosing the closure fn)
// and every write into it, there and in its closures, stores a freshly made map.
func onlyFreshValues(fn *ssa.Function, outer ssa.Value) bool {
	var cell ssa.Value // the Alloc (or the MakeMap itself) shared by all users
	o := outer
	if u, ok := o.(*ssa.UnOp); ok && u.Op == token.MUL {
		o = u.X
	}
	switch x := o.(type) {
	case *ssa.MakeMap:
		cell = x
	case *ssa.Alloc:
		cell = x
	case *ssa.FreeVar:
		par := fn.Parent()
		if par == nil {
			return false
		}
		for _, b := range par.Blocks {
			for _, ins := range b.Instrs {
				mc, ok := ins.(*ssa.MakeClosure)
				if !ok || mc.Fn != fn {
					continue
				}
				for i, fv := range fn.FreeVars {
					if fv == x && i < len(mc.Bindings) {
						cell = mc.Bindings[i]
					}
				}
			}
		}
		fn = par
	}
	if cell == nil {
		return false
	}
	home := fn
	if al, ok := cell.(*ssa.Alloc); ok {
		// the cell must only be initialised with fresh maps
		for _, ref := range *al.Referrers() {
			if st, isSt := ref.(*ssa.Store); isSt && st.Addr == al && !isFreshMap(st.Val) {
				return false
			}
		}
	}
	okAll, seen := true, 0
	var scan func(f *ssa.Function)
	scan = func(f *ssa.Function) {
		for _, b := range f.Blocks {
			for _, ins := range b.Instrs {
				mu, ok := ins.(*ssa.MapUpdate)
				if !ok {
					continue
				}
				if !types.Identical(mu.Map.Type(), outer.Type()) {
					continue
				}
				seen++
				if !isFreshMap(mu.Value) {
					okAll = false
				}
			}
		}
		for _, an := range f.AnonFuncs {
			scan(an)
		}
	}
	scan(home)
	return okAll && seen > 0
}

// nonNilOnAllPaths walks backwards from instruction idx of block b: every path from the
// function entry must meet an establishing instruction or edge.
func nonNilOnAllPaths(fn *ssa.Function, b *ssa.BasicBlock, idx int, pl mapPlace) (string, bool) {
	why := ""
	note := func(s string) {
		if why == "" {
			why = s
		} else if !strings.Contains(why, s) {
			why += "; " + s
		}
	}
	// the place value itself must not be computed before the evidence is destroyed: a load
	// or lookup evaluated before the establishing store is a different (stale) value - SSA
	// makes that explicit: the operand is an instruction, and evidence must precede it.
	seen := map[*ssa.BasicBlock]bool{}
	var walk func(blk *ssa.BasicBlock, from int) bool
	walk = func(blk *ssa.BasicBlock, from int) bool {
		for j := from; j >= 0; j-- {
			if pl.establishes(blk.Instrs[j]) {
				note("a freshly made map is stored into the place")
				return true
			}
		}
		if len(blk.Preds) == 0 {
			return false
		}
		for _, p := range blk.Preds {
			if s, ok := pl.edgeEstablishes(fn, p, blk); ok {
				note(s)
				continue
			}
			if seen[p] {
				continue
			}
			seen[p] = true
			if !walk(p, len(p.Instrs)-1) {
				return false
			}
		}
		return true
	}
	ok := walk(b, idx-1)
	return why, ok
}

// keyTiedByEquality implements evidence (d) with the decision-table engine: in the DNF of
// the conditions under which the write is reached, at least one term contains an exact
// equality between the key and some value X, and every other term contains X == "" (nothing
// has been recorded yet) - and X is assigned the key in the same function.
func keyTiedByEquality(fn *ssa.Function, mu *ssa.MapUpdate, pl mapPlace) bool {
	key := fw.Sig(pl.look.Index)
	terms, okC := fw.CondAt(nil, mu.Block())
	if !okC || len(terms) == 0 {
		return false
	}
	tied := ""
	for _, t := range terms {
		for _, l := range t {
			a := l.Atom
			if !strings.HasPrefix(a, "(") || !strings.HasSuffix(a, ")") {
				continue
			}
			inner := a[1 : len(a)-1]
			for _, op := range []string{" == ", " != "} {
				k := strings.Index(inner, op)
				if k < 0 {
					continue
				}
				lhs, rhs := inner[:k], inner[k+len(op):]
				eq := (op == " == ") == l.Pos
				if !eq {
					continue
				}
				switch key {
				case lhs:
					tied = rhs
				case rhs:
					tied = lhs
				}
			}
		}
	}
	if tied == "" {
		return false
	}
	for _, t := range terms {
		ok := false
		for _, l := range t {
			a := l.Atom
			for _, form := range []struct {
				s   string
				pos bool
			}{{"(" + tied + " == " + key + ")", true}, {"(" + key + " == " + tied + ")", true}, {"(" + tied + " != " + key + ")", false}, {"(" + key + " != " + tied + ")", false}, {"(" + tied + " == \"\")", true}, {"(" + tied + " != \"\")", false}} {
				if a == form.s && l.Pos == form.pos {
					ok = true
				}
			}
		}
		if !ok {
			return false
		}
	}
	// X is assigned the key in this function
	for _, b := range fn.Blocks {
		for _, ins := range b.Instrs {
			if st, isSt := ins.(*ssa.Store); isSt && "*"+fw.Sig(st.Addr) == tied && fw.Sig(st.Val) == key {
				return true
			}
		}
	}
	return false
}

// checkF10: json.Unmarshal(b, &p) with p a pointer variable sets p to nil for the document
// `null` (which is valid, canonical JSON) and reports no error. Every later dereference of p
// (field access, method call through it) must be dominated by a nil test - or the decoder must
// be handed p itself, which decodes into the object p points to and leaves p alone.
func checkF10(c *fw.Ctx) {
	rule := "F10 null-into-pointer"
	n := 0
	for _, fn := range c.P.SrcFuncs() {
		for _, call := range fw.Calls(fn) {
			name := fw.CalleeName(call)
			if name != "encoding/json.Unmarshal" && !strings.HasSuffix(name, "json.Decoder).Decode") {
				continue
			}
			args := call.Common().Args
			target := args[len(args)-1]
			if mi, ok := target.(*ssa.MakeInterface); ok {
				target = mi.X
			}
			al, ok := target.(*ssa.Alloc)
			if !ok {
				continue
			}
			pp, ok := al.Type().Underlying().(*types.Pointer)
			if !ok {
				continue
			}
			if _, inner := pp.Elem().Underlying().(*types.Pointer); !inner {
				continue // the address of a struct, map or slice: null leaves / zeroes a value, no pointer to lose
			}
			n++
			construct := fw.FuncName(fn) + ": a pointer filled by the JSON decoder is tested before it is dereferenced"
			bad := ""
			for _, ref := range *al.Referrers() {
				ld, isLoad := ref.(*ssa.UnOp)
				if !isLoad || ld.Op != token.MUL || !reachesFrom(call, ld) {
					continue
				}
				for _, use := range *ld.Referrers() {
					deref := false
					switch u := use.(type) {
					case *ssa.FieldAddr:
						deref = u.X == ssa.Value(ld)
					case *ssa.UnOp:
						deref = u.Op == token.MUL && u.X == ssa.Value(ld)
					}
					if deref && !fw.KnownNonNil(ld, use.Block()) {
						bad = c.P.Pos(fw.InstrPos(use))
					}
				}
			}
			if bad != "" {
				c.Fail(rule, construct, c.P.Pos(call.Pos()), "the decoder is given the address of the pointer variable "+al.Comment+": the document `null` sets it to nil without an error, and it is dereferenced at "+bad+" without a nil test (nil pointer dereference on remote input)")
			} else {
				c.Ok(rule, construct, c.P.Pos(call.Pos()), "")
			}
		}
	}
	c.Count("decoder calls into pointer variables", n)
}

// reachesFrom: instruction b can execute after instruction a (same block later, or a reachable block).
func reachesFrom(a, b ssa.Instruction) bool {
	if a.Block() == b.Block() {
		ia, ib := -1, -1
		for i, x := range a.Block().Instrs {
			if x == a {
				ia = i
			}
			if x == b {
				ib = i
			}
		}
		if ib > ia {
			return true
		}
	}
	for _, s := range a.Block().Succs {
		if fw.ReachableFrom(s, nil)[b.Block()] {
			return true
		}
	}
	return false
}
