package props

import (
	"fmt"
	"go/token"
	"go/types"
	"strings"

	"gmslverif/fw"

	"golang.org/x/tools/go/ssa"
)

// c20FailingCaveat (rule 7): a caveat of a known class that does not hold must refuse the
// token. Anyone holding a token can append first-party caveats without the key (that is how
// macaroons attenuate), so a verifier that merely fails to *record* a caveat that does not hold
// lets the holder of an expired token append "time < <far future>" and validate again, or
// append "user_id = <other>" and validate as somebody else.
//
// Decided structurally on the tests of the two value-carrying classes (the expiry test and the
// comparison of the user id): on the edge where the test fails, either no accepting return is
// reachable, or the failure leaves a trace in the verifier's state. Positive evidence of a
// violation: the failing edge reaches an accepting return and rejoins the passing path with the
// loop-carried state unchanged and without any store or call - the failed caveat is forgotten.
func c20FailingCaveat(c *fw.Ctx) {
	rule := "7 failing-caveat"
	fn := mustFunc(c, rule, "tokens.verifyCaveats")
	if fn == nil {
		return
	}
	errIdx := fw.ErrIndex(fn)
	accepting := map[*ssa.BasicBlock]bool{}
	for _, r := range fw.Returns(fn) {
		if errIdx >= 0 && errIdx < len(r.Results) {
			if cst, ok := fw.LoadOrigin(r.Results[errIdx]).(*ssa.Const); ok && cst.IsNil() {
				accepting[r.Block()] = true
			}
			if _, isPhi := fw.LoadOrigin(r.Results[errIdx]).(*ssa.Phi); isPhi {
				accepting[r.Block()] = true // may be nil
			}
		}
	}
	n := 0
	for _, iff := range fw.Ifs(fn) {
		cv, neg := fw.BoolCond(iff.Cond)
		class := ""
		holdsWhenTrue := true
		if call, _ := fw.CallOf(cv); call != nil && strings.HasSuffix(fw.CalleeName(call), "tokens.verifyExpiry") {
			class = "expiry"
		} else if bo, ok := cv.(*ssa.BinOp); ok && (bo.Op == token.EQL || bo.Op == token.NEQ) {
			s := fw.Sig(bo)
			if strings.Contains(s, "param:userID") && (strings.Contains(s, "param:caveats") || strings.Contains(s, "range(")) {
				class = "user"
				holdsWhenTrue = bo.Op == token.EQL
			}
		}
		if class == "" {
			continue
		}
		if neg {
			holdsWhenTrue = !holdsWhenTrue
		}
		n++
		b := iff.Block()
		failSucc := b.Succs[1]
		if !holdsWhenTrue {
			failSucc = b.Succs[0]
		}
		construct := "a " + class + " caveat that does not hold refuses the token"
		reach := fw.ReachableFrom(failSucc, nil)
		canAccept := false
		for ab := range accepting {
			if reach[ab] {
				canAccept = true
			}
		}
		if !canAccept {
			c.Ok(rule, construct, c.P.Pos(iff.Pos()), "no accepting return is reachable once the test has failed")
			continue
		}
		// does the failing edge leave a trace before it rejoins the passing path?
		trace := ""
		cur, from := failSucc, b
		for steps := 0; steps < 8 && trace == ""; steps++ {
			// phis at cur: what flows in over the edge from `from`
			idx := -1
			for i, p := range cur.Preds {
				if p == from {
					idx = i
				}
			}
			for _, ins := range cur.Instrs {
				phi, isPhi := ins.(*ssa.Phi)
				if !isPhi {
					break
				}
				if idx < 0 || idx >= len(phi.Edges) {
					continue
				}
				in := phi.Edges[idx]
				// unchanged state: the value that flows in is itself a loop-carried phi (or the phi itself)
				if q, ok := in.(*ssa.Phi); ok && (q == phi || q.Block().Dominates(b)) {
					continue
				}
				if in == ssa.Value(phi) {
					continue
				}
				if in.Parent() == fn {
					if vi, ok := in.(ssa.Instruction); ok && vi.Block().Dominates(b) && vi.Block() != b {
						// defined before the test: no information about its outcome
						continue
					}
				}
				trace = "the value " + fw.Sig(in) + " flows into " + phi.Comment
			}
			if len(cur.Preds) > 1 && cur != failSucc {
				break // rejoined
			}
			if len(cur.Preds) > 1 {
				break
			}
			for _, ins := range cur.Instrs {
				switch x := ins.(type) {
				case *ssa.Store, *ssa.MapUpdate, *ssa.Send, *ssa.Go, *ssa.Defer, *ssa.Panic, *ssa.Return:
					trace = "a side effect at " + c.P.Pos(fw.InstrPos(ins))
				case ssa.CallInstruction:
					trace = "a call at " + c.P.Pos(x.Pos())
				}
			}
			if len(cur.Succs) != 1 {
				if len(cur.Succs) > 1 {
					trace = "a further branch at " + c.P.Pos(fw.InstrPos(cur.Instrs[len(cur.Instrs)-1]))
				}
				break
			}
			from, cur = cur, cur.Succs[0]
		}
		if trace == "" {
			c.Fail(rule, construct, c.P.Pos(iff.Pos()), "when the "+class+" test fails the verifier carries on with its state unchanged (no store, no call, the loop-carried values flow on as they were) and an accepting return remains reachable: a later caveat of the same class that holds validates the token, so the holder of an expired token (or of somebody else's token) appends a caveat of their own and is accepted")
		} else {
			c.Undecided(rule, construct, "an accepting return is reachable after the test failed; the failure is recorded ("+trace+"), whether that forces refusal was not traced")
		}
	}
	if n == 0 {
		c.Undecided(rule, "a caveat that does not hold refuses the token", "no expiry or user test was recognised in verifyCaveats")
	}
}

// c20EveryTimeCaveat: the judgement of a time caveat against the clock is made once per caveat.
// Positive evidence of a violation: the only comparison with the clock sits after the loop over
// the caveats and is given a variable that each time caveat simply overwrites (no minimum, no
// comparison with the value kept so far): only the last `time <` caveat is then enforced, and
// whoever holds a token may append one.
func c20EveryTimeCaveat(c *fw.Ctx) {
	rule := "7 failing-caveat"
	construct := "every time caveat is judged against the clock"
	vc := mustFunc(c, rule, "tokens.verifyCaveats")
	entry := c.P.Func("tokens.ValidateToken")
	if vc == nil || entry == nil {
		return
	}
	clock := fw.FlowSpec{IsSource: fw.IsResultOf(fw.NameIs("time.Now"), -1), Through: fw.ThroughNames(map[string][]int{"(time.Time).Unix": {0}})}
	n, inLoop, verdict, detail, pos := 0, 0, "", "", ""
	for _, di := range fw.DeepInstrs(entry, nil) {
		bo, ok := di.Instr.(*ssa.BinOp)
		if !ok || (bo.Op != token.LSS && bo.Op != token.LEQ && bo.Op != token.GTR && bo.Op != token.GEQ) {
			continue
		}
		var other ssa.Value
		switch {
		case fw.Derives3In(bo.X, di.Fr, clock) == fw.Yes:
			other = bo.Y
		case fw.Derives3In(bo.Y, di.Fr, clock) == fw.Yes:
			other = bo.X
		default:
			continue
		}
		// the step of verifyCaveats through which the comparison is reached
		var at ssa.Instruction
		var atFr *fw.Frame
		if bo.Parent() == vc {
			at, atFr = bo, di.Fr
		}
		for f := di.Fr; f != nil && at == nil; f = f.Parent {
			if f.Site != nil && f.Site.Parent() == vc {
				at, atFr = f.Site, f.Parent
			}
		}
		if at == nil {
			continue
		}
		_ = atFr
		n++
		if h, _ := fw.LoopOf(at.Block()); h != nil {
			inLoop++
			continue
		}
		// outside the loop: what is compared with the clock?
		v, vfr := rootOf(other, di.Fr)
		_ = vfr
		phi, isPhi := v.(*ssa.Phi)
		if !isPhi || phi.Parent() != vc {
			if verdict == "" {
				verdict, detail = "undecided", "the clock is compared outside the caveat loop with "+fw.Sig(v)
			}
			continue
		}
		// is the kept value ever combined with a new one (a minimum)?
		family := map[ssa.Value]bool{phi: true}
		for changed := true; changed; {
			changed = false
			for _, b := range vc.Blocks {
				for _, ins := range b.Instrs {
					if p, isP := ins.(*ssa.Phi); isP && !family[p] {
						for _, e := range p.Edges {
							if family[e] {
								family[p], changed = true, true
							}
						}
					}
				}
			}
		}
		combined := false
		for _, b := range vc.Blocks {
			for _, ins := range b.Instrs {
				switch x := ins.(type) {
				case *ssa.BinOp:
					if x != bo && (family[x.X] || family[x.Y]) {
						combined = true
					}
				case *ssa.Call:
					if x == at {
						continue
					}
					for _, a := range x.Call.Args {
						if family[a] {
							combined = true
						}
					}
				}
			}
		}
		if combined {
			verdict, detail = "undecided", "the clock is compared after the caveat loop with a value that is combined with the one kept so far"
		} else {
			verdict, detail, pos = "fail", "the clock is compared once, after the loop over the caveats, with a variable that every time caveat overwrites: only the last time caveat is enforced, and a holder of the token can append one", c.P.Pos(fw.InstrPos(at))
		}
	}
	switch {
	case verdict == "fail":
		c.Fail(rule, construct, pos, detail)
	case n == 0:
		c.Undecided(rule, construct, "no comparison with the clock was found in the region of verifyCaveats")
	case verdict == "undecided" && inLoop == 0:
		c.Undecided(rule, construct, detail)
	default:
		c.Ok(rule, construct, c.P.Pos(vc.Pos()), fmt.Sprintf("%d clock comparison(s) inside the caveat loop", inLoop))
	}
}

// c20NoKeylessCache: what the token routines remember across calls in package-level state must
// be keyed by everything it was computed from. Positive evidence of a violation: a value is
// published to a package-level sync.Map / map under a key that does not derive from the
// signing secret (TokenOptions.ServerPrivateKey) - a token generated later with another secret
// then continues the signature chain of the first one.
func c20NoKeylessCache(c *fw.Ctx) {
	rule := "6 fresh-macaroon"
	construct := "state kept across calls is keyed by the signing secret"
	n := 0
	for _, entry := range []string{"tokens.GenerateLoginToken", "tokens.ValidateToken"} {
		fn := c.P.Func(entry)
		if fn == nil {
			continue
		}
		for _, di := range fw.DeepInstrs(fn, nil) {
			var key ssa.Value
			var where ssa.Instruction
			switch x := di.Instr.(type) {
			case *ssa.Call:
				name := fw.CalleeName(x)
				if name != "(*sync.Map).Store" && name != "(*sync.Map).LoadOrStore" && name != "(*sync.Map).Swap" {
					continue
				}
				if len(x.Call.Args) < 2 {
					continue
				}
				if _, isG := x.Call.Args[0].(*ssa.Global); !isG {
					continue
				}
				key, where = x.Call.Args[1], x
			case *ssa.MapUpdate:
				u, isU := x.Map.(*ssa.UnOp)
				if !isU {
					continue
				}
				if _, isG := u.X.(*ssa.Global); !isG {
					continue
				}
				key, where = x.Key, x
			default:
				continue
			}
			n++
			secret := fw.Derives3In(key, di.Fr, fw.FlowSpec{IsSource: func(v ssa.Value) bool {
				switch y := v.(type) {
				case *ssa.FieldAddr:
					if st := derefStructOf(y.X.Type()); st != nil {
						return st.Field(y.Field).Name() == "ServerPrivateKey"
					}
				case *ssa.Field:
					if st, ok := y.X.Type().Underlying().(*types.Struct); ok {
						return st.Field(y.Field).Name() == "ServerPrivateKey"
					}
				}
				return false
			}})
			switch secret {
			case fw.Yes:
				c.Ok(rule, construct, c.P.Pos(fw.InstrPos(where)), "")
			case fw.No:
				c.Fail(rule, construct, c.P.Pos(fw.InstrPos(where)), "a value is remembered in package-level state under the key "+fw.SigIn(di.Fr, key)+", which does not include the signing secret: a later call with another secret is answered from what the first secret produced")
			default:
				c.Undecided(rule, construct, "the key of a package-level cache could not be traced")
			}
		}
	}
	if n == 0 {
		c.Ok(rule, construct, "", "the token routines publish nothing to package-level state")
	}
}
