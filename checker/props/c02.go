package props

import (
	"fmt"
	"go/token"
	"go/types"
	"sort"
	"strings"

	"gmslverif/fw"

	"golang.org/x/tools/go/ssa"
)

func init() { register("C02", checkC02) }

// removedKeys: constant keys a function removes from the object it signs / verifies:
// sjson.DeleteBytes(_, "k") and delete(m, "k") (loops over constant slices unfolded).
func removedKeys(fn *ssa.Function) (map[string]bool, int) {
	a, n1 := constStringArgs(fn, fw.NameIs("github.com/tidwall/sjson.DeleteBytes", "github.com/tidwall/sjson.Delete"), 1)
	b, n2 := constStringArgs(fn, fw.NameIs("builtin.delete"), 1)
	for k := range b {
		a[k] = true
	}
	return a, n1 + n2
}

func checkC02(c *fw.Ctx) {
	c.Explanation = "C02 (static): SignJSON and VerifyJSON are compared as siblings (same constant set of members excluded from the signed projection: signatures, unsigned); the message given to ed25519.Sign / ed25519.Verify is shown to be the CanonicalJSON of that projection, rebuilt with encoding/json and never through path-interpreting sjson setters; VerifyJSON's success is gated on ed25519.Verify and the signature-length test, and the signature is looked up under the function's own name/key-id parameters; SignJSON's merge into the signature map is shown to keep other signers and other key ids (fresh inner map only on the not-present edge) and to write back the preserved unsigned."
	c.NotDecidedClause("completeness under arbitrary re-serialisation (depends on C01 uniqueness), unforgeability (ed25519), detection of every mutation")
	sign := mustFunc(c, "1 siblings", "SignJSON")
	verify := mustFunc(c, "1 siblings", "VerifyJSON")
	if sign == nil || verify == nil {
		return
	}
	want := setOf("signatures", "unsigned")
	for name, fn := range map[string]*ssa.Function{"SignJSON": sign, "VerifyJSON": verify} {
		got, nonConst := removedKeys(fn)
		construct := name + " excludes exactly {signatures, unsigned} from the signed projection"
		switch {
		case nonConst > 0 || len(got) == 0:
			// the removals could not be resolved to constant names (or none was found): nothing to compare
			c.Undecided("1 siblings", construct, fmt.Sprintf("%d removal(s) under names that could not be resolved to constants, %d resolved", nonConst, len(got)))
		default:
			c.Check(sameSet(got, want), "1 siblings", construct, c.P.Pos(fn.Pos()), strings.Join(sortedSet(got), ","), "the excluded member set is "+strings.Join(sortedSet(got), ",")+": "+diffSets(got, want))
		}
	}

	canon := fw.NameIs("gmsl.CanonicalJSON")
	edSign := fw.NameIs("golang.org/x/crypto/ed25519.Sign", "crypto/ed25519.Sign")
	edVerify := fw.NameIs("golang.org/x/crypto/ed25519.Verify", "crypto/ed25519.Verify")
	// 2. messages (the calls may live in unexported helpers; arguments are resolved through frames)
	nsign := 0
	for _, dc := range deepCallsTo(sign, edSign) {
		nsign++
		call := dc.Call
		// the signed bytes: CanonicalJSON( message minus the excluded members ), helpers transparent
		keys, nonConst, passed, origin := strippedChain3Fam(call.Common().Args[1], dc.Fr, call.(ssa.Instruction), func(v ssa.Value) bool { return isParam(v, sign, 3) }, map[string][]int{"gmsl.CanonicalJSON": {0}}, fw.RegionOf(sign, stopExported))
		switch {
		case origin == fw.Unknown || nonConst > 0:
			c.Undecided("2 message", "SignJSON canonicalises the input minus the excluded members", "the provenance of the signed bytes could not be resolved completely")
		case len(keys) == 0 && len(deepCallsTo(sign, fw.NameIs("github.com/tidwall/sjson.DeleteBytes"))) > 0:
			// members are deleted somewhere in SignJSON's region, but not on the value chain the
			// flow could follow (object state updated in a loop, for instance): no verdict
			c.Undecided("2 message", "SignJSON canonicalises the input minus the excluded members", "members are deleted in SignJSON's region, but not on the value chain that could be followed")
		default:
			c.Check(passed["gmsl.CanonicalJSON"], "2 message", "SignJSON signs CanonicalJSON of the projection", c.P.Pos(call.Pos()), "", "ed25519.Sign is applied to bytes that are not the result of CanonicalJSON")
			c.Check(origin == fw.Yes && sameSet(keys, want), "2 message", "SignJSON canonicalises the input minus the excluded members", c.P.Pos(call.Pos()), strings.Join(sortedSet(keys), ","), fmt.Sprintf("the signed bytes are not the input message with exactly {signatures, unsigned} deleted (derives from the message only: %v; deleted: %s)", origin, strings.Join(sortedSet(keys), ",")))
		}
	}
	c.Min("2 message ed25519.Sign sites", nsign, 1)
	nver := 0
	for _, dc := range deepCallsTo(verify, edVerify) {
		nver++
		call := dc.Call
		use := call.(ssa.Instruction)
		c.CheckDerives(call.Common().Args[1], dc.Fr, fw.FlowSpec{IsSource: fw.IsResultOf(canon, 0), All: true, Use: use, Family: fw.RegionOf(verify, stopExported)}, "2 message", "VerifyJSON verifies over CanonicalJSON of the projection", c.P.Pos(call.Pos()), "", "ed25519.Verify is applied to bytes that are not the result of CanonicalJSON")
		c.Expect(isParamDeep(call.Common().Args[0], dc.Fr, verify, 2), "3 binding", "VerifyJSON verifies under the caller's public key", c.P.Pos(call.Pos()), "", "the public key given to ed25519.Verify could not be traced to the publicKey parameter")
		// signature operand: signatures[signingName][keyID]
		sig, sfr := rootOf(call.Common().Args[2], dc.Fr)
		okSig, seenLookup := false, false
		if ex, isEx := sig.(*ssa.Extract); isEx {
			sig = ex.Tuple
		}
		if lk, isLk := sig.(*ssa.Lookup); isLk {
			inner, ifr := rootOf(lk.X, sfr)
			if lk2, ok2 := inner.(*ssa.Lookup); ok2 {
				seenLookup = true
				if isParamDeep(lk.Index, sfr, verify, 1) && isParamDeep(lk2.Index, ifr, verify, 0) {
					okSig = true
				}
			}
		}
		if seenLookup {
			c.Check(okSig, "3 binding", "VerifyJSON reads signatures[signingName][keyID]", c.P.Pos(call.Pos()), "", "the signature that is verified is looked up under something other than the function's own signing name and key id")
		} else {
			c.Undecided("3 binding", "VerifyJSON reads signatures[signingName][keyID]", "the signature operand is not a two-level map lookup: "+fw.Sig(sig))
		}
	}
	c.Min("2 message ed25519.Verify sites", nver, 1)
	// the projection is rebuilt with encoding/json, not with path-interpreting setters
	for name, fn := range map[string]*ssa.Function{"SignJSON": sign, "VerifyJSON": verify, "ListKeyIDs": c.P.Func("ListKeyIDs")} {
		if fn == nil {
			continue
		}
		for _, dc := range deepCallsTo(fn, func(n string) bool {
			return strings.HasPrefix(n, "github.com/tidwall/sjson.") || strings.HasPrefix(n, "github.com/tidwall/gjson.Get")
		}) {
			args := dc.Call.Common().Args
			if len(args) < 2 {
				continue
			}
			_, isConst := fw.ConstStringsIn(args[1], dc.Fr)
			if !isConst {
				// a path that is a captured variable or a parameter which the frames do not resolve (a
				// step made by a factory, a generic pipeline) is not known to be computed from data
				pvv := fw.Unwrap(args[1])
				if u, isU := pvv.(*ssa.UnOp); isU && u.Op == token.MUL {
					if fv, isFv := u.X.(*ssa.FreeVar); isFv {
						pvv = fv // a variable captured by reference
					}
				}
				switch pv := pvv.(type) {
				case *ssa.FreeVar:
					c.Undecided("2 message", name+": JSON paths are constants", "the path given to "+fw.CalleeName(dc.Call)+" is the captured variable "+pv.Name()+" ("+c.P.Pos(dc.Call.Pos())+")")
					continue
				case *ssa.Parameter:
					if _, resolved := dc.Fr.ArgOf(pv); !resolved {
						c.Undecided("2 message", name+": JSON paths are constants", "the path given to "+fw.CalleeName(dc.Call)+" is the parameter "+pv.Name()+" of a routine whose call site is not resolved ("+c.P.Pos(dc.Call.Pos())+")")
						continue
					}
				}
			}
			c.Check(isConst, "2 message", name+": JSON paths are constants", c.P.Pos(dc.Call.Pos()), "", fw.CalleeName(dc.Call)+" is called with a non-constant path: member names containing '.', '*' or '?' are interpreted as paths, so the signed and the verified projection differ")
		}
	}
	// the members are carried as raw JSON between decoding and re-encoding: decoding them into Go
	// values (interface{}) re-prints numbers (1.50 -> 1.5, 2^53+1 -> 2^53) and so changes what is verified
	for _, dc := range deepCallsTo(verify, fw.NameIs("encoding/json.Marshal")) {
		arg := dc.Call.Common().Args[0]
		if mi, isMI := arg.(*ssa.MakeInterface); isMI {
			arg = mi.X
		}
		t := arg.Type()
		if pt, isP := t.Underlying().(*types.Pointer); isP {
			t = pt.Elem()
		}
		mt, isMap := t.Underlying().(*types.Map)
		if !isMap {
			continue
		}
		elem := mt.Elem()
		if pt, isP := elem.Underlying().(*types.Pointer); isP {
			elem = pt.Elem()
		}
		construct := "VerifyJSON carries the signed members as raw JSON"
		switch {
		case strings.HasSuffix(elem.String(), "json.RawMessage") || strings.HasSuffix(elem.String(), "spec.RawJSON"):
			c.Ok("2 message", construct, c.P.Pos(dc.Call.Pos()), elem.String())
		case types.IsInterface(elem):
			c.Fail("2 message", construct, c.P.Pos(dc.Call.Pos()), "the object that is re-serialised for verification holds decoded Go values ("+mt.String()+"): numbers are re-printed in Go's shortest form, so the verified bytes differ from the signed ones for 1.50, 1e3 or integers above 2^53, and different numbers can verify under one signature")
		default:
			c.Undecided("2 message", construct, "members are held as "+mt.String())
		}
	}
	for _, dc := range deepCallsTo(verify, canon) {
		c.CheckDerives(dc.Call.Common().Args[0], dc.Fr, fw.FlowSpec{IsSource: fw.IsResultOf(fw.NameIs("encoding/json.Marshal"), 0), All: true, Use: dc.Call.(ssa.Instruction)}, "2 message", "VerifyJSON re-serialises the remaining members with encoding/json", c.P.Pos(dc.Call.Pos()), "", "the bytes canonicalised by VerifyJSON are not json.Marshal of the decoded object")
	}

	// 3. gates
	succ := fw.ErrNilSuccess(verify, fw.ErrIndex(verify), nil)
	c.CheckGate("3 gate", verify, "VerifyJSON", fw.GuardCallBool("ed25519.Verify", fw.NameIs("golang.org/x/crypto/ed25519.Verify", "crypto/ed25519.Verify"), true), succ)
	c.CheckGate("3 gate", verify, "VerifyJSON", fw.GuardCond("len(signature) == ed25519.SignatureSize", func(v ssa.Value) (bool, bool) {
		b, ok := v.(*ssa.BinOp)
		if !ok {
			return false, false
		}
		n, isC := fw.ConstInt(b.Y)
		if !isC || n != 64 {
			return false, false
		}
		if cl, _ := fw.CallOf(b.X); cl == nil || fw.CalleeName(cl) != "builtin.len" {
			return false, false
		}
		switch b.Op {
		case token.NEQ:
			return false, true
		case token.EQL:
			return true, true
		}
		return false, false
	}), succ)
	c.CheckGate("3 gate", verify, "VerifyJSON", fw.GuardCond("signature present (comma-ok)", func(v ssa.Value) (bool, bool) {
		ex, ok := v.(*ssa.Extract)
		if !ok || ex.Index != 1 {
			return false, false
		}
		lk, ok := ex.Tuple.(*ssa.Lookup)
		if !ok || !lk.CommaOk {
			return false, false
		}
		return true, true
	}), succ)

	// 4. SignJSON merge
	checkSignMerge(c, sign)
	checkCarriedSignatures(c, sign)

	// 7. the exclusion applies to the top level of the object only
	checkTopLevelOnly(c, "7 top-level", "SignJSON", sign, want)
	checkTopLevelOnly(c, "7 top-level", "VerifyJSON", verify, want)

	// 4b. the canonical form both sides sign over orders members by their decoded names on every
	// path (shared with C01.4/5)
	checkSortJSON(c)

	// 6. the signature strings of the object are JSON strings: their value is obtained by
	// JSON-decoding (escapes such as \/ are legal inside base64 text), never by slicing the raw token
	if fn := mustFunc(c, "6 signature-decoding", "spec.(*Base64Bytes).UnmarshalJSON"); fn != nil {
		c.CheckGate("6 signature-decoding", fn, "spec.(*Base64Bytes).UnmarshalJSON", fw.GuardCallErrNil("JSON string decoding (json.Unmarshal / strconv.Unquote)", fw.NameIs("encoding/json.Unmarshal", "strconv.Unquote")), fw.ErrNilSuccess(fn, fw.ErrIndex(fn), nil))
	}

	// 5. ListKeyIDs
	if fn := mustFunc(c, "5 ListKeyIDs", "ListKeyIDs"); fn != nil {
		ok := false
		for _, b := range fn.Blocks {
			for _, ins := range b.Instrs {
				if lk, isLk := ins.(*ssa.Lookup); isLk && isParam(fw.Unwrap(lk.Index), fn, 0) {
					ok = true
				}
			}
		}
		// the lookup may sit in a helper or method that receives the name (in a request object):
		// a map lookup in the region keyed by something else than the name is the evidence
		other := ""
		if !ok {
			for _, di := range fw.DeepInstrs(fn, nil) {
				lk, isLk := di.Instr.(*ssa.Lookup)
				if !isLk {
					continue
				}
				if _, isMap := lk.X.Type().Underlying().(*types.Map); !isMap {
					continue
				}
				switch fw.Derives3In(lk.Index, di.Fr, fw.FlowSpec{IsSourceIn: func(v ssa.Value, fr *fw.Frame) bool { return fr == nil && isParam(v, fn, 0) }}) {
				case fw.Yes:
					ok = true
				case fw.No:
					if _, isC := lk.Index.(*ssa.Const); isC {
						other = fw.SigIn(di.Fr, lk.Index)
					}
				}
			}
		}
		switch {
		case ok:
			c.Ok("5 ListKeyIDs", "ListKeyIDs lists signatures[signingName]", c.P.Pos(fn.Pos()), "")
		case other != "":
			c.Fail("5 ListKeyIDs", "ListKeyIDs lists signatures[signingName]", c.P.Pos(fn.Pos()), "key ids are read from the entry "+other+", not from the entry of the signing name parameter")
		default:
			c.Undecided("5 ListKeyIDs", "ListKeyIDs lists signatures[signingName]", "no map lookup keyed by the signing name parameter was recognised in ListKeyIDs and its helpers")
		}
	}
}

func checkSignMerge(c *fw.Ctx, sign *ssa.Function) {
	rule := "4 merge"
	updates := 0
	for _, b := range sign.Blocks {
		for _, ins := range b.Instrs {
			mu, ok := ins.(*ssa.MapUpdate)
			if !ok {
				continue
			}
			updates++
			mt := mu.Map.Type().Underlying().(*types.Map)
			if _, nested := mt.Elem().Underlying().(*types.Map); nested {
				// outer map: key must be signingName; storing a fresh map only when the signer was absent
				c.Check(isParam(fw.Unwrap(mu.Key), sign, 0), rule, "SignJSON writes the signer's entry only", c.P.Pos(fw.InstrPos(mu)), "", "an entry of another signer is written")
				if _, fresh := mu.Value.(*ssa.MakeMap); fresh {
					guarded := false
					for d := b; d != nil && !guarded; d = d.Idom() {
						id := d.Idom()
						if id == nil {
							break
						}
						iff, isIf := id.Instrs[len(id.Instrs)-1].(*ssa.If)
						if !isIf {
							continue
						}
						// "entry == nil" form: the fresh map sits on the nil edge of a test of the signer's entry
						if nv, trueMeansNil, isNil := fw.NilCheck(iff.Cond); isNil {
							var lk *ssa.Lookup
							switch x := fw.Unwrap(nv).(type) {
							case *ssa.Lookup:
								lk = x
							case *ssa.Extract:
								if l2, isL := x.Tuple.(*ssa.Lookup); isL && x.Index == 0 {
									lk = l2
								}
							}
							if lk != nil && isParam(fw.Unwrap(lk.Index), sign, 0) {
								nilSucc := id.Succs[1]
								if trueMeansNil {
									nilSucc = id.Succs[0]
								}
								if nilSucc == d && len(d.Preds) == 1 {
									guarded = true
								}
							}
							continue
						}
						cv, neg := fw.BoolCond(iff.Cond)
						ex, isEx := cv.(*ssa.Extract)
						if !isEx || ex.Index != 1 {
							continue
						}
						lk, isLk := ex.Tuple.(*ssa.Lookup)
						if !isLk || !isParam(fw.Unwrap(lk.Index), sign, 0) {
							continue
						}
						// the update must sit on the "not present" edge
						absentSucc := id.Succs[1]
						if neg {
							absentSucc = id.Succs[0]
						}
						if absentSucc == d && len(d.Preds) == 1 {
							guarded = true
						}
					}
					c.Check(guarded, rule, "SignJSON creates the signer's key map only when the signer has no entry", c.P.Pos(fw.InstrPos(mu)), "", "the signer's entry is replaced by a fresh map even when it exists: signatures made earlier by the same entity under other key ids are dropped")
				}
			} else {
				c.Check(isParam(fw.Unwrap(mu.Key), sign, 1), rule, "SignJSON writes only the given key id", c.P.Pos(fw.InstrPos(mu)), "", "a signature is stored under a key id other than the keyID parameter")
			}
		}
	}
	c.Min(rule+" map updates", updates, 2)
	// signatures written back derive from the preserved map; unsigned written back is the preserved one
	for _, call := range fw.CallsTo(sign, false, fw.NameIs("github.com/tidwall/sjson.SetRawBytes")) {
		key, _ := fw.ConstString(call.Common().Args[1])
		switch key {
		case "signatures":
			ok := fw.DerivesFrom(call.Common().Args[2], fw.FlowSpec{IsSource: fw.IsResultOf(fw.NameIs("encoding/json.Marshal"), 0), All: true})
			c.Check(ok, rule, "SignJSON writes back the merged signature map", c.P.Pos(call.Pos()), "", "the signatures member written back is not the marshalled merged map")
		case "unsigned":
			ok := fw.DerivesFrom(call.Common().Args[2], fw.FlowSpec{IsSource: func(v ssa.Value) bool {
				u, isU := v.(*ssa.UnOp)
				if !isU {
					return false
				}
				fa, isFa := u.X.(*ssa.FieldAddr)
				return isFa && derefStructOf(fa.X.Type()) != nil && derefStructOf(fa.X.Type()).Field(fa.Field).Name() == "Unsigned"
			}, All: true})
			c.Check(ok, rule, "SignJSON writes back the preserved unsigned", c.P.Pos(call.Pos()), "", "the unsigned member written back is not the one preserved from the input")
		case "":
			// the member name is not a constant here (a loop over a list of names): not decided
			c.Undecided(rule, "SignJSON sets only signatures/unsigned", "a member is written under a name that could not be resolved to a constant at "+c.P.Pos(call.Pos()))
		default:
			c.Fail(rule, fmt.Sprintf("SignJSON sets only signatures/unsigned (found %q)", key), c.P.Pos(call.Pos()), "SignJSON writes an unexpected member into the signed object")
		}
	}
}

// checkCarriedSignatures (rule 4, continued): whatever routine of SignJSON's region copies the
// decoded signatures into the map that is written back copies every entry: an entry written
// under a condition on the signer's name, the key id or the signature itself (other than the
// creation of the inner map when it is missing) drops somebody's earlier signature from the
// re-signed object.
func checkCarriedSignatures(c *fw.Ctx, sign *ssa.Function) {
	rule := "4 merge"
	construct := "earlier signatures are carried over unfiltered"
	n := 0
	bad := ""
	for _, f := range fw.RegionOf(sign, nil) {
		for _, b := range f.Blocks {
			for _, ins := range b.Instrs {
				mu, ok := ins.(*ssa.MapUpdate)
				if !ok {
					continue
				}
				// the value is an element of a pass over another map (a copy loop)
				vs := fw.Sig(mu.Value)
				if !strings.Contains(vs, "next(range(") {
					continue
				}
				if _, isMake := mu.Value.(*ssa.MakeMap); isMake {
					continue
				}
				n++
				for _, s := range fw.CondStrings(b) {
					t := strings.TrimPrefix(s, "!")
					if strings.HasPrefix(t, "next(range(") && strings.HasSuffix(t, "#0") {
						continue // loop machinery
					}
					if strings.HasSuffix(t, " == nil)") && !strings.Contains(t, "next(range(") {
						continue // a map that has to be created first
					}
					if strings.Contains(t, "next(range(") {
						bad = fmt.Sprintf("%s copies an entry only under %s (%s)", fw.FuncName(f), s, c.P.Pos(fw.InstrPos(mu)))
					}
				}
			}
		}
	}
	switch {
	case bad != "":
		c.Fail(rule, construct, c.P.Pos(sign.Pos()), bad+": a signature that does not meet the condition disappears from the object when somebody else signs it")
	case n == 0:
		c.Ok(rule, construct, c.P.Pos(sign.Pos()), "no copy loop: the decoded signatures object itself is written back")
	default:
		c.Ok(rule, construct, c.P.Pos(sign.Pos()), fmt.Sprintf("%d copy site(s), unconditional", n))
	}
}

// checkTopLevelOnly: the names of the members that are left out of a signed / hashed projection
// are applied to the top level of the document only. Positive evidence of the contrary: the
// names (as constants, a list, or a record holding the list) travel from the routine into a
// parameter, receiver or captured variable of a routine that calls itself on nested values - a
// member called "unsigned" or "signatures" inside `content` is then left out as well, so it is
// not covered by the signature and can be altered without invalidating it.
func checkTopLevelOnly(c *fw.Ctx, rule, name string, root *ssa.Function, want map[string]bool) {
	construct := name + ": the excluded member names are applied to the top level only"
	t := fw.NewConstTaint(root, want)
	c.Count("functions reached by the excluded-name taint", len(t.Funcs))
	var rec []*ssa.Function
	for f := range t.Funcs {
		if len(t.TaintedInputs(f)) > 0 && t.Recursive(f) {
			rec = append(rec, f)
		}
	}
	if len(rec) == 0 {
		c.Ok(rule, construct, c.P.Pos(root.Pos()), fmt.Sprintf("%d function(s) reached, none of the recursive ones receives the names", len(t.Funcs)))
		return
	}
	sort.Slice(rec, func(i, j int) bool { return fw.FuncName(rec[i]) < fw.FuncName(rec[j]) })
	f := rec[0]
	if t.HasCounterParam(f) {
		c.Undecided(rule, construct, fw.FuncName(f)+" receives the names and calls itself, but also takes a level counter")
		return
	}
	in := t.TaintedInputs(f)
	c.Fail(rule, construct, c.P.Pos(f.Pos()), fmt.Sprintf("the member names excluded by %s reach %s (through %s), which applies itself to nested values: members of that name are left out at every depth, not only at the top level, so nested data under such a name is not covered by the signature or hash", name, fw.FuncName(f), in[0].Name()))
}
