// Package props holds the repository-specific rule instances, one file per property.
package props

import "gmslverif/fw"

// All maps property id -> check.
var All = map[string]func(*fw.Ctx){}

func register(id string, f func(*fw.Ctx)) { All[id] = f }
