package fw

import (
	"fmt"
	"go/token"
	"go/types"
	"strings"

	"golang.org/x/tools/go/ssa"
)

// ---- engine B: guards, must-pass-through ----

// Guard recognises If conditions that are instances of one check and says which branch passes.
type Guard struct {
	Name string
	// Match is called for every If of the function. ok=false: not this guard.
	// passOnTrue: the true branch is the passing one.
	Match func(i *ssa.If) (passOnTrue bool, ok bool)
	// TailValue (optional): a value whose nil-ness equals "guard passed"; a return that
	// returns exactly this value as its error is considered guarded (return f()).
	TailCall func(c ssa.CallInstruction) bool
	// MinSites is the minimum number of If sites expected (default 1).
	MinSites int
	// Callee (optional): name predicate of the guard's callee, used to tell "the guard exists
	// in the program but is not on this path" (a violation) from "nothing of that name exists
	// any more" (renamed or restructured: undecided).
	Callee func(string) bool
	// SkipHelper (optional): repository functions that do not count as passing the guard on
	// the caller's behalf even though they pass it internally (they apply it to something else).
	SkipHelper func(*ssa.Function) bool
}

// errNonNilFuncs: functions known to always return a non-nil error.
var errCtorNames = map[string]bool{
	"fmt.Errorf": true, "errors.New": true,
}

type nonNilMemo map[*ssa.Function]int // 0 unknown/in progress, 1 always non-nil, 2 may be nil

// AlwaysNonNilError: does every return of fn return a non-nil value at result index idx?
func alwaysNonNil(fn *ssa.Function, idx int, memo nonNilMemo, depth int) bool {
	if fn == nil || fn.Blocks == nil || depth > 4 {
		return false
	}
	switch memo[fn] {
	case 1:
		return true
	case 2:
		return false
	}
	memo[fn] = 2 // recursion => may be nil
	ok := true
	for _, r := range Returns(fn) {
		if idx >= len(r.Results) {
			ok = false
			break
		}
		if mayBeNilValue(r.Results[idx], r.Block(), memo, depth+1, map[ssa.Value]bool{}) {
			ok = false
			break
		}
	}
	if ok {
		memo[fn] = 1
	}
	return ok
}

// passThroughParam: every return of fn hands back, at result idx, the same parameter of fn
// unchanged; its index, or -1.
func passThroughParam(fn *ssa.Function, idx int) int {
	k := -1
	for _, r := range Returns(fn) {
		if idx >= len(r.Results) {
			return -1
		}
		p, ok := r.Results[idx].(*ssa.Parameter)
		if !ok {
			return -1
		}
		j := -1
		for i, q := range fn.Params {
			if q == p {
				j = i
			}
		}
		if j < 0 || (k >= 0 && k != j) {
			return -1
		}
		k = j
	}
	return k
}

// mayBeNilValue over-approximates whether v can be nil when control is in block b.
func mayBeNilValue(v ssa.Value, b *ssa.BasicBlock, memo nonNilMemo, depth int, seen map[ssa.Value]bool) bool {
	if seen[v] {
		return false
	}
	seen[v] = true
	switch x := v.(type) {
	case *ssa.Const:
		return x.Value == nil
	case *ssa.MakeInterface, *ssa.Alloc, *ssa.MakeMap, *ssa.MakeSlice, *ssa.MakeClosure, *ssa.FieldAddr, *ssa.IndexAddr:
		return false
	case *ssa.ChangeInterface:
		return mayBeNilValue(x.X, b, memo, depth, seen)
	case *ssa.Phi:
		for _, e := range x.Edges {
			if mayBeNilValue(e, b, memo, depth, seen) {
				return true
			}
		}
		return false
	}
	if KnownNonNil(v, b) {
		return false
	}
	if u, ok := v.(*ssa.UnOp); ok && u.Op == token.MUL {
		if g, ok := u.X.(*ssa.Global); ok && globalNonNil(g, memo, depth) {
			return false
		}
	}
	if o := Origin(v); o != v {
		if KnownNonNil(o, b) {
			return false
		}
		return mayBeNilValue(o, b, memo, depth, seen)
	}
	if c, idx := CallOf(v); c != nil {
		name := CalleeName(c)
		if errCtorNames[name] {
			return false
		}
		if fn := c.Common().StaticCallee(); fn != nil && idx >= 0 {
			if alwaysNonNil(fn, idx, memo, depth+1) {
				return false
			}
		} else if c.Common().Value != nil && !c.Common().IsInvoke() {
			// a local function literal that wraps or formats an error (`return nil, fail(err)`)
			if lit := closureTarget(c.Common().Value); lit != nil {
				i := idx
				if i < 0 {
					i = 0
				}
				if alwaysNonNil(lit, i, memo, depth+1) {
					return false
				}
				// a literal that hands one of its parameters back unchanged (`fail := func(err
				// error) (T, error) { return nil, err }`): as nil as the argument at this call
				if k := passThroughParam(lit, i); k >= 0 && k < len(c.Common().Args) && depth < 4 {
					if cv, isV := c.(ssa.Value); isV {
						return mayBeNilValue(c.Common().Args[k], cv.(ssa.Instruction).Block(), memo, depth+1, seen)
					}
				}
			}
		}
	}
	return true
}

// SuccessPath describes a way to reach a success return.
type SuccessPath struct {
	Ret  *ssa.Return
	Via  *ssa.BasicBlock // predecessor carrying the nil value (phi case), or nil
	Note string
	// FromCall: the possibly-nil error is the result of this call (`return helper(...)` or
	// `err := helper(...); return err`): the guard may have been passed inside the helper.
	FromCall ssa.CallInstruction
	// Uncertain: the returned value is neither the constant nil nor the result of a call the
	// gate can look into (a field of a result struct, an element, a value read from a global):
	// whether it is nil where it is returned is not known - a refusal is commonly reported this
	// way (`if !res.Allowed { return res.Err }`).
	Uncertain bool
}

// SuccessFn decides whether a Return can be a "success" return given that control arrives
// through pred (nil = any). Default: the trailing error result may be nil.
type SuccessFn func(r *ssa.Return, reachable map[*ssa.BasicBlock]bool, removed map[Edge]bool) []SuccessPath

// ErrNilSuccess: success = trailing error result (or result #idx) may be nil.
func ErrNilSuccess(fn *ssa.Function, idx int, tail func(c ssa.CallInstruction) bool) SuccessFn {
	memo := nonNilMemo{}
	return func(r *ssa.Return, reachable map[*ssa.BasicBlock]bool, removed map[Edge]bool) []SuccessPath {
		if idx < 0 || idx >= len(r.Results) {
			return []SuccessPath{{Ret: r, Note: "no error result"}}
		}
		b := r.Block()
		if !reachable[b] {
			return nil
		}
		v := r.Results[idx]
		return successPathsOf(v, r, b, reachable, removed, memo, tail, map[ssa.Value]bool{})
	}
}

func successPathsOf(v ssa.Value, r *ssa.Return, b *ssa.BasicBlock, reachable map[*ssa.BasicBlock]bool, removed map[Edge]bool, memo nonNilMemo, tail func(c ssa.CallInstruction) bool, seen map[ssa.Value]bool) []SuccessPath {
	if seen[v] {
		return nil
	}
	seen[v] = true
	if KnownNonNil(v, b) {
		return nil // `if err != nil { return err }`: whatever err is a phi of
	}
	if phi, ok := v.(*ssa.Phi); ok {
		var out []SuccessPath
		pb := phi.Block()
		for i, e := range phi.Edges {
			pred := pb.Preds[i]
			if !reachable[pred] || removed[Edge{pred, pb}] {
				continue
			}
			// evaluate the edge value as seen at the end of pred
			for _, sp := range successPathsOf(e, r, pred, reachable, removed, memo, tail, seen) {
				if sp.Via == nil {
					sp.Via = pred
				}
				out = append(out, sp)
			}
		}
		return out
	}
	ov := Origin(v)
	if ov != v {
		if _, isPhi := ov.(*ssa.Phi); isPhi {
			return successPathsOf(ov, r, b, reachable, removed, memo, tail, seen)
		}
	}
	if tail != nil {
		if c, _ := CallOf(ov); c != nil && tail(c) {
			return nil // return f(): success iff the guard passed
		}
	}
	// a spilled named result: consider every store to the alloc
	if u, ok := ov.(*ssa.UnOp); ok && u.Op == token.MUL {
		if a, ok := u.X.(*ssa.Alloc); ok {
			var out []SuccessPath
			stores := 0
			for _, ref := range *a.Referrers() {
				st, ok := ref.(*ssa.Store)
				if !ok || st.Addr != a {
					continue
				}
				stores++
				sb := st.Block()
				if !reachable[sb] {
					continue
				}
				// the stored value must still be possibly nil where the return happens:
				// if the return block is dominated by a non-nil test of the loaded value we
				// would have been caught by KnownNonNil below.
				if KnownNonNil(v, b) {
					continue
				}
				for _, sp := range successPathsOf(st.Val, r, sb, reachable, removed, memo, tail, seen) {
					if sp.Via == nil {
						sp.Via = sb
					}
					out = append(out, sp)
				}
			}
			// zero value of the named result (never assigned on some path) is nil: if the
			// alloc is a result variable, the entry block counts as an implicit nil store,
			// but only if some path reaches the return without passing any store; we
			// approximate: if no reachable store dominates the return block.
			dominated := false
			for _, ref := range *a.Referrers() {
				if st, ok := ref.(*ssa.Store); ok && st.Addr == a && reachable[st.Block()] && st.Block().Dominates(b) {
					dominated = true
				}
			}
			if !dominated && !KnownNonNil(v, b) {
				out = append(out, SuccessPath{Ret: r, Note: "named result possibly unassigned (nil)"})
			}
			return out
		}
	}
	if mayBeNilValue(v, b, memo, 0, map[ssa.Value]bool{}) {
		sp := SuccessPath{Ret: r}
		if c, _ := CallOf(ov); c != nil {
			sp.FromCall = c
			if translatesParam(c) {
				// `return v.err()`: the helper maps a verdict value to an error; whether the
				// verdict is the accepting one where it is returned is a fact about values
				sp.Uncertain = true
			}
		} else if !isNilConst(ov) {
			switch x := ov.(type) {
			case *ssa.UnOp:
				if _, isField := x.X.(*ssa.FieldAddr); isField && x.Op == token.MUL {
					sp.Uncertain = true
				}
				if _, isIdx := x.X.(*ssa.IndexAddr); isIdx && x.Op == token.MUL {
					sp.Uncertain = true
				}
			case *ssa.Field, *ssa.Lookup, *ssa.Index:
				sp.Uncertain = true
			}
		}
		return []SuccessPath{sp}
	}
	return nil
}

// translatesParam: the call's callee is a repository function that returns a nil error only
// under a comparison of one of its parameters with a constant (an enum-to-error translation),
// and the corresponding argument is not a constant at the call.
func translatesParam(c ssa.CallInstruction) bool {
	callee := c.Common().StaticCallee()
	if callee == nil || len(callee.Blocks) == 0 || c.Common().IsInvoke() {
		return false
	}
	nilReturns := 0
	for _, r := range Returns(callee) {
		isNil := false
		for _, res := range r.Results {
			if isNilConst(res) && isErrorType(res.Type()) {
				isNil = true
			}
		}
		if !isNil {
			continue
		}
		nilReturns++
		guarded := false
		for _, f := range DomConds(r.Block()) {
			bo, ok := f.If.Cond.(*ssa.BinOp)
			if !ok {
				continue
			}
			for _, pair := range [][2]ssa.Value{{bo.X, bo.Y}, {bo.Y, bo.X}} {
				p, isP := Unwrap(pair[0]).(*ssa.Parameter)
				_, isC := pair[1].(*ssa.Const)
				if !isP || !isC {
					continue
				}
				if _, basic := p.Type().Underlying().(*types.Basic); !basic {
					continue
				}
				for i, q := range callee.Params {
					if q == p && i < len(c.Common().Args) {
						if _, argConst := c.Common().Args[i].(*ssa.Const); !argConst {
							guarded = true
						}
					}
				}
			}
		}
		if !guarded {
			return false
		}
	}
	return nilReturns > 0
}

// BoolTrueSuccess: success = the boolean result #idx may be true.
func BoolTrueSuccess(idx int) SuccessFn {
	var may func(v ssa.Value, seen map[ssa.Value]bool) bool
	may = func(v ssa.Value, seen map[ssa.Value]bool) bool {
		if seen[v] {
			return false
		}
		seen[v] = true
		switch x := v.(type) {
		case *ssa.Const:
			return x.Value != nil && x.Value.String() == "true"
		case *ssa.Phi:
			for _, e := range x.Edges {
				if may(e, seen) {
					return true
				}
			}
			return false
		}
		return true
	}
	return func(r *ssa.Return, reachable map[*ssa.BasicBlock]bool, removed map[Edge]bool) []SuccessPath {
		if idx >= len(r.Results) || !reachable[r.Block()] {
			return nil
		}
		v := r.Results[idx]
		if phi, ok := v.(*ssa.Phi); ok && phi.Block() == r.Block() {
			var out []SuccessPath
			for i, e := range phi.Edges {
				pred := phi.Block().Preds[i]
				if !reachable[pred] || removed[Edge{pred, phi.Block()}] {
					continue
				}
				if may(e, map[ssa.Value]bool{}) {
					out = append(out, SuccessPath{Ret: r, Via: pred})
				}
			}
			return out
		}
		if may(v, map[ssa.Value]bool{}) {
			return []SuccessPath{{Ret: r}}
		}
		return nil
	}
}

// helperImplies: every success exit of the repository helper h (nil error, or true when the
// helper returns a bool) passes guard g inside h; memoised per (helper, guard).
var helperMemo = map[string]int{} // 0 unknown, 1 in progress, 2 yes, 3 no

func helperImplies(h *ssa.Function, g Guard, boolResult bool) bool {
	key := fmt.Sprintf("%p|%s|%v|%p", h, g.Name, boolResult, g.Match)
	switch helperMemo[key] {
	case 1, 3:
		return false
	case 2:
		return true
	}
	helperMemo[key] = 1
	var succ SuccessFn
	if boolResult {
		succ = BoolTrueSuccess(0)
	} else {
		succ = ErrNilSuccess(h, ErrIndex(h), nil)
	}
	r := Gate(h, g, succ)
	ok := len(r.Sites)+r.TailSites > 0 && len(r.Escapes) == 0
	if ok {
		helperMemo[key] = 2
	} else {
		helperMemo[key] = 3
	}
	return ok
}

// helperSite: the If tests the result of a call to a repository helper whose success
// implies the guard; returns which edge is the passing one.
func helperSite(i *ssa.If, g Guard) (passOnTrue bool, ok bool) {
	if v, trueMeansNil, isNil := NilCheck(i.Cond); isNil {
		if c, idx := CallOf(Origin(v)); c != nil {
			if cc, isCall := c.(*ssa.Call); isCall {
				if h := Followable(cc, nil); h != nil && idx == ErrIndex(h) && (g.SkipHelper == nil || !g.SkipHelper(h)) && helperImplies(h, g, false) {
					return trueMeansNil, true
				}
			}
		}
		return false, false
	}
	v, neg := BoolCond(i.Cond)
	if c, idx := CallOf(Origin(v)); c != nil && idx <= 0 {
		if cc, isCall := c.(*ssa.Call); isCall {
			if h := Followable(cc, nil); h != nil {
				res := h.Signature.Results()
				if res.Len() >= 1 {
					if b, isB := res.At(0).Type().Underlying().(*types.Basic); isB && b.Kind() == types.Bool && helperImplies(h, g, true) {
						return !neg, true
					}
				}
			}
		}
	}
	return false, false
}

// GateResult is the outcome of one Gate evaluation.
type GateResult struct {
	Guard     string
	Sites     []*ssa.If
	TailSites int
	Escapes   []SuccessPath // success returns reachable without passing the guard
}

// Gate evaluates: every success return of fn is reached only through a passing edge of guard g.
func Gate(fn *ssa.Function, g Guard, success SuccessFn) GateResult {
	res := GateResult{Guard: g.Name}
	removed := map[Edge]bool{}
	for _, i := range Ifs(fn) {
		passOnTrue, ok := g.Match(i)
		if !ok {
			passOnTrue, ok = helperSite(i, g)
		}
		if !ok {
			continue
		}
		res.Sites = append(res.Sites, i)
		removed[IfEdge(i.Block(), passOnTrue)] = true
	}
	if g.TailCall != nil {
		for _, c := range Calls(fn) {
			if g.TailCall(c) {
				res.TailSites++
			}
		}
	}
	reach := Reachable(fn, removed)
	for _, r := range Returns(fn) {
		for _, sp := range success(r, reach, removed) {
			// `return helper(...)`: the guard may be passed inside the helper
			if sp.FromCall != nil {
				// `return x, guard(...)`: the error returned is the guard's own verdict
				if g.TailCall != nil && g.TailCall(sp.FromCall) {
					continue
				}
				if cc, isCall := sp.FromCall.(*ssa.Call); isCall {
					if h := Followable(cc, nil); h != nil && (g.SkipHelper == nil || !g.SkipHelper(h)) && helperImplies(h, g, false) {
						res.TailSites++
						continue
					}
				}
			}
			// confirm with the nil-test-sensitive search: a return that is reachable in the graph
			// but only along paths that contradict their own nil tests is not an escape
			if len(removed) > 0 && !FeasibleReach(fn, removed, r.Block()) {
				continue
			}
			res.Escapes = append(res.Escapes, sp)
		}
	}
	return res
}

// OpaqueDispatch reports a call in fn's region whose target the analysis cannot follow and that
// may hold the steps a rule looks for: a method call through an unexported interface of the
// repository (a strategy object), or a call of a function value taken from a table (a list or
// struct of functions: stages, rules). Exported interfaces (PDU, IRoomVersion, ...) are API with
// a meaning of their own and do not count. Returns a description, or "".
func OpaqueDispatch(fn *ssa.Function) string { return opaqueDispatch(fn, true) }

// OpaqueDispatchAny is OpaqueDispatch without the requirement that the dispatched step can
// report a verdict, and it also counts calls of function-typed parameters and captured
// function variables (steps handed to a driver as closures): for rules about which steps run.
func OpaqueDispatchAny(fn *ssa.Function) string { return opaqueDispatch(fn, false) }

func opaqueDispatch(fn *ssa.Function, verdictOnly bool) string {
	var fromTable func(v ssa.Value, depth int) bool
	fromTable = func(v ssa.Value, depth int) bool {
		if depth > 8 || v == nil {
			return false
		}

		switch x := v.(type) {
		case *ssa.UnOp:
			if g, ok := x.X.(*ssa.Global); ok {
				switch g.Type().Underlying().(*types.Pointer).Elem().Underlying().(type) {
				case *types.Slice, *types.Array, *types.Map:
					return true
				}
				return false
			}
			return fromTable(x.X, depth+1)
		case *ssa.IndexAddr:
			return fromTable(x.X, depth+1)
		case *ssa.Index:
			return fromTable(x.X, depth+1)
		case *ssa.Lookup:
			return true
		case *ssa.Slice:
			return fromTable(x.X, depth+1)
		case *ssa.Extract:
			return fromTable(x.Tuple, depth+1)
		case *ssa.Next:
			return fromTable(x.Iter, depth+1)
		case *ssa.Range:
			return fromTable(x.X, depth+1)
		case *ssa.FieldAddr:
			return fromTable(x.X, depth+1)
		case *ssa.Field:
			return fromTable(x.X, depth+1)
		case *ssa.Phi:
			for _, e := range x.Edges {
				if fromTable(e, depth+1) {
					return true
				}
			}
		case *ssa.Parameter:
			// a list of functions handed to a driver
			switch t := x.Type().Underlying().(type) {
			case *types.Slice:
				_, isFn := t.Elem().Underlying().(*types.Signature)
				return isFn
			case *types.Array:
				_, isFn := t.Elem().Underlying().(*types.Signature)
				return isFn
			}
			return false
		case *ssa.Alloc:
			// a local copy of a table entry (the loop variable of `for _, step := range steps`)
			if x.Referrers() != nil {
				for _, ref := range *x.Referrers() {
					if st, isSt := ref.(*ssa.Store); isSt && st.Addr == ssa.Value(x) && fromTable(st.Val, depth+1) {
						return true
					}
				}
			}
			if arr, ok := x.Type().Underlying().(*types.Pointer).Elem().Underlying().(*types.Array); ok {
				_, isFn := arr.Elem().Underlying().(*types.Signature)
				if isFn {
					return true
				}
				if st, isSt := arr.Elem().Underlying().(*types.Struct); isSt {
					for i := 0; i < st.NumFields(); i++ {
						if _, f := st.Field(i).Type().Underlying().(*types.Signature); f {
							return true
						}
					}
				}
			}
		}
		return false
	}
	// (exported functions are API with a meaning of their own: what they do inside is theirs)
	// only a step that can report a verdict (an error or a boolean among its results) can stand
	// in for a check
	reports := func(sig *types.Signature) bool {
		if sig == nil {
			return false
		}
		for i := 0; i < sig.Results().Len(); i++ {
			t := sig.Results().At(i).Type()
			if isErrorType(t) {
				return true
			}
			if b, ok := t.Underlying().(*types.Basic); ok && b.Kind() == types.Bool {
				return true
			}
			if _, ok := t.Underlying().(*types.Struct); ok {
				return true // a result record
			}
		}
		return false
	}
	for _, dc := range AllDeepCalls(fn, exportedFunc) {
		cm := dc.Call.Common()
		if verdictOnly && !reports(cm.Signature()) {
			continue
		}
		if cm.IsInvoke() {
			if named, ok := cm.Value.Type().(*types.Named); ok {
				obj := named.Obj()
				if obj != nil && obj.Pkg() != nil && strings.HasPrefix(obj.Pkg().Path(), ModPath) && !obj.Exported() {
					return "a method call through the unexported interface " + obj.Name() + " (" + cm.Method.Name() + ")"
				}
			}
			continue
		}
		if cm.StaticCallee() != nil || cm.Value == nil {
			continue
		}
		if _, isBuiltin := cm.Value.(*ssa.Builtin); isBuiltin {
			continue
		}
		if fromTable(cm.Value, 0) {
			return "a call of a function value taken from a table"
		}
		if !verdictOnly {
			switch x := cm.Value.(type) {
			case *ssa.Parameter:
				return "a call of the function-valued parameter " + x.Name()
			case *ssa.UnOp:
				if _, isFV := x.X.(*ssa.FreeVar); isFV {
					if closureTarget(cm.Value) == nil {
						return "a call of a captured function variable"
					}
				}
			}
		}
		// a function-valued field of an unexported struct type of the repository (a layout or
		// strategy record)
		var holder types.Type
		switch x := cm.Value.(type) {
		case *ssa.UnOp:
			if fa, ok := x.X.(*ssa.FieldAddr); ok {
				holder = fa.X.Type()
			}
		case *ssa.Field:
			holder = x.X.Type()
		}
		// (a field of a named function type declared for callers - a callback such as
		// spec.UserIDForSender - is an input of the routine, not a step of it)
		if nt, isNamed := cm.Value.Type().(*types.Named); isNamed && nt.Obj() != nil && nt.Obj().Exported() {
			holder = nil
		}
		if holder != nil {
			if p, isP := holder.Underlying().(*types.Pointer); isP {
				holder = p.Elem()
			}
			if p, isP := holder.(*types.Pointer); isP {
				holder = p.Elem()
			}
			if named, ok := holder.(*types.Named); ok && named.Obj() != nil && named.Obj().Pkg() != nil && strings.HasPrefix(named.Obj().Pkg().Path(), ModPath) && !named.Obj().Exported() {
				return "a call of a function-valued field of the unexported type " + named.Obj().Name()
			}
		}
	}
	return ""
}

// ---- guard constructors ----

// ErrResultOf reports whether v is the error-typed result of a call whose callee matches.
func ErrResultOf(v ssa.Value, match func(string) bool) bool {
	c, idx := CallOf(Origin(v))
	if c == nil {
		return false
	}
	if !match(CalleeName(c)) {
		return false
	}
	sig := c.Common().Signature()
	if sig == nil || idx < 0 || idx >= sig.Results().Len() {
		return false
	}
	return isErrorType(sig.Results().At(idx).Type())
}

func isErrorType(t types.Type) bool {
	if types.Identical(t, types.Universe.Lookup("error").Type()) {
		return true
	}
	// named error-like results (e.g. *FederationError, util.JSONResponse pointers) count too
	_, isPtr := t.Underlying().(*types.Pointer)
	_, isIface := t.Underlying().(*types.Interface)
	return isPtr || isIface
}

// GuardCallErrNil: "err := callee(...); if err != nil { fail }" - passes on err == nil.
// Also accepts "return callee(...)" as a tail call.
func GuardCallErrNil(name string, match func(string) bool) Guard {
	return Guard{
		Name: name,
		Match: func(i *ssa.If) (bool, bool) {
			v, trueMeansNil, ok := NilCheck(i.Cond)
			if !ok {
				return false, false
			}
			if !ErrResultOf(v, match) {
				// phi of error results all from matching calls (e.g. err reassigned in branches)
				if phi, isPhi := Origin(v).(*ssa.Phi); isPhi {
					all := len(phi.Edges) > 0
					for _, e := range phi.Edges {
						if !ErrResultOf(e, match) {
							all = false
						}
					}
					if all {
						return trueMeansNil, true
					}
				}
				return false, false
			}
			return trueMeansNil, true
		},
		TailCall: func(c ssa.CallInstruction) bool { return match(CalleeName(c)) },
		Callee:   match,
	}
}

// GuardCallBool: "if callee(...) {pass}" (want=true) or "if !callee(...) { fail }".
func GuardCallBool(name string, match func(string) bool, want bool) Guard {
	return Guard{
		Name:   name,
		Callee: match,
		Match: func(i *ssa.If) (bool, bool) {
			v, neg := BoolCond(i.Cond)
			c, _ := CallOf(Origin(v))
			if c == nil || !match(CalleeName(c)) {
				return false, false
			}
			// cond true <=> call == !neg
			if want {
				return !neg, true
			}
			return neg, true
		},
	}
}

// GuardCond: arbitrary matcher on the (negation-stripped) condition value.
// match returns (condTrueMeansPass, ok) for the stripped value; negation is applied here.
func GuardCond(name string, match func(v ssa.Value) (bool, bool)) Guard {
	return Guard{
		Name: name,
		Match: func(i *ssa.If) (bool, bool) {
			v, neg := BoolCond(i.Cond)
			p, ok := match(v)
			if !ok {
				return false, false
			}
			if neg {
				p = !p
			}
			return p, true
		},
	}
}

// CheckGate runs Gate and records obligations: one per guard (sites found) and per escape.
func (c *Ctx) CheckGate(rule string, fn *ssa.Function, fnName string, g Guard, success SuccessFn) bool {
	if fn == nil {
		c.Undecided(rule, fmt.Sprintf("%s: success <= %s", fnName, g.Name), "function not found")
		return false
	}
	c.SawFn(fnName)
	r := Gate(fn, g, success)
	min := g.MinSites
	if min == 0 {
		min = 1
	}
	construct := fmt.Sprintf("%s: success <= %s", fnName, g.Name)
	if len(r.Sites)+r.TailSites < min {
		// is the guard's callee still called anywhere in the program? If not it was renamed or
		// restructured and the rule has nothing to anchor on.
		exists := g.Callee == nil
		if g.Callee != nil {
			for _, f := range c.P.SrcFuncs() {
				for _, call := range Calls(f) {
					if g.Callee(CalleeName(call)) {
						exists = true
					}
				}
			}
		}
		// a function without any success return has nothing to guard
		anySuccess := false
		reach := Reachable(fn, nil)
		for _, ret := range Returns(fn) {
			if len(success(ret, reach, nil)) > 0 {
				anySuccess = true
			}
		}
		msg := fmt.Sprintf("guard not found in %s: no branch tests %s (found %d site(s), need %d); a success return is therefore reachable without the check", fnName, g.Name, len(r.Sites)+r.TailSites, min)
		// the check is still made somewhere in the function's region (a helper that reports its
		// verdict in a way the gate does not read: a result struct, a second error value, a
		// callback): whether its failure is honoured is not decided here
		inRegion := false
		if g.Callee != nil {
			for _, dc := range AllDeepCalls(fn, nil) {
				if dc.Fr == nil || !g.Callee(CalleeName(dc.Call)) {
					continue
				}
				skipped := false
				for f := dc.Fr; f != nil; f = f.Parent {
					if g.SkipHelper != nil && g.SkipHelper(f.Callee) {
						skipped = true // a helper the rule says does not stand in for the check
					}
				}
				if !skipped {
					inRegion = true
				}
			}
		}
		if inRegion {
			c.add(rule, construct, c.P.Pos(fn.Pos()), Undecided, msg+" (the check is made in a helper whose verdict the gate could not follow)")
			return false
		}
		if od := OpaqueDispatch(fn); od != "" {
			c.add(rule, construct, c.P.Pos(fn.Pos()), Undecided, msg+" (the routine works through "+od+": the steps behind it are not visible to the gate)")
			return false
		}
		if fv := FuncValueFromHelper(fn); fv != "" {
			c.add(rule, construct, c.P.Pos(fn.Pos()), Undecided, msg+" (the routine calls a function value handed out by "+fv+", which can report a failure: the step may be made through it)")
			return false
		}
		if !exists || !anySuccess || g.Callee == nil {
			c.add(rule, construct, c.P.Pos(fn.Pos()), Undecided, msg)
		} else {
			c.Fail(rule, construct, c.P.Pos(fn.Pos()), msg)
		}
		return false
	}
	c.Count("guard_sites", len(r.Sites)+r.TailSites)
	if len(r.Escapes) > 0 {
		var parts []string
		allUncertain := true
		for _, e := range r.Escapes {
			if !e.Uncertain {
				allUncertain = false
			}
		}
		if DeferRewritesResults(fn) {
			// named results rewritten by a deferred function (`defer func() { if err != nil { err = wrap(err) } }()`):
			// every return goes through the result cells and the deferred call, where the gate cannot tell
			// a failure from a success
			c.add(rule, construct, c.P.Pos(InstrPos(r.Escapes[0].Ret)), Undecided, fmt.Sprintf("%s has named results that a deferred function rewrites: which returns are successes is not visible to the gate", fnName))
			return false
		}
		if od := OpaqueDispatch(fn); od != "" && len(r.Sites) == 0 {
			// the guard was only found as a tail/helper site and the routine dispatches opaquely
			c.add(rule, construct, c.P.Pos(InstrPos(r.Escapes[0].Ret)), Undecided, fmt.Sprintf("%s works through %s: which returns follow %s is not visible to the gate", fnName, od, g.Name))
			return false
		}
		if allUncertain {
			c.add(rule, construct, c.P.Pos(InstrPos(r.Escapes[0].Ret)), Undecided, fmt.Sprintf("%s returns, before %s, an error value read from a field or element (return at %s): whether it can be nil there was not traced", fnName, g.Name, c.P.Pos(InstrPos(r.Escapes[0].Ret))))
			return false
		}
		for _, e := range r.Escapes {
			s := "return at " + c.P.Pos(InstrPos(e.Ret))
			if e.Via != nil {
				s += " via block ending " + c.P.Pos(lastPos(e.Via))
			}
			if e.Note != "" {
				s += " (" + e.Note + ")"
			}
			parts = append(parts, s)
		}
		c.Fail(rule, construct, c.P.Pos(InstrPos(r.Escapes[0].Ret)), fmt.Sprintf("entry %s reaches a success return without passing %s: %s", fnName, g.Name, strings.Join(dedup(parts), "; ")))
		return false
	}
	var sites []string
	for _, s := range r.Sites {
		sites = append(sites, c.P.Pos(InstrPos(s)))
	}
	c.Ok(rule, construct, strings.Join(sites, ","), fmt.Sprintf("%d guard site(s), all success returns dominated by the passing edge", len(r.Sites)+r.TailSites))
	return true
}

func lastPos(b *ssa.BasicBlock) token.Pos {
	for i := len(b.Instrs) - 1; i >= 0; i-- {
		if p := b.Instrs[i].Pos(); p.IsValid() {
			return p
		}
	}
	return b.Parent().Pos()
}

func dedup(in []string) []string {
	seen := map[string]bool{}
	var out []string
	for _, s := range in {
		if !seen[s] {
			seen[s] = true
			out = append(out, s)
		}
	}
	return out
}

// MustPrecede: every path from entry to any instruction matching `later` passes an
// instruction matching `earlier` (block-level dominance + intra-block order).
func MustPrecede(fn *ssa.Function, earlier, later func(ssa.Instruction) bool) (laterSites int, bad []ssa.Instruction) {
	var earl []ssa.Instruction
	var lat []ssa.Instruction
	for _, b := range fn.Blocks {
		for _, ins := range b.Instrs {
			if earlier(ins) {
				earl = append(earl, ins)
			}
			if later(ins) {
				lat = append(lat, ins)
			}
		}
	}
	// remove blocks containing an earlier instruction (split at instruction granularity):
	// a later instruction L is fine iff every path entry->L crosses some E.
	for _, l := range lat {
		if !allPathsCross(fn, earl, l) {
			bad = append(bad, l)
		}
	}
	return len(lat), bad
}

func instrIndex(ins ssa.Instruction) int {
	for i, x := range ins.Block().Instrs {
		if x == ins {
			return i
		}
	}
	return -1
}

func allPathsCross(fn *ssa.Function, earl []ssa.Instruction, l ssa.Instruction) bool {
	lb := l.Block()
	li := instrIndex(l)
	// earlier in the same block before l?
	blocked := map[*ssa.BasicBlock]bool{}
	for _, e := range earl {
		if e.Block() == lb {
			if instrIndex(e) < li {
				return true
			}
			continue // after l in the same block: does not help on the first visit... but may via a loop; ignore
		}
		blocked[e.Block()] = true
	}
	// reach lb from entry avoiding blocked blocks
	if len(fn.Blocks) == 0 {
		return true
	}
	entry := fn.Blocks[0]
	if blocked[entry] {
		return true
	}
	reached := searchEdges(entry, nil, func(b, pred *ssa.BasicBlock) (bool, bool) {
		if b == lb {
			return true, false
		}
		return false, blocked[b] && b != entry
	})
	return !reached
}

// IsCallTo builds an instruction predicate.
func IsCallTo(match func(string) bool) func(ssa.Instruction) bool {
	return func(ins ssa.Instruction) bool {
		c, ok := ins.(ssa.CallInstruction)
		return ok && match(CalleeName(c))
	}
}

// IsTail adapts a name matcher to a tail-call recogniser.
func IsTail(match func(string) bool) func(ssa.CallInstruction) bool {
	return func(c ssa.CallInstruction) bool { return match(CalleeName(c)) }
}

// globalNonNil: a package-level variable that is assigned exactly once, in the package
// initialiser, with a non-nil value (the sentinel-error idiom `var ErrX = errors.New(...)`).
func globalNonNil(g *ssa.Global, memo nonNilMemo, depth int) bool {
	pkg := g.Pkg
	if pkg == nil {
		return false
	}
	stores := 0
	ok := false
	for _, m := range pkg.Members {
		fn, isFn := m.(*ssa.Function)
		if !isFn {
			continue
		}
		var visit func(f *ssa.Function)
		visit = func(f *ssa.Function) {
			for _, b := range f.Blocks {
				for _, ins := range b.Instrs {
					if st, isSt := ins.(*ssa.Store); isSt && st.Addr == ssa.Value(g) {
						stores++
						if f.Name() == "init" && !mayBeNilValue(st.Val, b, memo, depth+1, map[ssa.Value]bool{}) {
							ok = true
						}
					}
				}
			}
			for _, a := range f.AnonFuncs {
				visit(a)
			}
		}
		visit(fn)
	}
	// methods are not package members: scan them too
	return ok && stores == 1
}

// PathAvoiding reports whether some path from the start of block `from` reaches instruction
// `to` without executing any instruction in `must` (a path may not re-enter `from`'s start).
func PathAvoiding(from *ssa.BasicBlock, must []ssa.Instruction, to ssa.Instruction) bool {
	return PathAvoidingEdges(from, must, to, nil)
}

// PathAvoidingEdges is PathAvoiding on the graph without the given edges (paths a rule
// excludes by their condition, e.g. "the event is already marked redacted").
func PathAvoidingEdges(from *ssa.BasicBlock, must []ssa.Instruction, to ssa.Instruction, removed map[Edge]bool) bool {
	tb := to.Block()
	ti := instrIndex(to)
	blockedAt := map[*ssa.BasicBlock]int{} // first index of a must instruction in the block
	for _, m := range must {
		i := instrIndex(m)
		if cur, ok := blockedAt[m.Block()]; !ok || i < cur {
			blockedAt[m.Block()] = i
		}
	}
	return searchEdges(from, removed, func(b, pred *ssa.BasicBlock) (bool, bool) {
		bi, blocked := blockedAt[b]
		if b == tb {
			if !blocked || bi > ti {
				return true, false
			}
		}
		return false, blocked
	})
}

// MustCallSites lists the instructions of fn that are a call matching `match`, or a call to a
// repository helper every normal return of which is preceded (on all paths) by such a call -
// the points which, once passed, guarantee that the matched callee has run.
func MustCallSites(fn *ssa.Function, match func(string) bool) []ssa.Instruction {
	return mustCallSites(fn, match, map[*ssa.Function]bool{})
}

func mustCallSites(fn *ssa.Function, match func(string) bool, busy map[*ssa.Function]bool) []ssa.Instruction {
	var out []ssa.Instruction
	for _, call := range Calls(fn) {
		if match(CalleeName(call)) {
			out = append(out, call)
			continue
		}
		cc, ok := call.(*ssa.Call)
		if !ok {
			continue
		}
		h := Followable(cc, nil)
		if h == nil || busy[h] || len(busy) > 3 {
			continue
		}
		busy[h] = true
		inner := mustCallSites(h, match, busy)
		delete(busy, h)
		if len(inner) == 0 {
			continue
		}
		always := true
		for _, r := range Returns(h) {
			if PathAvoiding(h.Blocks[0], inner, r) {
				always = false
				break
			}
		}
		if always {
			out = append(out, call)
		}
	}
	return out
}

// GatePassEdges: the passing edges of guard g in fn (direct tests and tests of helpers whose
// success implies the guard), and the number of guard sites.
func GatePassEdges(fn *ssa.Function, g Guard) (pass map[Edge]bool, sites int) {
	pass = map[Edge]bool{}
	for _, i := range Ifs(fn) {
		passOnTrue, ok := g.Match(i)
		if !ok {
			passOnTrue, ok = helperSite(i, g)
		}
		if !ok {
			continue
		}
		sites++
		pass[IfEdge(i.Block(), passOnTrue)] = true
	}
	return
}

// ReachableWithin: is `to` reachable from block `from` (edge-sensitively) without taking any
// edge of `removed` and without re-entering `from` through a back edge?
func ReachableWithin(from *ssa.BasicBlock, to ssa.Instruction, removed map[Edge]bool) bool {
	rm := map[Edge]bool{}
	for e := range removed {
		rm[e] = true
	}
	for _, p := range from.Preds {
		if from.Dominates(p) {
			rm[Edge{p, from}] = true
		}
	}
	first := true
	return searchEdges(from, rm, func(b, pred *ssa.BasicBlock) (bool, bool) {
		if first {
			first = false
			return b == to.Block() && false, false
		}
		return b == to.Block(), false
	})
}

// DeferRewritesResults: fn has named results and defers a function literal that captures one of
// them (its result cells are then read and written behind every return).
func DeferRewritesResults(fn *ssa.Function) bool {
	res := fn.Signature.Results()
	named := map[string]bool{}
	for i := 0; i < res.Len(); i++ {
		if n := res.At(i).Name(); n != "" && n != "_" {
			named[n] = true
		}
	}
	if len(named) == 0 {
		return false
	}
	for _, b := range fn.Blocks {
		for _, ins := range b.Instrs {
			d, ok := ins.(*ssa.Defer)
			if !ok {
				continue
			}
			mc, isMC := d.Call.Value.(*ssa.MakeClosure)
			if !isMC {
				continue
			}
			for _, bv := range mc.Bindings {
				if al, isAl := bv.(*ssa.Alloc); isAl && named[al.Comment] {
					return true
				}
			}
		}
	}
	return false
}

// FuncValueFromHelper: fn calls, dynamically, a function value that an unexported repository
// routine returned (a method value chosen per room version, a step made by a factory) and whose
// results include an error. Returns the helper's name, or "".
func FuncValueFromHelper(fn *ssa.Function) string {
	for _, call := range Calls(fn) {
		cc := call.Common()
		if cc.IsInvoke() || cc.StaticCallee() != nil {
			continue
		}
		if _, isB := cc.Value.(*ssa.Builtin); isB {
			continue
		}
		sig, ok := cc.Value.Type().Underlying().(*types.Signature)
		if !ok {
			continue
		}
		hasErr := false
		for i := 0; i < sig.Results().Len(); i++ {
			if sig.Results().At(i).Type().String() == "error" {
				hasErr = true
			}
		}
		if !hasErr {
			continue
		}
		v := LoadOrigin(Unwrap(cc.Value))
		if ex, isEx := v.(*ssa.Extract); isEx {
			v = ex.Tuple
		}
		if hc, isCall := v.(*ssa.Call); isCall {
			if h := hc.Common().StaticCallee(); h != nil && h.Pkg != nil && fn.Pkg != nil && h.Pkg == fn.Pkg && !exportedFunc(h) {
				return FuncName(h)
			}
		}
	}
	return ""
}
