package fw

import (
	"golang.org/x/tools/go/ssa"
)

// PhiEdgeReaches: can control that enters phi's block through its i-th incoming edge reach
// the instruction `use`? The search evaluates branch conditions with every phi of that block
// replaced by its i-th operand and knows the condition under which the edge itself is taken
// (the branch that ends the predecessor, and the facts dominating it): a branch whose
// condition is thereby decided is followed only along the feasible edge. So for
//
//	payload, err := marshal(x)
//	if err == nil { payload, err = canonical(payload) }
//	if err != nil { return err }
//	use(payload)
//
// the alternative "payload is marshal's result" (the edge on which err != nil) does not reach
// use. Undecided branches are followed both ways, so the answer errs towards "reaches".
func PhiEdgeReaches(phi *ssa.Phi, i int, use ssa.Instruction) bool {
	b := phi.Block()
	if i >= len(b.Preds) || use == nil || use.Parent() != phi.Parent() {
		return true
	}
	pred := b.Preds[i]
	// facts: the literal of the branch ending pred (if it selects this edge) and pred's dominating facts
	facts := map[string]bool{}
	if iff, ok := lastIf(pred); ok && pred.Succs[0] != pred.Succs[1] {
		cv, neg := BoolCond(iff.Cond)
		pos := pred.Succs[0] == b
		if neg {
			pos = !pos
		}
		l := mkLit(cv, pos)
		facts[l.Atom] = l.Pos
	}
	for _, f := range DomConds(pred) {
		cv, neg := BoolCond(f.If.Cond)
		_ = neg
		l := mkLit(cv, f.Taken)
		facts[l.Atom] = l.Pos
	}
	// substitution: every phi of b becomes its i-th operand
	old := sigValSubst
	sub := map[ssa.Value]ssa.Value{}
	for k, v := range old {
		sub[k] = v
	}
	for _, ins := range b.Instrs {
		p, ok := ins.(*ssa.Phi)
		if !ok {
			break
		}
		if i < len(p.Edges) {
			sub[p] = p.Edges[i]
		}
	}
	sigValSubst = sub
	defer func() { sigValSubst = old }()

	seen := map[*ssa.BasicBlock]bool{}
	work := []*ssa.BasicBlock{b}
	first := true
	for len(work) > 0 {
		x := work[len(work)-1]
		work = work[:len(work)-1]
		if seen[x] {
			continue
		}
		// re-entering b through another edge invalidates the substitution: stop there
		if x == b && !first {
			continue
		}
		first = false
		seen[x] = true
		if x == use.Block() {
			return true
		}
		succs := x.Succs
		if iff, ok := lastIf(x); ok && len(succs) == 2 && succs[0] != succs[1] {
			cv, neg := BoolCond(iff.Cond)
			l := mkLit(cv, true)
			if val, known := facts[l.Atom]; known {
				// cond cv has value val (after ==-normalisation: l.Pos tells the polarity of the atom for cv true)
				cvTrue := val == l.Pos
				condTrue := cvTrue != neg
				if condTrue {
					succs = succs[:1]
				} else {
					succs = succs[1:]
				}
			}
		}
		work = append(work, succs...)
	}
	return false
}

// FeasibleReach: is block target reachable from the entry of fn, without the removed edges,
// along a path that is consistent with what the path itself establishes about nil tests?
// The search keeps, per path, the truth of the nil-test atoms decided by the branches taken
// and the operand each phi received on the edge taken (so `err := f(); if err == nil { err =
// g() }; if err != nil { return err }; return nil` is understood: the final return is not
// reachable from the edge on which f's error was non-nil). Only nil tests are tracked; the
// search is bounded and answers "reachable" when the bound is hit.
func FeasibleReach(fn *ssa.Function, removed map[Edge]bool, target *ssa.BasicBlock) bool {
	type state struct {
		b     *ssa.BasicBlock
		facts map[string]bool
		binds map[ssa.Value]ssa.Value
	}
	keyOf := func(s state) string {
		k := s.b.String()
		var parts []string
		for a, v := range s.facts {
			if v {
				parts = append(parts, a+"=T")
			} else {
				parts = append(parts, a+"=F")
			}
		}
		for p, v := range s.binds {
			parts = append(parts, p.Name()+"<-"+v.Name())
		}
		sortStrings(parts)
		for _, p := range parts {
			k += "|" + p
		}
		return k
	}
	isNilTest := func(v ssa.Value) bool {
		bo, ok := v.(*ssa.BinOp)
		return ok && (isNilConst(bo.X) || isNilConst(bo.Y))
	}
	seen := map[string]bool{}
	work := []state{{fn.Blocks[0], map[string]bool{}, map[ssa.Value]ssa.Value{}}}
	steps := 0
	for len(work) > 0 {
		s := work[len(work)-1]
		work = work[:len(work)-1]
		if s.b == target {
			return true
		}
		k := keyOf(s)
		if seen[k] {
			continue
		}
		seen[k] = true
		steps++
		if steps > 20000 {
			return true
		}
		succs := s.b.Succs
		var lit *Lit
		if iff, ok := lastIf(s.b); ok && len(succs) == 2 && succs[0] != succs[1] {
			cv, neg := BoolCond(iff.Cond)
			if isNilTest(cv) {
				old := sigValSubst
				sigValSubst = s.binds
				l := mkLit(cv, true)
				sigValSubst = old
				if val, known := s.facts[l.Atom]; known {
					cvTrue := val == l.Pos
					if cvTrue != neg {
						succs = succs[:1]
					} else {
						succs = succs[1:]
					}
				} else {
					ll := l
					lit = &ll
					_ = neg
				}
			}
		}
		for _, nx := range succs {
			if removed[Edge{s.b, nx}] {
				continue
			}
			nf := map[string]bool{}
			for a, v := range s.facts {
				nf[a] = v
			}
			if lit != nil {
				iff, _ := lastIf(s.b)
				_, neg := BoolCond(iff.Cond)
				condTrue := nx == s.b.Succs[0]
				cvTrue := condTrue != neg
				// atom value: l.Pos when cv true
				if cvTrue {
					nf[lit.Atom] = lit.Pos
				} else {
					nf[lit.Atom] = !lit.Pos
				}
			}
			nb := map[ssa.Value]ssa.Value{}
			for p, v := range s.binds {
				nb[p] = v
			}
			pi := -1
			for i, p := range nx.Preds {
				if p == s.b {
					pi = i
				}
			}
			for _, ins := range nx.Instrs {
				phi, ok := ins.(*ssa.Phi)
				if !ok {
					break
				}
				if pi >= 0 && pi < len(phi.Edges) {
					e := phi.Edges[pi]
					if b2, ok := s.binds[e]; ok {
						e = b2
					}
					nb[phi] = e
				}
			}
			work = append(work, state{nx, nf, nb})
		}
	}
	return false
}

func sortStrings(a []string) {
	for i := 1; i < len(a); i++ {
		for j := i; j > 0 && a[j] < a[j-1]; j-- {
			a[j], a[j-1] = a[j-1], a[j]
		}
	}
}
