package fw

import (
	"golang.org/x/tools/go/ssa"
)

// PhiEdgeReaches: can control that enters phi's block through its i-th incoming edge reach
// the instruction `use`? The search evaluates branch conditions with every phi of that block
// replaced by its i-th operand and knows the condition under which the edge itself is taken
// (the branch that ends the predecessor, and the facts dominating it): a branch whose
// condition is thereby decided is followed only along the feasible edge. So for
//
//	payload, err := marshal(x)
//	if err == nil { payload, err = canonical(payload) }
//	if err != nil { return err }
//	use(payload)
//
// the alternative "payload is marshal's result" (the edge on which err != nil) does not reach
// use. Undecided branches are followed both ways, so the answer errs towards "reaches".
func PhiEdgeReaches(phi *ssa.Phi, i int, use ssa.Instruction) bool {
	b := phi.Block()
	if i >= len(b.Preds) || use == nil || use.Parent() != phi.Parent() {
		return true
	}
	pred := b.Preds[i]
	// facts: the literal of the branch ending pred (if it selects this edge) and pred's dominating facts
	facts := map[string]bool{}
	if iff, ok := lastIf(pred); ok && pred.Succs[0] != pred.Succs[1] {
		cv, neg := BoolCond(iff.Cond)
		pos := pred.Succs[0] == b
		if neg {
			pos = !pos
		}
		l := mkLit(cv, pos)
		facts[l.Atom] = l.Pos
	}
	for _, f := range DomConds(pred) {
		cv, neg := BoolCond(f.If.Cond)
		_ = neg
		l := mkLit(cv, f.Taken)
		facts[l.Atom] = l.Pos
	}
	// substitution: every phi of b becomes its i-th operand
	old := sigValSubst
	sub := map[ssa.Value]ssa.Value{}
	for k, v := range old {
		sub[k] = v
	}
	for _, ins := range b.Instrs {
		p, ok := ins.(*ssa.Phi)
		if !ok {
			break
		}
		if i < len(p.Edges) {
			sub[p] = p.Edges[i]
		}
	}
	sigValSubst = sub
	defer func() { sigValSubst = old }()

	seen := map[*ssa.BasicBlock]bool{}
	work := []*ssa.BasicBlock{b}
	first := true
	for len(work) > 0 {
		x := work[len(work)-1]
		work = work[:len(work)-1]
		if seen[x] {
			continue
		}
		// re-entering b through another edge invalidates the substitution: stop there
		if x == b && !first {
			continue
		}
		first = false
		seen[x] = true
		if x == use.Block() {
			return true
		}
		succs := x.Succs
		if iff, ok := lastIf(x); ok && len(succs) == 2 && succs[0] != succs[1] {
			cv, neg := BoolCond(iff.Cond)
			l := mkLit(cv, true)
			if val, known := facts[l.Atom]; known {
				// cond cv has value val (after ==-normalisation: l.Pos tells the polarity of the atom for cv true)
				cvTrue := val == l.Pos
				condTrue := cvTrue != neg
				if condTrue {
					succs = succs[:1]
				} else {
					succs = succs[1:]
				}
			}
		}
		work = append(work, succs...)
	}
	return false
}
