package fw

import (
	"fmt"
	"go/ast"
	"go/constant"
	"go/token"
	"go/types"
	"reflect"
	"sort"
	"strings"

	"golang.org/x/tools/go/packages"
)

// ---- engine A: evaluation of package-level literals (typed AST) ----

// Val is an evaluated literal.
type Val struct {
	Kind   string // "const", "func", "map", "struct", "list", "nil", "unknown"
	Const  constant.Value
	Func   string // short full name of the function object
	Keys   []Val  // map keys, in source order
	Elems  []Val  // map values / list elements
	Fields map[string]Val
	Type   string
	Pos    token.Pos
	Expr   string
}

func (v Val) String() string {
	switch v.Kind {
	case "const":
		if v.Const.Kind() == constant.String {
			return constant.StringVal(v.Const)
		}
		return v.Const.ExactString()
	case "func":
		return v.Func
	case "nil":
		return "nil"
	case "list":
		var s []string
		for _, e := range v.Elems {
			s = append(s, e.String())
		}
		return "[" + strings.Join(s, ",") + "]"
	}
	return v.Kind + ":" + v.Expr
}

// Str returns the string constant value.
func (v Val) Str() (string, bool) {
	if v.Kind == "const" && v.Const.Kind() == constant.String {
		return constant.StringVal(v.Const), true
	}
	return "", false
}

// Evaluator evaluates expressions of one package.
type Evaluator struct {
	P   *Program
	Pkg *packages.Package
}

// PkgVarInit finds the initialiser expression of a package-level variable.
func PkgVarInit(pkg *packages.Package, name string) (ast.Expr, token.Pos) {
	for _, f := range pkg.Syntax {
		for _, d := range f.Decls {
			gd, ok := d.(*ast.GenDecl)
			if !ok || gd.Tok != token.VAR {
				continue
			}
			for _, sp := range gd.Specs {
				vs := sp.(*ast.ValueSpec)
				for i, n := range vs.Names {
					if n.Name == name && i < len(vs.Values) {
						return vs.Values[i], n.Pos()
					}
				}
			}
		}
	}
	return nil, token.NoPos
}

func (e *Evaluator) Eval(x ast.Expr) Val {
	return e.eval(x, 0)
}

func (e *Evaluator) eval(x ast.Expr, depth int) Val {
	info := e.Pkg.TypesInfo
	base := Val{Kind: "unknown", Pos: x.Pos(), Expr: types.ExprString(x)}
	if depth > 6 {
		return base
	}
	if tv, ok := info.Types[x]; ok {
		if tv.Value != nil {
			return Val{Kind: "const", Const: tv.Value, Pos: x.Pos(), Expr: base.Expr, Type: Short(tv.Type.String())}
		}
		if tv.IsNil() {
			return Val{Kind: "nil", Pos: x.Pos(), Expr: base.Expr}
		}
		base.Type = Short(tv.Type.String())
	}
	switch n := x.(type) {
	case *ast.ParenExpr:
		return e.eval(n.X, depth)
	case *ast.UnaryExpr:
		if n.Op == token.AND {
			return e.eval(n.X, depth)
		}
	case *ast.CallExpr:
		// conversion T(x)
		if tv, ok := info.Types[n.Fun]; ok && tv.IsType() && len(n.Args) == 1 {
			return e.eval(n.Args[0], depth+1)
		}
	case *ast.Ident, *ast.SelectorExpr:
		var id *ast.Ident
		if s, ok := n.(*ast.SelectorExpr); ok {
			id = s.Sel
		} else {
			id = n.(*ast.Ident)
		}
		obj := info.Uses[id]
		switch o := obj.(type) {
		case *types.Func:
			return Val{Kind: "func", Func: Short(o.FullName()), Pos: x.Pos(), Expr: base.Expr}
		case *types.Var:
			// follow package-level variables with an initialiser
			if o.Pkg() != nil && o.Parent() == o.Pkg().Scope() {
				if pk := e.P.Pkgs[o.Pkg().Path()]; pk != nil {
					if init, _ := PkgVarInit(pk, o.Name()); init != nil {
						sub := &Evaluator{P: e.P, Pkg: pk}
						return sub.eval(init, depth+1)
					}
				}
			}
		case *types.Nil:
			return Val{Kind: "nil", Pos: x.Pos(), Expr: base.Expr}
		}
	case *ast.CompositeLit:
		tv := info.Types[n]
		if tv.Type == nil {
			return base
		}
		switch ut := tv.Type.Underlying().(type) {
		case *types.Map:
			v := Val{Kind: "map", Pos: x.Pos(), Type: Short(tv.Type.String()), Expr: "map literal"}
			for _, el := range n.Elts {
				kv, ok := el.(*ast.KeyValueExpr)
				if !ok {
					return base
				}
				v.Keys = append(v.Keys, e.eval(kv.Key, depth+1))
				v.Elems = append(v.Elems, e.evalElem(kv.Value, ut.Elem(), depth+1))
			}
			return v
		case *types.Struct:
			v := Val{Kind: "struct", Pos: x.Pos(), Type: Short(tv.Type.String()), Fields: map[string]Val{}, Expr: "struct literal"}
			for i, el := range n.Elts {
				if kv, ok := el.(*ast.KeyValueExpr); ok {
					if id, ok := kv.Key.(*ast.Ident); ok {
						v.Fields[id.Name] = e.eval(kv.Value, depth+1)
						continue
					}
					return base
				}
				if i < ut.NumFields() {
					v.Fields[ut.Field(i).Name()] = e.eval(el, depth+1)
				}
			}
			return v
		case *types.Slice, *types.Array:
			v := Val{Kind: "list", Pos: x.Pos(), Type: Short(tv.Type.String()), Expr: "list literal"}
			var elemT types.Type
			if s, ok := ut.(*types.Slice); ok {
				elemT = s.Elem()
			} else {
				elemT = ut.(*types.Array).Elem()
			}
			for _, el := range n.Elts {
				if kv, ok := el.(*ast.KeyValueExpr); ok {
					el = kv.Value
				}
				v.Elems = append(v.Elems, e.evalElem(el, elemT, depth+1))
			}
			return v
		}
	}
	return base
}

// evalElem evaluates an element whose composite-literal type may be elided.
func (e *Evaluator) evalElem(x ast.Expr, elemT types.Type, depth int) Val {
	if cl, ok := x.(*ast.CompositeLit); ok && cl.Type == nil {
		// elided type: TypesInfo still records the type for the literal
		_ = elemT
	}
	return e.eval(x, depth)
}

// StructFieldNames lists the field names of a named struct type in a package, in order.
func StructFieldNames(pkg *packages.Package, typeName string) ([]string, *types.Struct) {
	obj := pkg.Types.Scope().Lookup(typeName)
	if obj == nil {
		return nil, nil
	}
	st, ok := obj.Type().Underlying().(*types.Struct)
	if !ok {
		return nil, nil
	}
	var names []string
	for i := 0; i < st.NumFields(); i++ {
		names = append(names, st.Field(i).Name())
	}
	return names, st
}

// JSONTags returns field name -> json key (without options) for a struct type, "" if none / "-".
func JSONTags(st *types.Struct) map[string]string {
	out := map[string]string{}
	for i := 0; i < st.NumFields(); i++ {
		tag := reflect.StructTag(st.Tag(i)).Get("json")
		name := strings.Split(tag, ",")[0]
		out[st.Field(i).Name()] = name
	}
	return out
}

// ConstValue looks up a package-level constant.
func ConstValue(pkg *packages.Package, name string) (constant.Value, bool) {
	obj := pkg.Types.Scope().Lookup(name)
	c, ok := obj.(*types.Const)
	if !ok {
		return nil, false
	}
	return c.Val(), true
}

// SortedKeys of a string-keyed map.
func SortedKeys[V any](m map[string]V) []string {
	out := make([]string, 0, len(m))
	for k := range m {
		out = append(out, k)
	}
	sort.Strings(out)
	return out
}

// DescribeVal renders a value for reports.
func DescribeVal(v Val) string {
	switch v.Kind {
	case "unknown":
		return fmt.Sprintf("<unrecognised: %s>", v.Expr)
	}
	return v.String()
}
