package fw

import (
	"go/types"
	"sort"

	"golang.org/x/tools/go/callgraph"
	"golang.org/x/tools/go/ssa"
)

// ---- engine C: effects and ownership ----

// ReachableFuncs returns the functions reachable from roots in graph g (roots included),
// following only edges whose callee satisfies follow (nil = all).
func ReachableFuncs(g *callgraph.Graph, roots []*ssa.Function, follow func(*ssa.Function) bool) map[*ssa.Function][]*ssa.Function {
	// value: a call chain (root ... fn) for reporting
	chain := map[*ssa.Function][]*ssa.Function{}
	var work []*ssa.Function
	for _, r := range roots {
		if r == nil {
			continue
		}
		chain[r] = []*ssa.Function{r}
		work = append(work, r)
	}
	for len(work) > 0 {
		f := work[0]
		work = work[1:]
		n := g.Nodes[f]
		if n == nil {
			continue
		}
		// deterministic order
		outs := append([]*callgraph.Edge(nil), n.Out...)
		sort.Slice(outs, func(i, j int) bool { return outs[i].Callee.Func.String() < outs[j].Callee.Func.String() })
		for _, e := range outs {
			cal := e.Callee.Func
			if _, ok := chain[cal]; ok {
				continue
			}
			if follow != nil && !follow(cal) {
				continue
			}
			chain[cal] = append(append([]*ssa.Function(nil), chain[f]...), cal)
			work = append(work, cal)
		}
		// anonymous functions defined inside f are considered reachable with f
		for _, a := range f.AnonFuncs {
			if _, ok := chain[a]; !ok {
				chain[a] = append(append([]*ssa.Function(nil), chain[f]...), a)
				work = append(work, a)
			}
		}
	}
	return chain
}

// ChainString renders a call chain.
func ChainString(ch []*ssa.Function) string {
	s := ""
	for i, f := range ch {
		if i > 0 {
			s += " -> "
		}
		s += FuncName(f)
	}
	return s
}

// AddrRoot walks an address expression (FieldAddr / IndexAddr / loads of pointers) back
// to its base value, collecting the struct fields traversed (outermost first).
type AddrPath struct {
	Base   ssa.Value
	Fields []*types.Var // fields traversed from base to the address
	Index  bool         // an IndexAddr / map element was traversed
}

func WalkAddr(addr ssa.Value) AddrPath {
	var p AddrPath
	v := addr
	for i := 0; i < 32; i++ {
		switch x := v.(type) {
		case *ssa.FieldAddr:
			st := derefStruct(x.X.Type())
			if st != nil {
				p.Fields = append([]*types.Var{st.Field(x.Field)}, p.Fields...)
			}
			v = x.X
			continue
		case *ssa.Field:
			st, _ := x.X.Type().Underlying().(*types.Struct)
			if st != nil {
				p.Fields = append([]*types.Var{st.Field(x.Field)}, p.Fields...)
			}
			v = x.X
			continue
		case *ssa.IndexAddr:
			p.Index = true
			v = x.X
			continue
		case *ssa.UnOp:
			// load of a pointer stored somewhere: *(&s.f) - keep walking through the address
			v = x.X
			continue
		case *ssa.ChangeType:
			v = x.X
			continue
		case *ssa.Convert:
			v = x.X
			continue
		}
		break
	}
	p.Base = v
	return p
}

func derefStruct(t types.Type) *types.Struct {
	if p, ok := t.Underlying().(*types.Pointer); ok {
		t = p.Elem()
	}
	st, _ := t.Underlying().(*types.Struct)
	return st
}

// Write is a memory write found in a function.
type Write struct {
	Fn    *ssa.Function
	Instr ssa.Instruction
	Path  AddrPath
	Kind  string // "store", "mapupdate", "delete"
}

// WritesIn lists the stores and map updates of fn.
func WritesIn(fn *ssa.Function) []Write {
	var out []Write
	for _, b := range fn.Blocks {
		for _, ins := range b.Instrs {
			switch x := ins.(type) {
			case *ssa.Store:
				out = append(out, Write{Fn: fn, Instr: ins, Path: WalkAddr(x.Addr), Kind: "store"})
			case *ssa.MapUpdate:
				p := WalkAddr(x.Map)
				p.Index = true
				out = append(out, Write{Fn: fn, Instr: ins, Path: p, Kind: "mapupdate"})
			case ssa.CallInstruction:
				if b, ok := x.Common().Value.(*ssa.Builtin); ok && b.Name() == "delete" && len(x.Common().Args) > 0 {
					p := WalkAddr(x.Common().Args[0])
					p.Index = true
					out = append(out, Write{Fn: fn, Instr: ins, Path: p, Kind: "delete"})
				}
			}
		}
	}
	return out
}

// FieldOf reports whether field f is a field of the named struct type (pkg-qualified short name).
func FieldOwner(p *Program, f *types.Var) string {
	// find the struct that declares f among repo packages
	for _, pk := range p.All {
		sc := pk.Types.Scope()
		for _, n := range sc.Names() {
			tn, ok := sc.Lookup(n).(*types.TypeName)
			if !ok {
				continue
			}
			st, ok := tn.Type().Underlying().(*types.Struct)
			if !ok {
				continue
			}
			for i := 0; i < st.NumFields(); i++ {
				if st.Field(i) == f {
					return Short(pk.PkgPath) + "." + n
				}
			}
		}
	}
	return ""
}

// StructFields returns the *types.Var fields of a named struct in the package.
func StructFields(p *Program, pkgShort, typeName string) map[string]*types.Var {
	pk := p.Pkg(pkgShort)
	if pk == nil {
		return nil
	}
	obj := pk.Types.Scope().Lookup(typeName)
	if obj == nil {
		return nil
	}
	st, ok := obj.Type().Underlying().(*types.Struct)
	if !ok {
		return nil
	}
	out := map[string]*types.Var{}
	for i := 0; i < st.NumFields(); i++ {
		out[st.Field(i).Name()] = st.Field(i)
	}
	return out
}

func typeString(t types.Type) string {
	if p, ok := t.Underlying().(*types.Pointer); ok {
		return p.Elem().String()
	}
	return t.String()
}

func hasSuffix(s, suf string) bool {
	return len(s) >= len(suf) && s[len(s)-len(suf):] == suf
}
