package fw

import (
	"fmt"
	"strings"

	"golang.org/x/tools/go/ssa"
)

// DumpFunc prints the interesting instructions of a function with their structural
// signatures and dominating conditions (a development aid for writing rule instances).
func DumpFunc(p *Program, spec string) {
	fn := p.Func(spec)
	if fn == nil {
		fmt.Println("not found:", spec)
		return
	}
	var visit func(f *ssa.Function)
	visit = func(f *ssa.Function) {
		fmt.Println("==", FuncName(f), f.Name())
		for _, b := range f.Blocks {
			for _, ins := range b.Instrs {
				var desc string
				switch x := ins.(type) {
				case *ssa.MapUpdate:
					desc = "mapupdate " + Sig(x.Map) + "[" + Sig(x.Key) + "] = " + Sig(x.Value)
				case *ssa.Store:
					desc = "store " + Sig(x.Addr) + " = " + Sig(x.Val)
				case *ssa.Return:
					var rs []string
					for _, r := range x.Results {
						rs = append(rs, Sig(r))
					}
					desc = "return " + strings.Join(rs, ", ")
				case *ssa.Call:
					desc = "call " + Sig(x)
				case *ssa.Go:
					desc = "go " + CalleeName(x)
				case *ssa.Defer:
					desc = "defer " + CalleeName(x)
				case *ssa.Panic:
					desc = "panic " + Sig(x.X)
				default:
					continue
				}
				fmt.Printf("  b%d %s: %s\n      if: %s\n", b.Index, p.Pos(InstrPos(ins)), desc, strings.Join(CondStrings(b), " && "))
			}
		}
		for _, a := range f.AnonFuncs {
			visit(a)
		}
	}
	visit(fn)
}
