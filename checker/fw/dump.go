package fw

import (
	"fmt"
	"go/ast"
	"go/printer"
	"go/token"
	"go/types"
	"os"
	"sort"
	"strings"

	"golang.org/x/tools/go/ssa"
)

// DumpFunc prints the interesting instructions of a function with their structural
// signatures and dominating conditions (a development aid for writing rule instances).
func DumpFunc(p *Program, spec string) {
	fn := p.Func(spec)
	if fn == nil {
		fmt.Println("not found:", spec)
		return
	}
	var visit func(f *ssa.Function)
	visit = func(f *ssa.Function) {
		fmt.Println("==", FuncName(f), f.Name())
		for _, b := range f.Blocks {
			for _, ins := range b.Instrs {
				var desc string
				switch x := ins.(type) {
				case *ssa.MapUpdate:
					desc = "mapupdate " + Sig(x.Map) + "[" + Sig(x.Key) + "] = " + Sig(x.Value)
				case *ssa.Store:
					desc = "store " + Sig(x.Addr) + " = " + Sig(x.Val)
				case *ssa.Return:
					var rs []string
					for _, r := range x.Results {
						rs = append(rs, Sig(r))
					}
					desc = "return " + strings.Join(rs, ", ")
				case *ssa.Call:
					desc = "call " + Sig(x)
				case *ssa.Go:
					desc = "go " + CalleeName(x)
				case *ssa.Defer:
					desc = "defer " + CalleeName(x)
				case *ssa.Panic:
					desc = "panic " + Sig(x.X)
				default:
					continue
				}
				fmt.Printf("  b%d %s: %s\n      if: %s\n", b.Index, p.Pos(InstrPos(ins)), desc, strings.Join(CondStrings(b), " && "))
			}
		}
		for _, a := range f.AnonFuncs {
			visit(a)
		}
	}
	visit(fn)
}

// DumpPanics lists every explicit panic of the repository with its dominating conditions.
func DumpPanics(p *Program) {
	for _, fn := range p.SrcFuncs() {
		for _, b := range fn.Blocks {
			for _, ins := range b.Instrs {
				if pn, ok := ins.(*ssa.Panic); ok {
					var conds []string
					for _, f := range DomConds(b) {
						conds = append(conds, f.String())
					}
					fmt.Printf("%s %s\n    if: %s\n", p.Pos(InstrPos(pn)), FuncName(fn), strings.Join(conds, " && "))
				}
			}
		}
	}
}

// IndexSite is an index or slice operation on a string / byte slice.
type IndexSite struct {
	Fn      *ssa.Function
	Instr   ssa.Instruction
	Base    string
	Index   string
	Kind    string // "index" | "slice"
	Guarded bool
}

// IndexSites lists index/slice operations on strings and byte slices in fn with a simple
// guard recogniser: the access is guarded if a dominating condition compares the same index
// expression (or one at least as large) with len(base), or the index is a range-loop variable.
func IndexSites(fn *ssa.Function) []IndexSite {
	var out []IndexSite
	for _, b := range fn.Blocks {
		for _, ins := range b.Instrs {
			var base, idx ssa.Value
			kind := ""
			var lo, hi ssa.Value
			switch x := ins.(type) {
			case *ssa.IndexAddr:
				base, idx, kind = x.X, x.Index, "index"
			case *ssa.Index:
				base, idx, kind = x.X, x.Index, "index"
			case *ssa.Lookup:
				if _, isMap := x.X.Type().Underlying().(*types.Map); isMap {
					continue
				}
				base, idx, kind = x.X, x.Index, "index"
			case *ssa.Slice:
				base, kind = x.X, "slice"
				lo, hi = x.Low, x.High
			default:
				continue
			}
			if !isByteSeqT(base.Type()) {
				continue
			}
			if _, isConst := base.(*ssa.Const); isConst {
				continue // a constant string is not remote input
			}
			s := IndexSite{Fn: fn, Instr: ins, Base: Sig(base), Kind: kind}
			if kind == "index" {
				s.Index = Sig(idx)
			} else {
				l, h := "", ""
				if lo != nil {
					l = Sig(lo)
				}
				if hi != nil {
					h = Sig(hi)
				}
				s.Index = l + ":" + h
			}
			// guard recogniser
			for _, f := range DomConds(b) {
				c := f.String()
				lenB := "builtin.len(" + s.Base + ")"
				if kind == "index" {
					if c == "("+s.Index+" < "+lenB+")" || c == "!("+s.Index+" >= "+lenB+")" || c == "("+lenB+" > "+s.Index+")" {
						s.Guarded = true
					}
				}
			}
			if _, isArr := base.Type().Underlying().(*types.Pointer); isArr {
				// pointer to array: constant indexes are checked by the compiler
				if _, isC := idx.(*ssa.Const); isC {
					s.Guarded = true
				}
			}
			out = append(out, s)
		}
	}
	return out
}

func isByteSeqT(t types.Type) bool {
	switch u := t.Underlying().(type) {
	case *types.Basic:
		return u.Info()&types.IsString != 0
	case *types.Slice:
		b, ok := u.Elem().Underlying().(*types.Basic)
		return ok && (b.Kind() == types.Byte || b.Kind() == types.Uint8)
	}
	return false
}

// DumpIndexSites prints the index sites of a function.
func DumpIndexSites(p *Program, spec string) {
	fn := p.Func(spec)
	if fn == nil {
		fmt.Println("not found", spec)
		return
	}
	for _, f := range FamilyOf(fn) {
		for _, s := range IndexSites(f) {
			fmt.Printf("%s %s %s %s[%s] guarded=%v\n", p.Pos(InstrPos(s.Instr)), FuncName(f), s.Kind, s.Base, s.Index, s.Guarded)
		}
	}
}

// DumpInlined prints the transformed source of the functions whose name contains sub, and
// the statistics of the transformation.
func DumpInlined(p *Program, sub string) {
	if p.Inlined != nil {
		fmt.Printf("inlined view: %d call sites expanded; skipped: %v\n", p.Inlined.Sites, p.Inlined.Skipped)
		var names []string
		for n, k := range p.Inlined.Callees {
			names = append(names, fmt.Sprintf("%s x%d", Short(n), k))
		}
		sort.Strings(names)
		fmt.Println("callees:", strings.Join(names, ", "))
	}
	for _, pk := range p.All {
		for _, f := range pk.Syntax {
			for _, d := range f.Decls {
				fd, ok := d.(*ast.FuncDecl)
				if !ok || !strings.Contains(fd.Name.Name, sub) {
					continue
				}
				fmt.Printf("// ---- %s (%s)\n", fd.Name.Name, p.Pos(fd.Pos()))
				_ = printer.Fprint(os.Stdout, token.NewFileSet(), fd)
				fmt.Println()
			}
		}
	}
}
