package fw

import (
	"fmt"
	"go/token"
	"go/types"
	"sort"
	"strings"

	"golang.org/x/tools/go/ssa"
)

// ---- engine T: decision tables from SSA path conditions (no execution, no solver) ----

// Lit is an atom (structural signature of a branch condition) with polarity.
type Lit struct {
	Atom string
	Pos  bool
}

func (l Lit) String() string {
	if l.Pos {
		return l.Atom
	}
	return "!" + l.Atom
}

// Term is a conjunction of literals, sorted, without duplicates.
type Term []Lit

// DNF is a disjunction of terms.
type DNF []Term

func (t Term) key() string {
	var sb strings.Builder
	for _, l := range t {
		sb.WriteString(l.String())
		sb.WriteByte('&')
	}
	return sb.String()
}

func (t Term) and(l Lit) (Term, bool) {
	for _, x := range t {
		if x.Atom == l.Atom {
			if x.Pos != l.Pos {
				return nil, false // contradiction
			}
			return t, true
		}
	}
	n := make(Term, 0, len(t)+1)
	n = append(n, t...)
	n = append(n, l)
	sort.Slice(n, func(i, j int) bool { return n[i].Atom < n[j].Atom })
	return n, true
}

func (d DNF) and(l Lit) DNF {
	var out DNF
	for _, t := range d {
		if n, ok := t.and(l); ok {
			out = append(out, n)
		}
	}
	return out
}

func (d DNF) or(e DNF) DNF {
	seen := map[string]bool{}
	var out DNF
	for _, t := range append(append(DNF{}, d...), e...) {
		k := t.key()
		if !seen[k] {
			seen[k] = true
			out = append(out, t)
		}
	}
	return out
}

func (d DNF) String() string {
	var ts []string
	for _, t := range d {
		var ls []string
		for _, l := range t {
			ls = append(ls, l.String())
		}
		if len(ls) == 0 {
			ts = append(ts, "true")
		} else {
			ts = append(ts, strings.Join(ls, " && "))
		}
	}
	if len(ts) == 0 {
		return "false"
	}
	return strings.Join(ts, "  ||  ")
}

const maxTerms = 4096

// AtomInfo remembers where an atom came from, so that it can be expanded on demand.
type AtomInfo struct {
	V     ssa.Value                 // the (negation-stripped, ==-normalised) condition value
	NilOf ssa.Value                 // when set: the atom states "NilOf == nil" (synthesised for tail calls)
	Subst map[*ssa.Parameter]string // parameter substitution in force when it was rendered
}

var atomReg = map[string]AtomInfo{}

// mkLit turns a condition value into a literal: `x != y` becomes the negation of the atom
// `(x == y)`; the atom's origin is registered.
func mkLit(v ssa.Value, pos bool) Lit {
	atom := Sig(v)
	if bo, isB := v.(*ssa.BinOp); isB && (bo.Op == token.NEQ || bo.Op == token.EQL) {
		// == is commutative: constants go right, otherwise the operands are ordered
		x, y := Sig(bo.X), Sig(bo.Y)
		_, xc := bo.X.(*ssa.Const)
		_, yc := bo.Y.(*ssa.Const)
		if (xc && !yc) || (!xc && !yc && x > y) {
			x, y = y, x
		}
		atom = "(" + x + " == " + y + ")"
		if bo.Op == token.NEQ {
			pos = !pos
		}
	}
	if _, ok := atomReg[atom]; !ok {
		atomReg[atom] = AtomInfo{V: v, Subst: sigSubst}
	}
	return Lit{Atom: atom, Pos: pos}
}

// PathConds computes for every block the condition (over branch atoms) under which control
// reaches it from the function entry, ignoring back edges (so inside a loop body the
// condition describes one iteration). ok=false if the DNF grew beyond the bound.
func PathConds(fn *ssa.Function) (map[*ssa.BasicBlock]DNF, bool) {
	c, _, ok := PathCondsE(fn)
	return c, ok
}

// pathBlocked: blocks through which path conditions are not propagated (PathCondsAvoiding).
var pathBlocked map[*ssa.BasicBlock]bool

// PathCondsAvoiding is PathConds restricted to the paths that do not enter any blocked block.
func PathCondsAvoiding(fn *ssa.Function, blocked map[*ssa.BasicBlock]bool) (map[*ssa.BasicBlock]DNF, bool) {
	old := pathBlocked
	pathBlocked = blocked
	defer func() { pathBlocked = old }()
	c, _, ok := PathCondsE(fn)
	return c, ok
}

// PathCondsE also returns the condition of every forward edge.
func PathCondsE(fn *ssa.Function) (map[*ssa.BasicBlock]DNF, map[Edge]DNF, bool) {
	conds := map[*ssa.BasicBlock]DNF{}
	if len(fn.Blocks) == 0 {
		return conds, nil, true
	}
	// reverse postorder over forward edges
	var order []*ssa.BasicBlock
	seen := map[*ssa.BasicBlock]bool{}
	var dfs func(b *ssa.BasicBlock)
	dfs = func(b *ssa.BasicBlock) {
		seen[b] = true
		for _, s := range b.Succs {
			if !seen[s] && !s.Dominates(b) {
				dfs(s)
			}
		}
		order = append(order, b)
	}
	dfs(fn.Blocks[0])
	for i, j := 0, len(order)-1; i < j; i, j = i+1, j-1 {
		order[i], order[j] = order[j], order[i]
	}
	conds[fn.Blocks[0]] = DNF{Term{}}
	edgeConds := map[Edge]DNF{}
	// edgeCond computes the condition of the edge p->b given cond(p) (and, for an If on a
	// boolean phi defined in p itself, the per-predecessor conditions of p).
	edgeCond := func(p, b *ssa.BasicBlock) DNF {
		pc := conds[p]
		iff, isIf := lastIf(p)
		if !isIf || p.Succs[0] == p.Succs[1] {
			return pc
		}
		// a constant condition (a helper expanded with a literal flag argument)
		if cv, cneg := BoolCond(iff.Cond); cv != nil {
			if cst, isC := cv.(*ssa.Const); isC && cst.Value != nil {
				val := cst.Value.String() == "true"
				if cneg {
					val = !val
				}
				if val == (p.Succs[0] == b) {
					return pc
				}
				return nil
			}
		}
		// a test of a merged result variable of an expanded helper (nil test, boolean, comparison
		// with a constant): per incoming edge of the phi the outcome is known, or - for a nil
		// test - is the nil-ness of that edge's operand
		if phi, eval, isTest := PhiTest(iff.Cond); isTest && IsExpansionTemp(phi) && (phi.Block() == p || phi.Block().Dominates(p)) {
			q := phi.Block()
			wantTrue := p.Succs[0] == b
			var d DNF
			usable := true
			_, trueMeansNil, isNil := NilCheck(iff.Cond)
			for i, e := range phi.Edges {
				pp := q.Preds[i]
				if q.Dominates(pp) {
					usable = false // carried around a loop
					break
				}
				ec, have := edgeConds[Edge{pp, q}]
				if !have {
					continue
				}
				val, known := eval(e, pp)
				switch {
				case known && val == wantTrue:
					d = d.or(ec)
				case known:
				case isNil:
					l := nilLit(e)
					l.Pos = wantTrue == trueMeansNil
					d = d.or(ec.and(l))
				default:
					usable = false
				}
				if !usable {
					break
				}
			}
			if usable {
				if q == p {
					return simplify(d)
				}
				return simplify(andDNF(pc, d))
			}
		}
		v, neg := BoolCond(iff.Cond)
		pos := p.Succs[0] == b
		if neg {
			pos = !pos
		}
		if phi, isPhi := v.(*ssa.Phi); isPhi && phi.Block() != p && phi.Block().Dominates(p) && isBoolPhi(phi) {
			// a boolean computed earlier (`x := a && b`) and tested here: x holds iff control entered
			// the phi's block through an edge whose operand is true
			q := phi.Block()
			var d DNF
			for i, e := range phi.Edges {
				pp := q.Preds[i]
				if q.Dominates(pp) {
					continue
				}
				ec := edgeConds[Edge{pp, q}]
				if cst, isC := e.(*ssa.Const); isC && cst.Value != nil {
					if (cst.Value.String() == "true") == pos {
						d = d.or(ec)
					}
					continue
				}
				ev, eneg := BoolCond(e)
				epos := pos
				if eneg {
					epos = !epos
				}
				d = d.or(ec.and(mkLit(ev, epos)))
			}
			return simplify(andDNF(pc, d))
		}
		if phi, isPhi := v.(*ssa.Phi); isPhi && phi.Block() == p {
			// `x := a || b; if x` : expand over the phi's incoming edges
			var d DNF
			for i, e := range phi.Edges {
				pp := p.Preds[i]
				if p.Dominates(pp) {
					continue
				}
				ec := edgeConds[Edge{pp, p}]
				if cst, isC := e.(*ssa.Const); isC && cst.Value != nil {
					if (cst.Value.String() == "true") == pos {
						d = d.or(ec)
					}
					continue
				}
				ev, eneg := BoolCond(e)
				epos := pos
				if eneg {
					epos = !epos
				}
				d = d.or(ec.and(mkLit(ev, epos)))
			}
			return simplify(d)
		}
		return pc.and(mkLit(v, pos))
	}
	for _, b := range order {
		if b == fn.Blocks[0] {
			continue
		}
		var d DNF
		for _, p := range b.Preds {
			if b.Dominates(p) {
				continue // back edge
			}
			if _, ok := conds[p]; !ok {
				continue
			}
			if pathBlocked[p] {
				continue
			}
			edge := edgeCond(p, b)
			edgeConds[Edge{p, b}] = edge
			d = d.or(edge)
			if len(d) > maxTerms {
				return conds, edgeConds, false
			}
		}
		conds[b] = simplify(d)
	}
	return conds, edgeConds, true
}

func lastIf(b *ssa.BasicBlock) (*ssa.If, bool) {
	if len(b.Instrs) == 0 {
		return nil, false
	}
	i, ok := b.Instrs[len(b.Instrs)-1].(*ssa.If)
	return i, ok
}

// simplify merges terms that differ in exactly one literal's polarity (a&x | a&!x = a)
// and removes subsumed terms; repeated to a fixed point (bounded).
func simplify(d DNF) DNF {
	for iter := 0; iter < 8; iter++ {
		changed := false
		// merge
		used := make([]bool, len(d))
		var out DNF
		for i := 0; i < len(d); i++ {
			if used[i] {
				continue
			}
			merged := false
			for j := i + 1; j < len(d) && !merged; j++ {
				if used[j] || len(d[i]) != len(d[j]) {
					continue
				}
				diff := -1
				same := true
				for k := range d[i] {
					if d[i][k].Atom != d[j][k].Atom {
						same = false
						break
					}
					if d[i][k].Pos != d[j][k].Pos {
						if diff >= 0 {
							same = false
							break
						}
						diff = k
					}
				}
				if same && diff >= 0 {
					n := make(Term, 0, len(d[i])-1)
					n = append(n, d[i][:diff]...)
					n = append(n, d[i][diff+1:]...)
					out = append(out, n)
					used[i], used[j] = true, true
					merged, changed = true, true
				}
			}
			if !merged {
				out = append(out, d[i])
				used[i] = true
			}
		}
		// subsumption
		var out2 DNF
		for i, t := range out {
			sub := false
			for j, u := range out {
				if i != j && len(u) < len(t) && subset(u, t) {
					sub = true
					break
				}
				if i > j && len(u) == len(t) && subset(u, t) {
					sub = true
					break
				}
			}
			if !sub {
				out2 = append(out2, t)
			} else {
				changed = true
			}
		}
		d = out2
		if !changed {
			break
		}
	}
	return d
}

func subset(a, b Term) bool {
	for _, l := range a {
		found := false
		for _, m := range b {
			if l == m {
				found = true
				break
			}
		}
		if !found {
			return false
		}
	}
	return true
}

// Row is one leaf of a function's decision table.
type Row struct {
	Cond    DNF
	Outcome string // "accept", "reject", "value:<sig>", "call:<callee>"
	Ret     *ssa.Return
	Call    ssa.CallInstruction // for delegating returns
	Via     *ssa.BasicBlock     // phi predecessor when the return merges several paths
	Val     ssa.Value           // the returned value this row classifies
}

// Table is the decision table of a function.
type Table struct {
	Fn   *ssa.Function
	Rows []Row
}

// ExtractTable builds the table of fn: one row per (return, incoming alternative).
// errIdx is the index of the result that decides accept/reject (error or bool); for
// error results: nil => accept, provably non-nil => reject, a call result => call:<callee>.
func ExtractTable(fn *ssa.Function, resIdx int) (*Table, error) {
	if resIdx < 0 {
		return nil, fmt.Errorf("%s has no result to tabulate", FuncName(fn))
	}
	conds, edgeConds, ok := PathCondsE(fn)
	if !ok {
		return nil, fmt.Errorf("path condition of %s exceeds %d terms", FuncName(fn), maxTerms)
	}
	memo := nonNilMemo{}
	t := &Table{Fn: fn}
	errLike := true
	if res := fn.Signature.Results(); resIdx < res.Len() {
		switch res.At(resIdx).Type().Underlying().(type) {
		case *types.Interface, *types.Pointer:
		default:
			errLike = false
		}
	}
	var classify func(v ssa.Value, b *ssa.BasicBlock, cond DNF, r *ssa.Return)
	classify = func(v ssa.Value, b *ssa.BasicBlock, cond DNF, r *ssa.Return) {
		if len(cond) == 0 {
			return // unreachable
		}
		if phi, isPhi := v.(*ssa.Phi); isPhi {
			pb := phi.Block()
			for i, e := range phi.Edges {
				p := pb.Preds[i]
				pc, have := edgeConds[Edge{p, pb}]
				if !have {
					pc = conds[p]
					if iff, isIf := lastIf(p); isIf && p.Succs[0] != p.Succs[1] {
						cv, neg := BoolCond(iff.Cond)
						pos := p.Succs[0] == pb
						if neg {
							pos = !pos
						}
						pc = pc.and(mkLit(cv, pos))
					}
				}
				if pb != r.Block() && pb.Dominates(r.Block()) && !pb.Dominates(p) {
					// the phi was formed earlier: the return is reached through this edge AND under
					// the conditions that lead from the phi's block to the return
					pc = andDNF(conds[r.Block()], pc)
				}
				classify(e, p, simplify(pc), r)
			}
			return
		}
		// defer-spilled results: `*res = x; rundefers; t = *res; return t`
		if o := Origin(v); o != v {
			if _, isPhi := o.(*ssa.Phi); isPhi {
				classify(o, b, cond, r)
				return
			}
			if _, isLoad := o.(*ssa.UnOp); !isLoad {
				v = o
			}
		}
		row := Row{Cond: cond, Ret: r, Via: b, Val: v}
		if !errLike {
			row.Outcome = "value:" + Sig(v)
			if c, _ := CallOf(Origin(v)); c != nil && isTailOf(r, c) && CalleeName(c) != "" && !strings.HasPrefix(CalleeName(c), "builtin.") {
				row.Outcome = "call:" + CalleeName(c)
				row.Call = c
			}
			t.Rows = append(t.Rows, row)
			return
		}
		switch {
		case isNilConst(v):
			row.Outcome = "accept"
		case isBoolConst(v, true):
			row.Outcome = "value:true"
		case isBoolConst(v, false):
			row.Outcome = "value:false"
		default:
			if c, ridx := CallOf(Origin(v)); c != nil && !errCtorNames[CalleeName(c)] {
				if ridx < 0 {
					ridx = 0
				}
				// (the result of the call that is returned here - not always its first one: `s, err := f()`)
				if fnc := c.Common().StaticCallee(); fnc == nil || !alwaysNonNil(fnc, ridx, nonNilMemo{}, 0) {
					if !KnownNonNil(v, b) {
						row.Outcome = "call:" + CalleeName(c)
						row.Call = c
						if row.Outcome == "call:" {
							row.Outcome = "call:" + Sig(c.Common().Value)
						}
						break
					}
				}
			}
			if !mayBeNilValue(v, b, memo, 0, map[ssa.Value]bool{}) {
				row.Outcome = "reject"
			} else if s, isC := v.(*ssa.Const); isC && s.Value != nil {
				row.Outcome = "value:" + Sig(v)
			} else {
				row.Outcome = "value:" + Sig(v)
			}
		}
		t.Rows = append(t.Rows, row)
	}
	for _, r := range Returns(fn) {
		if resIdx >= len(r.Results) {
			continue
		}
		classify(r.Results[resIdx], r.Block(), conds[r.Block()], r)
	}
	return t, nil
}

func isBoolConst(v ssa.Value, want bool) bool {
	c, ok := v.(*ssa.Const)
	if !ok || c.Value == nil {
		return false
	}
	return c.Value.String() == fmt.Sprint(want) && strings.Contains(c.Type().String(), "bool")
}

// Env assigns truth values to atoms. ok=false: the atom is not understood.
type Env func(atom string) (val bool, ok bool)

// Eval finds the rows whose condition holds under env. unknown lists atoms env could not decide
// that mattered (appeared in a term not already falsified).
func (t *Table) Eval(env Env) (rows []Row, unknown []string) {
	rows, _, unknown = t.Eval3(env)
	return
}

// Eval3 is Eval that also lists the rows that may apply: rows none of whose terms is
// established but one of whose terms has every known literal satisfied (and some unknown atom).
// Rows are the paths of a function, so they are mutually exclusive: when some row is
// established, it is the one taken and the may-rows are infeasible under that assignment.
func (t *Table) Eval3(env Env) (rows, maybe []Row, unknown []string) {
	unk := map[string]bool{}
	for _, r := range t.Rows {
		sat := false
		may := false
		for _, term := range r.Cond {
			ok := true
			undecided := false
			for _, l := range term {
				v, known := env(l.Atom)
				if !known {
					undecided = true
					continue
				}
				if v != l.Pos {
					ok = false
					break
				}
			}
			if ok && undecided {
				may = true
				for _, l := range term {
					if _, known := env(l.Atom); !known {
						unk[l.Atom] = true
					}
				}
				continue
			}
			if ok {
				sat = true
				break
			}
		}
		if sat {
			rows = append(rows, r)
		} else if may {
			maybe = append(maybe, r)
		}
	}
	for a := range unk {
		unknown = append(unknown, a)
	}
	sort.Strings(unknown)
	return
}

// Atoms lists every atom used in the table.
func (t *Table) Atoms() []string {
	m := map[string]bool{}
	for _, r := range t.Rows {
		for _, term := range r.Cond {
			for _, l := range term {
				m[l.Atom] = true
			}
		}
	}
	out := make([]string, 0, len(m))
	for a := range m {
		out = append(out, a)
	}
	sort.Strings(out)
	return out
}

// DumpTable prints a table (development aid).
func DumpTable(p *Program, spec string, resIdx int) {
	fn := p.Func(spec)
	if fn == nil {
		fmt.Println("not found", spec)
		return
	}
	if resIdx < 0 {
		resIdx = ErrIndex(fn)
	}
	if resIdx < 0 {
		resIdx = 0
	}
	t, err := ExtractTable(fn, resIdx)
	if err != nil {
		fmt.Println(err)
		return
	}
	fmt.Println("== table of", FuncName(fn))
	for _, a := range t.Atoms() {
		fmt.Println("  atom", a)
	}
	for _, r := range t.Rows {
		fmt.Printf("  %s %-8s  <=  %s\n", p.Pos(InstrPos(r.Ret)), r.Outcome, r.Cond.String())
	}
}

// isTailOf: the call's (single) result is exactly what the return returns, and the call is
// in the return's block (a tail call `return f(x)`).
func isTailOf(r *ssa.Return, c ssa.CallInstruction) bool {
	return c.Block() == r.Block() && len(r.Results) == 1
}

func isBoolPhi(phi *ssa.Phi) bool {
	b, ok := phi.Type().Underlying().(*types.Basic)
	return ok && b.Info()&types.IsBoolean != 0
}

// andDNF is the conjunction of two DNFs.
func andDNF(a, b DNF) DNF {
	var out DNF
	seen := map[string]bool{}
	for _, x := range a {
		for _, y := range b {
			t := x
			ok := true
			for _, l := range y {
				var okAnd bool
				t, okAnd = t.and(l)
				if !okAnd {
					ok = false
					break
				}
			}
			if ok {
				if k := t.key(); !seen[k] {
					seen[k] = true
					out = append(out, t)
				}
			}
			if len(out) > maxTerms {
				return out
			}
		}
	}
	return out
}

// ---- on-demand expansion of atoms that are calls to repository helpers ----

// substFor renders the arguments of call (under the substitution `outer`) and binds them to
// the callee's parameters.
func substFor(call *ssa.Call, callee *ssa.Function, outer map[*ssa.Parameter]string) map[*ssa.Parameter]string {
	sub := map[*ssa.Parameter]string{}
	WithSubst(outer, func() {
		for i, p := range callee.Params {
			if i < len(call.Call.Args) {
				sub[p] = Sig(call.Call.Args[i])
			}
		}
	})
	return sub
}

// valueLit: a literal stating that the boolean value v (in the current substitution) holds.
func valueLit(v ssa.Value) Lit {
	cv, neg := BoolCond(v)
	return mkLit(cv, !neg)
}

// nilLit: a literal stating that v == nil, registered so that it can be expanded further.
func nilLit(v ssa.Value) Lit {
	atom := "(" + Sig(v) + " == nil)"
	if _, ok := atomReg[atom]; !ok {
		atomReg[atom] = AtomInfo{NilOf: v, Subst: sigSubst}
	}
	return Lit{Atom: atom, Pos: true}
}

// ExpandAtom: if the atom tests the result of a call to a repository function with a body
// (a boolean result, or an error-like result compared with nil), it returns the conditions
// - over the callee's own branch atoms, with the callee's parameters rendered as the call's
// arguments - under which the atom is true and false. Loops inside the callee are described
// by one iteration (path conditions ignore back edges), so both are over-approximations.
func ExpandAtom(atom string) (whenTrue, whenFalse DNF, ok bool) {
	info, known := atomReg[atom]
	if !known {
		return nil, nil, false
	}
	var call *ssa.Call
	resIdx := 0
	nilTest := false
	eqNil := true // the atom is "x == nil" (true means nil)
	v := info.V
	if info.NilOf != nil {
		v = info.NilOf
		nilTest = true
	} else if bo, isB := v.(*ssa.BinOp); isB && (bo.Op == token.EQL || bo.Op == token.NEQ) {
		var other ssa.Value
		switch {
		case isNilConst(bo.Y):
			other = bo.X
		case isNilConst(bo.X):
			other = bo.Y
		default:
			return nil, nil, false
		}
		v = other
		nilTest = true
		// atoms are normalised to ==, whatever the operator was
	}
	o := Origin(v)
	c, idx := CallOf(o)
	if c == nil {
		return nil, nil, false
	}
	cc, isCall := c.(*ssa.Call)
	if !isCall {
		return nil, nil, false
	}
	call = cc
	if idx > 0 {
		resIdx = idx
	}
	callee := Followable(call, nil)
	if callee == nil {
		return nil, nil, false
	}
	res := callee.Signature.Results()
	if resIdx >= res.Len() {
		return nil, nil, false
	}
	if !nilTest {
		b, isB := res.At(resIdx).Type().Underlying().(*types.Basic)
		if !isB || b.Info()&types.IsBoolean == 0 {
			return nil, nil, false
		}
	}
	sub := substFor(call, callee, info.Subst)
	okAll := true
	WithSubst(sub, func() {
		t, err := ExtractTable(callee, resIdx)
		if err != nil {
			okAll = false
			return
		}
		for _, r := range t.Rows {
			switch {
			case nilTest && r.Outcome == "accept":
				whenTrue = whenTrue.or(r.Cond)
			case nilTest && r.Outcome == "reject":
				whenFalse = whenFalse.or(r.Cond)
			case nilTest:
				// a delegated or undetermined value: nil-ness stays an atom
				l := nilLit(r.Val)
				whenTrue = whenTrue.or(r.Cond.and(l))
				whenFalse = whenFalse.or(r.Cond.and(Lit{Atom: l.Atom, Pos: false}))
			case r.Outcome == "value:true":
				whenTrue = whenTrue.or(r.Cond)
			case r.Outcome == "value:false":
				whenFalse = whenFalse.or(r.Cond)
			default:
				l := valueLit(r.Val)
				whenTrue = whenTrue.or(r.Cond.and(l))
				whenFalse = whenFalse.or(r.Cond.and(Lit{Atom: l.Atom, Pos: !l.Pos}))
			}
		}
	})
	if !okAll {
		return nil, nil, false
	}
	_ = eqNil
	return simplify(whenTrue), simplify(whenFalse), true
}

// SubstituteAtom replaces every literal on `atom` in d by the given conditions.
func SubstituteAtom(d DNF, atom string, whenTrue, whenFalse DNF) DNF {
	var out DNF
	for _, term := range d {
		var rest Term
		var lit *Lit
		for i := range term {
			if term[i].Atom == atom {
				l := term[i]
				lit = &l
			} else {
				rest = append(rest, term[i])
			}
		}
		if lit == nil {
			out = out.or(DNF{term})
			continue
		}
		repl := whenFalse
		if lit.Pos {
			repl = whenTrue
		}
		out = out.or(andDNF(DNF{rest}, repl))
		if len(out) > 1024 {
			return out
		}
	}
	return simplify(out)
}

// ExpandUnknown rewrites the table so that atoms the rule does not know (known returns
// false) are replaced by the conditions inside the helpers they call, repeatedly (helpers
// calling helpers), as far as possible.
func (t *Table) ExpandUnknown(known func(atom string) bool) {
	for round := 0; round < 4; round++ {
		changed := false
		for _, a := range t.Atoms() {
			if known(a) {
				continue
			}
			wt, wf, ok := ExpandAtom(a)
			if !ok {
				continue
			}
			// bounded: an expansion that blows a condition up is not applied
			if len(wt) > 64 || len(wf) > 64 {
				continue
			}
			newConds := make([]DNF, len(t.Rows))
			tooBig := false
			for i := range t.Rows {
				newConds[i] = SubstituteAtom(t.Rows[i].Cond, a, wt, wf)
				if len(newConds[i]) > 512 {
					tooBig = true
					break
				}
			}
			if tooBig {
				continue
			}
			for i := range t.Rows {
				t.Rows[i].Cond = newConds[i]
			}
			changed = true
		}
		if !changed {
			return
		}
	}
}

// ExpandDNF is ExpandUnknown for a single condition.
func ExpandDNF(d DNF, known func(atom string) bool) DNF {
	for round := 0; round < 4; round++ {
		changed := false
		seen := map[string]bool{}
		for _, term := range d {
			for _, l := range term {
				seen[l.Atom] = true
			}
		}
		for a := range seen {
			if known(a) {
				continue
			}
			wt, wf, ok := ExpandAtom(a)
			if !ok || len(wt) > 64 || len(wf) > 64 {
				continue
			}
			nd := SubstituteAtom(d, a, wt, wf)
			if len(nd) > 512 {
				continue
			}
			d = nd
			changed = true
		}
		if !changed {
			break
		}
	}
	return d
}

// ValueRows describes which alternative of the value v (used in block `at` of fn) is taken
// under which path condition: phi alternatives are split per incoming edge. The rows'
// Outcome is "value:<sig>" and Val is the alternative.
func ValueRows(fn *ssa.Function, v ssa.Value, at *ssa.BasicBlock) ([]Row, error) {
	return valueRows(fn, v, at, false)
}

// ValueRowsLoops is ValueRows that also follows the operands carried around loops (back
// edges): such an alternative is described by the condition of the iteration that produced it.
func ValueRowsLoops(fn *ssa.Function, v ssa.Value, at *ssa.BasicBlock) ([]Row, error) {
	return valueRows(fn, v, at, true)
}

func valueRows(fn *ssa.Function, v ssa.Value, at *ssa.BasicBlock, loops bool) ([]Row, error) {
	conds, edgeConds, ok := PathCondsE(fn)
	if !ok {
		return nil, fmt.Errorf("path condition of %s exceeds %d terms", FuncName(fn), maxTerms)
	}
	var rows []Row
	seenPhi := map[*ssa.Phi]bool{}
	// tail: the branch literals of the phi edges already descended through (outermost first): an
	// alternative of an inner phi is taken only if control also left the inner region through
	// the edge that carried the inner phi into the outer one
	var tail []Lit
	var walk func(v ssa.Value, b *ssa.BasicBlock, cond DNF, depth int)
	walk = func(v ssa.Value, b *ssa.BasicBlock, cond DNF, depth int) {
		if len(cond) == 0 {
			return
		}
		if phi, isPhi := v.(*ssa.Phi); isPhi && depth < 6 {
			if seenPhi[phi] {
				return
			}
			seenPhi[phi] = true
			pb := phi.Block()
			for i, e := range phi.Edges {
				p := pb.Preds[i]
				back := pb.Dominates(p)
				if back && !loops {
					continue
				}
				pc, have := edgeConds[Edge{p, pb}]
				if !have {
					pc = conds[p]
					if iff, isIf := lastIf(p); isIf && p.Succs[0] != p.Succs[1] {
						cv, neg := BoolCond(iff.Cond)
						pos := p.Succs[0] == pb
						if neg {
							pos = !pos
						}
						pc = pc.and(mkLit(cv, pos))
					}
				}
				// the conditions between the phi's block and the block in which the value is
				// used, as they read for a path that entered through p (tests of sibling phis -
				// the other results of an expanded helper - are decided by p's operands)
				saved := len(tail)
				if iff, isIf := lastIf(p); isIf && p.Succs[0] != p.Succs[1] && !back {
					cv, neg := BoolCond(iff.Cond)
					pos := p.Succs[0] == pb
					if neg {
						pos = !pos
					}
					tail = append(tail, mkLit(cv, pos))
				}
				walk(e, p, simplify(suffixCond(pb, b, p, pc)), depth+1)
				tail = tail[:saved]
			}
			return
		}
		for _, l := range tail {
			cond = cond.and(l)
		}
		cond = simplify(cond)
		if len(cond) == 0 {
			return
		}
		rows = append(rows, Row{Cond: cond, Outcome: "value:" + Sig(v), Val: v, Via: b})
	}
	walk(v, at, conds[at], 0)
	return rows, nil
}

// suffixCond: the condition under which control, having entered block q through predecessor p
// under condition pc, reaches block `at` (dominated by q). Forward edges only. An If that
// tests a phi of q is decided by the operand the phi has for p.
func suffixCond(q, at, p *ssa.BasicBlock, pc DNF) DNF {
	if q == at || !q.Dominates(at) {
		return pc
	}
	pi := -1
	for i, pp := range q.Preds {
		if pp == p {
			if pi >= 0 {
				return pc // ambiguous edge
			}
			pi = i
		}
	}
	if pi < 0 {
		return pc
	}
	// blocks of the region in reverse postorder
	var order []*ssa.BasicBlock
	seen := map[*ssa.BasicBlock]bool{}
	var dfs func(b *ssa.BasicBlock)
	dfs = func(b *ssa.BasicBlock) {
		seen[b] = true
		for _, s := range b.Succs {
			if !seen[s] && !s.Dominates(b) && q.Dominates(s) && s != q {
				dfs(s)
			}
		}
		order = append(order, b)
	}
	dfs(q)
	for i, j := 0, len(order)-1; i < j; i, j = i+1, j-1 {
		order[i], order[j] = order[j], order[i]
	}
	cond := map[*ssa.BasicBlock]DNF{q: pc}
	edge := func(from, to *ssa.BasicBlock) DNF {
		fc := cond[from]
		if len(fc) == 0 {
			return nil
		}
		iff, isIf := lastIf(from)
		if !isIf || from.Succs[0] == from.Succs[1] {
			return fc
		}
		pos := from.Succs[0] == to
		if phi, eval, isTest := PhiTest(iff.Cond); isTest && phi.Block() == q && pi < len(phi.Edges) {
			e := phi.Edges[pi]
			if val, known := eval(e, p); known {
				if val == pos {
					return fc
				}
				return nil
			}
			if _, trueMeansNil, isNil := NilCheck(iff.Cond); isNil {
				l := nilLit(e)
				l.Pos = pos == trueMeansNil
				return fc.and(l)
			}
			if cv, neg := BoolCond(iff.Cond); cv == ssa.Value(phi) {
				ev, eneg := BoolCond(e)
				lp := pos
				if neg {
					lp = !lp
				}
				if eneg {
					lp = !lp
				}
				return fc.and(mkLit(ev, lp))
			}
		}
		cv, neg := BoolCond(iff.Cond)
		if neg {
			pos = !pos
		}
		return fc.and(mkLit(cv, pos))
	}
	for _, b := range order {
		if b == q {
			continue
		}
		var d DNF
		for _, pr := range b.Preds {
			if !seen[pr] || b.Dominates(pr) {
				continue
			}
			d = d.or(edge(pr, b))
		}
		cond[b] = simplify(d)
		if len(cond[b]) > maxTerms {
			return pc
		}
	}
	if d, ok := cond[at]; ok && len(d) > 0 {
		return d
	}
	if _, reached := cond[at]; reached {
		return nil // the value cannot reach `at` through p
	}
	return pc
}

// Subst returns the parameter substitution of a frame chain: each entered helper's parameters
// rendered as the signatures of the arguments at its call site.
func (fr *Frame) Subst() map[*ssa.Parameter]string {
	if fr == nil {
		return map[*ssa.Parameter]string{}
	}
	outer := fr.Parent.Subst()
	sub := substFor(fr.Site, fr.Callee, outer)
	for k, v := range outer {
		if _, ok := sub[k]; !ok {
			sub[k] = v
		}
	}
	return sub
}

// CondAt: the condition, from the entry of the outermost function, under which control
// reaches block b inside the (possibly entered) function of frame fr: the conjunction of the
// path conditions of every call site on the frame chain and of b itself, with helper
// parameters rendered as call-site arguments.
func CondAt(fr *Frame, b *ssa.BasicBlock) (DNF, bool) {
	var d DNF
	ok := true
	WithSubst(fr.Subst(), func() {
		conds, fine := PathConds(b.Parent())
		if !fine {
			ok = false
			return
		}
		d = conds[b]
	})
	if !ok {
		return nil, false
	}
	if fr != nil {
		outer, fine := CondAt(fr.Parent, fr.Site.Block())
		if !fine {
			return nil, false
		}
		d = simplify(andDNF(outer, d))
	}
	return d, true
}

// DeepInstr is an instruction of a function's region with the frame it was reached through.
type DeepInstr struct {
	Instr ssa.Instruction
	Fr    *Frame
}

// DeepInstrs lists every instruction of fn, its closures and the unexported repository
// helpers it calls (transitively, bounded), with frames. Closures share their parent's frame.
func DeepInstrs(fn *ssa.Function, stop func(*ssa.Function) bool) []DeepInstr {
	return DeepInstrsEnter(fn, func(f *ssa.Function) bool { return !exportedFunc(f) && (stop == nil || !stop(f)) })
}

// DeepInstrsEnter is DeepInstrs with an explicit predicate for the callees that are entered.
func DeepInstrsEnter(fn *ssa.Function, enter func(*ssa.Function) bool) []DeepInstr {
	var out []DeepInstr
	var visit func(f *ssa.Function, fr *Frame)
	visit = func(f *ssa.Function, fr *Frame) {
		for _, b := range f.Blocks {
			for _, ins := range b.Instrs {
				out = append(out, DeepInstr{ins, fr})
				if cc, ok := ins.(*ssa.Call); ok {
					if callee := Followable(cc, fr); callee != nil && enter(callee) {
						visit(callee, &Frame{Site: cc, Callee: callee, Parent: fr})
					}
				}
			}
		}
		for _, a := range f.AnonFuncs {
			visit(a, fr)
		}
	}
	visit(fn, nil)
	return out
}

// DeepFacts lists the dominating branch facts (error checks excluded) of block b inside the
// function of frame fr, followed by those of every call site on the frame chain, rendered
// with helper parameters replaced by call-site arguments.
func DeepFacts(fr *Frame, b *ssa.BasicBlock) []string {
	var out []string
	WithSubst(fr.Subst(), func() {
		for _, f := range DomConds(b) {
			if IsErrCheck(f) {
				continue
			}
			out = append(out, f.String())
		}
	})
	if fr != nil {
		out = append(out, DeepFacts(fr.Parent, fr.Site.Block())...)
	}
	return out
}

// SigIn renders v, a value of the function of frame fr, with helper parameters replaced by
// the call-site arguments.
func SigIn(fr *Frame, v ssa.Value) string {
	s := ""
	WithSubst(fr.Subst(), func() { s = Sig(v) })
	return s
}

// SplitBoolValues replaces rows that return a non-constant boolean expression whose atom the
// rule knows by two rows returning the constants (`return !x` == `if x {return false}; return true`).
func (t *Table) SplitBoolValues(known func(atom string) bool) {
	var out []Row
	for _, r := range t.Rows {
		if r.Val == nil || !strings.HasPrefix(r.Outcome, "value:") || r.Outcome == "value:true" || r.Outcome == "value:false" {
			out = append(out, r)
			continue
		}
		b, isB := r.Val.Type().Underlying().(*types.Basic)
		if !isB || b.Info()&types.IsBoolean == 0 {
			out = append(out, r)
			continue
		}
		l := valueLit(r.Val)
		if !known(l.Atom) {
			out = append(out, r)
			continue
		}
		rt, rf := r, r
		rt.Cond = r.Cond.and(l)
		rt.Outcome = "value:true"
		rf.Cond = r.Cond.and(Lit{Atom: l.Atom, Pos: !l.Pos})
		rf.Outcome = "value:false"
		if len(rt.Cond) > 0 {
			out = append(out, rt)
		}
		if len(rf.Cond) > 0 {
			out = append(out, rf)
		}
	}
	t.Rows = out
}

// AtomCallsUnexportedHelper: the atom tests (directly, or compared with nil) the result of a
// statically resolved call to an unexported repository function with a body.
func AtomCallsUnexportedHelper(atom string) bool {
	info, ok := atomReg[atom]
	if !ok {
		return false
	}
	v := info.V
	if info.NilOf != nil {
		v = info.NilOf
	} else if bo, isB := v.(*ssa.BinOp); isB && (bo.Op == token.EQL || bo.Op == token.NEQ) {
		switch {
		case isNilConst(bo.Y):
			v = bo.X
		case isNilConst(bo.X):
			v = bo.Y
		default:
			return false
		}
	}
	c, _ := CallOf(Origin(v))
	cc, isCall := c.(*ssa.Call)
	if !isCall {
		return false
	}
	h := Followable(cc, nil)
	return h != nil && !exportedFunc(h)
}

// AtomHelper returns the unexported repository function whose result the atom tests (see
// AtomCallsUnexportedHelper), or nil.
func AtomHelper(atom string) *ssa.Function {
	info, ok := atomReg[atom]
	if !ok {
		return nil
	}
	v := info.V
	if info.NilOf != nil {
		v = info.NilOf
	} else if bo, isB := v.(*ssa.BinOp); isB && (bo.Op == token.EQL || bo.Op == token.NEQ) {
		switch {
		case isNilConst(bo.Y):
			v = bo.X
		case isNilConst(bo.X):
			v = bo.Y
		default:
			return nil
		}
	}
	c, _ := CallOf(Origin(v))
	cc, isCall := c.(*ssa.Call)
	if !isCall {
		return nil
	}
	h := Followable(cc, nil)
	if h == nil || exportedFunc(h) {
		return nil
	}
	return h
}

// AtomHelpers: AtomHelper plus the unexported repository functions whose results are handed to
// it as arguments, transitively (`verdict.admissible()` with `_, _, verdict := examine(input)`:
// what the verdict says was decided in examine).
func AtomHelpers(atom string) []*ssa.Function {
	h := AtomHelper(atom)
	if h == nil {
		return nil
	}
	out := []*ssa.Function{h}
	seen := map[ssa.Value]bool{}
	var walk func(v ssa.Value, depth int)
	walk = func(v ssa.Value, depth int) {
		if v == nil || seen[v] || depth > 6 {
			return
		}
		seen[v] = true
		c, _ := CallOf(Origin(v))
		cc, isCall := c.(*ssa.Call)
		if !isCall {
			if phi, isPhi := Origin(v).(*ssa.Phi); isPhi {
				for _, e := range phi.Edges {
					walk(e, depth+1)
				}
			}
			return
		}
		if f := Followable(cc, nil); f != nil && !exportedFunc(f) {
			out = append(out, f)
		}
		for _, a := range cc.Call.Args {
			walk(a, depth+1)
		}
	}
	if c := AtomCall(atom); c != nil {
		for _, a := range c.Common().Args {
			walk(a, 0)
		}
	}
	return out
}

// AtomCall returns the call whose result the atom tests (directly or compared with nil), or nil.
func AtomCall(atom string) ssa.CallInstruction {
	info, ok := atomReg[atom]
	if !ok {
		return nil
	}
	v := info.V
	if info.NilOf != nil {
		v = info.NilOf
	} else if bo, isB := v.(*ssa.BinOp); isB && (bo.Op == token.EQL || bo.Op == token.NEQ) {
		switch {
		case isNilConst(bo.Y):
			v = bo.X
		case isNilConst(bo.X):
			v = bo.Y
		}
	}
	if v == nil {
		return nil
	}
	c, _ := CallOf(Origin(v))
	return c
}

// AndLit conjoins a literal to a condition (terms that contradict it are dropped).
func AndLit(d DNF, l Lit) DNF { return d.and(l) }

// LastIf is the exported form of lastIf.
func LastIf(b *ssa.BasicBlock) (*ssa.If, bool) { return lastIf(b) }

// InlineTailCalls replaces rows that delegate to an unexported repository helper
// (`return helper(args)`) by the helper's own rows, under the row's condition and with the
// helper's parameters rendered as the call's arguments. keep (optional) names outcomes that
// the rule knows and that must stay as they are.
func (t *Table) InlineTailCalls(resIdxOf func(*ssa.Function) int, keep func(r Row) bool) {
	for round := 0; round < 3; round++ {
		changed := false
		var out []Row
		for _, r := range t.Rows {
			cc, isCall := r.Call.(*ssa.Call)
			if !strings.HasPrefix(r.Outcome, "call:") || !isCall || (keep != nil && keep(r)) || !isTailOf(r.Ret, cc) {
				out = append(out, r)
				continue
			}
			callee := Followable(cc, nil)
			if callee == nil || exportedFunc(callee) {
				out = append(out, r)
				continue
			}
			idx := resIdxOf(callee)
			if idx < 0 {
				out = append(out, r)
				continue
			}
			var sub *Table
			var err error
			WithSubst(substFor(cc, callee, sigSubst), func() { sub, err = ExtractTable(callee, idx) })
			if err != nil {
				out = append(out, r)
				continue
			}
			for _, hr := range sub.Rows {
				nr := hr
				nr.Cond = simplify(andDNF(r.Cond, hr.Cond))
				if len(nr.Cond) == 0 {
					continue
				}
				out = append(out, nr)
			}
			changed = true
		}
		t.Rows = out
		if !changed {
			return
		}
	}
}

// AtomValue returns the SSA value of a registered branch atom (the comparison or boolean).
func AtomValue(atom string) ssa.Value {
	if info, ok := atomReg[atom]; ok {
		if info.V != nil {
			return info.V
		}
		return info.NilOf
	}
	return nil
}
