package fw

import (
	"go/token"
	"sort"
	"strings"

	"golang.org/x/tools/go/ssa"
)

// ---- property simulation with boolean flags (ESP-style path sensitivity) ----
//
// FlagPathAfter answers: is there a path that starts right after instruction `from`, reaches
// `to`, and executes none of the `must` instructions - among the paths that are consistent
// with the values of the function's boolean flags? A flag is a boolean phi all of whose
// operands are boolean constants or other flags (`done := false; ...; done = true`). The
// search tracks, per path, the known value of every flag and follows only the feasible edge
// of a branch on a flag whose value is known. Everything else is as in PathAfter, so the
// answer is never "no path" for a path that can be executed.

type flagState map[*ssa.Phi]bool

func (s flagState) key(b *ssa.BasicBlock, idx int) string {
	var parts []string
	for p, v := range s {
		if v {
			parts = append(parts, p.Name()+"=T")
		} else {
			parts = append(parts, p.Name()+"=F")
		}
	}
	sort.Strings(parts)
	return b.String() + "#" + string(rune('0'+idx%10)) + "|" + strings.Join(parts, ",")
}

// flagFamily returns the boolean phis of fn whose operands are only constants or other
// members (greatest fixed point).
func flagFamily(fn *ssa.Function) map[*ssa.Phi]bool {
	fam := map[*ssa.Phi]bool{}
	for _, b := range fn.Blocks {
		for _, ins := range b.Instrs {
			if phi, ok := ins.(*ssa.Phi); ok && isBoolPhi(phi) {
				fam[phi] = true
			}
		}
	}
	for changed := true; changed; {
		changed = false
		for phi := range fam {
			for _, e := range phi.Edges {
				switch x := e.(type) {
				case *ssa.Const:
				case *ssa.Phi:
					if !fam[x] {
						delete(fam, phi)
						changed = true
					}
				default:
					delete(fam, phi)
					changed = true
				}
				if !fam[phi] {
					break
				}
			}
		}
	}
	return fam
}

func flagValue(v ssa.Value, st flagState, fam map[*ssa.Phi]bool) (val bool, known bool) {
	switch x := v.(type) {
	case *ssa.Const:
		if x.Value != nil && (x.Value.String() == "true" || x.Value.String() == "false") {
			return x.Value.String() == "true", true
		}
	case *ssa.Phi:
		if fam[x] {
			val, known = st[x]
			return
		}
	case *ssa.UnOp:
		if x.Op == token.NOT {
			val, known = flagValue(x.X, st, fam)
			return !val, known
		}
	}
	return false, false
}

// FlagPathAfter: see above.
func FlagPathAfter(from ssa.Instruction, must []ssa.Instruction, to ssa.Instruction) bool {
	fn := from.Parent()
	fam := flagFamily(fn)
	isMust := map[ssa.Instruction]bool{}
	for _, m := range must {
		isMust[m] = true
	}
	type item struct {
		b     *ssa.BasicBlock
		start int
		st    flagState
	}
	seen := map[string]bool{}
	work := []item{{from.Block(), instrIndex(from) + 1, flagState{}}}
	for len(work) > 0 {
		it := work[len(work)-1]
		work = work[:len(work)-1]
		blocked := false
		for i := it.start; i < len(it.b.Instrs); i++ {
			ins := it.b.Instrs[i]
			if isMust[ins] {
				blocked = true
				break
			}
			if ins == to {
				return true
			}
		}
		if blocked {
			continue
		}
		succs := it.b.Succs
		if iff, ok := lastIf(it.b); ok && len(succs) == 2 {
			if v, known := flagValue(iff.Cond, it.st, fam); known {
				if v {
					succs = succs[:1]
				} else {
					succs = succs[1:]
				}
			}
		}
		for _, s := range succs {
			// enter s from it.b: evaluate the flag phis of s on this edge
			ns := flagState{}
			for k, v := range it.st {
				ns[k] = v
			}
			predIdx := -1
			for i, p := range s.Preds {
				if p == it.b {
					predIdx = i
				}
			}
			upd := map[*ssa.Phi]*bool{}
			for _, ins := range s.Instrs {
				phi, ok := ins.(*ssa.Phi)
				if !ok {
					break
				}
				if !fam[phi] || predIdx < 0 {
					continue
				}
				if v, known := flagValue(phi.Edges[predIdx], it.st, fam); known {
					vv := v
					upd[phi] = &vv
				} else {
					upd[phi] = nil
				}
			}
			for phi, v := range upd {
				if v == nil {
					delete(ns, phi)
				} else {
					ns[phi] = *v
				}
			}
			k := ns.key(s, 0)
			if seen[k] {
				continue
			}
			seen[k] = true
			work = append(work, item{s, 0, ns})
		}
	}
	return false
}
