package fw

import (
	"fmt"
	"go/ast"
	"go/token"
	"go/types"
	"reflect"
	"regexp"
	"sort"
	"strconv"
	"strings"

	"golang.org/x/tools/go/packages"
)

// ---- source-level inlining of implementation helpers (the "inlined view") ----
//
// The rules of a property are anchored on the functions the property names. Code that a
// maintainer moves out of such a function into a new unexported helper (or merges from
// several sibling functions into one shared helper) is still the same program; to make the
// intra-procedural engines (gates, must-precede, path conditions, signatures) see it as such,
// the loader can produce a second, semantically equivalent view of the repository in which
// static calls to unexported, non-recursive, defer-free functions are expanded in place:
//
//	x, err := helper(a, b)     =>   var r1 T1; var r2 T2
//	                                { var p1 P1 = a; var p2 P2 = b; <body, return e1, e2 => r1, r2 = e1, e2; goto L> }
//	                                L: x, err := r1, r2
//	return helper(a)           =>   { var p1 P1 = a; <body> }            (identical result types)
//
// Functions that the rules know by name (KeepNames) are never expanded: they are the semantic
// units of the properties. A call site or callee the transformation does not support is left
// alone (the inter-procedural frames of flow.go / gates.go still apply to it). The transformed
// syntax is type-checked again; if that fails the view is not used.
//
// An obligation is reported as a violation only if no view discharges it: both views are the
// same program, so a proof on either is a proof.

// InlineStats describes what the transformation did.
type InlineStats struct {
	Sites   int
	Skipped map[string]int
	Callees map[string]int
}

type inliner struct {
	pk       *packages.Package
	info     *types.Info
	uses     map[*ast.Ident]types.Object // Uses and Defs, extended for copied identifiers
	decls    map[*types.Func]*ast.FuncDecl
	fileOf   map[*ast.FuncDecl]*ast.File
	keep     func(name string) bool
	state    map[*ast.FuncDecl]int // 1 in progress, 2 done
	seq      int
	stats    *InlineStats
	implicit map[*ast.Ident]bool // symbolic variable of a type switch
}

func (in *inliner) skip(why string) { in.stats.Skipped[why]++ }

// inlinePackage transforms the syntax of one package in place.
func inlinePackage(pk *packages.Package, keep func(string) bool, stats *InlineStats) {
	in := &inliner{pk: pk, info: pk.TypesInfo, uses: map[*ast.Ident]types.Object{}, decls: map[*types.Func]*ast.FuncDecl{},
		fileOf: map[*ast.FuncDecl]*ast.File{}, keep: keep, state: map[*ast.FuncDecl]int{}, stats: stats, implicit: map[*ast.Ident]bool{}}
	for id, o := range pk.TypesInfo.Uses {
		in.uses[id] = o
	}
	for id, o := range pk.TypesInfo.Defs {
		if o != nil {
			in.uses[id] = o
		}
	}
	var all []*ast.FuncDecl
	for _, f := range pk.Syntax {
		for _, d := range f.Decls {
			if fd, ok := d.(*ast.FuncDecl); ok && fd.Body != nil {
				if fn, ok := pk.TypesInfo.Defs[fd.Name].(*types.Func); ok {
					in.decls[fn] = fd
				}
				in.fileOf[fd] = f
				all = append(all, fd)
			}
		}
		ast.Inspect(f, func(n ast.Node) bool {
			if ts, ok := n.(*ast.TypeSwitchStmt); ok {
				if as, ok := ts.Assign.(*ast.AssignStmt); ok && len(as.Lhs) == 1 {
					if id, ok := as.Lhs[0].(*ast.Ident); ok {
						in.implicit[id] = true
					}
				}
			}
			return true
		})
	}
	sort.Slice(all, func(i, j int) bool { return all[i].Pos() < all[j].Pos() })
	for _, fd := range all {
		in.process(fd)
	}
}

func (in *inliner) process(fd *ast.FuncDecl) {
	if in.state[fd] != 0 {
		return
	}
	in.state[fd] = 1
	var sig *types.Signature
	if fn, ok := in.info.Defs[fd.Name].(*types.Func); ok {
		sig, _ = fn.Type().(*types.Signature)
	}
	fd.Body.List = in.rewriteList(fd.Body.List, sig, in.fileOf[fd])
	in.state[fd] = 2
}

// ---- statement lists ----

func (in *inliner) rewriteList(list []ast.Stmt, enc *types.Signature, file *ast.File) []ast.Stmt {
	var out []ast.Stmt
	for _, s := range list {
		in.rewriteNested(s, enc, file)
		pre, repl, ok := in.trySite(s, enc, file)
		if ok {
			out = append(out, pre...)
			out = append(out, repl...)
			continue
		}
		out = append(out, s)
	}
	return out
}

// rewriteNested descends into the statement lists and function literals inside s.
func (in *inliner) rewriteNested(s ast.Stmt, enc *types.Signature, file *ast.File) {
	lits := func(n ast.Node) {
		if n == nil || reflect.ValueOf(n).IsNil() {
			return
		}
		ast.Inspect(n, func(m ast.Node) bool {
			if fl, ok := m.(*ast.FuncLit); ok {
				var sig *types.Signature
				if tv, ok := in.info.Types[fl]; ok {
					sig, _ = tv.Type.(*types.Signature)
				}
				fl.Body.List = in.rewriteList(fl.Body.List, sig, file)
				return false
			}
			_, isBlock := m.(*ast.BlockStmt)
			return !isBlock // blocks are handled structurally below
		})
	}
	switch x := s.(type) {
	case *ast.BlockStmt:
		x.List = in.rewriteList(x.List, enc, file)
	case *ast.IfStmt:
		lits(x.Init)
		lits(x.Cond)
		x.Body.List = in.rewriteList(x.Body.List, enc, file)
		if x.Else != nil {
			switch e := x.Else.(type) {
			case *ast.BlockStmt:
				e.List = in.rewriteList(e.List, enc, file)
			case *ast.IfStmt:
				// `else if init; cond`: handled as a one-element list so that a site in it can
				// be expanded inside a fresh block
				repl := in.rewriteList([]ast.Stmt{e}, enc, file)
				if len(repl) == 1 {
					x.Else = repl[0]
				} else {
					x.Else = &ast.BlockStmt{List: repl}
				}
			}
		}
	case *ast.ForStmt:
		lits(x.Init)
		lits(x.Cond)
		lits(x.Post)
		x.Body.List = in.rewriteList(x.Body.List, enc, file)
	case *ast.RangeStmt:
		lits(x.X)
		x.Body.List = in.rewriteList(x.Body.List, enc, file)
	case *ast.SwitchStmt:
		lits(x.Init)
		lits(x.Tag)
		for _, cc := range x.Body.List {
			if c, ok := cc.(*ast.CaseClause); ok {
				for _, e := range c.List {
					lits(e)
				}
				c.Body = in.rewriteList(c.Body, enc, file)
			}
		}
	case *ast.TypeSwitchStmt:
		lits(x.Init)
		lits(x.Assign)
		for _, cc := range x.Body.List {
			if c, ok := cc.(*ast.CaseClause); ok {
				c.Body = in.rewriteList(c.Body, enc, file)
			}
		}
	case *ast.SelectStmt:
		for _, cc := range x.Body.List {
			if c, ok := cc.(*ast.CommClause); ok {
				lits(c.Comm)
				c.Body = in.rewriteList(c.Body, enc, file)
			}
		}
	case *ast.LabeledStmt:
		in.rewriteNested(x.Stmt, enc, file)
	default:
		lits(s)
	}
}

// ---- call sites ----

type site struct {
	call   *ast.CallExpr
	slot   *ast.Expr   // where the call sits as a single value (nil for assign / expr / tail)
	assign *[]ast.Expr // the RHS list of an assignment or value spec to be replaced by temporaries
	tail   bool
	drop   bool // expression statement: the statement itself disappears
}

// pureOperand: evaluating it has no effect and cannot fail.
func pureOperand(e ast.Expr) bool {
	switch x := e.(type) {
	case *ast.Ident, *ast.BasicLit:
		return true
	case *ast.ParenExpr:
		return pureOperand(x.X)
	case *ast.SelectorExpr:
		return pureOperand(x.X)
	case *ast.UnaryExpr:
		return x.Op == token.AND && pureOperand(x.X)
	}
	return false
}

// firstCall finds the call that is evaluated first and unconditionally in e.
func (in *inliner) firstCall(p *ast.Expr) *ast.Expr {
	switch x := (*p).(type) {
	case *ast.CallExpr:
		if in.calleeOf(x) != nil {
			return p
		}
		// g(f(a), ...): f(a) is evaluated first when g and the arguments before it are pure
		if !pureOperand(x.Fun) {
			return nil
		}
		for i := range x.Args {
			if pureOperand(x.Args[i]) {
				continue
			}
			return in.firstCall(&x.Args[i])
		}
	case *ast.ParenExpr:
		return in.firstCall(&x.X)
	case *ast.UnaryExpr:
		if x.Op == token.NOT || x.Op == token.SUB {
			return in.firstCall(&x.X)
		}
	case *ast.BinaryExpr:
		if x.Op == token.LAND || x.Op == token.LOR {
			return nil
		}
		if s := in.firstCall(&x.X); s != nil {
			return s
		}
		if pureOperand(x.X) {
			return in.firstCall(&x.Y)
		}
	}
	return nil
}

func (in *inliner) calleeOf(call *ast.CallExpr) *types.Func {
	var id *ast.Ident
	switch f := call.Fun.(type) {
	case *ast.Ident:
		id = f
	case *ast.SelectorExpr:
		if sel, ok := in.info.Selections[f]; ok {
			if sel.Kind() != types.MethodVal {
				return nil
			}
		}
		id = f.Sel
	default:
		return nil
	}
	fn, _ := in.info.Uses[id].(*types.Func)
	if fn == nil || in.decls[fn] == nil {
		return nil
	}
	return fn
}

func (in *inliner) siteOfSimple(s ast.Stmt, enc *types.Signature) *site {
	switch x := s.(type) {
	case *ast.ExprStmt:
		if c, ok := x.X.(*ast.CallExpr); ok && in.calleeOf(c) != nil {
			return &site{call: c, drop: true}
		}
		if p := in.firstCall(&x.X); p != nil {
			return &site{call: (*p).(*ast.CallExpr), slot: p}
		}
	case *ast.AssignStmt:
		if len(x.Rhs) != 1 || (x.Tok != token.DEFINE && x.Tok != token.ASSIGN) {
			return nil
		}
		c, ok := x.Rhs[0].(*ast.CallExpr)
		if !ok || in.calleeOf(c) == nil {
			for _, l := range x.Lhs {
				if !pureOperand(l) {
					return nil
				}
			}
			if p := in.firstCall(&x.Rhs[0]); p != nil {
				return &site{call: (*p).(*ast.CallExpr), slot: p}
			}
			return nil
		}
		for _, l := range x.Lhs {
			if !pureOperand(l) {
				return nil
			}
		}
		return &site{call: c, assign: &x.Rhs}
	case *ast.DeclStmt:
		gd, ok := x.Decl.(*ast.GenDecl)
		if !ok || gd.Tok != token.VAR || len(gd.Specs) != 1 {
			return nil
		}
		vs := gd.Specs[0].(*ast.ValueSpec)
		if len(vs.Values) != 1 {
			return nil
		}
		if c, ok := vs.Values[0].(*ast.CallExpr); ok && in.calleeOf(c) != nil {
			return &site{call: c, assign: &vs.Values}
		}
		if p := in.firstCall(&vs.Values[0]); p != nil {
			return &site{call: (*p).(*ast.CallExpr), slot: p}
		}
	}
	return nil
}

func (in *inliner) siteOf(s ast.Stmt, enc *types.Signature) *site {
	if st := in.siteOfSimple(s, enc); st != nil {
		return st
	}
	switch x := s.(type) {
	case *ast.ReturnStmt:
		if len(x.Results) == 1 {
			if c, ok := x.Results[0].(*ast.CallExpr); ok {
				if fn := in.calleeOf(c); fn != nil {
					csig := fn.Type().(*types.Signature)
					if enc != nil && sameResults(csig.Results(), enc.Results()) {
						return &site{call: c, tail: true}
					}
					if csig.Results().Len() == 1 {
						return &site{call: c, slot: &x.Results[0]}
					}
					return nil
				}
			}
		}
		// the first result that is not pure may hold the call evaluated first
		for i := range x.Results {
			if pureOperand(x.Results[i]) {
				continue
			}
			if p := in.firstCall(&x.Results[i]); p != nil {
				return &site{call: (*p).(*ast.CallExpr), slot: p}
			}
			return nil
		}
	case *ast.IfStmt:
		if x.Init != nil {
			return in.siteOfSimple(x.Init, enc)
		}
		if p := in.firstCall(&x.Cond); p != nil {
			return &site{call: (*p).(*ast.CallExpr), slot: p}
		}
	case *ast.SwitchStmt:
		if x.Init != nil {
			return in.siteOfSimple(x.Init, enc)
		}
		if x.Tag != nil {
			if p := in.firstCall(&x.Tag); p != nil {
				return &site{call: (*p).(*ast.CallExpr), slot: p}
			}
		}
	case *ast.TypeSwitchStmt:
		if x.Init != nil {
			return in.siteOfSimple(x.Init, enc)
		}
	case *ast.ForStmt:
		if x.Init != nil {
			return in.siteOfSimple(x.Init, enc)
		}
	case *ast.RangeStmt:
		if c, ok := x.X.(*ast.CallExpr); ok && in.calleeOf(c) != nil {
			return &site{call: c, slot: &x.X}
		}
	}
	return nil
}

func sameResults(a, b *types.Tuple) bool {
	if a.Len() != b.Len() || a.Len() == 0 {
		return false
	}
	for i := 0; i < a.Len(); i++ {
		if !types.Identical(a.At(i).Type(), b.At(i).Type()) {
			return false
		}
	}
	return true
}

// trySite expands the call site of statement s, if it has one the transformation supports.
// It returns the statements that precede s and what replaces s.
func (in *inliner) trySite(s ast.Stmt, enc *types.Signature, file *ast.File) (pre, repl []ast.Stmt, ok bool) {
	st := in.siteOf(s, enc)
	if st == nil {
		return nil, nil, false
	}
	fn := in.calleeOf(st.call)
	fd := in.decls[fn]
	if why := in.eligible(fn, fd); why != "" {
		in.skip(why)
		return nil, nil, false
	}
	if in.state[fd] == 1 {
		in.skip("recursive")
		return nil, nil, false
	}
	in.process(fd)
	csig := fn.Type().(*types.Signature)
	nres := csig.Results().Len()
	if st.slot != nil && nres != 1 {
		in.skip("multi-value in single-value context")
		return nil, nil, false
	}
	if st.assign != nil {
		// the assignment must take all results of the call
		switch a := s.(type) {
		case *ast.AssignStmt:
			if len(a.Lhs) != nres {
				in.skip("result count")
				return nil, nil, false
			}
		default:
			_ = a
		}
		if nres == 0 {
			in.skip("result count")
			return nil, nil, false
		}
	}
	in.seq++
	ex := &expansion{in: in, fn: fn, fd: fd, call: st.call, file: file, suffix: "_i" + strconv.Itoa(in.seq), tail: st.tail}
	if !ex.build() {
		in.seq--
		return nil, nil, false
	}
	in.stats.Sites++
	in.stats.Callees[fn.FullName()]++
	pre = append(pre, ex.temps...)
	pre = append(pre, ex.block)
	if ex.usedLabel {
		pre = append(pre, &ast.LabeledStmt{Label: ast.NewIdent(ex.label), Stmt: &ast.EmptyStmt{}})
	}
	switch {
	case st.tail:
		return pre, nil, true
	case st.drop:
		return pre, nil, true
	case st.slot != nil:
		*st.slot = ast.NewIdent(ex.tempNames[0])
		return pre, []ast.Stmt{s}, true
	default:
		var rhs []ast.Expr
		for _, n := range ex.tempNames {
			rhs = append(rhs, ast.NewIdent(n))
		}
		*st.assign = rhs
		return pre, []ast.Stmt{s}, true
	}
}

func (in *inliner) eligible(fn *types.Func, fd *ast.FuncDecl) string {
	name := fn.Name()
	exported := ast.IsExported(name)
	if exported {
		// an exported method of an unexported type is not API
		sig := fn.Type().(*types.Signature)
		if sig.Recv() != nil {
			t := sig.Recv().Type()
			if p, ok := t.(*types.Pointer); ok {
				t = p.Elem()
			}
			if n, ok := t.(*types.Named); ok && !n.Obj().Exported() {
				exported = false
			}
		}
	}
	if exported {
		return "exported"
	}
	if in.keep != nil && in.keep(name) {
		in.stats.Callees["(kept anchor) "+fn.FullName()]++
		return "anchor"
	}
	sig := fn.Type().(*types.Signature)
	if sig.TypeParams() != nil || sig.RecvTypeParams() != nil {
		return "generic"
	}
	bad := ""
	size := 0
	ast.Inspect(fd.Body, func(n ast.Node) bool {
		if n == nil {
			return false
		}
		size++
		switch x := n.(type) {
		case *ast.FuncLit:
			return false
		case *ast.DeferStmt:
			bad = "defer"
		case *ast.CallExpr:
			if id, ok := x.Fun.(*ast.Ident); ok && id.Name == "recover" {
				bad = "recover"
			}
		}
		return true
	})
	if bad != "" {
		return bad
	}
	if size > 3000 {
		return "large"
	}
	return ""
}

// ---- one expansion ----

type expansion struct {
	in        *inliner
	fn        *types.Func
	fd        *ast.FuncDecl
	call      *ast.CallExpr
	file      *ast.File
	suffix    string
	tail      bool
	temps     []ast.Stmt
	tempNames []string
	block     *ast.BlockStmt
	label     string
	usedLabel bool
	named     []string // renamed named results of the callee
}

func (ex *expansion) isLocal(o types.Object) bool {
	if o == nil {
		return false
	}
	pkgScope := ex.in.pk.Types.Scope()
	switch v := o.(type) {
	case *types.Label:
		return true
	case *types.PkgName:
		return false
	case *types.Var:
		if v.IsField() {
			return false
		}
	case *types.Func:
		return false
	}
	p := o.Parent()
	if o.Pkg() != ex.in.pk.Types {
		return false
	}
	return p != nil && p != pkgScope && p != types.Universe
}

// synthesized: a name introduced by an earlier expansion (its declaring identifier has no
// types.Object, so it is recognised by its suffix).
var synthesizedRE = regexp.MustCompile(`_i[0-9]+$`)

// captureOK: every package-level / universe / imported name the callee refers to means the
// same thing at the call site; missing imports are added to the caller's file.
func (ex *expansion) captureOK() bool {
	in := ex.in
	scope := in.pk.Types.Scope().Innermost(ex.call.Pos())
	if scope == nil {
		in.skip("no scope at call site")
		return false
	}
	ok := true
	check := func(n ast.Node) {
		if n == nil || reflect.ValueOf(n).IsNil() {
			return
		}
		ast.Inspect(n, func(m ast.Node) bool {
			if !ok {
				return false
			}
			// field names of selectors and keys of struct literals are not lexical references
			if se, isSel := m.(*ast.SelectorExpr); isSel {
				ast.Inspect(se.X, func(k ast.Node) bool { return true })
			}
			id, isID := m.(*ast.Ident)
			if !isID || id.Name == "_" {
				return true
			}
			o := in.uses[id]
			if o == nil || ex.isLocal(o) {
				return true
			}
			switch v := o.(type) {
			case *types.PkgName:
				if !ex.ensureImport(v) {
					ok = false
				}
				return true
			case *types.Var:
				if v.IsField() {
					return true
				}
			case *types.Func:
				if sig, isSig := v.Type().(*types.Signature); isSig && sig.Recv() != nil {
					return true // method name in a selector
				}
			}
			if o.Parent() != in.pk.Types.Scope() && o.Parent() != types.Universe {
				return true
			}
			_, found := scope.LookupParent(id.Name, ex.call.Pos())
			if found != o {
				in.skip("name shadowed at call site")
				ok = false
			}
			return true
		})
	}
	check(ex.fd.Type)
	if ex.fd.Recv != nil {
		check(ex.fd.Recv)
	}
	check(ex.fd.Body)
	return ok
}

func (ex *expansion) ensureImport(pn *types.PkgName) bool {
	in := ex.in
	path := pn.Imported().Path()
	for _, imp := range ex.file.Imports {
		p, _ := strconv.Unquote(imp.Path.Value)
		name := ""
		if imp.Name != nil {
			name = imp.Name.Name
		}
		if p == path {
			if name == "" {
				name = pn.Imported().Name()
			}
			if name == pn.Name() {
				// and not shadowed by a local at the call site
				scope := in.pk.Types.Scope().Innermost(ex.call.Pos())
				if _, found := scope.LookupParent(pn.Name(), ex.call.Pos()); found != nil {
					if _, isPN := found.(*types.PkgName); !isPN {
						in.skip("package name shadowed at call site")
						return false
					}
				}
				return true
			}
			in.skip("import under another name")
			return false
		}
		if name == pn.Name() || (name == "" && strings.HasSuffix(p, "/"+pn.Name())) {
			in.skip("import name clash")
			return false
		}
	}
	// is the name free in the caller's file and at the call site?
	scope := in.pk.Types.Scope().Innermost(ex.call.Pos())
	if _, found := scope.LookupParent(pn.Name(), ex.call.Pos()); found != nil {
		in.skip("import name taken")
		return false
	}
	spec := &ast.ImportSpec{Path: &ast.BasicLit{Kind: token.STRING, Value: strconv.Quote(path)}}
	if pn.Name() != pn.Imported().Name() {
		spec.Name = ast.NewIdent(pn.Name())
	}
	ex.file.Imports = append(ex.file.Imports, spec)
	ex.file.Decls = append([]ast.Decl{&ast.GenDecl{Tok: token.IMPORT, Specs: []ast.Spec{spec}}}, ex.file.Decls...)
	return true
}

// copyNode deep-copies an AST, renaming callee-local identifiers and registering the copies.
func (ex *expansion) copyNode(n ast.Node) ast.Node {
	v := ex.copyValue(reflect.ValueOf(n))
	if !v.IsValid() {
		return nil
	}
	return v.Interface().(ast.Node)
}

var (
	objectPtrType = reflect.TypeOf((*ast.Object)(nil))
	scopePtrType  = reflect.TypeOf((*ast.Scope)(nil))
)

func (ex *expansion) copyValue(v reflect.Value) reflect.Value {
	switch v.Kind() {
	case reflect.Interface:
		if v.IsNil() {
			return v
		}
		c := ex.copyValue(v.Elem())
		out := reflect.New(v.Type()).Elem()
		out.Set(c)
		return out
	case reflect.Ptr:
		if v.IsNil() {
			return v
		}
		if v.Type() == objectPtrType || v.Type() == scopePtrType {
			return reflect.Zero(v.Type())
		}
		out := reflect.New(v.Type().Elem())
		src := v.Elem()
		for i := 0; i < src.NumField(); i++ {
			f := out.Elem().Field(i)
			if !f.CanSet() {
				continue
			}
			f.Set(ex.copyValue(src.Field(i)))
		}
		if id, ok := v.Interface().(*ast.Ident); ok {
			nid := out.Interface().(*ast.Ident)
			o := ex.in.uses[id]
			if o != nil {
				ex.in.uses[nid] = o
			}
			if (o != nil && ex.isLocal(o)) || ex.in.implicit[id] || synthesizedRE.MatchString(id.Name) {
				if id.Name != "_" {
					nid.Name = id.Name + ex.suffix
				}
				if ex.in.implicit[id] {
					ex.in.implicit[nid] = true
				}
			}
		}
		return out
	case reflect.Slice:
		if v.IsNil() {
			return v
		}
		out := reflect.MakeSlice(v.Type(), v.Len(), v.Len())
		for i := 0; i < v.Len(); i++ {
			out.Index(i).Set(ex.copyValue(v.Index(i)))
		}
		return out
	default:
		return v
	}
}

func (ex *expansion) typeExpr(t ast.Expr) ast.Expr {
	if el, ok := t.(*ast.Ellipsis); ok {
		return &ast.ArrayType{Elt: ex.copyNode(el.Elt).(ast.Expr)}
	}
	return ex.copyNode(t).(ast.Expr)
}

func varDecl(name string, typ ast.Expr, val ast.Expr) ast.Stmt {
	vs := &ast.ValueSpec{Names: []*ast.Ident{ast.NewIdent(name)}, Type: typ}
	if val != nil {
		vs.Values = []ast.Expr{val}
	}
	return &ast.DeclStmt{Decl: &ast.GenDecl{Tok: token.VAR, Specs: []ast.Spec{vs}}}
}

func useStmt(name string) ast.Stmt {
	return &ast.AssignStmt{Lhs: []ast.Expr{ast.NewIdent("_")}, Tok: token.ASSIGN, Rhs: []ast.Expr{ast.NewIdent(name)}}
}

// receiverExpr builds the explicit receiver argument of a method call x.m(...).
func (ex *expansion) receiverExpr() (ast.Expr, bool) {
	in := ex.in
	se, ok := ex.call.Fun.(*ast.SelectorExpr)
	if !ok {
		return nil, false
	}
	sel := in.info.Selections[se]
	if sel == nil {
		return nil, false
	}
	tv, ok := in.info.Types[se.X]
	if !ok || !tv.IsValue() {
		return nil, false
	}
	expr := se.X
	t := tv.Type
	idx := sel.Index()
	for _, i := range idx[:len(idx)-1] {
		if p, isP := t.Underlying().(*types.Pointer); isP {
			t = p.Elem()
		}
		st, isS := t.Underlying().(*types.Struct)
		if !isS || i >= st.NumFields() {
			return nil, false
		}
		f := st.Field(i)
		expr = &ast.SelectorExpr{X: expr, Sel: ast.NewIdent(f.Name())}
		t = f.Type()
	}
	sig := ex.fn.Type().(*types.Signature)
	_, wantPtr := sig.Recv().Type().(*types.Pointer)
	_, havePtr := t.Underlying().(*types.Pointer)
	if _, isIface := t.Underlying().(*types.Interface); isIface {
		return nil, false
	}
	switch {
	case wantPtr && !havePtr:
		expr = &ast.UnaryExpr{Op: token.AND, X: expr}
	case !wantPtr && havePtr:
		expr = &ast.StarExpr{X: expr}
	}
	return expr, true
}

func (ex *expansion) build() bool {
	in := ex.in
	fd := ex.fd
	if !ex.captureOK() {
		return false
	}
	sig := ex.fn.Type().(*types.Signature)
	var stmts []ast.Stmt
	// receiver
	if fd.Recv != nil && len(fd.Recv.List) == 1 {
		re, ok := ex.receiverExpr()
		if !ok {
			in.skip("receiver form")
			return false
		}
		name := "_"
		if len(fd.Recv.List[0].Names) == 1 && fd.Recv.List[0].Names[0].Name != "_" {
			name = fd.Recv.List[0].Names[0].Name + ex.suffix
		}
		stmts = append(stmts, varDecl(name, ex.typeExpr(fd.Recv.List[0].Type), re))
		if name != "_" {
			stmts = append(stmts, useStmt(name))
		}
	} else if sig.Recv() != nil {
		in.skip("receiver form")
		return false
	}
	// parameters
	args := ex.call.Args
	if len(args) == 1 && sig.Params().Len() > 1 {
		in.skip("multi-value argument")
		return false
	}
	ai := 0
	np := 0
	for _, f := range fd.Type.Params.List {
		n := len(f.Names)
		if n == 0 {
			n = 1
		}
		np += n
	}
	pi := 0
	for _, f := range fd.Type.Params.List {
		names := f.Names
		if len(names) == 0 {
			names = []*ast.Ident{ast.NewIdent("_")}
		}
		for _, nm := range names {
			pi++
			name := "_"
			if nm.Name != "_" {
				name = nm.Name + ex.suffix
			}
			_, variadic := f.Type.(*ast.Ellipsis)
			var val ast.Expr
			switch {
			case variadic && pi == np:
				if ex.call.Ellipsis.IsValid() {
					if ai >= len(args) {
						in.skip("argument count")
						return false
					}
					val = args[ai]
					ai++
				} else if ai < len(args) {
					val = &ast.CompositeLit{Type: ex.typeExpr(f.Type), Elts: append([]ast.Expr{}, args[ai:]...)}
					ai = len(args)
				}
			default:
				if ai >= len(args) {
					in.skip("argument count")
					return false
				}
				val = args[ai]
				ai++
			}
			stmts = append(stmts, varDecl(name, ex.typeExpr(f.Type), val))
			if name != "_" {
				stmts = append(stmts, useStmt(name))
			}
		}
	}
	if ai != len(args) {
		in.skip("argument count")
		return false
	}
	// named results of the callee
	nres := sig.Results().Len()
	var resTypes []ast.Expr
	if fd.Type.Results != nil {
		for _, f := range fd.Type.Results.List {
			n := len(f.Names)
			if n == 0 {
				resTypes = append(resTypes, f.Type)
				continue
			}
			for _, nm := range f.Names {
				resTypes = append(resTypes, f.Type)
				if nm.Name == "_" {
					ex.named = append(ex.named, "_")
					continue
				}
				name := nm.Name + ex.suffix
				ex.named = append(ex.named, name)
				stmts = append(stmts, varDecl(name, ex.typeExpr(f.Type), nil), useStmt(name))
			}
		}
	}
	if len(ex.named) > 0 && len(ex.named) != nres {
		in.skip("result naming")
		return false
	}
	for _, n := range ex.named {
		if n == "_" {
			in.skip("blank named result")
			return false
		}
	}
	// temporaries that carry the results out of the block
	if !ex.tail {
		for i := 0; i < nres; i++ {
			name := "_r" + strconv.Itoa(i+1) + ex.suffix
			ex.tempNames = append(ex.tempNames, name)
			ex.temps = append(ex.temps, varDecl(name, ex.typeExpr(resTypes[i]), nil), useStmt(name))
		}
	}
	ex.label = "_L" + ex.suffix
	body := ex.copyNode(fd.Body).(*ast.BlockStmt)
	ex.rewriteReturns(body.List, true)
	body.List = ex.fixReturns(body.List, true)
	stmts = append(stmts, body.List...)
	ex.block = &ast.BlockStmt{List: stmts}
	return true
}

func (ex *expansion) rewriteReturns(list []ast.Stmt, top bool) {}

// fixReturns rewrites the callee-level return statements of a statement list.
func (ex *expansion) fixReturns(list []ast.Stmt, last bool) []ast.Stmt {
	var out []ast.Stmt
	for i, s := range list {
		isLast := last && i == len(list)-1
		out = append(out, ex.fixStmt(s, isLast)...)
	}
	return out
}

func (ex *expansion) fixStmt(s ast.Stmt, isLast bool) []ast.Stmt {
	switch x := s.(type) {
	case *ast.ReturnStmt:
		return ex.returnStmts(x, isLast)
	case *ast.BlockStmt:
		x.List = ex.fixReturns(x.List, isLast)
	case *ast.IfStmt:
		x.Body.List = ex.fixReturns(x.Body.List, false)
		if x.Else != nil {
			r := ex.fixStmt(x.Else, false)
			if len(r) == 1 {
				x.Else = r[0]
			} else {
				x.Else = &ast.BlockStmt{List: r}
			}
		}
	case *ast.ForStmt:
		x.Body.List = ex.fixReturns(x.Body.List, false)
	case *ast.RangeStmt:
		x.Body.List = ex.fixReturns(x.Body.List, false)
	case *ast.SwitchStmt:
		for _, cc := range x.Body.List {
			if c, ok := cc.(*ast.CaseClause); ok {
				c.Body = ex.fixReturns(c.Body, false)
			}
		}
	case *ast.TypeSwitchStmt:
		for _, cc := range x.Body.List {
			if c, ok := cc.(*ast.CaseClause); ok {
				c.Body = ex.fixReturns(c.Body, false)
			}
		}
	case *ast.SelectStmt:
		for _, cc := range x.Body.List {
			if c, ok := cc.(*ast.CommClause); ok {
				c.Body = ex.fixReturns(c.Body, false)
			}
		}
	case *ast.LabeledStmt:
		r := ex.fixStmt(x.Stmt, false)
		if len(r) == 1 {
			x.Stmt = r[0]
		} else {
			x.Stmt = &ast.BlockStmt{List: r}
		}
	}
	return []ast.Stmt{s}
}

func (ex *expansion) returnStmts(r *ast.ReturnStmt, isLast bool) []ast.Stmt {
	results := r.Results
	if len(results) == 0 && len(ex.named) > 0 {
		for _, n := range ex.named {
			results = append(results, ast.NewIdent(n))
		}
	}
	if ex.tail {
		r.Results = results
		return []ast.Stmt{r}
	}
	var out []ast.Stmt
	if len(results) > 0 {
		var lhs []ast.Expr
		if len(ex.tempNames) > 0 {
			for _, n := range ex.tempNames {
				lhs = append(lhs, ast.NewIdent(n))
			}
		}
		out = append(out, &ast.AssignStmt{Lhs: lhs, Tok: token.ASSIGN, Rhs: results})
	}
	if !isLast {
		ex.usedLabel = true
		out = append(out, &ast.BranchStmt{Tok: token.GOTO, Label: ast.NewIdent(ex.label)})
	}
	return out
}

// ---- re-type-checking the transformed packages ----

type viewImporter struct {
	repo map[string]*types.Package
	deps map[string]*types.Package
}

func (vi viewImporter) Import(path string) (*types.Package, error) {
	if p := vi.repo[path]; p != nil {
		return p, nil
	}
	if p := vi.deps[path]; p != nil {
		return p, nil
	}
	return nil, fmt.Errorf("package %s not loaded", path)
}

// buildInlinedView transforms the repository packages of `initial` in place and type-checks
// them again in dependency order.
func buildInlinedView(initial []*packages.Package, keep func(string) bool) (*InlineStats, error) {
	stats := &InlineStats{Skipped: map[string]int{}, Callees: map[string]int{}}
	deps := map[string]*types.Package{}
	var repo []*packages.Package
	packages.Visit(initial, nil, func(pk *packages.Package) {
		if pk.Types != nil {
			deps[pk.PkgPath] = pk.Types
		}
		if pk.PkgPath == ModPath || strings.HasPrefix(pk.PkgPath, ModPath+"/") {
			repo = append(repo, pk)
		}
	})
	// dependency order among the repository packages
	done := map[string]bool{}
	var order []*packages.Package
	var visit func(pk *packages.Package)
	visit = func(pk *packages.Package) {
		if done[pk.PkgPath] {
			return
		}
		done[pk.PkgPath] = true
		for _, imp := range pk.Imports {
			if imp.PkgPath == ModPath || strings.HasPrefix(imp.PkgPath, ModPath+"/") {
				visit(imp)
			}
		}
		order = append(order, pk)
	}
	sort.Slice(repo, func(i, j int) bool { return repo[i].PkgPath < repo[j].PkgPath })
	for _, pk := range repo {
		visit(pk)
	}
	for _, pk := range order {
		inlinePackage(pk, keep, stats)
	}
	vi := viewImporter{repo: map[string]*types.Package{}, deps: deps}
	for _, pk := range order {
		info := &types.Info{
			Types: map[ast.Expr]types.TypeAndValue{}, Defs: map[*ast.Ident]types.Object{}, Uses: map[*ast.Ident]types.Object{},
			Implicits: map[ast.Node]types.Object{}, Selections: map[*ast.SelectorExpr]*types.Selection{}, Scopes: map[ast.Node]*types.Scope{},
			Instances: map[*ast.Ident]types.Instance{}, FileVersions: map[*ast.File]string{},
		}
		var errs []string
		conf := types.Config{Importer: vi, Sizes: pk.TypesSizes, Error: func(err error) { errs = append(errs, err.Error()) }}
		if pk.Module != nil && pk.Module.GoVersion != "" {
			conf.GoVersion = "go" + pk.Module.GoVersion
		}
		tp, _ := conf.Check(pk.PkgPath, pk.Fset, pk.Syntax, info)
		if len(errs) > 0 {
			if len(errs) > 5 {
				errs = errs[:5]
			}
			return stats, fmt.Errorf("inlined view of %s does not type-check: %s", pk.PkgPath, strings.Join(errs, "; "))
		}
		vi.repo[pk.PkgPath] = tp
		pk.Types = tp
		pk.TypesInfo = info
	}
	return stats, nil
}
