package fw

import (
	"go/types"
	"sort"
	"strings"

	"golang.org/x/tools/go/ssa"
)

// ---- engine D: order taint (which sequences have an unspecified element order) ----

// OrderSink is a place where an order-tainted sequence is consumed.
type OrderSink struct {
	Fn     *ssa.Function
	Instr  ssa.Instruction
	Kind   string // "call", "return", "store-field", "index", "mapupdate"
	Target string // callee name / field name / ""
	ArgIdx int
	Why    string // how the value became tainted (source description)
}

// naturalLoop returns the blocks of the innermost natural loop containing b (header h dominates b
// and b reaches a back edge to h), or nil.
func LoopOf(b *ssa.BasicBlock) (header *ssa.BasicBlock, body map[*ssa.BasicBlock]bool) {
	fn := b.Parent()
	var best map[*ssa.BasicBlock]bool
	var bestH *ssa.BasicBlock
	for _, h := range fn.Blocks {
		if !h.Dominates(b) {
			continue
		}
		for _, t := range h.Preds {
			if !h.Dominates(t) {
				continue
			}
			// natural loop of back edge t->h
			loop := map[*ssa.BasicBlock]bool{h: true}
			work := []*ssa.BasicBlock{t}
			for len(work) > 0 {
				x := work[len(work)-1]
				work = work[:len(work)-1]
				if loop[x] {
					continue
				}
				loop[x] = true
				for _, p := range x.Preds {
					work = append(work, p)
				}
			}
			if loop[b] && (best == nil || len(loop) < len(best)) {
				best, bestH = loop, h
			}
		}
	}
	return bestH, best
}

// OrderTaint computes the sinks of order-tainted sequences in fn.
// sources: map ranges, calls whose result is an unordered sequence (isUnorderedCall), and the
// slice parameters named in taintedParams.
func OrderTaint(fn *ssa.Function, isUnorderedCall func(name string) bool, taintedParams map[string]bool) []OrderSink {
	tainted := map[ssa.Value]string{}
	taintedLoops := map[*ssa.BasicBlock]string{} // loop header -> why
	var sinks []OrderSink
	sinkSeen := map[ssa.Instruction]bool{}
	add := func(v ssa.Value, why string, work *[]ssa.Value) {
		if v == nil {
			return
		}
		if _, ok := tainted[v]; ok {
			return
		}
		if !isSeq(v.Type()) {
			return
		}
		tainted[v] = why
		*work = append(*work, v)
	}
	var work []ssa.Value
	// seed
	for _, p := range fn.Params {
		if taintedParams[p.Name()] {
			add(p, "input list "+p.Name(), &work)
		}
	}
	markLoop := func(h *ssa.BasicBlock, body map[*ssa.BasicBlock]bool, why string) {
		if h == nil {
			return
		}
		if _, ok := taintedLoops[h]; ok {
			return
		}
		taintedLoops[h] = why
		for b := range body {
			for _, ins := range b.Instrs {
				if c, ok := ins.(*ssa.Call); ok && CalleeName(c) == "builtin.append" {
					add(c, why, &work)
				}
				if mu, ok := ins.(*ssa.MapUpdate); ok && isSeq(mu.Value.Type()) {
					// m[k] = append(m[k], x): per-key lists in iteration order
					add(mu.Value, why, &work)
				}
			}
		}
	}
	for _, b := range fn.Blocks {
		for _, ins := range b.Instrs {
			switch x := ins.(type) {
			case *ssa.Range:
				if _, isMap := x.X.Type().Underlying().(*types.Map); isMap {
					// the loop using this iterator
					for _, ref := range *x.Referrers() {
						if nx, ok := ref.(*ssa.Next); ok {
							h, body := LoopOf(nx.Block())
							markLoop(h, body, "iteration over map "+Sig(x.X))
						}
					}
				}
			case *ssa.Call:
				if isUnorderedCall(CalleeName(x)) {
					add(x, "result of "+CalleeName(x), &work)
				}
			}
		}
	}
	for len(work) > 0 {
		v := work[len(work)-1]
		work = work[:len(work)-1]
		why := tainted[v]
		refs := v.Referrers()
		if refs == nil {
			continue
		}
		// an in-place sort of v makes every later use of v canonical
		var sortsOfV []ssa.Instruction
		for _, ref := range *refs {
			if ci, ok := ref.(ssa.CallInstruction); ok {
				n := CalleeName(ci)
				if (strings.HasPrefix(n, "slices.SortFunc") || strings.HasPrefix(n, "slices.SortStableFunc") || n == "sort.Sort" || n == "sort.Slice" || n == "sort.Stable") && len(ci.Common().Args) > 0 && ci.Common().Args[0] == v {
					sortsOfV = append(sortsOfV, ci.(ssa.Instruction))
				}
			}
		}
		afterSort := func(ins ssa.Instruction) bool {
			for _, so := range sortsOfV {
				if so == ins {
					continue
				}
				if so.Block() == ins.Block() {
					if instrIndex(so) < instrIndex(ins) {
						return true
					}
					continue
				}
				if so.Block().Dominates(ins.Block()) {
					return true
				}
			}
			return false
		}
		for _, ref := range *refs {
			if afterSort(ref) {
				continue
			}
			switch x := ref.(type) {
			case *ssa.Phi:
				// v enters the merge only along edges that leave a block in which (or after
				// which) it has been sorted: the merged value is canonical along those edges
				sorted := len(sortsOfV) > 0
				for i, e := range x.Edges {
					if e != v || i >= len(x.Block().Preds) {
						continue
					}
					pred := x.Block().Preds[i]
					okEdge := false
					for _, so := range sortsOfV {
						if so.Block() == pred || so.Block().Dominates(pred) {
							okEdge = true
						}
					}
					if !okEdge {
						sorted = false
					}
				}
				if sorted {
					continue
				}
				add(x, why, &work)
			case *ssa.Slice:
				add(x, why, &work)
			case *ssa.ChangeType:
				add(x, why, &work)
			case *ssa.MakeInterface:
				// passed as interface: treat as sink at the using call
				for _, r2 := range *x.Referrers() {
					if c, ok := r2.(ssa.CallInstruction); ok && !sinkSeen[c] {
						sinkSeen[c] = true
						sinks = append(sinks, OrderSink{Fn: fn, Instr: c, Kind: "call", Target: CalleeName(c), Why: why})
					}
				}
			case *ssa.IndexAddr:
				// element access: iteration (index is a loop variable) or a pick (constant index)
				if _, isConst := x.Index.(*ssa.Const); isConst {
					if !sinkSeen[x] {
						sinkSeen[x] = true
						sinks = append(sinks, OrderSink{Fn: fn, Instr: x, Kind: "index", Target: Sig(x), Why: why})
					}
					continue
				}
				h, body := LoopOf(x.Block())
				markLoop(h, body, "iteration over "+why)
			case *ssa.Store:
				if x.Val != v {
					continue
				}
				switch a := x.Addr.(type) {
				case *ssa.Alloc:
					for _, r2 := range *a.Referrers() {
						if u, ok := r2.(*ssa.UnOp); ok {
							add(u, why, &work)
						}
					}
				case *ssa.FieldAddr:
					st := derefStruct(a.X.Type())
					name := ""
					if st != nil {
						name = st.Field(a.Field).Name()
					}
					// loads of the same field in this function are tainted too
					for _, b := range fn.Blocks {
						for _, ins := range b.Instrs {
							if u, ok := ins.(*ssa.UnOp); ok {
								if fa, ok := u.X.(*ssa.FieldAddr); ok && fa.Field == a.Field && Sig(fa.X) == Sig(a.X) {
									add(u, why, &work)
								}
							}
						}
					}
					if !sinkSeen[x] {
						sinkSeen[x] = true
						sinks = append(sinks, OrderSink{Fn: fn, Instr: x, Kind: "store-field", Target: name, Why: why})
					}
				case *ssa.IndexAddr:
					// storing a tainted slice into an array literal (varargs): taint the array's slice
					if al, ok := a.X.(*ssa.Alloc); ok {
						for _, r2 := range *al.Referrers() {
							if sl, ok := r2.(*ssa.Slice); ok {
								add(sl, why, &work)
							}
						}
					}
				}
			case *ssa.MapUpdate:
				if x.Value == v && !sinkSeen[x] {
					// per-key list stored in a map: consumers of the map see tainted lists
					sinkSeen[x] = true
					sinks = append(sinks, OrderSink{Fn: fn, Instr: x, Kind: "mapupdate", Target: Sig(x.Map), Why: why})
				}
			case *ssa.Return:
				if !sinkSeen[x] {
					sinkSeen[x] = true
					sinks = append(sinks, OrderSink{Fn: fn, Instr: x, Kind: "return", Target: FuncName(fn), Why: why})
				}
			case ssa.CallInstruction:
				name := CalleeName(x)
				if name == "builtin.append" {
					if c, ok := x.(*ssa.Call); ok {
						add(c, why, &work)
					}
					continue
				}
				if name == "builtin.len" || name == "builtin.cap" {
					continue
				}
				idx := -1
				for i, a := range x.Common().Args {
					if a == v {
						idx = i
					}
				}
				if !sinkSeen[x] {
					sinkSeen[x] = true
					sinks = append(sinks, OrderSink{Fn: fn, Instr: x, Kind: "call", Target: name, ArgIdx: idx, Why: why})
				}
			}
		}
	}
	sort.Slice(sinks, func(i, j int) bool { return InstrPos(sinks[i].Instr) < InstrPos(sinks[j].Instr) })
	return sinks
}

func isSeq(t types.Type) bool {
	switch t.Underlying().(type) {
	case *types.Slice:
		return true
	case *types.Pointer:
		p := t.Underlying().(*types.Pointer)
		_, ok := p.Elem().Underlying().(*types.Slice)
		return ok
	}
	return strings.HasPrefix(t.String(), "[]")
}
