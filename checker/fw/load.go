// Package fw is the framework of the static verifier: loading /repo's current
// source into typed syntax + SSA + call graphs, and the analysis engines.
package fw

import (
	"fmt"
	"go/ast"
	"go/token"
	"go/types"
	"os"
	"path/filepath"
	"sort"
	"strings"
	"time"

	"golang.org/x/tools/go/callgraph"
	"golang.org/x/tools/go/callgraph/cha"
	"golang.org/x/tools/go/callgraph/vta"
	"golang.org/x/tools/go/packages"
	"golang.org/x/tools/go/ssa"
	"golang.org/x/tools/go/ssa/ssautil"
)

const ModPath = "github.com/matrix-org/gomatrixserverlib"

// Program is the loaded repository.
type Program struct {
	Dir      string
	Fset     *token.FileSet
	Pkgs     map[string]*packages.Package // by import path (repo packages only)
	All      []*packages.Package          // repo packages, sorted
	SSA      *ssa.Program
	SSAPkgs  map[string]*ssa.Package
	LoadSecs float64
	cha, vta *callgraph.Graph
	GOOS     string
	GOARCH   string
	NumFuncs int
	Inlined  *InlineStats // non-nil for the inlined view
}

// LoadOpts selects the build configuration.
type LoadOpts struct {
	Dir    string
	GOOS   string
	GOARCH string
	// Inline builds the inlined view (inline.go): static calls to unexported helpers that the
	// rules do not know by name (KeepName) are expanded in place before SSA construction.
	Inline   bool
	KeepName func(string) bool
}

// Load type-checks ./... in dir (Tests=false) and builds SSA. It never writes to dir:
// go.mod/go.sum are copied to a private temp dir and passed with -modfile.
func Load(o LoadOpts) (*Program, error) {
	t0 := time.Now()
	tmp, err := os.MkdirTemp("", "gmslverif-mod-")
	if err != nil {
		return nil, err
	}
	defer os.RemoveAll(tmp)
	for _, f := range []string{"go.mod", "go.sum"} {
		b, err := os.ReadFile(filepath.Join(o.Dir, f))
		if err != nil {
			return nil, fmt.Errorf("read %s: %w", f, err)
		}
		if err := os.WriteFile(filepath.Join(tmp, f), b, 0o644); err != nil {
			return nil, err
		}
	}
	env := []string{}
	for _, kv := range os.Environ() {
		k := strings.SplitN(kv, "=", 2)[0]
		switch k {
		case "GOFLAGS", "GOPROXY", "GOSUMDB", "GOTOOLCHAIN", "GOWORK", "GOOS", "GOARCH":
			continue
		}
		env = append(env, kv)
	}
	env = append(env,
		"GOFLAGS=-mod=mod -modfile="+filepath.Join(tmp, "go.mod"),
		"GOPROXY=off", "GOSUMDB=off", "GOTOOLCHAIN=local", "GOWORK=off",
	)
	if o.GOOS != "" {
		env = append(env, "GOOS="+o.GOOS)
	}
	if o.GOARCH != "" {
		env = append(env, "GOARCH="+o.GOARCH, "CGO_ENABLED=0")
	}
	cfg := &packages.Config{
		Mode:       packages.LoadAllSyntax,
		Dir:        o.Dir,
		Env:        env,
		Tests:      false,
		BuildFlags: []string{"-tags=verif"},
	}
	initial, err := packages.Load(cfg, "./...")
	if err != nil {
		return nil, fmt.Errorf("packages.Load: %w", err)
	}
	p := &Program{Dir: o.Dir, Pkgs: map[string]*packages.Package{}, SSAPkgs: map[string]*ssa.Package{}, GOOS: o.GOOS, GOARCH: o.GOARCH}
	var errs []string
	packages.Visit(initial, nil, func(pk *packages.Package) {
		for _, e := range pk.Errors {
			errs = append(errs, e.Error())
		}
	})
	if len(errs) > 0 {
		sort.Strings(errs)
		if len(errs) > 10 {
			errs = errs[:10]
		}
		return nil, fmt.Errorf("type-check errors: %s", strings.Join(errs, "; "))
	}
	for _, pk := range initial {
		if pk.PkgPath == ModPath || strings.HasPrefix(pk.PkgPath, ModPath+"/") {
			p.Pkgs[pk.PkgPath] = pk
			p.All = append(p.All, pk)
			p.Fset = pk.Fset
		}
	}
	sort.Slice(p.All, func(i, j int) bool { return p.All[i].PkgPath < p.All[j].PkgPath })
	want := []string{ModPath, ModPath + "/fclient", ModPath + "/spec", ModPath + "/tokens"}
	for _, w := range want {
		if p.Pkgs[w] == nil {
			return nil, fmt.Errorf("package %s not loaded (got %d packages)", w, len(p.All))
		}
	}
	if o.Inline {
		st, err := buildInlinedView(initial, o.KeepName)
		if err != nil {
			return nil, err
		}
		p.Inlined = st
	}
	prog, _ := ssautil.AllPackages(initial, ssa.InstantiateGenerics)
	prog.Build()
	p.SSA = prog
	for path, pk := range p.Pkgs {
		sp := prog.Package(pk.Types)
		if sp == nil {
			return nil, fmt.Errorf("no SSA package for %s", path)
		}
		p.SSAPkgs[path] = sp
	}
	p.NumFuncs = len(ssautil.AllFunctions(prog))
	if p.NumFuncs == 0 {
		return nil, fmt.Errorf("no SSA functions")
	}
	p.indexGlobalStringLists()
	p.LoadSecs = time.Since(t0).Seconds()
	return p, nil
}

// globalStringLists: package-level variables initialised with a literal list of constant
// strings and never assigned elsewhere (`var keys = []string{"a", "b"}`): the elements.
var globalStringLists = map[*ssa.Global][]string{}

func (p *Program) indexGlobalStringLists() {
	globalStringLists = map[*ssa.Global][]string{}
	for path, pk := range p.Pkgs {
		sp := p.SSAPkgs[path]
		ev := &Evaluator{P: p, Pkg: pk}
		for _, f := range pk.Syntax {
			for _, d := range f.Decls {
				gd, ok := d.(*ast.GenDecl)
				if !ok || gd.Tok != token.VAR {
					continue
				}
				for _, sp2 := range gd.Specs {
					vs, ok := sp2.(*ast.ValueSpec)
					if !ok || len(vs.Names) != len(vs.Values) {
						continue
					}
					for i, name := range vs.Names {
						cl, ok := vs.Values[i].(*ast.CompositeLit)
						if !ok {
							continue
						}
						v := ev.Eval(cl)
						if v.Kind != "list" && v.Kind != "slice" && v.Kind != "array" {
							continue
						}
						var out []string
						okAll := len(v.Elems) > 0
						for _, e := range v.Elems {
							s, isS := e.Str()
							if !isS {
								okAll = false
								break
							}
							out = append(out, s)
						}
						if !okAll {
							continue
						}
						if g, isG := sp.Members[name.Name].(*ssa.Global); isG {
							globalStringLists[g] = out
						}
					}
				}
			}
		}
	}
	// drop globals that are written outside the package initialiser
	for fn := range ssautil.AllFunctions(p.SSA) {
		if fn.Pkg == nil || p.Pkgs[fn.Pkg.Pkg.Path()] == nil || fn.Name() == "init" {
			continue
		}
		for _, b := range fn.Blocks {
			for _, ins := range b.Instrs {
				if st, ok := ins.(*ssa.Store); ok {
					base := st.Addr
					for {
						if ia, isIA := base.(*ssa.IndexAddr); isIA {
							base = ia.X
							continue
						}
						if u, isU := base.(*ssa.UnOp); isU {
							base = u.X
							continue
						}
						break
					}
					if g, isG := base.(*ssa.Global); isG {
						delete(globalStringLists, g)
					}
				}
			}
		}
	}
}

// CHA returns the class-hierarchy call graph (built lazily).
func (p *Program) CHA() *callgraph.Graph {
	if p.cha == nil {
		p.cha = cha.CallGraph(p.SSA)
	}
	return p.cha
}

// VTA returns the VTA call graph seeded with CHA (built lazily).
func (p *Program) VTA() *callgraph.Graph {
	if p.vta == nil {
		p.vta = vta.CallGraph(ssautil.AllFunctions(p.SSA), p.CHA())
	}
	return p.vta
}

// Pkg returns the repo package with the given short name ("" = root, "fclient", "spec", "tokens").
func (p *Program) Pkg(short string) *packages.Package {
	if short == "" {
		return p.Pkgs[ModPath]
	}
	return p.Pkgs[ModPath+"/"+short]
}

func (p *Program) SSAPkg(short string) *ssa.Package {
	if short == "" {
		return p.SSAPkgs[ModPath]
	}
	return p.SSAPkgs[ModPath+"/"+short]
}

// Pos renders a position relative to the repo dir.
func (p *Program) Pos(pos token.Pos) string {
	if !pos.IsValid() {
		return "-"
	}
	ps := p.Fset.Position(pos)
	rel, err := filepath.Rel(p.Dir, ps.Filename)
	if err != nil || strings.HasPrefix(rel, "..") {
		rel = ps.Filename
	}
	return fmt.Sprintf("%s:%d", rel, ps.Line)
}

// Func looks a function or method up: "pkg.Name" or "pkg.(Recv).Name" / "pkg.(*Recv).Name";
// pkg is the short package name ("" or "root" for the root package).
func (p *Program) Func(spec string) *ssa.Function {
	pkgShort, rest := splitSpec(spec)
	sp := p.SSAPkg(pkgShort)
	if sp == nil {
		return nil
	}
	if strings.HasPrefix(rest, "(") {
		i := strings.Index(rest, ").")
		if i < 0 {
			return nil
		}
		recv := strings.TrimPrefix(rest[1:i], "*")
		name := rest[i+2:]
		obj := sp.Pkg.Scope().Lookup(recv)
		tn, ok := obj.(*types.TypeName)
		if !ok {
			return nil
		}
		for _, T := range []types.Type{tn.Type(), types.NewPointer(tn.Type())} {
			ms := p.SSA.MethodSets.MethodSet(T)
			for i := 0; i < ms.Len(); i++ {
				sel := ms.At(i)
				if sel.Obj().Name() == name {
					if fn := p.SSA.MethodValue(sel); fn != nil {
						// prefer the declared (non-wrapper) method
						if fn.Synthetic == "" {
							return fn
						}
						if decl := p.SSA.FuncValue(sel.Obj().(*types.Func)); decl != nil {
							return decl
						}
						return fn
					}
				}
			}
		}
		return nil
	}
	if fn := sp.Func(rest); fn != nil {
		return fn
	}
	return nil
}

func splitSpec(spec string) (pkg, rest string) {
	i := strings.Index(spec, ".")
	if i < 0 {
		return "", spec
	}
	pkg, rest = spec[:i], spec[i+1:]
	if pkg == "root" {
		pkg = ""
	}
	switch pkg {
	case "", "fclient", "spec", "tokens":
		return pkg, rest
	}
	return "", spec
}

// FuncDecl returns the syntax of a source function.
func (p *Program) FuncDecl(fn *ssa.Function) *ast.FuncDecl {
	if fn == nil {
		return nil
	}
	if d, ok := fn.Syntax().(*ast.FuncDecl); ok {
		return d
	}
	return nil
}

// PkgOf returns the packages.Package holding the SSA function.
func (p *Program) PkgOf(fn *ssa.Function) *packages.Package {
	if fn == nil || fn.Pkg == nil {
		return nil
	}
	return p.Pkgs[fn.Pkg.Pkg.Path()]
}

// SrcFuncs lists every source-level function (incl. anonymous) of the repo packages, sorted by position.
func (p *Program) SrcFuncs() []*ssa.Function {
	var out []*ssa.Function
	for fn := range ssautil.AllFunctions(p.SSA) {
		if fn.Pkg == nil || p.Pkgs[fn.Pkg.Pkg.Path()] == nil {
			continue
		}
		if fn.Synthetic != "" && !strings.HasPrefix(fn.Synthetic, "instance of") {
			continue
		}
		if fn.Blocks == nil {
			continue
		}
		out = append(out, fn)
	}
	sort.Slice(out, func(i, j int) bool {
		if out[i].Pos() != out[j].Pos() {
			return out[i].Pos() < out[j].Pos()
		}
		return out[i].String() < out[j].String()
	})
	return out
}

// IsRepoFunc reports whether fn belongs to one of the repo packages.
func (p *Program) IsRepoFunc(fn *ssa.Function) bool {
	if fn == nil {
		return false
	}
	if fn.Pkg != nil {
		return p.Pkgs[fn.Pkg.Pkg.Path()] != nil
	}
	if fn.Parent() != nil {
		return p.IsRepoFunc(fn.Parent())
	}
	if o := fn.Origin(); o != nil && o != fn {
		return p.IsRepoFunc(o)
	}
	return false
}
