package fw

import (
	"go/constant"
	"go/token"
	"regexp"

	"golang.org/x/tools/go/ssa"
)

// ---- jump threading over phis (edge-sensitive branch outcomes) ----
//
// A block that merges several paths into a phi and immediately branches on that phi
//
//	L: t = phi [P1: v1, P2: v2]; if t != nil goto A else B
//
// is, for a path that enters through Pi, a jump to A or B decided by vi. This shape is what
// the expansion of a helper produces (result variable, goto, test of the result), and what
// `ok := a && b; if ok` produces. The engines treat it edge-sensitively:
// EdgeOutcome(pred, b) says which successor of b a path entering through pred takes.

// EdgeOutcome: if block b ends in an If whose condition is a nil test of (or is itself) a phi
// of b, and the operand of that phi on the edge pred->b decides the test, it returns the
// index of the successor taken (0 = true edge, 1 = false edge).
func EdgeOutcome(pred, b *ssa.BasicBlock) (succ int, known bool) {
	iff, ok := lastIf(b)
	if !ok || len(b.Succs) != 2 || b.Succs[0] == b.Succs[1] {
		return 0, false
	}
	if cv, cneg := BoolCond(iff.Cond); cv != nil {
		if cst, isC := cv.(*ssa.Const); isC && cst.Value != nil {
			val := cst.Value.String() == "true"
			if cneg {
				val = !val
			}
			if val {
				return 0, true
			}
			return 1, true
		}
	}
	pi := -1
	for i, p := range b.Preds {
		if p == pred {
			if pi >= 0 {
				return 0, false // the same predecessor twice: edge identity is ambiguous
			}
			pi = i
		}
	}
	if pi < 0 {
		return 0, false
	}
	phi, eval, isTest := PhiTest(iff.Cond)
	if !isTest || phi.Block() != b || pi >= len(phi.Edges) {
		return 0, false
	}
	if val, known := eval(phi.Edges[pi], pred); known {
		if val {
			return 0, true
		}
		return 1, true
	}
	return 0, false
}

var threadMemo = nonNilMemo{}

// nilness: 1 = certainly nil, 2 = certainly non-nil, 0 = unknown, for value v at the end of block at.
func nilness(v ssa.Value, at *ssa.BasicBlock) int {
	if c, ok := v.(*ssa.Const); ok {
		if c.Value == nil && !isBasicNonPointer(c.Type()) {
			return 1
		}
		return 0
	}
	if KnownNil(v, at) {
		return 1
	}
	if !mayBeNilValue(v, at, threadMemo, 0, map[ssa.Value]bool{}) {
		return 2
	}
	return 0
}

// threadedSuccs lists the successors of b for a path that entered b through pred (nil = unknown).
func threadedSuccs(pred, b *ssa.BasicBlock) []*ssa.BasicBlock {
	if i, ok := EdgeOutcome(pred, b); ok {
		return []*ssa.BasicBlock{b.Succs[i]}
	}
	return b.Succs
}

// reachEdges is the edge-sensitive reachability search shared by Reachable / ReachableFrom.
func reachEdges(start *ssa.BasicBlock, removed map[Edge]bool) map[*ssa.BasicBlock]bool {
	seen := map[*ssa.BasicBlock]bool{start: true}
	seenEdge := map[Edge]bool{}
	type state struct{ pred, b *ssa.BasicBlock }
	work := []state{{nil, start}}
	for len(work) > 0 {
		st := work[len(work)-1]
		work = work[:len(work)-1]
		for _, s := range threadedSuccs(st.pred, st.b) {
			e := Edge{st.b, s}
			if removed[e] || seenEdge[e] {
				continue
			}
			seenEdge[e] = true
			seen[s] = true
			work = append(work, state{st.b, s})
		}
	}
	return seen
}

// solePossibleNilPred: b branches on a nil test of a phi of b; among the non-back-edge
// predecessors exactly one can deliver the value that makes the test take successor `succ`.
// A block dominated by that edge of b is then effectively dominated by that predecessor.
func solePredFor(b *ssa.BasicBlock, succ int) *ssa.BasicBlock {
	var only *ssa.BasicBlock
	for _, p := range b.Preds {
		if b.Dominates(p) {
			return nil // loops: no threading
		}
		i, known := EdgeOutcome(p, b)
		if known && i != succ {
			continue
		}
		if only != nil {
			return nil
		}
		only = p
	}
	return only
}

// IsExpansionTemp: the phi merges the values of a result variable introduced by the
// expansion of a helper (inline.go names them _r<k>_i<n>).
func IsExpansionTemp(phi *ssa.Phi) bool {
	return expansionTempRE.MatchString(phi.Comment)
}

var expansionTempRE = regexp.MustCompile(`^_r[0-9]+_i[0-9]+`)

// searchEdges walks the CFG from start edge-sensitively (see EdgeOutcome). visit is called
// once per (predecessor, block) pair; it returns found=true to stop the search with success,
// prune=true not to continue beyond the block.
func searchEdges(start *ssa.BasicBlock, removed map[Edge]bool, visit func(b, pred *ssa.BasicBlock) (found, prune bool)) bool {
	type state struct{ pred, b *ssa.BasicBlock }
	seen := map[state]bool{{nil, start}: true}
	work := []state{{nil, start}}
	for len(work) > 0 {
		st := work[len(work)-1]
		work = work[:len(work)-1]
		found, prune := visit(st.b, st.pred)
		if found {
			return true
		}
		if prune {
			continue
		}
		for _, s := range threadedSuccs(st.pred, st.b) {
			if removed[Edge{st.b, s}] {
				continue
			}
			n := state{st.b, s}
			if !seen[n] {
				seen[n] = true
				work = append(work, n)
			}
		}
	}
	return false
}

// ExitOrigins: the blocks in which the value returned as result #idx by r was decided: for a
// merged result variable of an expanded helper, the blocks that assigned a non-nil value and
// jumped to the merge point; otherwise the block of the return itself.
func ExitOrigins(r *ssa.Return, idx int) []*ssa.BasicBlock {
	if idx < 0 || idx >= len(r.Results) {
		return []*ssa.BasicBlock{r.Block()}
	}
	phi, ok := r.Results[idx].(*ssa.Phi)
	if !ok || !IsExpansionTemp(phi) {
		return []*ssa.BasicBlock{r.Block()}
	}
	var out []*ssa.BasicBlock
	for i, e := range phi.Edges {
		if nilness(e, phi.Block().Preds[i]) == 1 {
			continue
		}
		out = append(out, phi.Block().Preds[i])
	}
	if len(out) == 0 {
		return []*ssa.BasicBlock{r.Block()}
	}
	return out
}

// PhiTest recognises a branch condition that tests a phi: a nil test, the boolean phi itself
// (possibly negated), or an (in)equality of the phi with a constant. eval gives the truth value
// of the condition for one incoming operand of the phi, when that operand decides it.
func PhiTest(cond ssa.Value) (phi *ssa.Phi, eval func(e ssa.Value, pred *ssa.BasicBlock) (bool, bool), ok bool) {
	if nv, trueMeansNil, isNil := NilCheck(cond); isNil {
		p, isPhi := nv.(*ssa.Phi)
		if !isPhi {
			return nil, nil, false
		}
		return p, func(e ssa.Value, pred *ssa.BasicBlock) (bool, bool) {
			switch nilness(e, pred) {
			case 1:
				return trueMeansNil, true
			case 2:
				return !trueMeansNil, true
			}
			return false, false
		}, true
	}
	v, neg := BoolCond(cond)
	if p, isPhi := v.(*ssa.Phi); isPhi {
		return p, func(e ssa.Value, pred *ssa.BasicBlock) (bool, bool) {
			if cst, isC := e.(*ssa.Const); isC && cst.Value != nil && cst.Value.Kind() == constant.Bool {
				return constant.BoolVal(cst.Value) != neg, true
			}
			return false, false
		}, true
	}
	if bo, isB := v.(*ssa.BinOp); isB && (bo.Op == token.EQL || bo.Op == token.NEQ) {
		var p *ssa.Phi
		var k *ssa.Const
		if x, isPhi := bo.X.(*ssa.Phi); isPhi {
			p = x
			k, _ = bo.Y.(*ssa.Const)
		} else if y, isPhi := bo.Y.(*ssa.Phi); isPhi {
			p = y
			k, _ = bo.X.(*ssa.Const)
		}
		if p == nil || k == nil || k.Value == nil {
			return nil, nil, false
		}
		return p, func(e ssa.Value, pred *ssa.BasicBlock) (bool, bool) {
			cst, isC := e.(*ssa.Const)
			if !isC || cst.Value == nil || cst.Value.Kind() != k.Value.Kind() {
				return false, false
			}
			eq := constant.Compare(cst.Value, token.EQL, k.Value)
			res := eq == (bo.Op == token.EQL)
			if neg {
				res = !res
			}
			return res, true
		}, true
	}
	return nil, nil, false
}

// AlwaysNilResult: v is result #idx of a call to a function (a named one or a function
// literal bound to a local) every return of which hands back a nil constant there.
func AlwaysNilResult(v ssa.Value) bool { return alwaysNilResult(v, 0) }

// closureTarget resolves a called function value to the function literal it denotes: the
// literal itself, a local variable holding it, or - inside another literal - the captured
// variable of the enclosing function that holds it (stored once).
func closureTarget(v ssa.Value) *ssa.Function {
	switch x := Origin(v).(type) {
	case *ssa.MakeClosure:
		fn, _ := x.Fn.(*ssa.Function)
		return fn
	case *ssa.Function:
		return x
	}
	ld, ok := v.(*ssa.UnOp)
	if !ok || ld.Op != token.MUL {
		return nil
	}
	cellStores := func(cell ssa.Value) *ssa.Function {
		var found *ssa.Function
		n := 0
		if cell.Referrers() == nil {
			return nil
		}
		for _, ref := range *cell.Referrers() {
			if st, isSt := ref.(*ssa.Store); isSt && st.Addr == cell {
				n++
				switch y := st.Val.(type) {
				case *ssa.MakeClosure:
					found, _ = y.Fn.(*ssa.Function)
				case *ssa.Function:
					found = y
				}
			}
		}
		if n == 1 {
			return found
		}
		return nil
	}
	switch cell := ld.X.(type) {
	case *ssa.Alloc:
		return cellStores(cell)
	case *ssa.FreeVar:
		fn := cell.Parent()
		idx := -1
		for i, fv := range fn.FreeVars {
			if fv == cell {
				idx = i
			}
		}
		if fn.Parent() == nil || idx < 0 {
			return nil
		}
		for _, b := range fn.Parent().Blocks {
			for _, ins := range b.Instrs {
				if mc, isMC := ins.(*ssa.MakeClosure); isMC && mc.Fn == ssa.Value(fn) && idx < len(mc.Bindings) {
					return cellStores(mc.Bindings[idx])
				}
			}
		}
	}
	return nil
}

// ClosureTarget is the exported form of closureTarget.
func ClosureTarget(v ssa.Value) *ssa.Function { return closureTarget(v) }

func alwaysNilResult(v ssa.Value, depth int) bool {
	if depth > 3 {
		return false
	}
	c, idx := CallOf(v)
	if c == nil {
		return false
	}
	if idx < 0 {
		idx = 0
	}
	var fn *ssa.Function
	if f := c.Common().StaticCallee(); f != nil {
		fn = f
	} else if c.Common().Value != nil && !c.Common().IsInvoke() {
		fn = closureTarget(c.Common().Value)
	}
	if fn == nil || len(fn.Blocks) == 0 {
		return false
	}
	rets := Returns(fn)
	if len(rets) == 0 {
		return false
	}
	for _, r := range rets {
		if idx >= len(r.Results) {
			return false
		}
		if k, isC := r.Results[idx].(*ssa.Const); isC && k.Value == nil {
			continue
		}
		// `return refuse(...)`: a refusal built by another helper that never hands back a value
		if alwaysNilResult(r.Results[idx], depth+1) {
			continue
		}
		return false
	}
	return true
}

// ReachableFromEdge: can a path that leaves block b through successor #succ reach the
// instruction target (edge-sensitively, see EdgeOutcome)?
func ReachableFromEdge(b *ssa.BasicBlock, succ int, target ssa.Instruction) bool {
	if succ >= len(b.Succs) {
		return false
	}
	removed := map[Edge]bool{}
	for i, s := range b.Succs {
		if i != succ && s != b.Succs[succ] {
			removed[Edge{b, s}] = true
		}
	}
	first := true
	return searchEdges(b, removed, func(blk, pred *ssa.BasicBlock) (bool, bool) {
		if first {
			first = false
			return false, false
		}
		return blk == target.Block(), false
	})
}
